"""C01: the shipped end-to-end conformance runs (reference pair + gRPC peers).

The quantifier of C01 is a finite configuration space; the generator is the
repository's own permutation expander. thorough = the five offline runs of
`make runconformance` in full (exhaustive); quick = the three gRPC-peer runs in
full plus the two reference runs on a seeded sub-matrix (2 of 3 HTTP versions,
identity + 1 of the 5 other compressions; HTTP/2 plus one of HTTP/1.1 / HTTP/3).
"""
import concurrent.futures as cf
import json
import os
import re
import subprocess
import time

BINS = ["connectconformance", "referenceclient", "referenceserver", "grpcclient", "grpcserver"]
COMPRESSIONS = ["COMPRESSION_GZIP", "COMPRESSION_BR", "COMPRESSION_ZSTD", "COMPRESSION_DEFLATE", "COMPRESSION_SNAPPY"]
VERSIONS = ["HTTP_VERSION_1", "HTTP_VERSION_2", "HTTP_VERSION_3"]


def ref_glob(pat, name):
    def rec(p, n):
        if not p:
            return not n
        if p[0] == "**":
            return any(rec(p[1:], n[i:]) for i in range(len(n) + 1))
        if not n:
            return False
        if p[0] == "*" or p[0] == n[0]:
            return rec(p[1:], n[1:])
        return False
    return rec(pat.split("/"), name.split("/"))


def read_patterns(path):
    out = []
    with open(path) as f:
        for line in f:
            line = line.strip()
            if line and not line.startswith("#"):
                out.append(line)
    return out


def run(pid, tier, seed, drv, replay):
    t0 = time.time()
    VERIF, REPO = drv.SCRATCH, drv.REPO
    bdir = os.path.join(VERIF, "build", pid, "bin")
    wdir = os.path.join(VERIF, "work", pid)
    os.makedirs(bdir, exist_ok=True)
    os.makedirs(wdir, exist_ok=True)
    env = drv.goenv()
    # ---- build the five CLIs from the current tree
    def build(name):
        p = subprocess.run(["go", "build", "-o", os.path.join(bdir, name), "./cmd/" + name], cwd=REPO, env=env,
                           stdout=subprocess.PIPE, stderr=subprocess.STDOUT, text=True)
        return name, p.returncode, p.stdout
    with cf.ThreadPoolExecutor(max_workers=5) as ex:
        for name, rc, out in ex.map(build, BINS):
            if rc != 0:
                drv.log("INCONCLUSIVE property=%s build of cmd/%s failed:\n%s" % (pid, name, out[-3000:]))
                return 2
    drv.log("built %d binaries in %.1fs" % (len(BINS), time.time() - t0))
    testing = os.path.join(REPO, "testing")
    ref_conf = os.path.join(testing, "reference-impls-config.yaml")
    sub_matrix = None
    if tier == "quick":
        # HTTP/2 always stays (gRPC needs it); one of HTTP/1.1 and HTTP/3 is dropped
        comp = COMPRESSIONS[(seed // 2) % 5]
        versions = ["HTTP_VERSION_1", "HTTP_VERSION_2"] if seed % 2 == 0 else ["HTTP_VERSION_2", "HTTP_VERSION_3"]
        with open(ref_conf) as f:
            text = f.read()
        # rewrite the two axis lists, keep everything else of the shipped config
        text = re.sub(r"versions:\n(\s*- HTTP_VERSION_\d\n)+", "versions:\n" + "".join("  - %s\n" % v for v in versions), text)
        text = re.sub(r"compressions:\n(\s*- COMPRESSION_\w+\n)+", "compressions:\n  - COMPRESSION_IDENTITY\n  - %s\n" % comp, text)
        ref_conf = os.path.join(wdir, "reference-impls-submatrix.yaml")
        with open(ref_conf, "w") as f:
            f.write(text)
        sub_matrix = {"versions": versions, "compressions": ["COMPRESSION_IDENTITY", comp]}
    cc = os.path.join(bdir, "connectconformance")
    runs = [
        {"name": "server-mode reference server", "mode": "server", "conf": ref_conf, "kf": "referenceserver-known-failing.txt", "peer": "referenceserver", "max_servers": 4},
        {"name": "client-mode reference client", "mode": "client", "conf": ref_conf, "kf": "referenceclient-known-failing.txt", "peer": "referenceclient", "max_servers": 8},
        {"name": "server-mode grpc server", "mode": "server", "conf": os.path.join(testing, "grpc-impls-config.yaml"), "kf": "grpcserver-known-failing.txt", "peer": "grpcserver", "max_servers": 4},
        {"name": "server-mode grpc-web server", "mode": "server", "conf": os.path.join(testing, "grpc-web-server-impl-config.yaml"), "kf": "grpcserver-web-known-failing.txt", "peer": "grpcserver", "max_servers": 4},
        {"name": "client-mode grpc client", "mode": "client", "conf": os.path.join(testing, "grpc-impls-config.yaml"), "kf": "grpcclient-known-failing.txt", "peer": "grpcclient", "max_servers": 4},
    ]

    if tier == "quick":
        # the sub-matrix leaves four encodings and one HTTP version out: two more reference runs sweep the complete
        # shipped matrix (all versions x all encodings) over the Basic suite, so every axis value is exercised by
        # real RPCs of every stream type in every quick run
        shipped = os.path.join(testing, "reference-impls-config.yaml")
        runs.append({"name": "server-mode reference server basic sweep", "mode": "server", "conf": shipped, "kf": "referenceserver-known-failing.txt",
                     "peer": "referenceserver", "max_servers": 4, "extra": ["--run", "Basic/**"]})
        runs.append({"name": "client-mode reference client basic sweep", "mode": "client", "conf": shipped, "kf": "referenceclient-known-failing.txt",
                     "peer": "referenceclient", "max_servers": 8, "extra": ["--run", "Basic/**"]})

    def one(r, extra=None, tag=""):
        cmd = [cc, "-v", "--vv", "--conf", r["conf"], "--mode", r["mode"], "--max-servers", str(r["max_servers"]),
               "--known-failing", "@" + os.path.join(testing, r["kf"])]
        if r.get("extra"):
            cmd += r["extra"]
        if extra:
            cmd += extra
        cmd += ["--", os.path.join(bdir, r["peer"])]
        logpath = os.path.join(wdir, "%s%s.log" % (r["name"].replace(" ", "_"), tag))
        ts = time.time()
        with open(logpath, "w") as lf:
            try:
                p = subprocess.run(cmd, cwd=wdir, env=env, stdout=lf, stderr=subprocess.STDOUT, timeout=3600)
                rc = p.returncode
            except subprocess.TimeoutExpired:
                rc = -9
        with open(logpath, errors="replace") as lf:
            out = lf.read()
        return {"run": r, "rc": rc, "out": out, "log": logpath, "wall": time.time() - ts}

    with cf.ThreadPoolExecutor(max_workers=len(runs)) as ex:
        results = list(ex.map(one, runs))

    violations = []
    notes = []
    total = 0
    names_seen = set()
    samples = []
    per_run = []
    flaky = []
    for res in results:
        r, out = res["run"], res["out"]
        patterns = read_patterns(os.path.join(testing, r["kf"]))
        if r["peer"].startswith("reference") and patterns:
            violations.append(("%s: the shipped known-failing list of a reference peer is not empty: %s" % (r["name"], patterns), res["log"]))
        sent = set(re.findall(r'Sending request for "([^"]+)"', out))
        names_seen |= sent
        m = re.search(r"Total cases: (\d+)\n(\d+) passed, (\d+) failed", out)
        comp = re.search(r"Computed (\d+) test case permutation", out)
        filtered = re.search(r"Filtered tests to (\d+) test case permutation", out)
        if filtered and r.get("extra"):
            comp = filtered  # a --run filter is in force: the selected permutations are the filtered ones
        failed_names = re.findall(r"^FAILED: (.*?):?$", out, re.M)
        failed_names = [re.sub(r" was expected to fail but did not$", "", n) for n in failed_names]
        info_names = re.findall(r"^INFO: (.*?) failed \(as expected\):", out, re.M)
        entry = {"run": r["name"], "exit": res["rc"], "wall_s": round(res["wall"], 1), "requests_sent": len(sent),
                 "failed_as_expected": len(info_names)}
        # a peer that panics is a failure of the reference implementations whatever the verdicts of the cases say (the cases
        # that happened to be in flight fail, pass when re-run in isolation and would otherwise be written off as flaky)
        crash = re.search(r"^(panic: .*|fatal error: .*|.*http3?: panic serving.*|.*http2?: panic serving.*)$", out, re.M)
        if crash:
            violations.append(("%s: a peer process or in-process peer crashed: %s" % (r["name"], crash.group(1)[:200]), res["log"]))
        if res["rc"] == -9:
            notes.append("%s: timed out" % r["name"])
            per_run.append(entry)
            continue
        if not m or not comp:
            violations.append(("%s: no summary in the output (exit %d)" % (r["name"], res["rc"]), res["log"]))
            per_run.append(entry)
            continue
        n_total, n_passed, n_failed = int(m.group(1)), int(m.group(2)), int(m.group(3))
        entry.update({"total": n_total, "passed": n_passed, "failed": n_failed, "computed": int(comp.group(1))})
        total += n_total
        per_run.append(entry)
        if n_total != int(comp.group(1)):
            violations.append(("%s: %d cases got an outcome but %s permutations were computed" % (r["name"], n_total, comp.group(1)), res["log"]))
        could_not = re.search(r"Another (\d+) could not be run", out)
        if could_not:
            violations.append(("%s: %s cases could not be run" % (r["name"], could_not.group(1)), res["log"]))
        # known-failing exactness, re-checked from the output with an own matcher
        for n in info_names:
            if not any(ref_glob(p, n) for p in patterns):
                violations.append(("%s: %s failed 'as expected' but no shipped pattern matches it" % (r["name"], n), res["log"]))
        for p in patterns:
            if not any(ref_glob(p, n) for n in info_names):
                violations.append(("%s: shipped known-failing pattern %r did not match any failing case" % (r["name"], p), res["log"]))
        if n_passed + len(info_names) + n_failed != n_total:
            violations.append(("%s: passed %d + expected failures %d + failed %d != total %d" % (r["name"], n_passed, len(info_names), n_failed, n_total), res["log"]))
        # unexpected failures: flake control - re-run each in isolation twice
        if failed_names or n_failed or res["rc"] != 0:
            really = []
            for n in failed_names[:12]:
                fails = 1
                for attempt in range(2):
                    rr = one(r, ["--run", n], tag="_rerun%d" % attempt)
                    if rr["rc"] != 0 and ("FAILED: " + n) in rr["out"]:
                        fails += 1
                if fails == 3:
                    really.append(n)
                else:
                    flaky.append({"run": r["name"], "case": n, "failed_of_3": fails})
            if really or not failed_names:
                violations.append(("%s: exit %d, %d unexpected failure(s), e.g. %s" % (r["name"], res["rc"], n_failed, really[:3]), res["log"]))
        for n in sorted(sent)[:1]:
            samples.append({"run": r["name"], "permutation": n})
    wall = time.time() - t0
    evidence = {
        "property_id": pid, "tier": tier, "seed": seed, "level": "exploration",
        "coverage": {
            "evaluations": total,
            "distinct_nontrivial": len(names_seen),
            "rule": ("every (config case x embedded test case) permutation of the shipped configurations is a case; the runner itself is the oracle (exit status, summary totals == computed permutations, no FAILED line, "
                     "known-failing lists exact - re-checked from the output with an own glob matcher); distinct = distinct full test names handed to a client (from -vv output); every permutation is non-trivial (it is a distinct end-to-end RPC scenario). "
                     "quick: gRPC-peer runs in full, reference runs on a seeded sub-matrix (HTTP/2 plus one of HTTP/1.1 and HTTP/3, identity + 1 of 5 compressions) plus a sweep of the complete shipped matrix over the Basic suite; thorough: all five runs in full."),
            "samples": samples or [{"note": "no request was sent"}],
            "exhaustive": tier == "thorough" and not violations and not notes,
            "runs": per_run,
            "sub_matrix": sub_matrix,
            "flaky_cases_passed_on_isolated_rerun": flaky,
            "inconclusive": notes,
        },
        "assumptions": ["the TypeScript gRPC-Web client run of the Makefile needs node/npm/browser and cannot run offline; it is not part of the property text",
                        "a case that fails once but passes when re-run in isolation is recorded as flaky, not as a violation"],
        "wall_s": round(wall, 1),
        "violations": len(violations),
    }
    os.makedirs(os.path.join(VERIF, "evidence"), exist_ok=True)
    with open(os.path.join(VERIF, "evidence", pid + ".json"), "w") as f:
        json.dump(evidence, f, indent=1)
    drv.log("property=%s tier=%s seed=%d evaluations=%d distinct_nontrivial=%d wall=%.1fs" % (pid, tier, seed, total, len(names_seen), wall))
    for e in per_run:
        drv.log("  run %-32s %s" % (e["run"], {k: v for k, v in e.items() if k != "run"}))
    if violations:
        for msg, path in violations[:10]:
            drv.log("VIOLATION property=%s replay=%s" % (pid, path))
            drv.log("  " + msg)
        return 1
    if notes:
        for n in notes:
            drv.log("INCONCLUSIVE property=%s %s" % (pid, n))
        return 2
    return 0
