"""Table of properties -> units (see DESIGN.md section 4). Used by ./check."""

CC = "internal/app/connectconformance"
MAIN = "cmd/connectconformance"
RS = "internal/app/referenceserver"
RC = "internal/app/referenceclient"

PROPS = {}

PROPS["C08"] = {
    "level": "exploration",
    "rule": ("pattern sets x names checked against a 10-line reference glob matcher written from the statement; "
             "Singles/Pairs enumerate all patterns over {a,b,*,**} up to length 4 against all names over {a,b} of length 1-4; "
             "Random draws 1-6 patterns of up to 8 components; Run drives the real run() up to client start with generated "
             "run/skip/known-failing/known-flaky sets; Args/CLI split a pattern list over flag occurrences and @files. "
             "A case is non-trivial when the set has a wildcard and matches some but not all names (matcher units), has both "
             "marking sets (Run), or has >=2 occurrences with an @file that is not last (Args/CLI); distinct = distinct canonical JSON of the case."),
    "assumptions": ["names never contain empty components or the components * and **",
                    "a pattern shadowed by another pattern matching the same names may be reported as unmatched (not asserted either way)"],
    "units": [
        # one pattern set consulted by several goroutines at once
        {"name": "C08Concurrent", "pkg": CC, "test": "TestVerifC08Concurrent", "kind": "rapid", "race": {"quick": False, "thorough": True},
         "checks": {"quick": 1500, "thorough": 20000}, "shards": {"quick": 2, "thorough": 8}},
        {"name": "C08Singles", "pkg": CC, "test": "TestVerifC08Singles", "kind": "enum"},
        {"name": "C08Pairs", "pkg": CC, "test": "TestVerifC08Pairs", "kind": "enum",
         "shards": {"quick": 8, "thorough": 16}, "env_tier": {"quick": {"VERIF_C08_MAXLEN": 3}, "thorough": {"VERIF_C08_MAXLEN": 4}}},
        {"name": "C08Random", "pkg": CC, "test": "TestVerifC08Random", "kind": "rapid",
         "checks": {"quick": 20000, "thorough": 200000}, "shards": {"quick": 2, "thorough": 16}},
        {"name": "C08Run", "pkg": CC, "test": "TestVerifC08Run", "kind": "rapid",
         "checks": {"quick": 3000, "thorough": 50000}, "shards": {"quick": 2, "thorough": 8}},
        # executed runs with the in-process connect-go and grpc-go peers: the outcome map has exactly the selected names, marker components included
        {"name": "C08Exec", "pkg": CC, "test": "TestVerifC08Exec", "kind": "rapid",
         "checks": {"quick": 25, "thorough": 600}, "shards": {"quick": 3, "thorough": 8}, "timeout": {"quick": 600, "thorough": 3600}},
        # recorded outcomes (also with feedback arriving afterwards) are classified known-failing / known-flaky iff a pattern matches
        {"name": "C08Classify", "pkg": CC, "test": "TestVerifC08Classify", "kind": "rapid",
         "checks": {"quick": 10000, "thorough": 150000}, "shards": {"quick": 2, "thorough": 8}},
        {"name": "C08Args", "pkg": MAIN, "test": "TestVerifC08Args", "kind": "rapid",
         "checks": {"quick": 3000, "thorough": 100000}, "shards": {"quick": 1, "thorough": 4}},
        {"name": "C08CLI", "pkg": MAIN, "test": "TestVerifC08CLI", "kind": "rapid",
         "checks": {"quick": 6, "thorough": 60}, "shards": {"quick": 4, "thorough": 16}},
    ],
}

PROPS["C06"] = {
    "level": "exploration",
    "rule": ("Config messages built by construction (axis lists as drawn sub-multisets incl. empty/duplicates/CODEC_TEXT, seven tri-state flags, 0-3 include and "
             "0-3 exclude entries with every field independently omitted) serialised to YAML and passed to parseConfig; oracle = set comprehension written from "
             "the docs (defaults, validity predicate, features U includes \\ excludes) + model-free validity of every returned case + metamorphic relations "
             "(list order/duplicates irrelevant, an added exclude never adds a case). Enum walks version x protocol x stream-type subsets x all 3^7 flag assignments. "
             "Non-trivial: non-error result with an include/exclude entry that omits a field, or with >=2 explicitly set flags; distinct by canonical JSON."),
    "assumptions": ["an include/exclude entry that is individually unsatisfiable may be rejected or ignored (docs are silent)",
                    "with versions unset and neither TLS nor H2C supported the default is HTTP/1.1 only"],
    "units": [
        {"name": "C06Random", "pkg": CC, "test": "TestVerifC06Random", "kind": "rapid",
         "checks": {"quick": 25000, "thorough": 300000}, "shards": {"quick": 4, "thorough": 16}},
        {"name": "C06Meta", "pkg": CC, "test": "TestVerifC06Meta", "kind": "rapid",
         "checks": {"quick": 8000, "thorough": 100000}, "shards": {"quick": 2, "thorough": 8}},
        {"name": "C06Enum", "pkg": CC, "test": "TestVerifC06Enum", "kind": "enum",
         "shards": {"quick": 8, "thorough": 16}, "env_tier": {"quick": {"VERIF_C06_STRIDE": 40}, "thorough": {"VERIF_C06_STRIDE": 1}}},
    ],
}

PROPS["C03"] = {
    "level": "exploration",
    "rule": ("expected results (generated, and every distinct ExpectedResponse of the expanded embedded corpus) x one labelled deviation at a drawn/enumerated position "
             "(error presence/code/message/details, payload count/order/bytes, echoed requests, header/trailer/request-header/query-param missing or altered, timeout, HTTP status) "
             "x 0-4 labelled lenient rewrites (re-casing, extra metadata, comma join/split, merged metadata, alternative code, free message, timeout in grace window, status, unsent count); "
             "oracle: no deviation => outcome nil; deviation => outcome non-nil and names the class. Non-trivial: deviation at position >=1, a timeout boundary deviation, "
             "or a merge/timeout-window/join/split leniency applied; distinct by canonical JSON of (definition, deviation, rewrites)."),
    "assumptions": ["header lists have case-insensitively unique names (all producers build them from maps)",
                    "detail order is significant (as coded; docs mark it TODO) - no reordering rewrite is generated",
                    "dropping ALL query params is not compared by the runner (only when both sides are non-empty) and is not asserted",
                    "request headers/timeout/query params are compared on the first payload only"],
    "units": [
        {"name": "C03Generated", "pkg": CC, "test": "TestVerifC03Generated", "kind": "rapid",
         "checks": {"quick": 15000, "thorough": 250000}, "shards": {"quick": 4, "thorough": 16}},
        {"name": "C03Corpus", "pkg": CC, "test": "TestVerifC03Corpus", "kind": "rapid",
         "checks": {"quick": 8000, "thorough": 100000}, "shards": {"quick": 2, "thorough": 16}},
        {"name": "C03CorpusEnum", "pkg": CC, "test": "TestVerifC03CorpusEnum", "kind": "enum",
         "shards": {"quick": 8, "thorough": 16}},
        # the permutations derived for the grpc-go peers are judged by the expectation (and allowed codes) of their base case
        {"name": "C03Variants", "pkg": CC, "test": "TestVerifC03Variants", "kind": "enum"},
    ],
}

INT = "internal"

PROPS["C09"] = {
    "level": "exploration",
    "with": ["C11"],  # the fake server process / fake client of the C11 harness (ServerResponse unit)
    "rule": ("0-6 generated ClientCompatResponse messages (0 B - 70 kB, protoreflect-driven generator) encoded by the repo's encoders or an independent 6-line encoder, "
             "served through a reader whose Read boundaries are drawn by construction (1-byte reads, cut inside a 4-byte prefix, cut at the prefix/payload boundary, reads spanning frames, "
             "zero-byte reads, data returned together with EOF), optionally truncated inside a prefix / inside a payload / at a frame boundary; binary via ReadDelimitedMessage and via NewCodec(false), JSON via NewCodec(true); "
             "oracle: exact round trip, then io.EOF at a clean end or an unexpected-EOF error after exactly the complete messages; Oversize: prefixes limit+1..2^32-1 must be rejected naming the size with no further Read and no allocation; "
             "AtLimit: sizes limit-2..limit+2; Stall: a peer that blocks after k bytes yields a timeout error with the exact progress text. Non-trivial: >=2 messages with a cut inside a prefix/spanning reads/1-byte reads, or truncation strictly inside a frame, or a stall after >=1 byte."),
    "assumptions": ["readers never block on a zero-length Read (io.Pipe does; OS pipes do not)",
                    "the stream decoders of NewCodec have no size limit by design; the limit clause is asserted for ReadDelimitedMessage only",
                    "stall checks assert only >= timeout and generous upper bounds; a run slower than 10 s is not judged"],
    "units": [
        {"name": "C09Chunking", "pkg": INT, "test": "TestVerifC09Chunking", "kind": "rapid",
         "checks": {"quick": 4000, "thorough": 60000}, "shards": {"quick": 4, "thorough": 16}},
        {"name": "C09Oversize", "pkg": INT, "test": "TestVerifC09Oversize", "kind": "rapid",
         "checks": {"quick": 2000, "thorough": 50000}, "shards": {"quick": 1, "thorough": 2}},
        {"name": "C09AtLimit", "pkg": INT, "test": "TestVerifC09AtLimit", "kind": "rapid",
         "checks": {"quick": 2000, "thorough": 50000}, "shards": {"quick": 1, "thorough": 2}},
        {"name": "C09Stall", "pkg": INT, "test": "TestVerifC09Stall", "kind": "rapid",
         "checks": {"quick": 150, "thorough": 1500}, "shards": {"quick": 2, "thorough": 8}},
        # arbitrary bytes x read partition against a reference parser (coverage-guided)
        # the server's start response through the batch runner at the size limit, in several chunkings (C11 fakes)
        {"name": "C09ServerResponse", "pkg": CC, "test": "TestVerifC09ServerResponse", "kind": "enum"},
        # the reference client's exported Run on a truncated standard input (binary and JSON), told to stop or not
        {"name": "C09ClientStdin", "pkg": RC, "test": "TestVerifC09ClientStdin", "kind": "enum"},
        # the reference client's output with several requests in work at once and a slow pipe: intact frames, one per request
        {"name": "C09ClientStdout", "pkg": RC, "test": "TestVerifC09ClientStdout", "kind": "enum", "timeout": 600},
        # zero-length messages over an io.Pipe, then a quiet peer
        {"name": "C09EmptyMessage", "pkg": INT, "test": "TestVerifC09EmptyMessage", "kind": "enum"},
        # the runner's reader of a client's output: the client answers k requests, takes the next one and stalls
        # the limit on a client's answers is 16 MiB (not the 1 MiB of a server's start response), sharp, and named when exceeded
        {"name": "C09ClientResponseSize", "pkg": CC, "test": "TestVerifC09ClientResponseSize", "kind": "enum", "timeout": 300},
        # a server that stalls while writing its start response: setup errors within the server period, naming the progress
        {"name": "C09ServerStall", "pkg": CC, "test": "TestVerifC09ServerStall", "kind": "enum", "timeout": 300},
        {"name": "C09ClientStall", "pkg": CC, "test": "TestVerifC09ClientStall", "kind": "enum", "timeout": {"quick": 420, "thorough": 420}},
        {"name": "C09Fuzz", "pkg": INT, "test": "FuzzVerifC09Stream", "kind": "fuzz", "fuzz_target": "FuzzVerifC09Stream",
         "only_tiers": ["thorough"], "fuzztime": {"thorough": "60s"}, "workers": 16, "timeout": {"thorough": 600}},
    ],
}

GU = "internal/grpcutil"

PROPS["C18"] = {
    "level": "exploration",
    "rule": ("round-trip laws on the exported conversion helpers over generated inputs: errors (codes 1-16, message unset/any UTF-8, 0-4 details of registered types with default and foreign type-URL prefixes) "
             "through Connect and gRPC status forms; header lists (names in any case, repeated names also differing only in case, -bin names with padded/unpadded base64, 0-3 values) through metadata.MD, the outgoing context and http.Header; "
             "arbitrary byte strings through percent-encoding with an independent decoder (escape predicate enumerated over all 256 bytes); arbitrary instances of 9 conformance message types (protoreflect-driven generator) through both strict codecs "
             "(Marshal, MarshalStable, MarshalAppend) plus rejection of an appended/prepended unknown field of every wire type and of an unknown JSON key. Non-trivial: error with >=2 details; header list with a repeated or -bin key; "
             "message needing escaping; message with a set optional/repeated/bytes field."),
    "assumptions": ["conversion helpers may modify their input (ConvertMetadataToProtoHeader encodes in place): not asserted",
                    "type-URL prefixes are normalised to the default prefix by the Connect form; only the type name and bytes must survive"],
    "units": [
        {"name": "C18ErrConnect", "pkg": INT, "test": "TestVerifC18ErrConnect", "kind": "rapid",
         "checks": {"quick": 40000, "thorough": 200000}, "shards": {"quick": 1, "thorough": 8}},
        {"name": "C18HTTPHeader", "pkg": INT, "test": "TestVerifC18HTTPHeader", "kind": "rapid",
         "checks": {"quick": 40000, "thorough": 200000}, "shards": {"quick": 1, "thorough": 4}},
        {"name": "C18Codec", "pkg": INT, "test": "TestVerifC18Codec", "kind": "rapid",
         "checks": {"quick": 15000, "thorough": 60000}, "shards": {"quick": 2, "thorough": 16}},
        {"name": "C18ErrGRPC", "pkg": GU, "test": "TestVerifC18ErrGRPC", "kind": "rapid",
         "checks": {"quick": 40000, "thorough": 200000}, "shards": {"quick": 1, "thorough": 8}},
        {"name": "C18Meta", "pkg": GU, "test": "TestVerifC18Meta", "kind": "rapid",
         "checks": {"quick": 40000, "thorough": 200000}, "shards": {"quick": 1, "thorough": 8}},
        {"name": "C18Percent", "pkg": GU, "test": "TestVerifC18Percent", "kind": "rapid",
         "checks": {"quick": 40000, "thorough": 300000}, "shards": {"quick": 1, "thorough": 8}},
        # the reference server's own rendering of an error as the gRPC status trio, and the reference client's decoder of it
        {"name": "C18StatusTrailers", "pkg": RS, "test": "TestVerifC18StatusTrailers", "kind": "rapid",
         "checks": {"quick": 10000, "thorough": 150000}, "shards": {"quick": 2, "thorough": 8}},
        {"name": "C18StatusDecode", "pkg": RC, "test": "TestVerifC18StatusDecode", "kind": "rapid",
         "checks": {"quick": 10000, "thorough": 150000}, "shards": {"quick": 2, "thorough": 8}},
        # response metadata as the gRPC reference client reports it, every kind of RPC against the in-process gRPC reference server
        {"name": "C18GRPCClientMeta", "pkg": "internal/app/grpcclient", "test": "TestVerifC18GRPCClientMeta", "kind": "rapid",
         "checks": {"quick": 3000, "thorough": 30000}, "shards": {"quick": 2, "thorough": 8}},
    ],
}

COMP = "internal/compression"

PROPS["C20"] = {
    "with": ["C14", "C15"],  # the body-tracing driver and oracle of the C14 harness (which borrows the C15 exchange driver)
    "level": "exploration",
    "rule": ("histories of pool-style use of ONE compressor and ONE decompressor instance per encoding (Reset/Write*/Close/Reset(io.Discard); Reset/ReadAll/Close/Reset(NoBody); instance discarded when Reset or Close fails, exactly as connect-go's pool does): "
             "operations compress, roundtrip, decode of a valid independently-encoded stream, decode of a bit-flipped / truncated / empty stream; data empty, 1 byte, text, incompressible, >64 KiB; oracle: every compressor output is decoded to the input by the stdlib/third-party decoder of that name called directly, "
             "every valid stream decodes to exactly the original bytes with no error at Reset/Read/Close whatever preceded it, malformed input never panics. Enum: all histories up to length 3 (quick) / 4 (thorough) over a 10-operation alphabet x 6 encodings. "
             "Non-trivial: a valid decode right after a failed one, a reuse of an instance, empty or multi-block data. "
             "Wire / RawPayload: the wire tracer's decompressor for a header value (any letter case) decodes what the third-party encoder of that name produced, also when reset and reused; "
             "the raw-payload encoder's output for an enum value is a valid stream of that name's algorithm that decodes to the payload, for any payload including the empty one. "
             "The reference peers' use of the names is exercised end to end by C01 and C19 (all six encodings through real peers), C12 (expected names) and C14 (tracer decompression by header)."),
    "assumptions": ["corrupted brotli/identity streams may decode to arbitrary bytes (no integrity check); only crash-freedom is asserted for malformed input",
                    "decoded output is capped at 8 MiB"],
    "units": [
        # the reference client's requests under each compression, decoded by a plain HTTP server with the independent decoder of the announced name
        {"name": "C20ClientWire", "pkg": RC, "test": "TestVerifC20ClientWire", "kind": "enum", "timeout": 600},
        {"name": "C20ServerWire", "pkg": RS, "test": "TestVerifC20ServerWire", "kind": "enum", "timeout": 600},
        {"name": "C20Histories", "pkg": COMP, "test": "TestVerifC20Histories", "kind": "rapid",
         "checks": {"quick": 1500, "thorough": 20000}, "shards": {"quick": 4, "thorough": 16}},
        # every single-bit flip / cut / trailing bytes of one short stream per encoding, then valid streams on the same instance
        {"name": "C20Flips", "pkg": COMP, "test": "TestVerifC20Flips", "kind": "enum", "shards": {"quick": 2, "thorough": 4}},
        {"name": "C20Enum", "pkg": COMP, "test": "TestVerifC20Enum", "kind": "enum",
         "shards": {"quick": 8, "thorough": 16}, "env_tier": {"quick": {"VERIF_C20_MAXLEN": 3}, "thorough": {"VERIF_C20_MAXLEN": 4}}},
        {"name": "C20Names", "pkg": COMP, "test": "TestVerifC20Names", "kind": "enum"},
        # two or three instances in use at the same time (RPCs in flight), some of them recycled before
        {"name": "C20Concurrent", "pkg": COMP, "test": "TestVerifC20Concurrent", "kind": "rapid",
         "checks": {"quick": 2000, "thorough": 30000}, "shards": {"quick": 2, "thorough": 8}},
        # the same name / enum value denotes the same algorithm outside the compression package
        {"name": "C20Wire", "pkg": "internal/tracer", "test": "TestVerifC20Wire", "kind": "rapid",
         "checks": {"quick": 4000, "thorough": 60000}, "shards": {"quick": 2, "thorough": 8}},
        # compressed end-of-stream messages of 0 .. 1 MiB through the body tracer (C14 driver and oracle)
        {"name": "C20WireEndStream", "pkg": "internal/tracer", "test": "TestVerifC20WireEndStream", "kind": "rapid",
         "checks": {"quick": 400, "thorough": 6000}, "shards": {"quick": 2, "thorough": 8}},
        {"name": "C20RawPayload", "pkg": "internal", "test": "TestVerifC20RawPayload", "kind": "rapid",
         "checks": {"quick": 4000, "thorough": 60000}, "shards": {"quick": 2, "thorough": 8}},
    ],
}

TR = "internal/tracer"

PROPS["C14"] = {
    "with": ["C15"],  # the HTTP/2 exchange driver and oracle of the C15 harness
    "level": "exploration",
    "rule": ("request and response bodies built from 0-6 envelope items (flags from {0,1,2,3,0x80,0x81,random}, declared length incl. 0, payloads up to 70 kB, end-stream content in one of 6 encodings, compressed flag set or not), "
             "under stream and non-stream content types, optionally truncated (inside a prefix, right after a prefix, anywhere) and ended by EOF / EOF-with-data / an injected error / an early Close; driven through the exported wrappers "
             "TracingRoundTripper (client request+response body) and TracingHandler (server request body + response writer) with two independent partitions of the same bytes into Read/Write calls; "
             "oracle: (1) event list == reference envelope parser, (2) identical events for both partitions, (3) application/peer observations (bytes, per-call counts, errors, status, headers, trailers, flushes) identical to the unwrapped run, exactly one completed trace. "
             "Non-trivial: >=2 messages with call boundaries, a zero-length message, an uncompressed end-stream under a non-identity encoding, or a truncation."),
    "assumptions": ["a cut exactly between prefix and payload (0 payload bytes) may or may not yield a partial event",
                    "an end-stream event is required only for Connect flag 0x02 / gRPC-Web flag 0x80; for other flag/protocol combinations it is optional",
                    "if the independent decoder cannot decode a compressed end-stream payload its content is not asserted"],
    "units": [
        # the body tracer behind the HTTP/2 connection wrapper, bodies cut inside an envelope prefix
        {"name": "C14H2Bodies", "pkg": TR, "test": "TestVerifC14H2Bodies", "kind": "rapid",
         "checks": {"quick": 1500, "thorough": 20000}, "shards": {"quick": 2, "thorough": 8}},
        {"name": "C14Bodies", "pkg": TR, "test": "TestVerifC14Bodies", "kind": "rapid",
         "checks": {"quick": 6000, "thorough": 80000}, "shards": {"quick": 4, "thorough": 16}},
    ],
}

PROPS["C16"] = {
    "with": ["C15", "C11"],  # the HTTP/2 exchange driver of the C15 harness; the fake server process of the C11 harness
    "level": "exploration",
    "rule": ("(a) sequences of the atomic operations Init/Complete/Await/Clear/Cancel over 2 names and 2 waiters, ALL sequences of a bounded length (4 quick, 6 thorough; a waiter's context signals the driver when Await reaches its select, so every operation is linearised) and random sequences up to length 30 over 3 names, "
             "against a sequential slot model; (b) all orders of builder events (11 kinds incl. build) of bounded length, and 2-4 goroutines adding events with drawn yield points and GOMAXPROCS; "
             "(c) TracingRoundTripper with scripted transports where response error, body error, early close and cancellation race. Oracle: waiter gets exactly the first completion of its slot, no-ops have no effect, immediate failure on cleared/unknown names, cancel returns the context error, "
             "exactly one Complete per named operation that reached a finishing event (zero otherwise), delivered events preserve per-goroutine order, end with the finishing event and never grow afterwards. "
             "Non-trivial: sequence with Complete-before-Await or Await-before-Complete AND a Clear or duplicate Complete; builder/round-trip cases with >=2 racing finishing events."),
    "assumptions": ["Init of a name that is initialised and not cleared is outside the domain (the runner never does it)",
                    "a waiter waits for one name at a time",
                    "data races are only visible in the thorough tier, which builds with -race"],
    "units": [
        # refused stream, no retry: the trace is delivered by the retry timer; a later close must not complete it again
        {"name": "C16RetryTimer", "pkg": TR, "test": "TestVerifC16RetryTimer", "kind": "enum", "timeout": 300},
        # tracing middleware around a handler whose Write fails and which then sets trailers / writes again: completed once, not touched afterwards
        {"name": "C16ServerWriteFails", "pkg": TR, "test": "TestVerifC16ServerWriteFails", "kind": "enum"},
        # the C15 conversations, judged only on "completed exactly once"
        {"name": "C16H2Once", "pkg": TR, "test": "TestVerifC16H2Once", "kind": "rapid",
         "checks": {"quick": 1500, "thorough": 20000}, "shards": {"quick": 3, "thorough": 8}},
        # the batch runner as user of the hand-off: a trace completed before the request is even reported as sent reaches the report
        {"name": "C16RunnerHandOff", "pkg": CC, "test": "TestVerifC16RunnerHandOff", "kind": "enum", "timeout": 300},
        {"name": "C16TracerEnum", "pkg": TR, "test": "TestVerifC16TracerEnum", "kind": "enum", "race": {"quick": False, "thorough": False},
         "shards": {"quick": 8, "thorough": 16}, "env_tier": {"quick": {"VERIF_C16_MAXLEN": 5}, "thorough": {"VERIF_C16_MAXLEN": 6}}},
        {"name": "C16TracerRandom", "pkg": TR, "test": "TestVerifC16TracerRandom", "kind": "rapid", "race": {"quick": False, "thorough": True},
         "checks": {"quick": 5000, "thorough": 60000}, "shards": {"quick": 2, "thorough": 8}},
        {"name": "C16BuilderEnum", "pkg": TR, "test": "TestVerifC16BuilderEnum", "kind": "enum",
         "shards": {"quick": 4, "thorough": 16}, "env_tier": {"quick": {"VERIF_C16_BUILDER_MAXLEN": 5}, "thorough": {"VERIF_C16_BUILDER_MAXLEN": 6}}},
        {"name": "C16BuilderConcurrent", "pkg": TR, "test": "TestVerifC16BuilderConcurrent", "kind": "rapid", "race": {"quick": False, "thorough": True},
         "checks": {"quick": 3000, "thorough": 20000}, "shards": {"quick": 2, "thorough": 16}},
        # the reference client's collector in front of the tracer: trace stored in the call context while the examiner waits (race detector)
        {"name": "C16WireHandOff", "pkg": RC, "test": "TestVerifC16WireHandOff", "kind": "rapid", "race": {"quick": True, "thorough": True},
         "checks": {"quick": 1500, "thorough": 20000}, "shards": {"quick": 2, "thorough": 8}, "timeout": {"quick": 900, "thorough": 3600}},
        {"name": "C16RoundTripRace", "pkg": TR, "test": "TestVerifC16RoundTripRace", "kind": "rapid", "race": {"quick": False, "thorough": True},
         "checks": {"quick": 1500, "thorough": 10000}, "shards": {"quick": 2, "thorough": 16}},
    ],
}

PROPS["C15"] = {
    "level": "exploration",
    "rule": ("(a) Raw: arbitrary / corrupted-valid / truncated-valid / random-frame byte strings in both directions through TracingHTTP2Conn around a scripted net.Conn (drawn per-call counts, short writes, timeouts, errors, EOF, close error), client and server side; oracle: every Read/Write/Close result and every byte forwarded is identical to the unwrapped run, no panic. "
             "(b) Exchange: 1-6 concurrent streams (named or not; request HEADERS optionally split into CONTINUATION; enveloped request/response messages in DATA frames of drawn sizes, optional padding; response end via trailers or END_STREAM; RST_STREAM from either side at a drawn point; refused stream followed by a retry under the same test name; "
             "stream left open until the connection closes; GOAWAY with drawn last-stream-id and code; interleaved SETTINGS/PING/WINDOW_UPDATE), one HPACK encoder per direction shared by all streams, frames interleaved by a drawn schedule respecting per-stream order, bytes split into Read/Write calls at drawn offsets (forced cuts inside 9-byte frame headers, byte-wise partitions) and, as second partition, whole flushes; "
             "oracle: exactly one completed trace per test name (the retry's when refused), none for unnamed streams, with that stream's request line/headers, response status/headers/trailers, the reference-parsed request and response messages in order, and a last event matching the end or reset code. "
             "Non-trivial: >=2 streams with cuts, or any RST/GOAWAY/refusal/open-at-close. A native fuzz target (thorough) feeds arbitrary bytes/partitions to (a)."),
    "assumptions": ["1xx interim responses and client-sent GOAWAY are not generated in (b)",
                    "the request side of a stream ends before its response does unless the stream is reset",
                    "which side emits the partial (unfinished) message event on a reset is not asserted; complete messages are"],
    "units": [
        {"name": "C15Raw", "pkg": TR, "test": "TestVerifC15Raw", "kind": "rapid",
         "checks": {"quick": 10000, "thorough": 150000}, "shards": {"quick": 2, "thorough": 16}},
        # two connections accepted from one TracingHTTP2Listener: what happens on one does not disturb the held-back trace of the other
        {"name": "C15Listener", "pkg": TR, "test": "TestVerifC15Listener", "kind": "enum"},
        # a refused stream that is never retried / refused twice / whose connection closes while the held-back trace is handed over
        {"name": "C15RetryTimer", "pkg": TR, "test": "TestVerifC15RetryTimer", "kind": "enum", "timeout": 300},
        {"name": "C15Exchange", "pkg": TR, "test": "TestVerifC15Exchange", "kind": "rapid",
         "checks": {"quick": 2500, "thorough": 40000}, "shards": {"quick": 4, "thorough": 16}},
        {"name": "C15Fuzz", "pkg": TR, "test": "FuzzVerifC15Conn", "kind": "fuzz", "fuzz_target": "FuzzVerifC15Conn",
         "only_tiers": ["thorough"], "fuzztime": {"thorough": "120s"}, "workers": 16, "timeout": {"thorough": 900}},
    ],
}

RS = "internal/app/referenceserver"
RC = "internal/app/referenceclient"

PROPS["C17"] = {
    "level": "exploration",
    "rule": ("RawHTTPResponse / RawHTTPRequest definitions by construction: status unset or 200-599, header and trailer lists (repeated names, multiple values), body absent / unary / stream of 0-5 items with flags 0-255 (and >255, which must be rejected), explicit length equal to, below or above the payload or absent, binary/text/Any payloads, each of the 6 compressions; "
             "Encoders: WriteRawMessageContents/WriteRawStreamContents decoded with an independent envelope parser and third-party decompressors; Arbiter: sequences of Header().Set/Write/WriteHeader/Flush/setRawResponse in any order through the rawResponder middleware vs a two-absorbing-state model (handler mode must equal the unwrapped handler, raw mode must emit exactly the definition); "
             "E2E: a reference server started through the exported RunInReferenceMode is asked over real HTTP/1.1 and h2c by a plain HTTP client (unary, client-stream, server-stream, bidi request carrying the raw response) and the plain client checks status, headers, trailers, exact body and absence of any handler output; "
             "RawRequest: the exported reference client is given a raw request and a plain recording server checks method, path, per-name query values (existing, raw, encoded +/- base64), listed headers, absence of the built request's headers/body, exact body. "
             "Non-trivial: stream with >=2 items of which one has an explicit length != payload or a non-identity compression; trailers present; an operation sequence with both a handler write and setRawResponse; a URI query combined with extra params."),
    "assumptions": ["status codes that forbid a body (1xx, 204, 304) are outside the domain",
                    "header and trailer name sets are disjoint and avoid names net/http manages itself (Content-Length, Transfer-Encoding, Connection, Trailer, Date)",
                    "an item with explicit length AND a non-identity compression is generated only as the last stream item (its wire size is not predictable)",
                    "the handler sets a raw response at most once"],
    "units": [
        {"name": "C17Encoders", "pkg": INT, "test": "TestVerifC17Encoders", "kind": "rapid",
         "checks": {"quick": 6000, "thorough": 100000}, "shards": {"quick": 2, "thorough": 8}},
        {"name": "C17Arbiter", "pkg": RS, "test": "TestVerifC17Arbiter", "kind": "rapid",
         "checks": {"quick": 6000, "thorough": 100000}, "shards": {"quick": 2, "thorough": 8}},
        {"name": "C17E2E", "pkg": RS, "test": "TestVerifC17E2E", "kind": "rapid",
         "checks": {"quick": 3000, "thorough": 30000}, "shards": {"quick": 2, "thorough": 8}},
        {"name": "C17RawRequest", "pkg": RC, "test": "TestVerifC17RawRequest", "kind": "rapid",
         "checks": {"quick": 1500, "thorough": 20000}, "shards": {"quick": 2, "thorough": 8}},
    ],
}

PROPS["C19"] = {
    "level": "exploration",
    "rule": ("Expand: the five request message types with drawn response definitions (varying fixed overhead) and 0-300 bytes of initial data, size directives with offsets in a window around 0, within +-6 of every varint length boundary of the padding field (2^7, 2^14, 2^21), around and below the message's minimum size, far out of range, absent, and directive lists longer than the request list, through expandRequestData; "
             "oracle: on success proto.Size == limit+offset exactly, all other fields unchanged, old data is a prefix of the new data (or vice versa); on error the target is provably unreachable (brute force over padding lengths) ; never a panic. "
             "LimitServer/LimitClient: messages whose uncompressed serialized size is limit-1, limit, limit+1 under each of the 6 compressions and 3 protocols (server), and Connect unary/stream responses of those sizes, compressed or not (client), must be accepted up to the limit and rejected with resource_exhausted one byte above it. "
             "Non-trivial: offsets within a few bytes of a varint boundary or below the minimum size; the limit/limit+1 pair under a non-identity compression."),
    "assumptions": ["the server receive limit used by the runner is the documented 200 KiB constant",
                    "under a non-identity compression the padding is compressible (the RPC library also rejects a compressed envelope larger than the limit)"],
    "units": [
        {"name": "C19Expand", "pkg": CC, "test": "TestVerifC19Expand", "kind": "rapid",
         "checks": {"quick": 4000, "thorough": 60000}, "shards": {"quick": 4, "thorough": 16}},
        {"name": "C19LimitServer", "pkg": RC, "test": "TestVerifC19LimitServer", "kind": "rapid",
         "checks": {"quick": 1200, "thorough": 12000}, "shards": {"quick": 2, "thorough": 8}},
        {"name": "C19LimitClient", "pkg": RC, "test": "TestVerifC19LimitClient", "kind": "rapid",
         "checks": {"quick": 1200, "thorough": 12000}, "shards": {"quick": 2, "thorough": 8}},
    ],
}

PROPS["C12"] = {
    "level": "exploration",
    "rule": ("Matrix: expected x actual over (3 HTTP versions, GET/POST, 3 protocols, 2 codecs, 6 compressions, plain/TLS/TLS+client cert) = 432 x 432 pairs, requests synthesised as a well-behaved client of the ACTUAL setup would send them (content types incl. bare and streaming forms, identity expressed or omitted, GET query parameters, TLS state with peer certificate) carrying the runner's x-expect-* headers of the EXPECTED setup, through referenceServerChecks with a recording printer; "
             "oracle: the set of aspects named in feedback (each line prefixed with the test name) equals the set of aspects that differ, no line when all match. Extras: repeated request, request trailers, missing test name. "
             "Timeout: every string of length <=3 over {0,1,9,+,-,space,H,M,S,m,u,n,x}, digit-count boundaries 7-12 (9..9, 10..0, zero-padded) x every unit, hostile constants and random strings up to 12 characters, for the 3 protocols, against the protocol grammars (Connect 1*10DIGIT ms; gRPC 1*8DIGIT unit) with big-integer duration and saturation; header must be gone from what the RPC handler sees, timeout_ms echoed by createRequestInfo. "
             "BlackBox: the same through real HTTP/1.1 and h2c sockets against a server started via the exported entry point, feedback read from its stderr (synchronised by a marker request), echoed timeout read from the RPC response. Non-trivial: exactly one or two differing aspects; timeout strings of boundary length or with a sign/space/leading zero."),
    "assumptions": ["actual requests are well-formed for their protocol (GET only with Connect; gRPC sends te: trailers)",
                    "the timeout header is looked up by the EXPECTED protocol (as the runner configures it)"],
    "units": [
        # deviating requests of several test cases checked at the same time, feedback through the real stderr printer
        {"name": "C12Concurrent", "pkg": RS, "test": "TestVerifC12Concurrent", "kind": "rapid",
         "checks": {"quick": 300, "thorough": 5000}, "shards": {"quick": 2, "thorough": 8}},
        {"name": "C12Matrix", "pkg": RS, "test": "TestVerifC12Matrix", "kind": "enum",
         "shards": {"quick": 8, "thorough": 16}, "env_tier": {"quick": {"VERIF_C12_STRIDE": 1}, "thorough": {"VERIF_C12_STRIDE": 1}}},
        {"name": "C12Extras", "pkg": RS, "test": "TestVerifC12Extras", "kind": "rapid",
         "checks": {"quick": 5000, "thorough": 50000}, "shards": {"quick": 2, "thorough": 8}},
        {"name": "C12TimeoutEnum", "pkg": RS, "test": "TestVerifC12TimeoutEnum", "kind": "enum"},
        {"name": "C12TimeoutRandom", "pkg": RS, "test": "TestVerifC12TimeoutRandom", "kind": "rapid",
         "checks": {"quick": 10000, "thorough": 200000}, "shards": {"quick": 2, "thorough": 8}},
        # TLS / client-certificate aspect with real handshakes over HTTP/1.1, HTTP/2 and HTTP/3
        {"name": "C12TLS", "pkg": RS, "test": "TestVerifC12TLS", "kind": "enum", "timeout": 600},
        {"name": "C12BlackBox", "pkg": RS, "test": "TestVerifC12BlackBox", "kind": "rapid",
         "checks": {"quick": 1500, "thorough": 20000}, "shards": {"quick": 2, "thorough": 8}},
        # the protocol aspect by content type, for GET and POST alike
        {"name": "C12MethodProtocol", "pkg": RS, "test": "TestVerifC12MethodProtocol", "kind": "enum"},
        # stop signal while a request is still being uploaded: the late (trailer) feedback still reaches stderr
        {"name": "C12Shutdown", "pkg": RS, "test": "TestVerifC12Shutdown", "kind": "enum", "timeout": 600},
    ],
}

PROPS["C13"] = {
    "level": "exploration",
    "rule": ("errors (16 codes + OK for trailer forms, message unset/empty/ASCII/%/CR-LF/multi-byte UTF-8, 0-3 details of registered types with or without the optional debug member, metadata with special-character names and values) rendered by INDEPENDENT spec-conformant renderers of Connect error JSON, Connect end-stream JSON, gRPC-Web trailer blocks and gRPC status trailer sets, fed to the examiners directly and through examineWireDetails inside a synthetic trace: zero feedback required (WellFormed); "
             "the same renderings under exactly one of ~70 catalogued malformation operators (missing/unknown/non-string code, duplicate key at any depth, unknown key, invalid metadata name/value, LF line ends, missing final CRLF, blank lines, upper-case key, broken %-escape, unescaped byte, padded/invalid base64, status/details/message disagreement, details with OK status, HTTP trailers on non-gRPC responses ...): feedback containing the class keyword required (Malformed); "
             "E2E: each error is placed in a response definition and fetched by the exported reference client from an in-process reference server over Connect unary/stream, gRPC and gRPC-Web x proto/JSON x with/without response headers and trailers (the latter selects the server's raw gRPC/gRPC-Web trailer encoders): Feedback must be empty; Bytes/Fuzz: random, JSON-ish and mutated-valid byte strings into every examiner must not panic. "
             "Non-trivial: message needing escaping or >=1 detail (well-formed); every malformed case."),
    "assumptions": ["the 'te: trailers' and similar request-side checks are out of scope (C12)",
                    "metadata values are valid UTF-8 in the JSON forms"],
    "units": [
        {"name": "C13WellFormed", "pkg": RC, "test": "TestVerifC13WellFormed", "kind": "rapid",
         "checks": {"quick": 15000, "thorough": 200000}, "shards": {"quick": 2, "thorough": 8}},
        {"name": "C13Malformed", "pkg": RC, "test": "TestVerifC13Malformed", "kind": "rapid",
         "checks": {"quick": 15000, "thorough": 200000}, "shards": {"quick": 2, "thorough": 8}},
        {"name": "C13Bytes", "pkg": RC, "test": "TestVerifC13Bytes", "kind": "rapid",
         "checks": {"quick": 15000, "thorough": 200000}, "shards": {"quick": 2, "thorough": 8}},
        {"name": "C13E2E", "pkg": RC, "test": "TestVerifC13E2E", "kind": "rapid",
         "checks": {"quick": 1500, "thorough": 15000}, "shards": {"quick": 2, "thorough": 8}},
        # wire content served by the reference server's raw-response feature, seen through the real client and tracer
        {"name": "C13RawE2E", "pkg": RC, "test": "TestVerifC13RawE2E", "kind": "rapid",
         "checks": {"quick": 600, "thorough": 8000}, "shards": {"quick": 2, "thorough": 8}},
        # custom -bin metadata: every value of every key (several entries, several values each, any letter case)
        {"name": "C13BinMeta", "pkg": RC, "test": "TestVerifC13BinMeta", "kind": "rapid",
         "checks": {"quick": 15000, "thorough": 200000}, "shards": {"quick": 2, "thorough": 8}},
        # the same end to end: a bad -bin header / trailer from the real reference server, every kind of RPC, also when the client cancels
        {"name": "C13BinE2E", "pkg": RC, "test": "TestVerifC13BinE2E", "kind": "rapid",
         "checks": {"quick": 150, "thorough": 3000}, "shards": {"quick": 2, "thorough": 8}, "timeout": {"quick": 600, "thorough": 3600}},
        {"name": "C13Fuzz", "pkg": RC, "test": "FuzzVerifC13Examiners", "kind": "fuzz", "fuzz_target": "FuzzVerifC13Examiners",
         "only_tiers": ["thorough"], "fuzztime": {"thorough": "90s"}, "workers": 16, "timeout": {"thorough": 900}},
    ],
}

PROPS["C07"] = {
    "level": "exploration",
    "rule": ("1-4 generated suites (Title-Case names, mode any/client/server, each relevant-* list empty / of length 1 / of length >=2, relies-on TLS / client certs / Connect GET / receive limit, 1-5 test cases with unique slash names and stream types, optional explicit service+method, raw request/response where the mode allows) x config-case sets from parseConfig on default, rich, HTTP/1-only and random configs x the three run modes, through newTestCaseLibrary, allPermutations, casesByServer, filterGRPCImplTestCases; "
             "oracle: key set == {permutations for which the statement's iff holds} in both directions under the documented name format (axis spelled out iff the suite leaves it open), request markers equal the config case, default service/method per stream type, grouping is a partition keyed by the request's own tuple, three repeated expansions on fresh maps are identical, gRPC-peer permutations == rule table with marked names. "
             "Non-trivial: >=2 suites of which one is mode-restricted, one relies-on flag, one relevant list of length 1 and one of length >=2."),
    "assumptions": ["connect_version_mode is left unspecified (no config case carries one)",
                    "misconfigured suites (missing names, client certs without TLS, ...) are exercised by C02's crash-freedom unit, not here"],
    "units": [
        {"name": "C07Expansion", "pkg": CC, "test": "TestVerifC07Expansion", "kind": "rapid",
         "checks": {"quick": 2500, "thorough": 40000}, "shards": {"quick": 4, "thorough": 16}},
        # the run mode as run() derives it from the peer commands; suite files given with --test-file
        {"name": "C07RunMode", "pkg": CC, "test": "TestVerifC07RunMode", "kind": "enum"},
        {"name": "C07Files", "pkg": CC, "test": "TestVerifC07Files", "kind": "enum"},
        {"name": "C07NameCollision", "pkg": CC, "test": "TestVerifC07NameCollision", "kind": "enum"},
    ],
}

PROPS["C10"] = {
    "level": "exploration",
    "rule": ("an in-process scripted client (runInProcess) driven through runClient: 1-8 uniquely named requests from 1-4 concurrent sender goroutines with drawn yield points and GOMAXPROCS in {1,4,16}; the client's intended output is a byte string of answers in a drawn order with an optionally injected duplicate / unknown name / oversized prefix / garbage frame and an optional cut offset over every byte of it, after which the client returns nil or an error; the client reads stdin (answering only received requests) or leaves it unread. "
             "Oracle over the recorded history: callback exactly once for every send that returned nil, never for a send that failed, success only with that test's own response and only if the client wrote a complete answer, answers written before the first fault are delivered, later sends refused, isRunning() false after the process returned, fault reported by waitForResponses, everything done within 60 s (the harness owns all delays, so a hang is a violation and the goroutine dump is the replay artefact). "
             "Non-trivial: >=2 senders with a cut strictly inside the output leaving >=1 answered and >=1 pending request, or an injected duplicate/unknown after >=1 valid answer. Thorough tier builds with -race."),
    "assumptions": ["a silent client (no output, keeps running) is bounded by the runner's fixed 20 s read timeout and is not generated",
                    "when the client does not read stdin an answer may precede the registration of its request; only exactly-once and no-phantom-success are asserted then"],
    "units": [
        # the client is a real OS process (runCommand / os-exec pipes), exits early or answers garbage
        {"name": "C10Process", "pkg": CC, "test": "TestVerifC10Process", "kind": "enum", "shards": {"quick": 4, "thorough": 4}, "timeout": 600},
        {"name": "C10DuplicateSend", "pkg": CC, "test": "TestVerifC10DuplicateSend", "kind": "enum"},
        # a test name handed to the same client again after it was answered
        {"name": "C10Resend", "pkg": CC, "test": "TestVerifC10Resend", "kind": "enum"},
        # an in-process client that writes a bad answer and then never returns
        {"name": "C10Wedged", "pkg": CC, "test": "TestVerifC10Wedged", "kind": "enum", "timeout": 300},
        # an answer of exactly the largest accepted size (16 MiB) / one byte more
        {"name": "C10AtLimit", "pkg": CC, "test": "TestVerifC10AtLimit", "kind": "enum"},
        {"name": "C10Multiplexer", "pkg": CC, "test": "TestVerifC10Multiplexer", "kind": "rapid", "race": {"quick": False, "thorough": True},
         "checks": {"quick": 5000, "thorough": 12000}, "shards": {"quick": 4, "thorough": 16}, "timeout": {"quick": 900, "thorough": 5400}},
    ],
}

PROPS["C11"] = {
    "level": "fault_enumeration",
    "rule": ("runTestCasesForServer with own process starters and a contract-respecting scripted client runner: batches of 1-8 cases; server fault in {start error, stdin write error, stdin close error, stdout empty / truncated at byte k / oversized prefix / garbage, no certificate although TLS, process death after k of n sends (all k), none}; client fault in {send error at send k (all k), a case whose callback carries 'no result', none}; callbacks delivered synchronously, asynchronously or in reverse order after the last send; per-case verdicts pass / deviating result / client-reported error; "
             "reference-server stderr scripts with feedback lines for names inside and outside the batch, lines without separator, with ': ' inside the message, padded, blank and whitespace lines, with and without trailing newline. "
             "Oracle after return (+ delivery of outstanding callbacks): outcome keys == batch names, cases not run are setup errors with a failure (never a pass, never absent), answered cases carry the verdict their response implies, no request reaches the client after a start fault, the started process was asked to stop, stdin was closed after the request, side-band map == model attribution and all other non-blank lines forwarded verbatim; return within 60 s. "
             "NeverAnswers (thorough): a server that never writes is given up on after the fixed 10 s timeout. Non-trivial: fault position strictly inside the batch, or both a server and a client fault."),
    "assumptions": ["the client runner delivers a callback for every accepted request (C10), possibly after the batch function returned",
                    "side-band attribution is asserted only on the path that runs to its normal end (on early returns the stderr reader is not awaited)"],
    "units": [
        # real in-process controller, server slow or unwilling to stop
        {"name": "C11InProcess", "pkg": CC, "test": "TestVerifC11InProcess", "kind": "enum", "timeout": 120},
        {"name": "C11Printer", "pkg": CC, "test": "TestVerifC11Printer", "kind": "enum"},
        {"name": "C11ResponseSize", "pkg": CC, "test": "TestVerifC11ResponseSize", "kind": "enum"},
        # peers that are OS processes (runCommand) and go away while the runner still writes to them
        {"name": "C11OSPeers", "pkg": CC, "test": "TestVerifC11OSPeers", "kind": "enum", "timeout": 900},
        {"name": "C11Batch", "pkg": CC, "test": "TestVerifC11Batch", "kind": "rapid", "race": {"quick": False, "thorough": True},
         "checks": {"quick": 6000, "thorough": 60000}, "shards": {"quick": 4, "thorough": 16}},
        {"name": "C11NeverAnswers", "pkg": CC, "test": "TestVerifC11NeverAnswers", "kind": "enum", "only_tiers": ["thorough"]},
    ],
}

PROPS["C04"] = {
    "with": ["C11"],  # the fake server process / fake client of the C11 harness
    "level": "exploration",
    "rule": ("Table: every assignment of outcome kind in {pass, assertion failure, client-reported error, setup error, could-not-run, no result from the client, never answered} x marking in {unmarked, known-failing, known-flaky} x peer feedback {absent, present} to 1..N cases (N=2 quick, 3 thorough; 39 rows per case), driven through the real API (newResults, assert/failed/failedToStart/failRemaining/setOutcome, recordSideband, report) with exact-name marking patterns; Random: up to 12 cases. "
             "Oracle: model of the statement for the boolean verdict; accounting: passed + failed + failed-as-expected + could-not-run == selected with every case in exactly the model's counter; every failed / failed-as-expected case is named in a FAILED / INFO line and no passing case is. "
             "Fate: the exported Run with a re-executed scripted client process (canned matching / deviating / error results, no answer, exit 0 or 1 after k of n requests, garbage) against in-process reference servers: Run's verdict must equal the model's. "
             "Non-trivial: a row with a marking, feedback, or a setup/could-not-run/unanswered/no-result kind; Fate: an early exit strictly between the first and the last request."),
    "assumptions": ["a case that was never handed to the client cannot carry peer feedback (that combination is excluded)",
                    "could-not-run cases are counted, not named individually"],
    "units": [
        {"name": "C04Table", "pkg": CC, "test": "TestVerifC04Table", "kind": "enum",
         "shards": {"quick": 4, "thorough": 16}, "env_tier": {"quick": {"VERIF_C04_CASES": 3}, "thorough": {"VERIF_C04_CASES": 4}}},
        {"name": "C04Random", "pkg": CC, "test": "TestVerifC04Random", "kind": "rapid",
         "checks": {"quick": 20000, "thorough": 300000}, "shards": {"quick": 2, "thorough": 8}},
        # feedback that reaches the runner through a reference server's stderr (terminated or not, before or after the answer)
        {"name": "C04Sideband", "pkg": CC, "test": "TestVerifC04Sideband", "kind": "enum"},
        # feedback lines produced by the reference server's real printer (names / messages with %, colons, tabs, unicode)
        # feedback attached to a matching result by the reference client, with the server under test or the reference server
        {"name": "C04ClientFeedback", "pkg": CC, "test": "TestVerifC04ClientFeedback", "kind": "enum"},
        # feedback reported while the case's own answer is still outstanding and another server's batch ends in between
        {"name": "C04FeedbackRace", "pkg": CC, "test": "TestVerifC04FeedbackRace", "kind": "enum", "timeout": 900},
        # server mode through Run: the reference client's wire feedback about a server under test (OS process) that answers correctly
        {"name": "C04ServerModeFeedback", "pkg": CC, "test": "TestVerifC04ServerModeFeedback", "kind": "enum", "timeout": 900},
        {"name": "C04Printer", "pkg": CC, "test": "TestVerifC04Printer", "kind": "enum"},
        # the server under test is gone (status 0 or killed) after k of n cases: the rest counts against success whatever its marking
        {"name": "C04ServerExit", "pkg": CC, "test": "TestVerifC04ServerExit", "kind": "enum"},
        {"name": "C04FateTable", "pkg": CC, "test": "TestVerifC04FateTable", "kind": "enum", "shards": {"quick": 4, "thorough": 4}, "timeout": 900},
        {"name": "C04Fate", "pkg": CC, "test": "TestVerifC04Fate", "kind": "rapid",
         "checks": {"quick": 12, "thorough": 150}, "shards": {"quick": 4, "thorough": 16}, "timeout": {"quick": 900, "thorough": 5400}},
    ],
}

PROPS["C05"] = {
    "level": "exploration",
    "rule": ("the exported Run with observing peer processes (the test binary re-executed as script-client / script-server): mode both (script client + script servers that answer every TCP connect with their identity and log start/SIGTERM), mode client (script client + in-process reference and gRPC servers), mode server (script servers + in-process reference and gRPC clients); per run a config from a pool of 7 feature sets (TLS, client certs, HTTP/3, gRPC-only, include/exclude ...), the embedded corpus or 1-4 generated suites, --run/--skip pattern sets built from real permutation names (exact, *, ** generalisations), --max-servers 1-4, client answer order, GOMAXPROCS in {1,2,16}, optionally a server start fault for one instance tuple. "
             "Oracle from the peers' logs against an independent selection model (own glob matcher, own gRPC-peer rule table): every selected name handed to the client exactly once (zero times and reported if its server could not start), nothing unselected; at hand-over the identity read from host:port is a server started for exactly that permutation's protocol/HTTP version/TLS/client-cert tuple that has not logged a stop, port and certificate in the request are that server's, x-test-case-name (also in raw request headers) equals the name; (grpc server impl) names exactly for applicable cases; #started - #stopped <= max-servers at every instant; every started server stopped and no child process left; one server instance per needed tuple and none superfluous. "
             "Non-trivial: a run with a filter and max-servers < 4."),
    "assumptions": ["for in-process reference servers only TCP reachability of the port is observed (HTTP/3 skipped)",
                    "in server mode deliveries happen inside the in-process reference clients; only server lifecycle and instance selection are observed",
                    "a run that does not return within 5 minutes is inconclusive, not a violation"],
    "units": [
        # client mode over the embedded corpus: hand-over between the two in-process reference server kinds
        {"name": "C05ClientKinds", "pkg": CC, "test": "TestVerifC05ClientKinds", "kind": "enum", "shards": {"quick": 4, "thorough": 8}, "timeout": 900},
        # a server command that cannot be started, more instances than --max-servers: the run ends, nothing passes
        {"name": "C05StartFailures", "pkg": CC, "test": "TestVerifC05StartFailures", "kind": "enum", "timeout": 900},
        # the bound as the built command line sets it: real CLI, --max-servers below --parallel, servers that record when they are alive
        {"name": "C05CLI", "pkg": "cmd/connectconformance", "test": "TestVerifC05CLI", "kind": "enum", "timeout": 1200},
        {"name": "C05Dispatch", "pkg": CC, "test": "TestVerifC05Dispatch", "kind": "rapid", "race": {"quick": False, "thorough": True},
         "checks": {"quick": 40, "thorough": 120}, "shards": {"quick": 4, "thorough": 16}, "timeout": {"quick": 900, "thorough": 5400}},
    ],
}

PROPS["C02"] = {
    "level": "exploration",
    "rule": ("Agreement: whole generated test suites in the deterministic fragment (no delays/timeouts/cancel/raw payloads/size directives): 1-8 cases per suite; per case a stream type, 0-4 requests (exactly 1 for unary/server-stream), request headers and response headers/trailers from non-reserved tokens (lower/mixed case, repeated values, comma and punctuation values, -bin names with base64 values), 0-4 response items of 0-3000 partly incompressible bytes, optional error (code 1-16, message unset/empty/UTF-8 with %, newlines, tabs, non-ASCII; 0-3 details incl. a RequestInfo detail), request payloads 0-3000 bytes; "
             "written as YAML and run through the exported Run with no peer commands (reference client, reference server, gRPC client, gRPC server all in process) under a drawn config (HTTP/1.1 and/or h2c x 3 protocols x 2 codecs x identity + one drawn compression); oracle: Run returns (true, nil) - any FAILED permutation is a disagreement between the derived expectation and the reference peers. "
             "Crash: unrestricted suites (any directive combination, missing names, unspecified stream types, request messages of the wrong type, unknown Any types, too many/too small expand directives, raw payloads in the wrong mode, duplicate names) through parseTestSuites + newTestCaseLibrary in all three modes: a panic is a violation, an error is fine; a native fuzz target does the same from raw YAML bytes seeded with the embedded corpus (thorough). "
             "Non-trivial: a case with an error carrying details, >=2 responses, zero requests, bidi with #responses != #requests, or a repeated/mixed-case/-bin header."),
    "assumptions": ["the recorded finding (known_findings.json: full-duplex with >=2 requests, no responses and an error) is excluded from the generator by construction and counted; its minimal input is executed by the Known unit on every run, which also runs four instances of the formerly recorded second shape (fewer responses than requests, no error; fix 9e063c6), which must pass",
                    "TLS and HTTP/3 are covered by C01; here they would only multiply cost"],
    "units": [
        {"name": "C02Agreement", "pkg": CC, "test": "TestVerifC02Agreement", "kind": "rapid",
         "checks": {"quick": 20, "thorough": 200}, "shards": {"quick": 4, "thorough": 16}, "timeout": {"quick": 900, "thorough": 5400}},
        {"name": "C02Known", "pkg": CC, "test": "TestVerifC02Known", "kind": "enum"},
        {"name": "C02Crash", "pkg": CC, "test": "TestVerifC02Crash", "kind": "rapid",
         "checks": {"quick": 4000, "thorough": 100000}, "shards": {"quick": 2, "thorough": 8}},
        {"name": "C02Fuzz", "pkg": CC, "test": "FuzzVerifC02Suite", "kind": "fuzz", "fuzz_target": "FuzzVerifC02Suite",
         "only_tiers": ["thorough"], "fuzztime": {"thorough": "120s"}, "workers": 16, "timeout": {"thorough": 900}},
    ],
}

PROPS["C01"] = {
    "custom": "c01",
    "level": "exploration",
    "rule": "see c01.py",
    "units": [],
}

# ---- units added while working through the later rounds of seeded changes (DESIGN.md 9.2) ----
_ADDED = {
    "C04": " ServerExit: the server process is gone (status 0 or killed) after k of 3 cases, the cases not sent any more are unmarked / known-failing / known-flaky: no success, each named FAILED. Sideband feedback texts with and without ': ' of their own.",
    "C05": " The runner's printed report is part of the oracle: every FAILED name is a selected permutation, each once, and 'Total cases' equals the selection (shows deliveries to in-process gRPC peers). ClientKinds rows: dying client with servers whose stop takes 0.2 / 1.2 s alternately (all stopped when Run returns); server mode with a raw-request case.",
    "C08": " Exec: run() executed with the in-process connect-go and grpc-go peers over a small gRPC suite, patterns derived from permutation names including the '(grpc ... impl)' components: outcome map == names selected by the reference matcher.",
    "C10": " AtLimit: an answer of exactly 16 MiB is accepted like any other, one byte more is the oversize failure. Process rows with requests larger than an OS pipe buffer.",
    "C11": " OSPeers: a real client process (runCommand) that exits after k of 4 requests of 70 / 300 KiB while the next is being written; server commands that exit without reading their start request: bounded end, one outcome per case.",
    "C13": " BinMeta: 1-4 entries x 1-4 values per -bin key (unpadded / padded / not base64, any case, decoy keys): no feedback iff all values are unpadded base64, otherwise the first feedback names the first offending entry and kind.",
    "C16": " Re-Init of a name whose earlier trace has been handed over is inside the domain (new hand-off); re-Init of a slot still awaited is outside.",
    "C18": " Codec: decoding into a target that held another message (and the empty message into a non-empty target) gives the encoded message. Meta: -bin values that are not base64 are passed on as raw bytes, never dropped.",
    "C19": " Both limit probes also in the JSON codec: JSON text padded with white space to the exact size, sent to the reference server by a plain HTTP client and to the reference client by a plain HTTP responder.",
}
for _pid, _txt in _ADDED.items():
    PROPS[_pid]["rule"] = PROPS[_pid]["rule"] + _txt
_ADDED6 = {
    "C03": " Variants: every embedded case x its grpc-go variants (filterGRPCImplTestCases) x reported code 1-16: accepted iff expected or documented alternative of the base case.",
    "C04": " Printer: feedback lines written by the reference server's real printer (names / messages with %, %d, colons, tabs, unicode) attributed, run fails, case named.",
    "C05": " Client mode: the scripted client's TLS handshake offers h2 and http/1.1 - the server of an HTTP/1.1 permutation does not pick h2 and vice versa.",
    "C06": " An include / exclude entry naming an impossible combination outright must be rejected.",
    "C07": " RunMode: run mode as run() derives it from the peer commands x suites of every mode; Files: --test-file paths with equal base names, nested, relative, absolute.",
    "C08": " Classify: outcomes (also with feedback afterwards) reported known-failing / known-flaky iff a pattern matches.",
    "C09": " ServerResponse: start response at sizes around the 1 MiB limit through the real batch runner, several chunkings.",
    "C10": " Wedged: in-process client that writes a bad answer and never returns: bounded waits, one error callback, sends refused.",
    "C11": " Printer (see C04), ResponseSize (see C09), OSPeers also with an in-process client whose output ends while it keeps reading.",
    "C12": " TLS: real handshakes over HTTP/1.1, 2 and 3 with / without client certificate; BlackBox also against servers started with an HTTP tracer.",
    "C13": " BinE2E: bad -bin header / trailer from the real reference server, every kind of RPC, also cancelled after the first response.",
    "C16": " WireHandOff: the reference client's collector and examiner (setWireTrace / examineWireDetails), under the race detector in both tiers.",
    "C18": " StatusTrailers: the reference server's own gRPC status trio for an error; StatusDecode: the reference client's decoder inverts PercentEncodeMessage.",
    "C20": " ClientWire / ServerWire: the reference peers' compressed requests / responses decode with the independent codec of the announced name.",
}
for _pid, _txt in _ADDED6.items():
    PROPS[_pid]["rule"] = PROPS[_pid]["rule"] + _txt
_ADDED7 = {
    "C04": " ClientFeedback: feedback attached by the reference client to a matching result fails the case whatever the server is.",
    "C09": " Truncation errors must not also match io.EOF; ClientStdin: the reference client's exported Run on truncated input (binary / JSON, live or cancelled context).",
    "C11": " InProcess: reference server that writes to stderr before answering the start request.",
    "C12": " BlackBox: request trailers (flagged), also against traced servers.",
    "C13": " RawE2E family connect-unary-error (absent / explicit identity / real Content-Encoding).",
    "C14": " H2Bodies: the final partial event of a cut body is mandatory however the stream ends; media types in any letter case.",
    "C15": " Header blocks that repeat a field name; response content type independent of the request's; RST_STREAM with any code.",
    "C16": " Op await-dead: waits whose context is over before they begin.",
    "C17": " RawRequest lists a Content-Length for bodies of known size > 0.",
    "C18": " StatusTrailers also checks the gRPC-Web trailer block with response trailers that repeat keys.",
    "C19": " LimitServer also against the grpc-go reference server.",
    "C20": " RawPayload also as a raw stream item with computed / explicit length.",
}
for _pid, _txt in _ADDED7.items():
    PROPS[_pid]["rule"] = PROPS[_pid]["rule"] + _txt
_ADDED8 = {
    "C03": " Response data up to a few kB; one byte altered at the very end / beginning.",
    "C04": " FeedbackRace: feedback reported while the case's own answer is held back until another server's batch has ended (--max-servers 2).",
    "C07": " NameCollision: nested suite names that spell the same full name must be reported.",
    "C08": " Classify also for names that only ever get feedback.",
    "C09": " EmptyMessage: zero-length frames over an io.Pipe, then a quiet peer.",
    "C10": " Resend: a name handed to the same client again after it was answered; garbage prefixes >= 2^31.",
    "C11": " InProcess: a server whose start response is the empty message.",
    "C13": " RawE2E: code names outside the 16.",
    "C14": " Bodies: handler that panics after a partial response; compressed end-stream payloads that are not valid streams.",
    "C15": " Listener: two connections of one TracingHTTP2Listener.",
    "C16": " Handed-over traces are re-read at the end of every sequence; RetryTimer also with a connection ended by the peer and then closed.",
    "C17": " Raw response status codes up to 999.",
}
for _pid, _txt in _ADDED8.items():
    PROPS[_pid]["rule"] = PROPS[_pid]["rule"] + _txt
_ADDED9 = {
    "C04": " Table / Random spell the markings as full names, as a literal next to a wildcard at the same level, or as **/name next to a literal for another case.",
    "C05": " Dispatch: stale TLS material on generated requests; the TLS axis spelled in a name agrees with the server instance the permutation is filed under.",
    "C07": " Expansion: service / method spelled out as empty strings.",
    "C09": " ClientStall: the runner's reader of a client that answers k requests and then stalls (nothing / inside the prefix / inside the message).",
    "C11": " Batch: outcomes at the batch's return are final (answers logged through a slow printer); the report afterwards keeps setup errors and failures.",
    "C12": " Shutdown: stop signal while a request is being uploaded; the trailer feedback still reaches stderr (HTTP/1.1, TLS HTTP/2).",
    "C13": " Malformed: malformations at the edge of a trailer value; null-valued members of an error detail.",
    "C14": " Bodies: the printed form of the trace agrees with its events.",
    "C15": " RetryTimer (shared with C16), also with a slow collector; Exchange: HPACK dynamic-table size changes in either direction.",
    "C16": " RunnerHandOff: the batch runner with a tracer - a trace completed before / right after the request is handed over reaches the report, also under GOMAXPROCS(1).",
    "C17": " RawRequest in place of unary, client-stream, server-stream, half- and full-duplex bidi calls.",
    "C18": " GRPCClientMeta: response metadata reported by the gRPC reference client for every kind of RPC (in-process gRPC reference server).",
    "C20": " ServerWire: with the runner's number for the encoding, the server's own compression check stays silent.",
}
for _pid, _txt in _ADDED9.items():
    PROPS[_pid]["rule"] = PROPS[_pid]["rule"] + _txt
_ADDED10 = {
    "C03": " Echoed requests that differ only by a field the message type does not define.",
    "C05": " ClientKinds: the TLS + client-certificate configuration ten times (map order of the server instances).",
    "C08": " Run also with a gRPC config case and patterns over the (grpc server impl) names.",
    "C09": " ClientResponseSize: answers of 1 MiB +-1, 16 MiB -1 / 0 / +1 through the runner's reader.",
    "C11": " Pass-through stderr lines with percent signs.",
    "C15": " Exchange: 25 kB request header lists; GOAWAY preceded by the announcing one.",
    "C16": " H2Once: the C15 conversations judged on 'completed exactly once'.",
    "C17": " RawRequest paths with dot segments, double and trailing slashes.",
    "C19": " LimitServer also as a Connect GET.",
    "C20": " WireEndStream: compressed end-of-stream messages of 0 .. 1 MiB through the body tracer (C14 driver).",
}
for _pid, _txt in _ADDED10.items():
    PROPS[_pid]["rule"] = PROPS[_pid]["rule"] + _txt
_ADDED11 = {
    "C04": " ServerModeFeedback: exported Run in server mode, OS-process server whose correct answers carry an HTTP trailer: the reference client's feedback fails every case.",
    "C05": " CLI: the real command line with --max-servers below --parallel; servers under test record when they are alive.",
    "C09": " ServerStall: a start response that stalls; setup errors within the server period.",
    "C11": " Start responses with top-bit length prefixes / a byte-order mark.",
    "C13": " Any-shaped debug data with default and multi-slash type URLs.",
    "C15": " Exchange: request paths with queries, also with a literal '?' inside.",
    "C17": " RawRequest paths with percent-encoded reserved characters.",
    "C19": " Expand: messages with minimum size 0 (target size 0 reachable).",
    "C20": " Flips: every single-bit flip / cut / trailing bytes of one stream per encoding, then valid streams on the same instance.",
}
for _pid, _txt in _ADDED11.items():
    PROPS[_pid]["rule"] = PROPS[_pid]["rule"] + _txt
_ADDED12 = {
    "C02": " Known also runs the recorded shape with surplus requests (3/1, 4/2): only Connect permutations may fail, with the recorded error.",
    "C03": " Deviation: the values of a repeated field in another order.",
    "C05": " StartFailures: a server command that cannot be started; scripted servers that leave their host empty.",
    "C07": " NameCollision: same-name suites of which one applies: the same answer in 120 repetitions.",
    "C08": " Pattern files that are named pipes.",
    "C09": " ClientStdout: the reference client's output under -p 4 with a slow pipe: intact frames, one per request.",
    "C11": " InProcess: a failing in-process reference server's error line reaches the error printer.",
    "C12": " MethodProtocol: protocol feedback by content type for GET and POST.",
    "C13": " lf-first; traces with Err set are still examined.",
    "C14": " Bodies with the other protocol family's encoding header as a decoy.",
    "C16": " ServerWriteFails: middleware + handler whose Write fails, then trailers: completed once, trace untouched afterwards.",
    "C17": " E2E: broken request tails after the message that prescribes the raw response.",
    "C19": " Expand: suites relevant to more than the proto codec with size directives are rejected.",
    "C20": " Reset-only histories; compressors never close their sink.",
}
for _pid, _txt in _ADDED12.items():
    PROPS[_pid]["rule"] = PROPS[_pid]["rule"] + _txt
_ADDED13 = {
    "C02": " The second recorded shape (full-duplex, fewer responses than requests, no error) is repaired (fix 9e063c6) and generated like any other case.",
    "C05": " CLI: --port without --max-servers in client mode, reference client as client under test.",
    "C06": " Configs without any features key.",
    "C07": " Suites whose open axes are empty lists.",
    "C13": " Status / details messages that differ only by edge white space other than space and tab; BinE2E also with calls that end in an error.",
    "C14": " H2 exchanges whose connection fails to close.",
    "C17": " Encoders after an earlier failed write; raw request methods in any letter case.",
}
for _pid, _txt in _ADDED13.items():
    PROPS[_pid]["rule"] = PROPS[_pid]["rule"] + _txt
