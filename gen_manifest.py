#!/usr/bin/env python3
"""Regenerates MANIFEST.json from props.py (checks) and manifest_meta.py (texts)."""
import json, os, sys
sys.path.insert(0, os.path.dirname(os.path.abspath(__file__)))
from props import PROPS
from manifest_meta import META, NOT_APPLICABLE

checks = []
for pid in sorted(PROPS):
    m = META[pid]
    checks.append({
        "property_id": pid,
        "quick_cmd": "./check %s --tier quick" % pid,
        "thorough_cmd": "./check %s --tier thorough" % pid,
        "evidence_file": "/verif/evidence/%s.json" % pid,
        "replay_cmd_template": "./check %s --replay {path}" % pid,
        "engine": "rapid+enum",
        "level_claimed": {"category": PROPS[pid].get("level", m.get("category", "exploration")), "text": m["text"], "design_ref": "DESIGN.md section 4, " + pid},
        "level_note": m["note"],
        "technique": m["technique"],
    })
manifest = {
    "version": 1,
    "setup_cmd": "./setup.sh",
    "hooks": {
        "guard": "verif",
        "enable": "go test -c -tags verif -overlay build/<ID>/overlay.json -modfile build/<ID>/alt.mod (harness files are injected by overlay; /repo carries no hook code)",
        "baseline_off_cmd": "cd /repo && GOFLAGS=-mod=mod go test -json -vet=off -count=1 -timeout 25m ./...",
        "source_commits": [],
        "add_only": True,
    },
    "engines": [{"name": "rapid+enum", "path": "/verif/check", "serves_properties": sorted(PROPS),
                 "kind_free_text": "python driver building in-package Go test binaries (overlay) that run pgregory.net/rapid properties, bounded-exhaustive enumerations and native Go fuzz targets against /repo's working tree"}],
    "checks": checks,
    "not_applicable": [{"property_id": k, "reason": v} for k, v in sorted(NOT_APPLICABLE.items()) if k not in PROPS],
    "notes": "All checks: exit 0 held, 1 violated (VIOLATION lines), 2 inconclusive (harness build failure, timeout). See DESIGN.md.",
}
with open(os.path.join(os.path.dirname(os.path.abspath(__file__)), "MANIFEST.json"), "w") as f:
    json.dump(manifest, f, indent=1)
print("wrote MANIFEST.json with", len(checks), "checks")
