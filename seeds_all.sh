#!/bin/sh
# usage: seeds_all.sh <tier> <seed> [ids...]   - runs every check at the given VERIF_SEED in a scratch dir (committed evidence untouched)
cd /verif
export GOFLAGS=-mod=mod GOPROXY=off GOSUMDB=off GOTOOLCHAIN=local
TIER=$1; SEED=$2; shift 2
IDS="$@"
[ -n "$IDS" ] || IDS="C01 C02 C03 C04 C05 C06 C07 C08 C09 C10 C11 C12 C13 C14 C15 C16 C17 C18 C19 C20"
mkdir -p work
for id in $IDS; do
  s=$(date +%s)
  VERIF_SEED=$SEED VERIF_SCRATCH=/tmp/verif-mut/seed$SEED ./check $id --tier $TIER > work/seed${SEED}_${TIER}_$id.log 2>&1
  rc=$?
  echo "seed=$SEED $TIER $id exit=$rc wall=$(( $(date +%s)-s ))s $(grep -E '^(VIOLATION|INCONCLUSIVE)' work/seed${SEED}_${TIER}_$id.log | head -3 | cut -c1-200 | tr '\n' ' ')"
done
rm -rf /tmp/verif-mut/seed$SEED
