#!/bin/sh
# usage: mut.sh <ID> <file-in-repo> <python-replace-old> <python-replace-new> [extra check args]
# Applies a textual mutation to /repo/<file>, runs the check, restores the file. For sensitivity testing only.
ID=$1; FILE=$2; OLD=$3; NEW=$4; shift 4
export GOFLAGS=-mod=mod GOPROXY=off GOSUMDB=off GOTOOLCHAIN=local
python3 - "$FILE" "$OLD" "$NEW" <<'PY'
import sys
p='/repo/'+sys.argv[1]
s=open(p).read()
if sys.argv[2] not in s:
    print("MUTATION TARGET NOT FOUND"); sys.exit(3)
open(p,'w').write(s.replace(sys.argv[2],sys.argv[3],1))
PY
[ $? -eq 0 ] || exit 3
(cd /repo && go build ./... 2>&1 | head -5)
/verif/check $ID "$@" 2>&1 | grep -E "^(VIOLATION|INCONCLUSIVE|property=|KNOWN)" | cut -c1-300 | head -8
echo "exit=$?"
git -C /repo checkout -- "$FILE"
