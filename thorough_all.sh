#!/bin/sh
# Runs the thorough tier of every property in turn (or the ids given), one summary line each.
cd /verif
export GOFLAGS=-mod=mod GOPROXY=off GOSUMDB=off GOTOOLCHAIN=local
IDS="$@"
[ -n "$IDS" ] || IDS="C20 C18 C09 C08 C07 C06 C12 C13 C17 C19 C10 C11 C16 C14 C15 C03 C04 C05 C02 C01"
mkdir -p work
for id in $IDS; do
  s=$(date +%s)
  ./check $id --tier thorough > work/thorough_$id.log 2>&1
  rc=$?
  e=$(date +%s)
  echo "$id exit=$rc wall=$((e-s))s $(grep -E '^(VIOLATION|INCONCLUSIVE|KNOWN)' work/thorough_$id.log | head -3 | tr '\n' ' ')"
done
