META = {}
NOT_APPLICABLE = {}
for _i in range(1, 21):
    NOT_APPLICABLE["C%02d" % _i] = "check not built yet in this round (planned, see DESIGN.md section 4)"

META["C08"] = {
    "text": "Bounded-exhaustive comparison of the trie matcher with a reference glob matcher (all patterns over {a,b,*,**} up to length 4, singly and in pairs, against all names up to length 4) plus random larger sets, run/skip composition, marking-ambiguity and unmatched-pattern rejection through the real run(), and flag/@file collection through argsToPatterns and the real CLI. Exploration: no absence proof beyond the enumerated bounds.",
    "note": "Trusts the 10-line reference matcher and the documented pattern-file format; names without empty or wildcard components.",
    "technique": "property-based testing (rapid) + bounded-exhaustive enumeration against a reference model",
}

META["C06"] = {
    "text": "parseConfig is compared, as a set, with an independent set-comprehension model of the documented defaults, validity rules and include/exclude semantics on randomly constructed Config messages (incl. entries with omitted fields) and on the enumerated space of version/protocol/stream-type subsets x all 3^7 flag assignments; plus model-free validity of every returned case and metamorphic relations. Exploration: sampled, except the enumerated flag sub-space in the thorough tier.",
    "note": "Trusts the ~150-line reference model (written from docs/config.proto); tolerates rejection of individually unsatisfiable entries; goes through the YAML parser.",
    "technique": "property-based testing (rapid) against a reference model + bounded-exhaustive enumeration + metamorphic relations",
}

META["C03"] = {
    "text": "Metamorphic testing of the result assertion: the actual result is the expected one under one labelled deviation (must fail and name the class) composed with labelled lenient rewrites (must keep the verdict), over generated expectations and every distinct expectation of the expanded embedded corpus; the corpus x every applicable deviation x every position is enumerated completely. Exploration of an unbounded input space by seeded generation with shrinking.",
    "note": "Trusts the deviation/leniency catalogue written from the statement and docs; unique header names; no detail reordering; first-payload-only request-info comparison as documented in the code.",
    "technique": "property-based metamorphic testing (rapid) + enumeration of corpus expectations x deviations",
}

META["C09"] = {
    "text": "Round-trip and fault-injection testing of the length-prefixed and JSON stream framing: generated message sequences through readers with constructed Read boundaries, truncation points, oversize prefixes and stalls; the oracle is exact round trip plus the documented end-of-input / unexpected-end / size-limit / timeout-progress behaviour. Exploration by seeded generation with shrinking.",
    "note": "Stall timing is asserted one-sided (>= timeout) with generous upper bounds; zero-length Reads never block; codec stream decoders have no size limit by design.",
    "technique": "property-based round-trip and fault-injection testing (rapid)",
}

META["C18"] = {
    "text": "Round-trip laws (proto<->Connect error, proto<->gRPC status, header list<->gRPC metadata/outgoing context/http.Header, percent-encoding with an independent decoder, strict codecs incl. unknown-field rejection for every wire type) checked on generated errors, header lists, byte strings and protoreflect-generated conformance messages. Exploration of unbounded input spaces by seeded generation with shrinking.",
    "note": "Trusts connect-go/grpc-go/protobuf-go as pinned; in-place mutation of conversion inputs is not asserted; type-URL prefix normalisation is allowed.",
    "technique": "property-based round-trip testing (rapid)",
}

META["C20"] = {
    "text": "Model-based (state-machine) testing of pooled compressor/decompressor reuse for all six encodings with connect-go's exact Get/Put call sequence: random histories up to length 12 and all histories up to length 3 (quick) / 4 (thorough) over a 10-operation alphabet, including malformed decodes immediately before valid ones; outputs are cross-checked against the stdlib/third-party codecs called directly, which also pins name-to-algorithm mapping. Exploration; the bounded history space is enumerated completely.",
    "note": "Trusts the independent stdlib/third-party encoders/decoders and the pool call sequence copied from connect-go v1.18.1; malformed input is only required not to crash.",
    "technique": "stateful property-based testing (rapid) + bounded-exhaustive history enumeration with differential oracle",
}

META["C14"] = {
    "text": "Body tracing is checked through the exported TracingRoundTripper/TracingHandler wrappers on all four sides against a reference envelope parser (exact data events, end-stream content decompressed iff the compressed flag is set, partial events with the byte count seen, one body-end), for two independent partitions of the same bytes, and differentially against the unwrapped run of the same script for transparency. Exploration by seeded generation with shrinking.",
    "note": "Trusts the 40-line reference parser and independent decoders; scripted readers/writers own all I/O so runs are deterministic.",
    "technique": "property-based testing (rapid) against a reference model + metamorphic partition relation + differential transparency check",
}

META["C16"] = {
    "text": "Model-based testing of the trace hand-off: every sequence of the atomic operations Init/Complete/Await/Clear/Cancel up to length 5 (quick) / 6 (thorough) over 2 names and 2 waiters is executed against the real Tracer, linearised by a signalling context, and compared with a sequential slot model; builder event orders are enumerated to length 5/6 and exercised from 2-4 goroutines; the exported round-tripper is run with racing response-error/cancel/body-end/early-close events. Thorough tier builds with the race detector. Exploration with exhaustively enumerated bounded sub-spaces; real goroutine schedules are perturbed, not enumerated.",
    "note": "Each Tracer operation is atomic under its mutex (the enumeration relies on it); re-Init of a live slot is outside the domain; schedule-dependent failures are reported with the full history but cannot be shrunk.",
    "technique": "stateful model-based testing: bounded-exhaustive operation sequences + rapid random sequences + concurrency perturbation under -race",
}

META["C15"] = {
    "text": "The HTTP/2 connection wrapper is (a) compared call-by-call with the unwrapped scripted connection on arbitrary, corrupted and truncated byte streams with injected short writes, timeouts and errors (plus a coverage-guided native fuzz target in the thorough tier), and (b) driven with generated well-formed multi-stream exchanges (shared HPACK state, CONTINUATION, padding, trailers in both directions, resets, refusal+retry, GOAWAY, streams open at close) under drawn frame interleavings and two byte partitions; traces are compared with a per-stream reference (request line/headers, reference-parsed messages, status/headers/trailers, final event). Exploration by seeded generation with shrinking.",
    "note": "Frames are produced with x/net/http2's Framer and hpack encoder (trusted); 1xx responses and client GOAWAY are only covered by the byte-level part; the 3 s retry timer path is avoided by always closing the connection.",
    "technique": "property-based testing (rapid) with a reference model + differential transparency check + native coverage-guided fuzzing",
}

META["C17"] = {
    "text": "Raw HTTP payloads are checked at three depths: the body encoders against an independent envelope parser and third-party decompressors; the raw-vs-handler arbitration as a state machine over the real middleware against a two-absorbing-state model and the unwrapped handler; and end to end over real HTTP/1.1 and h2c sockets - a plain HTTP client against a reference server started through the exported entry point (unary and all streaming handlers), and the exported reference client against a plain recording server for raw requests. Exploration by seeded generation with shrinking.",
    "note": "Trusts net/http and x/net/http2 as plain peers and the independent decoders; header/trailer names that net/http itself manages and bodiless status codes are outside the domain.",
    "technique": "property-based testing (rapid): round-trip with independent decoder, stateful model-based arbitration check, end-to-end differential observation by plain HTTP peers",
}

META["C19"] = {
    "text": "expandRequestData is checked on generated requests and offsets concentrated around zero, every varint boundary of the padding length and the message minimum: exact size on success, rejection only when a brute-force search proves the size unreachable, no other field touched. The sharpness of the limit is checked end to end: the exported reference client against an in-process reference server (3 protocols x 6 compressions, unary and client-stream) and against a plain HTTP responder (Connect unary/stream, gzip or not) with messages of exactly limit-1, limit, limit+1 uncompressed bytes. Exploration by seeded generation with shrinking.",
    "note": "Trusts connect-go's limit enforcement as pinned; compressible padding under compression; response sizes unreachable because of nested length prefixes are skipped.",
    "technique": "property-based testing (rapid) with brute-force reachability oracle + end-to-end boundary-value generation",
}

META["C12"] = {
    "text": "The reference server's request checks are run over the complete expected x actual matrix (432 x 432 setups, enumerated) with synthesised well-formed requests and a recording printer: the set of aspects named in feedback must equal the set of differing aspects; repeated requests, request trailers and a missing test name are generated on top. Timeout headers are enumerated over a hostile alphabet and all digit-count boundaries and compared with the protocol grammars and a big-integer duration model; a black-box unit repeats a sample over real HTTP/1.1 and h2c sockets reading the server's stderr and the echoed timeout. Exploration with exhaustively enumerated sub-spaces.",
    "note": "Requests are synthesised with httptest (ProtoMajor/TLS state set directly) for the matrix; TLS and HTTP/3 transports themselves are exercised by C01, not here.",
    "technique": "bounded-exhaustive enumeration + property-based testing (rapid) against a reference grammar/model, black-box sample over real sockets",
}

META["C13"] = {
    "text": "The reference client's wire examiners are checked in both directions: independent spec-conformant renderers of the four wire forms must draw no feedback for any generated error/metadata (directly and through examineWireDetails in a synthetic trace), each of ~70 catalogued single malformations must draw feedback naming its class, everything the in-process reference server emits (incl. its raw gRPC/gRPC-Web trailer encoders) must pass when fetched by the exported reference client over all protocols/codecs/stream types, and arbitrary/mutated bytes must never crash an examiner (rapid + native fuzz). Exploration by seeded generation with shrinking.",
    "note": "Trusts the independent renderers written from the Connect/gRPC specs; the malformation catalogue covers the classes the statement names, one operator at a time.",
    "technique": "property-based testing (rapid): positive and negative oracle over independent renderers, end-to-end differential check, native fuzzing for crash-freedom",
}

META["C07"] = {
    "text": "Suite expansion is compared with an executable form of the statement's iff and the documented name format on generated suites x config-case sets x run modes: exact key-set equality both ways, request markers, default service/method, single server group per permutation, identical results over repeated expansions on fresh maps, and gRPC-peer applicability with marked names against a rule table. Exploration by seeded generation with shrinking.",
    "note": "Config-case sets come from parseConfig (checked by C06); connect_version_mode unspecified; the gRPC-peer rule table is taken from the code comments because the docs do not spell it out.",
    "technique": "property-based testing (rapid) against a reference predicate/model",
}

META["C10"] = {
    "text": "The client multiplexer is driven with an in-process scripted client whose output stream is generated (answer order, injected duplicate/unknown/oversize/garbage frames, a cut at any byte, exit status) while 1-4 goroutines send concurrently under drawn yields and GOMAXPROCS; invariants over the recorded history (exactly-once callbacks, own response, no phantom or lost answers, refusal after failure, isRunning, termination within a bound the harness owns). Thorough tier runs under the race detector. Exploration of schedules by perturbation, not enumeration.",
    "note": "In-memory pipes and a context-honouring scripted client make every delay the harness's own; the runner's fixed 20 s silent-client timeout is not exercised; schedule-dependent failures print the full history.",
    "technique": "property-based testing (rapid) with fault injection over the peer's output stream and history invariants, concurrency perturbation under -race",
}

META["C11"] = {
    "text": "Fault-sequence generation over a server batch: every start fault, death after k of n sends, client pipe failure at send k and missing results, under three callback delivery disciplines and mixed per-case verdicts, driven through runTestCasesForServer with fake processes and a contract-respecting fake client; the oracle is the exactly-one-outcome / setup-error / own-verdict / stop / side-band model. The fault positions are drawn over all k for batches up to 8. Thorough tier adds the real 10 s never-answers timeout and the race detector.",
    "note": "Fake process controllers invoke whenDone hooks synchronously so that the fault point is deterministic; the client contract (a callback for every accepted request) is assumed from C10.",
    "technique": "property-based fault injection (rapid) against a reference outcome model",
}

META["C04"] = {
    "text": "The verdict and accounting of a run are checked (1) as a complete truth table over outcome kind x marking x peer feedback for up to 3 (quick) / 4 (thorough) cases through the real results API against a model of the statement, with totals and FAILED/INFO naming parsed from the printed report, plus random larger tables; and (2) through the exported Run with a re-executed scripted client process realising per-case results and process fates (exit 0/1 after k of n requests, exit while the server starts, garbage, duplicate answers, real reference-server feedback) against in-process reference servers. Exploration with an exhaustively enumerated table.",
    "note": "An external client's early exit is only noticed by the runner at its next write (os/exec semantics), so the could-not-run branch of report() is decided by the table unit, not by the process unit; silent long-running clients are bounded by the runner's 20 s timeout and avoided.",
    "technique": "bounded-exhaustive truth-table enumeration + property-based process-fate injection (rapid) against a reference verdict model",
}

META["C05"] = {
    "text": "Dispatch is observed from outside: the exported Run is executed with the test binary re-executed as observing client and server processes (and with in-process reference peers in client/server mode) over drawn configs, suites, --run/--skip pattern sets, --max-servers, answer orders, GOMAXPROCS and server start faults; the peers' logs are checked against an independent selection model for exactly-once hand-over, matching live server with the right address/certificate/test-name header, gRPC-peer names, the max-servers bound, stop of every server and absence of leftover processes. Thorough tier under the race detector. Schedules are perturbed, not enumerated.",
    "note": "The permutation universe comes from the expansion code (checked by C07), selection and gRPC applicability are modelled independently; for in-process reference servers only TCP reachability is observed; server-mode deliveries are observable over cleartext HTTP/1.1 only.",
    "technique": "property-based black-box testing (rapid) with observing peer processes and a reference selection model, concurrency perturbation under -race",
}

META["C02"] = {
    "text": "Whole test suites in the deterministic fragment are generated (all stream types, 0-4 requests/responses, repeated/mixed-case/binary headers and trailers, arbitrary payload sizes, errors with hostile messages and details) and run through the exported Run with all four in-process peers under a drawn config; any FAILED permutation is a disagreement between the derived expectation and the reference peers and shrinks to a minimal suite. A second generator and a native fuzz target throw mostly-valid suites with rare wild aspects at loading/expansion in all modes, where only a panic is a violation. Two recorded findings are excluded by construction and re-executed by a dedicated regression unit. Exploration by seeded generation with shrinking.",
    "note": "A suite run costs ~1 s, so the quick tier samples ~80 suites (~10^3 permutations); half-duplex over HTTP/1.1 is exercised for the reference pair only; TLS/HTTP/3 belong to C01.",
    "technique": "property-based end-to-end testing (rapid) with the runner's own verdict as oracle + crash-freedom generation and native fuzzing",
}

META["C01"] = {
    "text": "The five offline runs of `make runconformance` are executed with binaries built from the current tree: reference server (server mode), reference client (client mode), grpcserver under its two configs and grpcclient, each with its shipped known-failing file. The runner is the oracle (exit 0, totals equal the computed permutations, no FAILED line, known-failing lists exact - re-checked from the output with an own glob matcher, reference lists empty); unexpected failures are re-run in isolation to separate timing flakes. The thorough tier enumerates the finite permutation space completely (12,998 + 16,580 + 372 + 339 + 451 cases); the quick tier covers the gRPC-peer runs in full and a seeded sub-matrix of the reference runs.",
    "note": "Third-party stacks (connect-go, grpc-go, quic-go, net/http) are part of the system under test as pinned by go.sum; the TypeScript gRPC-Web client run cannot execute offline.",
    "technique": "exhaustive enumeration of the finite configuration space by the repository's own permutation expander, runner verdict as oracle (degenerate generated-input search)",
}
