#!/bin/sh
# Run once after a fresh restore: creates scratch dirs and warms the Go build cache.
set -e
cd "$(dirname "$0")"
mkdir -p build work evidence
export GOFLAGS=-mod=mod GOPROXY=off GOSUMDB=off GOTOOLCHAIN=local
(cd /repo && go build ./... ) || true
exit 0
