//go:build verif

package main

import "os"

func init() {
	// VERIF_MAIN=1 turns the test binary into the real connectconformance CLI
	// (black-box runs of main() without a separately built binary).
	if os.Getenv("VERIF_MAIN") == "1" {
		main()
		os.Exit(0)
	}
}
