//go:build verif

package main

import (
	"bytes"
	"fmt"
	"os"
	"os/exec"
	"path/filepath"
	"sort"
	"strings"
	"sync/atomic"
	"syscall"
	"testing"

	"connectrpc.com/conformance/internal/verifkit"
	"pgregory.net/rapid"
)

// vfArg is one occurrence of a pattern flag: a literal pattern or an @file.
type vfArg struct {
	Literal string   `json:"literal,omitempty"`
	IsFile  bool     `json:"isFile,omitempty"`
	Lines   []string `json:"lines,omitempty"` // raw lines of the file
	NoEOL   bool     `json:"noEOL,omitempty"` // file does not end in a newline
	Empty   bool     `json:"emptyName,omitempty"`
	Bad     string   `json:"bad,omitempty"` // "dir": the @path is a directory; "missing": it does not exist
	// Fifo: the @path is a named pipe that delivers the lines (as `--known-failing @<(generate)` does): a file whose
	// size is not known beforehand
	Fifo bool `json:"fifo,omitempty"`
}

type vfC08ArgsCase struct {
	Flag string  `json:"flag"`
	Args []vfArg `json:"args"`
}

// vfModelPatterns is the documented collection rule: literals as given, files
// line by line with surrounding whitespace dropped, blank lines and #-comments
// ignored; everything concatenated in order.
func vfModelPatterns(args []vfArg) []string {
	out := []string{}
	for _, a := range args {
		if !a.IsFile {
			out = append(out, a.Literal)
			continue
		}
		if a.Empty {
			continue
		}
		for _, l := range a.Lines {
			l = strings.TrimSpace(l)
			if l == "" || strings.HasPrefix(l, "#") {
				continue
			}
			out = append(out, l)
		}
	}
	return out
}

func vfMaterialise(dir string, args []vfArg) ([]string, error) {
	var out []string
	for i, a := range args {
		if !a.IsFile {
			out = append(out, a.Literal)
			continue
		}
		if a.Empty {
			out = append(out, "@")
			continue
		}
		if a.Bad == "dir" {
			out = append(out, "@"+dir)
			continue
		}
		if a.Bad == "missing" {
			out = append(out, "@"+filepath.Join(dir, "no-such-file.txt"))
			continue
		}
		path := filepath.Join(dir, fmt.Sprintf("patterns-%d.txt", i))
		content := strings.Join(a.Lines, "\n")
		if !a.NoEOL && len(a.Lines) > 0 {
			content += "\n"
		}
		if a.Fifo {
			// (a name of its own for every pipe ever made: a writer that is late must not meet the reader of a later case)
			path = filepath.Join(dir, fmt.Sprintf("patterns-%d-%d.txt.fifo", i, vfFifoSeq.Add(1)))
			_ = os.Remove(path)
			if err := syscall.Mkfifo(path, 0o644); err != nil {
				return nil, err
			}
			go func(path, content string) {
				// (blocks until the reader opens the pipe; released by vfReleaseFifos if nobody ever does)
				if f, err := os.OpenFile(path, os.O_WRONLY, 0); err == nil {
					_, _ = f.WriteString(content)
					_ = f.Close()
				}
			}(path, content)
		} else if err := os.WriteFile(path, []byte(content), 0o644); err != nil {
			return nil, err
		}
		out = append(out, "@"+path)
	}
	return out, nil
}

var vfFifoSeq atomic.Int64

// vfReleaseFifos unblocks writers of named pipes nobody opened.
func vfReleaseFifos(args []string) {
	for _, a := range args {
		if strings.HasSuffix(a, ".fifo") {
			if f, err := os.OpenFile(strings.TrimPrefix(a, "@"), os.O_RDONLY|syscall.O_NONBLOCK, 0); err == nil {
				_ = f.Close()
			}
		}
	}
}

// (test names of a user's own --test-file suite may contain commas, quotes and other punctuation)
var vfPatternWords = []string{"zz/a", "zz/*/b", "zz/**", "**/zz-none", "zz q/with space/*", "zz/a*", "zz/b/c/d", "zz-1", "zz/**/x",
	"zz/unary, with deadline", "zz/a,b", `zz/"quoted" case`, "zz/semi;colon=x"}

func vfGenArgs(t *rapid.T) vfC08ArgsCase {
	c := vfC08ArgsCase{Flag: rapid.SampledFrom([]string{"run", "skip", "known-failing", "known-flaky"}).Draw(t, "flag")}
	n := rapid.IntRange(1, 5).Draw(t, "nargs")
	counter := 0
	for i := 0; i < n; i++ {
		var a vfArg
		if rapid.IntRange(0, 2).Draw(t, "kind") == 0 {
			a.IsFile = true
			if rapid.IntRange(0, 9).Draw(t, "emptyname") == 0 {
				a.Empty = true
			} else if rapid.IntRange(0, 14).Draw(t, "badfile") == 0 {
				a.Bad = rapid.SampledFrom([]string{"dir", "missing"}).Draw(t, "bad")
			} else {
				nl := rapid.IntRange(0, 5).Draw(t, "nlines")
				for j := 0; j < nl; j++ {
					switch rapid.IntRange(0, 6).Draw(t, "linekind") {
					case 0:
						a.Lines = append(a.Lines, "")
					case 1:
						a.Lines = append(a.Lines, "  \t ")
					case 2:
						a.Lines = append(a.Lines, "# comment "+rapid.SampledFrom(vfPatternWords).Draw(t, "cw"))
					case 3:
						a.Lines = append(a.Lines, " \t# indented comment")
						if rapid.IntRange(0, 3).Draw(t, "longline") == 0 {
							// a very long line (a generated banner, a pasted list): longer than any line buffer
							a.Lines[len(a.Lines)-1] = "# " + strings.Repeat("long comment ", 6000)
						}
					default:
						counter++
						w := fmt.Sprintf("%s/n%d", rapid.SampledFrom(vfPatternWords).Draw(t, "w"), counter)
						switch rapid.IntRange(0, 3).Draw(t, "pad") {
						case 0:
							w = "  " + w
						case 1:
							w += " \t"
						case 2:
							w += "\r"
						}
						a.Lines = append(a.Lines, w)
					}
				}
				a.NoEOL = rapid.Bool().Draw(t, "noeol")
				a.Fifo = rapid.IntRange(0, 5).Draw(t, "fifo") == 0
			}
		} else {
			counter++
			a.Literal = fmt.Sprintf("%s/n%d", rapid.SampledFrom(vfPatternWords).Draw(t, "w"), counter)
		}
		c.Args = append(c.Args, a)
	}
	return c
}

func vfArgsClassify(c vfC08ArgsCase) ([]string, bool) {
	files, fileNotLast := 0, false
	for i, a := range c.Args {
		if a.IsFile {
			files++
			if i < len(c.Args)-1 {
				fileNotLast = true
			}
		}
	}
	var cl []string
	if files > 0 {
		cl = append(cl, "has-file")
	}
	if files > 1 {
		cl = append(cl, "multi-file")
	}
	if fileNotLast {
		cl = append(cl, "file-not-last")
	}
	return cl, len(c.Args) >= 2 && fileNotLast
}

// TestVerifC08Args: the pattern list handed to the runner is the concatenation,
// in order, of all flag occurrences (literals and @file lines).
func TestVerifC08Args(t *testing.T) {
	dir, err := os.MkdirTemp(".", "c08args")
	if err != nil {
		t.Fatal(err)
	}
	defer os.RemoveAll(dir)
	dir, _ = filepath.Abs(dir)
	verifkit.Run(t, "C08Args", verifkit.Spec[vfC08ArgsCase]{
		Gen: vfGenArgs,
		Check: func(c vfC08ArgsCase) error {
			args, err := vfMaterialise(dir, c.Args)
			defer vfReleaseFifos(args)
			if err != nil {
				return nil // harness I/O problem, not a verdict
			}
			got, err := argsToPatterns(args)
			for _, a := range c.Args {
				if a.Bad != "" {
					// a pattern file that cannot be read must not be skipped silently: its patterns would not take part
					if err == nil {
						return verifkit.Violf("args-unreadable-file-accepted", "argsToPatterns(%q) = %q without an error although one @path is %s", args, got, a.Bad)
					}
					return nil
				}
			}
			if err != nil {
				return verifkit.Violf("args-error", "argsToPatterns(%q) failed: %v", args, err)
			}
			want := vfModelPatterns(c.Args)
			if fmt.Sprintf("%q", got) != fmt.Sprintf("%q", want) {
				return verifkit.Violf("args-dropped", "argsToPatterns(%q) = %q, want every supplied pattern in order: %q", args, got, want)
			}
			return nil
		},
		Classify: vfArgsClassify,
	})
}

// TestVerifC08CLI: black box. All supplied patterns match nothing (they start
// with zz), so the CLI must fail and list exactly the supplied patterns.
func TestVerifC08CLI(t *testing.T) {
	dir, err := os.MkdirTemp(".", "c08cli")
	if err != nil {
		t.Fatal(err)
	}
	defer os.RemoveAll(dir)
	dir, _ = filepath.Abs(dir)
	self, err := os.Executable()
	if err != nil {
		t.Fatal(err)
	}
	truePath, err := exec.LookPath("true")
	if err != nil {
		t.Skip("no `true` binary")
	}
	what := map[string]string{"run": "run patterns", "skip": "no-run patterns", "known-failing": "known failing", "known-flaky": "known flaky"}
	verifkit.Run(t, "C08CLI", verifkit.Spec[vfC08ArgsCase]{
		Gen: vfGenArgs,
		Check: func(c vfC08ArgsCase) error {
			args, err := vfMaterialise(dir, c.Args)
			defer vfReleaseFifos(args)
			if err != nil {
				return nil
			}
			want := vfModelPatterns(c.Args)
			cli := []string{"--mode", "client"}
			for _, a := range args {
				cli = append(cli, "--"+c.Flag, a)
			}
			cli = append(cli, "--", truePath)
			cmd := exec.Command(self, cli...)
			cmd.Env = append(os.Environ(), "VERIF_MAIN=1")
			var stdout, stderr bytes.Buffer
			cmd.Stdout, cmd.Stderr = &stdout, &stderr
			runErr := cmd.Run()
			for _, a := range c.Args {
				if a.Bad != "" {
					// an unreadable pattern file stops the run with an error (not a silent run without its patterns)
					if runErr == nil {
						return verifkit.Violf("cli-unreadable-file-accepted", "CLI %q exited 0 although one @path is %s; stderr=%q", cli, a.Bad, stderr.String())
					}
					return nil
				}
			}
			if len(want) == 0 {
				return nil // nothing supplied: behaviour (a real run) is outside this check
			}
			if runErr == nil {
				return verifkit.Violf("cli-accepted", "CLI %q exited 0 although patterns %q match nothing; stderr=%q", cli, want, stderr.String())
			}
			text := stderr.String()
			idx := strings.Index(text, what[c.Flag]+": unmatched and possibly invalid patterns:")
			if idx < 0 {
				return verifkit.Violf("cli-no-unmatched", "CLI %q: expected an unmatched-pattern error for %s, stderr=%q", cli, c.Flag, text)
			}
			var listed []string
			for _, l := range strings.Split(strings.TrimRight(text[idx:], "\n"), "\n")[1:] {
				listed = append(listed, l)
			}
			sort.Strings(listed)
			wantSorted := append([]string{}, want...)
			sort.Strings(wantSorted)
			// duplicates collapse in the trie
			wantSorted = vfUniq(wantSorted)
			if fmt.Sprintf("%q", listed) != fmt.Sprintf("%q", wantSorted) {
				return verifkit.Violf("cli-args-dropped", "CLI %q: patterns that took part %q, supplied %q", cli, listed, wantSorted)
			}
			return nil
		},
		Classify: vfArgsClassify,
	})
}

func vfUniq(s []string) []string {
	var out []string
	for i, v := range s {
		if i == 0 || v != s[i-1] {
			out = append(out, v)
		}
	}
	return out
}
