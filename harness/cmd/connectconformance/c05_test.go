//go:build verif

package main

import (
	"bytes"
	"context"
	"fmt"
	"net"
	"os"
	"os/exec"
	"os/signal"
	"path/filepath"
	"strings"
	"syscall"
	"testing"
	"time"

	"connectrpc.com/conformance/internal"
	"connectrpc.com/conformance/internal/app/referenceclient"
	conformancev1 "connectrpc.com/conformance/internal/gen/proto/go/connectrpc/conformance/v1"
	"connectrpc.com/conformance/internal/verifkit"
)

func init() {
	// VERIF_PEER=count-server: a server under test that only records when it is alive
	if os.Getenv("VERIF_PEER") == "count-server" {
		os.Exit(vfCountServerMain())
	}
	// VERIF_PEER=ref-client: the repository's reference client as a client under test (what cmd/referenceclient runs)
	if os.Getenv("VERIF_PEER") == "ref-client" {
		if err := referenceclient.Run(context.Background(), []string{"referenceclient"}, os.Stdin, os.Stdout, os.Stderr); err != nil {
			os.Exit(1)
		}
		os.Exit(0)
	}
}

func vfCountLog(line string) {
	f, err := os.OpenFile(os.Getenv("VERIF_PEER_LOG"), os.O_APPEND|os.O_CREATE|os.O_WRONLY, 0o644)
	if err != nil {
		return
	}
	_, _ = fmt.Fprintf(f, "%s %d\n", line, os.Getpid())
	_ = f.Close()
}

func vfCountServerMain() int {
	time.AfterFunc(2*time.Minute, func() { os.Exit(4) })
	var req conformancev1.ServerCompatRequest
	if err := internal.ReadDelimitedMessage(os.Stdin, &req, "runner", 10*time.Second, 1<<20); err != nil {
		return 3
	}
	lis, err := net.Listen("tcp", "127.0.0.1:0")
	if err != nil {
		return 4
	}
	go func() {
		for {
			conn, err := lis.Accept()
			if err != nil {
				return
			}
			_ = conn.Close()
		}
	}()
	sig := make(chan os.Signal, 1)
	signal.Notify(sig, syscall.SIGTERM, syscall.SIGINT)
	vfCountLog("start")
	time.Sleep(300 * time.Millisecond) // (alive for a while before the batch can even begin)
	resp := &conformancev1.ServerCompatResponse{Host: "127.0.0.1", Port: uint32(lis.Addr().(*net.TCPAddr).Port)}
	if req.UseTls {
		resp.PemCert = req.GetServerCreds().GetCert()
	}
	if err := internal.WriteDelimitedMessage(os.Stdout, resp); err != nil {
		return 3
	}
	<-sig
	vfCountLog("stop")
	return 0
}

// TestVerifC05CLI: the bound on concurrently running servers as the built command line sets it: the real CLI (this
// test binary as main) in server mode with --max-servers M and a larger --parallel, against a server under test that
// only records when it is alive (and stays alive 300 ms before it answers the start request): never more than M of
// them alive at once, every one that started has stopped when the CLI exits.
func TestVerifC05CLI(t *testing.T) {
	en := verifkit.NewEnum(t, "C05CLI")
	type row struct {
		MaxServers int  `json:"maxServers"` // 0: flag not given (documented default 4)
		Parallel   int  `json:"parallel"`
		Port       bool `json:"fixedPort"` // --port given: documented to force one server at a time
	}
	rows := []row{{1, 8, false}, {2, 16, false}, {0, 16, false}, {3, 1, false}}
	var replay row
	if en.ReplayCase(&replay) {
		rows = []row{replay}
	}
	self, err := os.Executable()
	if err != nil {
		t.Fatal(err)
	}
	for _, r := range rows {
		viol := func() error {
			dir, err := os.MkdirTemp(".", "c05cli")
			if err != nil {
				return nil
			}
			dir, _ = filepath.Abs(dir)
			defer os.RemoveAll(dir)
			logFile := filepath.Join(dir, "alive.log")
			cfg := filepath.Join(dir, "config.yaml")
			_ = os.WriteFile(cfg, []byte("features:\n  versions: [HTTP_VERSION_1, HTTP_VERSION_2]\n  protocols: [PROTOCOL_CONNECT, PROTOCOL_GRPC, PROTOCOL_GRPC_WEB]\n  codecs: [CODEC_PROTO]\n  compressions: [COMPRESSION_IDENTITY]\n  streamTypes: [STREAM_TYPE_UNARY]\n  supportsTls: true\n  supportsConnectGet: false\n  supportsMessageReceiveLimit: false\n"), 0o644)
			cli := []string{"--mode", "server", "--conf", cfg, "--parallel", fmt.Sprint(r.Parallel), "--run", "Basic/**"}
			if r.MaxServers > 0 {
				cli = append(cli, "--max-servers", fmt.Sprint(r.MaxServers))
			}
			cli = append(cli, "--", "/usr/bin/env", "VERIF_MAIN=0", "VERIF_PEER=count-server", "VERIF_PEER_LOG="+logFile, self)
			cmd := exec.Command(self, cli...)
			cmd.Env = append(os.Environ(), "VERIF_MAIN=1")
			var stdout, stderr bytes.Buffer
			cmd.Stdout, cmd.Stderr = &stdout, &stderr
			done := make(chan error, 1)
			if err := cmd.Start(); err != nil {
				return nil
			}
			go func() { done <- cmd.Wait() }()
			select {
			case <-done:
			case <-time.After(4 * time.Minute):
				_ = cmd.Process.Kill()
				return nil // (OS processes, HTTP clients with their own time-outs: no verdict on timing here)
			}
			data, _ := os.ReadFile(logFile)
			alive, maxAlive, started := 0, 0, 0
			for _, l := range strings.Split(string(data), "\n") {
				switch {
				case strings.HasPrefix(l, "start "):
					alive++
					started++
					if alive > maxAlive {
						maxAlive = alive
					}
				case strings.HasPrefix(l, "stop "):
					alive--
				}
			}
			if started < 2 {
				return nil // the run did not get as far as starting servers: no verdict
			}
			bound := r.MaxServers
			if bound == 0 {
				bound = 4
			}
			if maxAlive > bound {
				return verifkit.Violf("cli-too-many-servers", "CLI %q: %d servers under test were alive at the same time, the bound is %d (%d started)\nstderr: %.600s", cli, maxAlive, bound, started, stderr.String())
			}
			if alive != 0 {
				return verifkit.Violf("cli-server-not-stopped", "CLI %q: %d of %d servers had not stopped when the CLI exited", cli, alive, started)
			}
			return nil
		}()
		en.Rec.Observe(r, []string{fmt.Sprintf("maxServers:%d", r.MaxServers), fmt.Sprintf("parallel:%d", r.Parallel)}, r.Parallel > r.MaxServers)
		if viol != nil && en.Fail(r, viol) {
			break
		}
	}
	// client mode with --port (documented: "implies --max-servers=1") and nothing said about --max-servers: the
	// reference servers take turns on the one port, and the reference client (as client under test) passes every case
	if !en.ReplayCase(&replay) {
		r := row{0, 8, true}
		viol := func() error {
			lis, err := net.Listen("tcp", "127.0.0.1:0")
			if err != nil {
				return nil
			}
			port := lis.Addr().(*net.TCPAddr).Port
			_ = lis.Close()
			dir, err := os.MkdirTemp(".", "c05port")
			if err != nil {
				return nil
			}
			dir, _ = filepath.Abs(dir)
			defer os.RemoveAll(dir)
			cfg := filepath.Join(dir, "config.yaml")
			_ = os.WriteFile(cfg, []byte("features:\n  versions: [HTTP_VERSION_1, HTTP_VERSION_2]\n  protocols: [PROTOCOL_CONNECT, PROTOCOL_GRPC, PROTOCOL_GRPC_WEB]\n  codecs: [CODEC_PROTO]\n  compressions: [COMPRESSION_IDENTITY]\n  streamTypes: [STREAM_TYPE_UNARY]\n  supportsTls: true\n  supportsConnectGet: false\n  supportsMessageReceiveLimit: false\n"), 0o644)
			cli := []string{"--mode", "client", "--conf", cfg, "--port", fmt.Sprint(port), "--run", "Basic/**/unary/success", "--", "/usr/bin/env", "VERIF_MAIN=0", "VERIF_PEER=ref-client", self}
			cmd := exec.Command(self, cli...)
			cmd.Env = append(os.Environ(), "VERIF_MAIN=1")
			var stdout, stderr bytes.Buffer
			cmd.Stdout, cmd.Stderr = &stdout, &stderr
			if err := cmd.Start(); err != nil {
				return nil
			}
			done := make(chan error, 1)
			go func() { done <- cmd.Wait() }()
			select {
			case err := <-done:
				out := stdout.String() + stderr.String()
				if strings.Contains(out, "address already in use") {
					return verifkit.Violf("cli-port-servers-collide", "CLI %q: reference servers were started at the same time on the one port given with --port\n%.1200s", cli, out)
				}
				if err != nil && strings.Contains(out, "Total cases:") {
					return verifkit.Violf("cli-port-run-fails", "CLI %q: the reference client fails cases against the reference servers taking turns on one port\n%.1500s", cli, out)
				}
				return nil
			case <-time.After(4 * time.Minute):
				_ = cmd.Process.Kill()
				return nil
			}
		}()
		en.Rec.Observe(r, []string{"fixed-port"}, true)
		if viol != nil {
			en.Fail(r, viol)
		}
	}
	en.Done(true)
}
