//go:build verif

package tracer

import (
	"fmt"
	"sync"
	"time"
)

type vfCollector struct {
	mu       sync.Mutex
	traces   []Trace
	prints   []string // what each trace looked like when it was handed over
	inflight sync.WaitGroup
}

// vfTracePrint: the parts of a trace that live behind pointers and maps (and could be written to later).
func vfTracePrint(t Trace) string {
	s := fmt.Sprintf("events=%d err=%v", len(t.Events), t.Err)
	if t.Response != nil {
		s += fmt.Sprintf(" status=%d headers=%v trailers=%v", t.Response.StatusCode, t.Response.Header, t.Response.Trailer)
	}
	return s
}

// changedSinceComplete names the first trace that no longer looks as it did when the collector got it.
func (c *vfCollector) changedSinceComplete() string {
	c.mu.Lock()
	defer c.mu.Unlock()
	for i, t := range c.traces {
		if now := vfTracePrint(t); now != c.prints[i] {
			return fmt.Sprintf("trace %d (%s) was handed over as {%s} and is now {%s}", i, t.TestName, c.prints[i], now)
		}
	}
	return ""
}

// vfSlowCollect, when set, says how long the collector takes to accept a trace (a collector that is busy, e.g.
// with another trace or with a lock held by a waiter).
var vfSlowCollect func(t Trace) time.Duration

func (c *vfCollector) Complete(t Trace) {
	c.inflight.Add(1)
	defer c.inflight.Done()
	if slow := vfSlowCollect; slow != nil {
		time.Sleep(slow(t))
	}
	c.mu.Lock()
	defer c.mu.Unlock()
	c.traces = append(c.traces, t)
	c.prints = append(c.prints, vfTracePrint(t))
}
