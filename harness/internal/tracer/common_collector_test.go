//go:build verif

package tracer

import "sync"

type vfCollector struct {
	mu     sync.Mutex
	traces []Trace
}

func (c *vfCollector) Complete(t Trace) {
	c.mu.Lock()
	defer c.mu.Unlock()
	c.traces = append(c.traces, t)
}
