//go:build verif

package tracer

import (
	"sync"
	"time"
)

type vfCollector struct {
	mu       sync.Mutex
	traces   []Trace
	inflight sync.WaitGroup
}

// vfSlowCollect, when set, says how long the collector takes to accept a trace (a collector that is busy, e.g.
// with another trace or with a lock held by a waiter).
var vfSlowCollect func(t Trace) time.Duration

func (c *vfCollector) Complete(t Trace) {
	c.inflight.Add(1)
	defer c.inflight.Done()
	if slow := vfSlowCollect; slow != nil {
		time.Sleep(slow(t))
	}
	c.mu.Lock()
	defer c.mu.Unlock()
	c.traces = append(c.traces, t)
}
