//go:build verif

package tracer

import (
	"bytes"
	"encoding/binary"
	"errors"
	"fmt"
	"io"
	"net"
	"sort"
	"strings"
	"sync"
	"testing"
	"time"

	"connectrpc.com/conformance/internal/verifkit"
	"golang.org/x/net/http2"
	"golang.org/x/net/http2/hpack"
	"pgregory.net/rapid"
)

// ---- scripted net.Conn ----

type vfTimeoutErr struct{}

func (vfTimeoutErr) Error() string   { return "verif: i/o timeout" }
func (vfTimeoutErr) Timeout() bool   { return true }
func (vfTimeoutErr) Temporary() bool { return true }

var errVerifConn = errors.New("verif: injected conn error")

type vfConnStep struct {
	N   int    `json:"n"`   // bytes returned/accepted
	Err string `json:"err"` // "", "timeout", "error", "eof"
}

func vfStepErr(s string) error {
	switch s {
	case "timeout":
		return vfTimeoutErr{}
	case "error":
		return errVerifConn
	case "eof":
		return io.EOF
	}
	return nil
}

// vfScriptConn: Read hands out the scripted inbound bytes in scripted chunk
// sizes/errors; Write accepts scripted counts/errors and records what it got.
type vfScriptConn struct {
	inbound    []byte
	readSteps  []vfConnStep
	readIdx    int
	readPos    int
	writeSteps []vfConnStep
	writeIdx   int
	written    [][]byte
	closed     int
	closeErr   error
	writeHook  func()
}

func (c *vfScriptConn) Read(p []byte) (int, error) {
	if c.readIdx >= len(c.readSteps) {
		if c.readPos >= len(c.inbound) {
			return 0, io.EOF
		}
		n := copy(p, c.inbound[c.readPos:])
		c.readPos += n
		return n, nil
	}
	st := c.readSteps[c.readIdx]
	c.readIdx++
	n := st.N
	if n > len(p) {
		n = len(p)
	}
	if n > len(c.inbound)-c.readPos {
		n = len(c.inbound) - c.readPos
	}
	copy(p, c.inbound[c.readPos:c.readPos+n])
	c.readPos += n
	return n, vfStepErr(st.Err)
}

func (c *vfScriptConn) Write(p []byte) (int, error) {
	n, err := len(p), error(nil)
	if c.writeIdx < len(c.writeSteps) {
		st := c.writeSteps[c.writeIdx]
		c.writeIdx++
		if st.Err != "" {
			err = vfStepErr(st.Err)
			if st.N < n {
				n = st.N
			}
		}
	}
	c.written = append(c.written, append([]byte{}, p...))
	if c.writeHook != nil {
		// the bytes are on the wire: the peer may answer (and another goroutine may read that answer) before this call returns
		h := c.writeHook
		c.writeHook = nil
		h()
	}
	return n, err
}

func (c *vfScriptConn) Close() error        { c.closed++; return c.closeErr }
func (c *vfScriptConn) LocalAddr() net.Addr { return &net.TCPAddr{IP: net.IPv4(127, 0, 0, 1), Port: 1} }
func (c *vfScriptConn) RemoteAddr() net.Addr {
	return &net.TCPAddr{IP: net.IPv4(127, 0, 0, 1), Port: 2}
}
func (c *vfScriptConn) SetDeadline(time.Time) error      { return nil }
func (c *vfScriptConn) SetReadDeadline(time.Time) error  { return nil }
func (c *vfScriptConn) SetWriteDeadline(time.Time) error { return nil }

// ---- C15a: transparency and robustness on arbitrary bytes ----

type vfC15RawCase struct {
	Server     bool         `json:"server"`
	Inbound    []byte       `json:"inbound"`
	Outbound   []byte       `json:"outbound"`
	ReadSteps  []vfConnStep `json:"readSteps"`
	WriteSteps []vfConnStep `json:"writeSteps"` // one per write call: how the inner conn answers
	WriteCuts  []int        `json:"writeCuts"`
	Order      []bool       `json:"order"` // true = do a read next, false = do a write next
	CloseErr   bool         `json:"closeErr"`
}

type vfIOLog struct {
	Op   string
	N    int
	Err  string
	Data string
}

// vfDriveRaw performs the scripted Read/Write/Close calls on conn.
func vfDriveRaw(c vfC15RawCase, conn net.Conn) []vfIOLog {
	var log []vfIOLog
	cuts := append([]int{}, c.WriteCuts...)
	sort.Ints(cuts)
	wpos := 0
	buf := make([]byte, 4096)
	reads, writes := 0, 0
	for _, doRead := range c.Order {
		if doRead {
			reads++
			n, err := conn.Read(buf)
			log = append(log, vfIOLog{Op: "read", N: n, Err: vfErrStr(err), Data: string(buf[:n])})
			continue
		}
		if wpos >= len(c.Outbound) {
			continue
		}
		end := len(c.Outbound)
		idx := sort.SearchInts(cuts, wpos+1)
		if idx < len(cuts) && cuts[idx] < end {
			end = cuts[idx]
		}
		writes++
		n, err := conn.Write(c.Outbound[wpos:end])
		log = append(log, vfIOLog{Op: "write", N: n, Err: vfErrStr(err)})
		wpos = end
	}
	err := conn.Close()
	log = append(log, vfIOLog{Op: "close", Err: vfErrStr(err)})
	return log
}

func vfNewScriptConn(c vfC15RawCase) *vfScriptConn {
	sc := &vfScriptConn{inbound: c.Inbound, readSteps: c.ReadSteps, writeSteps: c.WriteSteps}
	if c.CloseErr {
		sc.closeErr = errVerifConn
	}
	return sc
}

func vfC15RawCheck(c vfC15RawCase) error {
	plainConn := vfNewScriptConn(c)
	plain := vfDriveRaw(c, plainConn)
	innerConn := vfNewScriptConn(c)
	coll := &vfCollector{}
	traced := vfDriveRaw(c, TracingHTTP2Conn(innerConn, c.Server, coll))
	if a, b := fmt.Sprintf("%q", plain), fmt.Sprintf("%q", traced); a != b {
		return verifkit.Violf("conn-not-transparent", "Read/Write/Close results differ with the wrapper:\n plain : %.1200s\n traced: %.1200s", a, b)
	}
	if a, b := fmt.Sprintf("%q", plainConn.written), fmt.Sprintf("%q", innerConn.written); a != b {
		return verifkit.Violf("conn-bytes-changed", "bytes reaching the inner conn differ:\n plain : %.600s\n traced: %.600s", a, b)
	}
	if plainConn.closed != innerConn.closed {
		return verifkit.Violf("conn-close", "inner conn closed %d times, want %d", innerConn.closed, plainConn.closed)
	}
	return nil
}

func vfGenConnSteps(t *rapid.T, label string, n int) []vfConnStep {
	var out []vfConnStep
	for i := 0; i < n; i++ {
		st := vfConnStep{N: rapid.IntRange(0, 40).Draw(t, label+"-n")}
		switch rapid.IntRange(0, 11).Draw(t, label+"-err") {
		case 0:
			st.Err = "timeout"
		case 1:
			st.Err = "error"
		case 2:
			st.Err = "eof"
		}
		out = append(out, st)
	}
	return out
}

func TestVerifC15Raw(t *testing.T) {
	valids := vfValidExchanges()
	verifkit.Run(t, "C15Raw", verifkit.Spec[vfC15RawCase]{
		Gen: func(t *rapid.T) vfC15RawCase {
			c := vfC15RawCase{Server: rapid.Bool().Draw(t, "server"), CloseErr: rapid.IntRange(0, 4).Draw(t, "closeErr") == 0}
			valid := valids[rapid.IntRange(0, len(valids)-1).Draw(t, "conversation")]
			gen := func(label string, preface bool) []byte {
				switch rapid.IntRange(0, 5).Draw(t, label+"-kind") {
				case 4, 5:
					// a well-framed but protocol-violating peer: whole frames of a valid exchange dropped,
					// duplicated or swapped (DATA before HEADERS, trailers twice, DATA after END_STREAM ...)
					b := valid[map[bool]int{true: 0, false: 1}[preface]]
					prefix := 0
					if preface {
						prefix = len(clientPreface)
					}
					var frames [][]byte
					for off := prefix; off+9 <= len(b); {
						ln := int(b[off])<<16 | int(b[off+1])<<8 | int(b[off+2])
						if off+9+ln > len(b) {
							break
						}
						frames = append(frames, b[off:off+9+ln])
						off += 9 + ln
					}
					for i, n := 0, rapid.IntRange(1, 2).Draw(t, label+"-nedits"); i < n && len(frames) > 0; i++ {
						k := rapid.IntRange(0, len(frames)-1).Draw(t, label+"-frame")
						switch rapid.IntRange(0, 2).Draw(t, label+"-edit") {
						case 0:
							frames = append(frames[:k:k], frames[k+1:]...)
						case 1:
							frames = append(frames[:k+1:k+1], frames[k:]...)
						default:
							if k+1 < len(frames) {
								frames[k], frames[k+1] = frames[k+1], frames[k]
							}
						}
					}
					out := append([]byte{}, b[:prefix]...)
					for _, f := range frames {
						out = append(out, f...)
					}
					return out
				case 0:
					return rapid.SliceOfN(rapid.Byte(), 0, 200).Draw(t, label+"-bytes")
				case 1:
					b := append([]byte{}, valid[map[bool]int{true: 0, false: 1}[preface]]...)
					// corrupt a few bytes
					for i, n := 0, rapid.IntRange(0, 3).Draw(t, label+"-ncorrupt"); i < n && len(b) > 0; i++ {
						b[rapid.IntRange(0, len(b)-1).Draw(t, label+"-pos")] ^= byte(1 << rapid.IntRange(0, 7).Draw(t, label+"-bit"))
					}
					return b
				case 2:
					b := append([]byte{}, valid[map[bool]int{true: 0, false: 1}[preface]]...)
					return b[:rapid.IntRange(0, len(b)).Draw(t, label+"-cut")]
				default:
					b := []byte{}
					if preface {
						b = append(b, clientPreface...)
					}
					// random frame headers with random payloads
					for i, n := 0, rapid.IntRange(0, 5).Draw(t, label+"-nframes"); i < n; i++ {
						payload := rapid.SliceOfN(rapid.Byte(), 0, 30).Draw(t, label+"-payload")
						var hdr [9]byte
						ln := len(payload)
						if rapid.IntRange(0, 5).Draw(t, label+"-lie") == 0 {
							ln = rapid.IntRange(0, 1<<24-1).Draw(t, label+"-len")
						}
						hdr[0], hdr[1], hdr[2] = byte(ln>>16), byte(ln>>8), byte(ln)
						hdr[3] = byte(rapid.IntRange(0, 11).Draw(t, label+"-type"))
						hdr[4] = rapid.Byte().Draw(t, label+"-flags")
						binary.BigEndian.PutUint32(hdr[5:], uint32(rapid.IntRange(0, 9).Draw(t, label+"-stream")))
						b = append(append(b, hdr[:]...), payload...)
					}
					return b
				}
			}
			// the client preface travels client->server: inbound on a server conn, outbound on a client conn
			c.Inbound = gen("in", c.Server)
			c.Outbound = gen("out", !c.Server)
			c.ReadSteps = vfGenConnSteps(t, "rs", rapid.IntRange(0, 12).Draw(t, "nreadsteps"))
			c.WriteSteps = vfGenConnSteps(t, "ws", rapid.IntRange(0, 12).Draw(t, "nwritesteps"))
			for i, n := 0, rapid.IntRange(0, 8).Draw(t, "nwcuts"); i < n && len(c.Outbound) > 1; i++ {
				c.WriteCuts = append(c.WriteCuts, rapid.IntRange(1, len(c.Outbound)-1).Draw(t, "wcut"))
			}
			for i, n := 0, rapid.IntRange(1, 30).Draw(t, "norder"); i < n; i++ {
				c.Order = append(c.Order, rapid.Bool().Draw(t, "order"))
			}
			return c
		},
		Check: vfC15RawCheck,
		Classify: func(c vfC15RawCase) ([]string, bool) {
			errs := 0
			for _, s := range append(append([]vfConnStep{}, c.ReadSteps...), c.WriteSteps...) {
				if s.Err != "" {
					errs++
				}
			}
			return []string{fmt.Sprintf("io-errors:%d", min(errs, 3))}, errs > 0 && len(c.Inbound)+len(c.Outbound) > 9
		},
	})
}

// vfValidExchangeBytes returns a small valid exchange: [client->server bytes, server->client bytes].
func vfValidExchangeBytes() [2][]byte { return vfValidExchanges()[0] }

// vfValidExchanges: the byte streams (client->server, server->client) of a few well-formed conversations - a plain
// call; a refused stream followed by its retry and a normal call; a call cut off by a graceful GOAWAY with a later one
// refused; a call reset by the server.
func vfValidExchanges() [][2][]byte {
	simple := vfStreamSpec{Named: true, Attempt: 1, ReqCT: "application/grpc", RespCT: "application/grpc",
		ReqMsgs: []vfMsg{{Flags: 0, Payload: []byte("hello")}}, RespMsgs: []vfMsg{{Flags: 0, Payload: []byte("world")}},
		ReqFrameSizes: []int{100}, RespFrameSizes: []int{100}, Trailers: true, Order: []bool{true, true, true, true}}
	variant := func(name, attempt int, fault string, at int, code uint32) vfStreamSpec {
		s := simple
		s.Name, s.Attempt, s.Fault, s.FaultAt, s.RSTCode = name, attempt, fault, at, code
		return s
	}
	sched := []int{0, 1, 2, 0, 1, 2, 1, 0, 2, 0, 1, 2}
	exchanges := []vfExchange{
		{Streams: []vfStreamSpec{simple}, GoAwayAt: -1},
		{Streams: []vfStreamSpec{variant(0, 1, "refused", 1, 7), variant(0, 2, "", 0, 0), variant(1, 1, "", 0, 0)}, Schedule: sched, GoAwayAt: -1},
		{Streams: []vfStreamSpec{variant(0, 1, "", 0, 0), variant(1, 1, "refused", 2, 7)}, Schedule: sched, GoAwayAt: 6, GoAwayLast: 0, GoAwayCode: 0},
		{Streams: []vfStreamSpec{variant(0, 1, "rst-server", 3, 2), variant(1, 1, "", 0, 0)}, Schedule: sched, GoAwayAt: -1},
	}
	var all [][2][]byte
	for _, ex := range exchanges {
		frames, _ := vfBuildFrames(ex)
		var out [2][]byte
		out[0] = append(out[0], clientPreface...)
		for _, f := range frames {
			out[f.Dir] = append(out[f.Dir], f.Bytes...)
		}
		all = append(all, out)
	}
	return all
}

// ---- C15b: well-formed multi-stream exchanges ----

type vfMsg struct {
	Flags   byte   `json:"flags"`
	Payload []byte `json:"payload"`
}

type vfStreamSpec struct {
	Named          bool    `json:"named"`
	Name           int     `json:"name"` // test name index (streams with equal index share a name: retries)
	Attempt        int     `json:"attempt"`
	ReqCT          string  `json:"reqCT"`
	RespCT         string  `json:"respCT"`
	ReqMsgs        []vfMsg `json:"reqMsgs"`
	RespMsgs       []vfMsg `json:"respMsgs"`
	ReqFrameSizes  []int   `json:"reqFrameSizes"`  // DATA frame sizes (cyclic)
	RespFrameSizes []int   `json:"respFrameSizes"` //
	ReqEndEmpty    bool    `json:"reqEndEmpty"`    // END_STREAM on a separate empty DATA frame
	ReqTrailers    bool    `json:"reqTrailers"`    // the request ends with a trailers HEADERS frame
	Trailers       bool    `json:"trailers"`       // response ends with a trailers HEADERS frame (else END_STREAM on DATA / headers)
	BigHeaders     bool    `json:"bigHeaders"`     // request header block split into CONTINUATION frames
	// HugeHeaders: the request carries 24 more fields of 1000 bytes and a last one (a header list of more than 16 KiB,
	// in three frames)
	HugeHeaders bool `json:"hugeHeaders,omitempty"`
	// Query: the query component of :path ("" = none); may contain a literal "?" of its own (RFC 3986 allows it)
	Query string `json:"query,omitempty"`
	Padded         bool    `json:"padded"`         // DATA frames carry padding
	Order          []bool  `json:"order"`          // interleaving of request-body frames (true) and response frames (false)
	Fault          string  `json:"fault"`          // "", rst-client, rst-server, refused, open (left open until the conn closes)
	FaultAt        int     `json:"faultAt"`        // number of the stream's frames sent before the fault
	RSTCode        uint32  `json:"rstCode"`
	ReqTail        int     `json:"reqTail"`  // 1-4: the request body ends that many bytes into one more envelope prefix
	RespTail       int     `json:"respTail"` // same for the response body
}

type vfExchange struct {
	Server     bool           `json:"server"`
	Streams    []vfStreamSpec `json:"streams"`
	Schedule   []int          `json:"schedule"`   // which stream advances next (cyclic over still-active streams)
	Noise      []int          `json:"noise"`      // positions at which a SETTINGS/PING/WINDOW_UPDATE frame is inserted
	GoAwayAt   int            `json:"goAwayAt"`   // -1: none; else global frame position
	GoAwayLast int            `json:"goAwayLast"` // index into streams opened so far (-1: last-stream-id 0)
	GoAwayCode uint32         `json:"goAwayCode"`
	// GoAwayGraceful: the GOAWAY is preceded by one that names the largest stream id and NO_ERROR (the usual graceful
	// shutdown of net/http2 and grpc-go servers: announce first, then name the real last stream)
	GoAwayGraceful bool `json:"goAwayGraceful,omitempty"`
	Cuts       [2][]int       `json:"cuts"` // per direction: byte offsets where a Read/Write call ends
	// TimeoutReads: ordinals (mod 16) of Read calls that hand over their bytes together with a timeout error, as a
	// net.Conn does when a read deadline passes after part of the data arrived; the connection carries on
	TimeoutReads []int `json:"timeoutReads"`
	// EagerReply: the peer's next frames are read (by what would be the read loop of the HTTP/2 stack) while the Write
	// call that carried the frames they answer has not returned yet
	EagerReply bool `json:"eagerReply"`
	// CloseFails: closing the underlying connection returns an error (a TLS close_notify that cannot be sent, a
	// connection the peer has reset): the tracer still learns that the connection is gone
	CloseFails bool `json:"closeFails,omitempty"`
	// TableSize: per direction, the HPACK dynamic-table size that direction's encoder switches to before its first
	// header block (0: stays at the 4096 default). The other side announces it in a SETTINGS frame first, the encoder
	// then signals the change in its next header block; sizes above and below the default, also ~0.
	TableSize [2]int `json:"tableSize,omitempty"`
	// PeerCloses: after the last frame the peer closes the connection (the next Read returns EOF) before this side
	// calls Close itself
	PeerCloses bool `json:"peerCloses"`
}

type vfAbsFrame struct {
	stream int    // index into Streams, -1 for connection-level
	dir    int    // 0 client->server, 1 server->client
	kind   string // headers, data, trailers, rst, goaway, settings, ping, window
	data   []byte
	end    bool
	code   uint32
	big    bool
	huge   bool
	padded bool
	last   int // goaway: stream index whose id is last-stream-id (-1: 0)
}

type vfWireFrame struct {
	Dir   int
	Bytes []byte
	Desc  string
}

func vfEnvelopeBytes(msgs []vfMsg) []byte {
	var buf bytes.Buffer
	for _, m := range msgs {
		var p [5]byte
		p[0] = m.Flags
		binary.BigEndian.PutUint32(p[1:], uint32(len(m.Payload)))
		buf.Write(p[:])
		buf.Write(m.Payload)
	}
	return buf.Bytes()
}

// vfBodyWithTail: the enveloped messages followed by the first tail bytes of one more envelope prefix (a body that ends
// part-way through a prefix).
func vfBodyWithTail(msgs []vfMsg, tail int) []byte {
	body := vfEnvelopeBytes(msgs)
	if tail > 0 && tail < 5 {
		body = append(body, []byte{0, 0, 0, 0, 9}[:tail]...)
	}
	return body
}

func vfSplit(body []byte, sizes []int) [][]byte {
	var out [][]byte
	i := 0
	for len(body) > 0 {
		n := 16384
		if len(sizes) > 0 {
			n = sizes[i%len(sizes)]
			i++
		}
		if n < 1 {
			n = 1
		}
		if len(out) >= 40 {
			n = 16384 // bound the number of frames of large bodies
		}
		if n > len(body) {
			n = len(body)
		}
		out = append(out, body[:n])
		body = body[n:]
	}
	return out
}

// vfStreamFrames lists one stream's abstract frames in a causal order.
func vfStreamFrames(si int, s vfStreamSpec) []vfAbsFrame {
	reqBody := vfBodyWithTail(s.ReqMsgs, s.ReqTail)
	respBody := vfBodyWithTail(s.RespMsgs, s.RespTail)
	var req, resp []vfAbsFrame
	reqChunks := vfSplit(reqBody, s.ReqFrameSizes)
	head := vfAbsFrame{stream: si, dir: 0, kind: "headers", big: s.BigHeaders || s.HugeHeaders, huge: s.HugeHeaders, end: len(reqChunks) == 0 && !s.ReqEndEmpty && !s.ReqTrailers}
	for i, ch := range reqChunks {
		req = append(req, vfAbsFrame{stream: si, dir: 0, kind: "data", data: ch, end: i == len(reqChunks)-1 && !s.ReqEndEmpty, padded: s.Padded})
	}
	if s.ReqTrailers {
		head.end = false
		for i := range req {
			req[i].end = false
		}
		req = append(req, vfAbsFrame{stream: si, dir: 0, kind: "trailers", end: true})
	} else if s.ReqEndEmpty {
		req = append(req, vfAbsFrame{stream: si, dir: 0, kind: "data", end: true})
	}
	respChunks := vfSplit(respBody, s.RespFrameSizes)
	resp = append(resp, vfAbsFrame{stream: si, dir: 1, kind: "headers", end: len(respChunks) == 0 && !s.Trailers})
	for i, ch := range respChunks {
		resp = append(resp, vfAbsFrame{stream: si, dir: 1, kind: "data", data: ch, end: i == len(respChunks)-1 && !s.Trailers, padded: s.Padded})
	}
	if s.Trailers {
		resp = append(resp, vfAbsFrame{stream: si, dir: 1, kind: "trailers", end: true})
	}
	// interleave request-body frames with all but the last response frame; the
	// last response frame (END_STREAM) comes after the request has ended
	out := []vfAbsFrame{head}
	ri, pi := 0, 0
	oi := 0
	for ri < len(req) || pi < len(resp)-1 {
		takeReq := ri < len(req)
		if ri < len(req) && pi < len(resp)-1 {
			takeReq = len(s.Order) == 0 || s.Order[oi%len(s.Order)]
			oi++
		}
		if takeReq {
			out = append(out, req[ri])
			ri++
		} else {
			out = append(out, resp[pi])
			pi++
		}
	}
	out = append(out, resp[len(resp)-1])
	switch s.Fault {
	case "rst-client", "rst-server", "refused":
		k := 1 + s.FaultAt%len(out)
		if k >= len(out) { // never after the stream ended normally
			k = len(out) - 1
		}
		out = out[:k]
		dir := 1
		code := s.RSTCode
		if s.Fault == "rst-client" {
			dir = 0
		}
		if s.Fault == "refused" {
			code = uint32(http2.ErrCodeRefusedStream)
		}
		out = append(out, vfAbsFrame{stream: si, dir: dir, kind: "rst", code: code})
	case "open":
		k := 1 + s.FaultAt%len(out)
		if k >= len(out) {
			k = len(out) - 1
		}
		out = out[:k]
	}
	return out
}

// vfGlobalOrder merges the streams' frame lists per the schedule and inserts
// connection-level frames; returns the abstract sequence.
func vfGlobalOrder(ex vfExchange) []vfAbsFrame {
	lists := make([][]vfAbsFrame, len(ex.Streams))
	for i, s := range ex.Streams {
		lists[i] = vfStreamFrames(i, s)
	}
	pos := make([]int, len(lists))
	var out []vfAbsFrame
	si := 0
	noise := map[int]bool{}
	for _, n := range ex.Noise {
		noise[n] = true
	}
	opened := []int{}
	dead := map[int]bool{}
	for {
		active := []int{}
		for i := range lists {
			if pos[i] < len(lists[i]) && !dead[i] {
				active = append(active, i)
			}
		}
		if len(active) == 0 {
			break
		}
		pick := active[0]
		if len(ex.Schedule) > 0 {
			pick = active[ex.Schedule[si%len(ex.Schedule)]%len(active)]
			si++
		}
		// a retry (same name, later attempt) only starts after the earlier attempt was refused
		if pos[pick] == 0 {
			blocked := false
			for j, s := range ex.Streams {
				if j != pick && s.Named && ex.Streams[pick].Named && s.Name == ex.Streams[pick].Name && s.Attempt < ex.Streams[pick].Attempt && pos[j] < len(lists[j]) && !dead[j] {
					blocked = true
				}
			}
			if blocked {
				// advance the blocking stream instead
				for j, s := range ex.Streams {
					if s.Named && s.Name == ex.Streams[pick].Name && s.Attempt < ex.Streams[pick].Attempt && pos[j] < len(lists[j]) && !dead[j] {
						pick = j
						break
					}
				}
			}
		}
		if pos[pick] == 0 {
			opened = append(opened, pick)
		}
		out = append(out, lists[pick][pos[pick]])
		pos[pick]++
		n := len(out)
		if noise[n] {
			kinds := []string{"settings", "ping", "window"}
			out = append(out, vfAbsFrame{stream: -1, dir: n % 2, kind: kinds[n%3]})
		}
		if ex.GoAwayAt >= 0 && n == ex.GoAwayAt+1 {
			last := -1
			if ex.GoAwayLast >= 0 && len(opened) > 0 {
				last = opened[ex.GoAwayLast%len(opened)]
			}
			if ex.GoAwayGraceful {
				out = append(out, vfAbsFrame{stream: -1, dir: 1, kind: "goaway-announce"})
			}
			out = append(out, vfAbsFrame{stream: -1, dir: 1, kind: "goaway", code: ex.GoAwayCode, last: last})
			// streams opened after `last` are dead from here on; unopened ones never start
			lastRank := -1
			for r, o := range opened {
				if o == last {
					lastRank = r
				}
			}
			for r, o := range opened {
				if r > lastRank {
					dead[o] = true
				}
			}
			for i := range lists {
				if pos[i] == 0 {
					dead[i] = true
				}
			}
		}
	}
	return out
}

func vfTestName(s vfStreamSpec) string { return fmt.Sprintf("verif/c15/%d", s.Name) }

// vfBuildFrames serialises the exchange: HPACK state is per direction and
// shared across streams; stream ids are assigned in opening order.
func vfBuildFrames(ex vfExchange) ([]vfWireFrame, map[int]uint32) {
	abs := vfGlobalOrder(ex)
	ids := map[int]uint32{}
	next := uint32(1)
	var bufs [2]bytes.Buffer
	var hbufs [2]bytes.Buffer
	encs := [2]*hpack.Encoder{hpack.NewEncoder(&hbufs[0]), hpack.NewEncoder(&hbufs[1])}
	framers := [2]*http2.Framer{http2.NewFramer(&bufs[0], nil), http2.NewFramer(&bufs[1], nil)}
	var out []vfWireFrame
	for d := 0; d < 2; d++ {
		if size := ex.TableSize[d]; size > 0 {
			_ = framers[1-d].WriteSettings(http2.Setting{ID: http2.SettingHeaderTableSize, Val: uint32(size)})
			out = append(out, vfWireFrame{Dir: 1 - d, Bytes: append([]byte{}, bufs[1-d].Bytes()...), Desc: fmt.Sprintf("settings(header-table-size=%d,dir%d)", size, 1-d)})
			bufs[1-d].Reset()
			encs[d].SetMaxDynamicTableSizeLimit(uint32(size))
			encs[d].SetMaxDynamicTableSize(uint32(size))
		}
	}
	encode := func(dir int, fields [][2]string) []byte {
		hbufs[dir].Reset()
		for _, f := range fields {
			_ = encs[dir].WriteField(hpack.HeaderField{Name: f[0], Value: f[1]})
		}
		return append([]byte{}, hbufs[dir].Bytes()...)
	}
	writeHeaders := func(dir int, id uint32, block []byte, end bool, split bool) {
		if !split || len(block) < 3 {
			_ = framers[dir].WriteHeaders(http2.HeadersFrameParam{StreamID: id, BlockFragment: block, EndStream: end, EndHeaders: true})
			return
		}
		third := len(block) / 3
		_ = framers[dir].WriteHeaders(http2.HeadersFrameParam{StreamID: id, BlockFragment: block[:third], EndStream: end, EndHeaders: false})
		_ = framers[dir].WriteContinuation(id, false, block[third:2*third])
		_ = framers[dir].WriteContinuation(id, true, block[2*third:])
	}
	for _, f := range abs {
		var id uint32
		var s vfStreamSpec
		if f.stream >= 0 {
			s = ex.Streams[f.stream]
			if _, ok := ids[f.stream]; !ok {
				ids[f.stream] = next
				next += 2
			}
			id = ids[f.stream]
		}
		desc := fmt.Sprintf("%s(s%d,dir%d,end=%v,len=%d)", f.kind, f.stream, f.dir, f.end, len(f.data))
		switch f.kind {
		case "headers":
			var fields [][2]string
			if f.dir == 0 {
				fields = [][2]string{{":method", "POST"}, {":scheme", "http"}, {":path", fmt.Sprintf("/connectrpc.conformance.v1.ConformanceService/M%d", f.stream) + map[bool]string{true: "?" + s.Query, false: ""}[s.Query != ""]},
					{":authority", "verif.test"}, {"content-type", s.ReqCT}, {"x-attempt", fmt.Sprint(s.Attempt)}, {"x-stream-index", fmt.Sprint(f.stream)},
					{"x-multi", fmt.Sprintf("a%d", f.stream)}, {"x-multi", "b"}} // (a field name may repeat within one header block)
				if s.Named {
					fields = append(fields, [2]string{"x-test-case-name", vfTestName(s)})
				}
				if f.big {
					fields = append(fields, [2]string{"x-big", strings.Repeat("abcdefghij", 40)})
				}
				if f.huge {
					for k := 0; k < 24; k++ {
						fields = append(fields, [2]string{fmt.Sprintf("x-pad-%d", k), strings.Repeat(string(rune('a'+k)), 1000)})
					}
					fields = append(fields, [2]string{"x-last", "end"})
				}
			} else {
				fields = [][2]string{{":status", "200"}, {"content-type", s.RespCT}, {"x-resp-for", fmt.Sprint(f.stream)}, {"x-resp-multi", "r1"}, {"x-resp-multi", fmt.Sprintf("r2-%d", f.stream)}}
			}
			writeHeaders(f.dir, id, encode(f.dir, fields), f.end, f.big)
		case "trailers":
			if f.dir == 0 {
				writeHeaders(f.dir, id, encode(f.dir, [][2]string{{"x-req-trailer-for", fmt.Sprint(f.stream)}}), true, false)
			} else {
				writeHeaders(f.dir, id, encode(f.dir, [][2]string{{"grpc-status", "0"}, {"x-trailer-for", fmt.Sprint(f.stream)}, {"x-trailer-multi", "t1"}, {"x-trailer-multi", "t2"}}), true, false)
			}
		case "data":
			if f.padded {
				_ = framers[f.dir].WriteDataPadded(id, f.end, f.data, []byte{0, 0, 0})
			} else {
				_ = framers[f.dir].WriteData(id, f.end, f.data)
			}
		case "rst":
			_ = framers[f.dir].WriteRSTStream(id, http2.ErrCode(f.code))
		case "goaway":
			var last uint32
			if f.last >= 0 {
				last = ids[f.last]
			}
			_ = framers[f.dir].WriteGoAway(last, http2.ErrCode(f.code), []byte("bye"))
			desc = fmt.Sprintf("goaway(last=%d,code=%d)", last, f.code)
		case "goaway-announce":
			_ = framers[f.dir].WriteGoAway(1<<31-1, http2.ErrCodeNo, nil)
			desc = "goaway(last=max,code=0)"
		case "settings":
			_ = framers[f.dir].WriteSettings(http2.Setting{ID: http2.SettingMaxFrameSize, Val: 16384})
		case "ping":
			_ = framers[f.dir].WritePing(false, [8]byte{1, 2, 3, 4, 5, 6, 7, 8})
		case "window":
			_ = framers[f.dir].WriteWindowUpdate(0, 1000)
		}
		out = append(out, vfWireFrame{Dir: f.dir, Bytes: append([]byte{}, bufs[f.dir].Bytes()...), Desc: desc})
		bufs[f.dir].Reset()
	}
	return out, ids
}

// vfRunExchange pushes the exchange through a traced conn (client or server
// side): bytes of one direction are flushed in drawn chunks whenever the
// direction changes, so causality between the directions is preserved while
// the partition into Read/Write calls is arbitrary.
// vfBeforeClose, when set, runs after the last frame of an exchange and before the connection is closed.
var vfBeforeClose func()

// vfConnFactory, when set, makes the traced connection for a conversation (e.g. through TracingHTTP2Listener) and
// says which collector its traces go to. vfAtPause runs at the end of a pause, before the frame goes out.
var (
	vfConnFactory func(inner *vfScriptConn, server bool) (net.Conn, *vfCollector)
	vfAtPause     func(desc string)
)

// vfPauseBeforeFrame, when set, says how long the conversation pauses before the frame with the given description
// ("headers(s1,dir0,..." etc.) goes over the wire.
var vfPauseBeforeFrame func(desc string) time.Duration

func vfRunExchange(ex vfExchange, cuts [2][]int) ([]Trace, error) {
	frames, _ := vfBuildFrames(ex)
	coll := &vfCollector{}
	inner := &vfScriptConn{}
	if ex.CloseFails {
		inner.closeErr = errors.New("verif: close: connection reset by peer")
	}
	conn := TracingHTTP2Conn(inner, ex.Server, coll)
	if vfConnFactory != nil {
		conn, coll = vfConnFactory(inner, ex.Server)
	}
	var pending [2][]byte
	var offset [2]int
	sortedCuts := [2][]int{append([]int{}, cuts[0]...), append([]int{}, cuts[1]...)}
	sort.Ints(sortedCuts[0])
	sort.Ints(sortedCuts[1])
	// which direction is read by this side?
	readDir := 1
	if ex.Server {
		readDir = 0
	}
	readNo := 0
	var eager func()
	var flush func(dir int) error
	flush = func(dir int) error {
		for len(pending[dir]) > 0 {
			end := len(pending[dir])
			idx := sort.SearchInts(sortedCuts[dir], offset[dir]+1)
			if idx < len(sortedCuts[dir]) && sortedCuts[dir][idx]-offset[dir] < end {
				end = sortedCuts[dir][idx] - offset[dir]
			}
			chunk := pending[dir][:end]
			if dir == readDir {
				inner.inbound = append(inner.inbound, chunk...)
				step := vfConnStep{N: len(chunk)}
				for _, o := range ex.TimeoutReads {
					if o == readNo%16 {
						step.Err = "timeout"
					}
				}
				readNo++
				inner.readSteps = append(inner.readSteps, step)
				buf := make([]byte, len(chunk))
				n, err := conn.Read(buf)
				if (err != nil) != (step.Err != "") || (err != nil && err != vfStepErr(step.Err)) || n != len(chunk) || !bytes.Equal(buf[:n], chunk) {
					return verifkit.Violf("conn-not-transparent", "Read returned (%d, %v), want the %d scripted bytes and error %q", n, err, len(chunk), step.Err)
				}
			} else {
				if eager != nil && end == len(pending[dir]) {
					inner.writeHook, eager = eager, nil
				}
				n, err := conn.Write(chunk)
				if err != nil || n != len(chunk) {
					return verifkit.Violf("conn-not-transparent", "Write returned (%d, %v) for %d bytes", n, err, len(chunk))
				}
			}
			pending[dir] = pending[dir][end:]
			offset[dir] += end
		}
		return nil
	}
	// consecutive frames of one direction form a run; runs alternate
	type run struct {
		dir   int
		bytes []byte
		pause time.Duration
		desc  string
	}
	runs := []run{{dir: 0, bytes: append([]byte{}, clientPreface...)}}
	for _, f := range frames {
		var pause time.Duration
		if vfPauseBeforeFrame != nil {
			pause = vfPauseBeforeFrame(f.Desc)
		}
		if f.Dir != runs[len(runs)-1].dir || pause > 0 {
			runs = append(runs, run{dir: f.Dir, pause: pause, desc: f.Desc})
		}
		runs[len(runs)-1].bytes = append(runs[len(runs)-1].bytes, f.Bytes...)
	}
	var eagerErr error
	for i := 0; i < len(runs); i++ {
		r := runs[i]
		if r.pause > 0 {
			time.Sleep(r.pause)
			if vfAtPause != nil {
				vfAtPause(r.desc)
			}
		}
		pending[r.dir] = append(pending[r.dir], r.bytes...)
		if ex.EagerReply && r.dir != readDir && i+1 < len(runs) && runs[i+1].pause == 0 && runs[i+1].dir == readDir {
			next := runs[i+1]
			i++ // consumed inside the last Write call of this run
			eager = func() {
				pending[next.dir] = append(pending[next.dir], next.bytes...)
				eagerErr = flush(next.dir)
			}
		}
		if err := flush(r.dir); err != nil {
			return nil, err
		}
		if eagerErr != nil {
			return nil, eagerErr
		}
	}
	if vfBeforeClose != nil {
		vfBeforeClose()
	}
	if ex.PeerCloses {
		inner.readSteps = append(inner.readSteps, vfConnStep{N: 0, Err: "eof"})
		if n, err := conn.Read(make([]byte, 16)); n != 0 || err != io.EOF {
			return nil, verifkit.Violf("conn-not-transparent", "Read at the peer's close returned (%d, %v), want (0, EOF)", n, err)
		}
	}
	if cerr := conn.Close(); (cerr != nil) != ex.CloseFails {
		return nil, verifkit.Violf("conn-not-transparent", "Close returned %v, the underlying connection's Close fails: %v", cerr, ex.CloseFails)
	}
	var all []byte
	for _, w := range inner.written {
		all = append(all, w...)
	}
	var wantWritten []byte
	if !ex.Server {
		wantWritten = append(wantWritten, clientPreface...)
	}
	for _, f := range frames {
		if f.Dir != readDir {
			wantWritten = append(wantWritten, f.Bytes...)
		}
	}
	if !bytes.Equal(all, wantWritten) {
		return nil, verifkit.Violf("conn-bytes-changed", "bytes forwarded to the inner conn differ from what was written (%d vs %d bytes)", len(all), len(wantWritten))
	}
	coll.inflight.Wait() // (deliveries that were under way when the connection was closed)
	coll.mu.Lock()
	defer coll.mu.Unlock()
	return append([]Trace{}, coll.traces...), nil
}

// vfExpectation of one named test name after the whole exchange.
type vfStreamOutcome struct {
	stream      int
	reqSeen     []byte // request body bytes sent
	respSeen    []byte
	gotResp     bool
	ended       string // normal, rst-client, rst-server, goaway, open
	code        uint32
	reqEnded    bool
	trailers    bool
	reqTrailers bool
}

// vfSimulate computes, per stream, what was sent before the stream ended.
func vfSimulate(ex vfExchange) map[int]*vfStreamOutcome {
	out := map[int]*vfStreamOutcome{}
	openOrder := []int{}
	for _, f := range vfGlobalOrder(ex) {
		if f.kind == "goaway" {
			lastRank := -1
			for r, o := range openOrder {
				if o == f.last {
					lastRank = r
				}
			}
			for r, o := range openOrder {
				if r > lastRank && out[o].ended == "" {
					out[o].ended = "goaway"
					out[o].code = f.code
				}
			}
			continue
		}
		if f.stream < 0 {
			continue
		}
		so := out[f.stream]
		if so == nil {
			so = &vfStreamOutcome{stream: f.stream}
			out[f.stream] = so
			openOrder = append(openOrder, f.stream)
		}
		if so.ended != "" {
			continue
		}
		switch f.kind {
		case "headers":
			if f.dir == 1 {
				so.gotResp = true
			}
		case "data":
			if f.dir == 0 {
				so.reqSeen = append(so.reqSeen, f.data...)
			} else {
				so.respSeen = append(so.respSeen, f.data...)
			}
		case "trailers":
			if f.dir == 0 {
				so.reqTrailers = true
			} else {
				so.trailers = true
			}
		case "rst":
			so.code = f.code
			if f.dir == 0 {
				so.ended = "rst-client"
			} else {
				so.ended = "rst-server"
			}
		}
		if f.end {
			if f.dir == 0 {
				so.reqEnded = true
			} else {
				so.ended = "normal"
			}
		}
	}
	for _, so := range out {
		if so.ended == "" {
			so.ended = "open"
		}
	}
	return out
}

func vfProject(events []vfEv, prefix string) []vfEv {
	var out []vfEv
	for _, e := range events {
		if strings.HasPrefix(e.Kind, prefix) || (prefix == "resp-" && e.Kind == "end-stream") {
			out = append(out, e)
		}
	}
	return out
}

func vfC15Check(ex vfExchange) error {
	outcomes := vfSimulate(ex)
	// expected delivering stream per test name: the last attempt that was opened,
	// unless an earlier attempt ended in a non-retryable way (then both deliver: not generated)
	wantByName := map[string]*vfStreamOutcome{}
	for si, so := range outcomes {
		s := ex.Streams[si]
		if !s.Named {
			continue
		}
		name := vfTestName(s)
		if cur, ok := wantByName[name]; !ok || ex.Streams[cur.stream].Attempt < s.Attempt {
			wantByName[name] = so
		}
	}
	for part := 0; part < 2; part++ {
		cuts := ex.Cuts
		if part == 1 {
			cuts = [2][]int{} // second partition: whole flushes at direction changes
		}
		traces, err := vfRunExchange(ex, cuts)
		if err != nil {
			return err
		}
		got := map[string][]Trace{}
		for _, tr := range traces {
			got[tr.TestName] = append(got[tr.TestName], tr)
		}
		for name, trs := range got {
			if name == "" {
				return verifkit.Violf("unnamed-trace", "a trace without test name was delivered")
			}
			if _, ok := wantByName[name]; !ok {
				return verifkit.Violf("unexpected-trace", "trace for %q delivered but no stream carried that name", name)
			}
			if len(trs) != 1 {
				return verifkit.Violf("h2-trace-count", "%d traces completed for %s (partition %d), want exactly 1", len(trs), name, part)
			}
		}
		for name, so := range wantByName {
			trs := got[name]
			s := ex.Streams[so.stream]
			key := "h2-missing-trace:" + so.ended
			if so.ended == "rst-server" && !so.gotResp {
				key = "h2-missing-trace:rst-server-before-response"
			}
			if len(trs) != 1 {
				return verifkit.Violf(key, "stream %d (%s, ended %s, response started %v, partition %d) has %d completed traces, want 1", so.stream, name, so.ended, so.gotResp, part, len(trs))
			}
			tr := trs[0]
			// the right attempt / stream
			if tr.Request == nil || tr.Request.Header.Get("X-Stream-Index") != fmt.Sprint(so.stream) {
				gotIdx := "?"
				if tr.Request != nil {
					gotIdx = tr.Request.Header.Get("X-Stream-Index")
				}
				return verifkit.Violf("h2-wrong-stream", "trace for %s describes stream %s, want stream %d (attempt %d)", name, gotIdx, so.stream, s.Attempt)
			}
			if tr.Request.Method != "POST" || tr.Request.URL.Path != fmt.Sprintf("/connectrpc.conformance.v1.ConformanceService/M%d", so.stream) ||
				tr.Request.URL.RawQuery != s.Query || tr.Request.Header.Get("Content-Type") != s.ReqCT || tr.Request.Header.Get("X-Attempt") != fmt.Sprint(s.Attempt) {
				return verifkit.Violf("h2-request-line", "stream %d: request line/headers wrong: %s %s ?%s (query sent: %q) %v", so.stream, tr.Request.Method, tr.Request.URL.Path, tr.Request.URL.RawQuery, s.Query, tr.Request.Header)
			}
			if got := fmt.Sprint(tr.Request.Header.Values("X-Multi")); got != fmt.Sprintf("[a%d b]", so.stream) {
				return verifkit.Violf("h2-request-line", "stream %d: the request header field x-multi was sent twice (a%d, b) but the trace has %s", so.stream, so.stream, got)
			}
			if (s.BigHeaders || s.HugeHeaders) && tr.Request.Header.Get("X-Big") != strings.Repeat("abcdefghij", 40) {
				return verifkit.Violf("h2-request-line", "stream %d: header carried in CONTINUATION frames is missing", so.stream)
			}
			if s.HugeHeaders {
				for k := 0; k < 24; k++ {
					if got := tr.Request.Header.Get(fmt.Sprintf("X-Pad-%d", k)); got != strings.Repeat(string(rune('a'+k)), 1000) {
						return verifkit.Violf("h2-request-line", "stream %d: of a header list of 25 kB the trace lacks (or alters) field x-pad-%d: %d bytes", so.stream, k, len(got))
					}
				}
				if tr.Request.Header.Get("X-Last") != "end" {
					return verifkit.Violf("h2-request-line", "stream %d: of a header list of 25 kB the trace lacks the last field", so.stream)
				}
			}
			events := vfSummarise(tr.Events)
			if len(events) == 0 || events[0].Kind != "req-start" {
				return verifkit.Violf("h2-events", "stream %d: trace does not start with the request", so.stream)
			}
			// response status/headers/trailers
			if so.gotResp {
				if tr.Response == nil || tr.Response.StatusCode != 200 || tr.Response.Header.Get("X-Resp-For") != fmt.Sprint(so.stream) || tr.Response.Header.Get("Content-Type") != s.RespCT {
					return verifkit.Violf("h2-response", "stream %d: response status/headers wrong or attributed to another stream: %+v", so.stream, tr.Response)
				}
				if got := fmt.Sprint(tr.Response.Header.Values("X-Resp-Multi")); got != fmt.Sprintf("[r1 r2-%d]", so.stream) {
					return verifkit.Violf("h2-response", "stream %d: the response header field x-resp-multi was sent twice but the trace has %s", so.stream, got)
				}
				if got := fmt.Sprint(tr.Response.Trailer.Values("X-Trailer-Multi")); so.trailers && got != "[t1 t2]" {
					return verifkit.Violf("h2-trailers", "stream %d: the trailer field x-trailer-multi was sent twice but the trace has %s", so.stream, got)
				}
				if so.trailers && tr.Response.Trailer.Get("X-Trailer-For") != fmt.Sprint(so.stream) {
					return verifkit.Violf("h2-trailers", "stream %d: trailers missing or of another stream: %v", so.stream, tr.Response.Trailer)
				}
			} else if tr.Response != nil {
				return verifkit.Violf("h2-response", "stream %d: no response was sent but the trace has one", so.stream)
			}
			if so.reqTrailers && tr.Request.Trailer.Get("X-Req-Trailer-For") != fmt.Sprint(so.stream) {
				return verifkit.Violf("h2-request-trailers", "stream %d: request trailers missing or of another stream: %v", so.stream, tr.Request.Trailer)
			}
			// messages, per direction
			reqSpec := vfBodySpec{ContentType: s.ReqCT, Body: so.reqSeen}
			respSpec := vfBodySpec{ContentType: s.RespCT, Body: so.respSeen}
			reqModel := vfModelBody(reqSpec, len(so.reqSeen), true, "")
			respModel := vfModelBody(respSpec, len(so.respSeen), false, "")
			reqGot := vfProject(events, "req-")[1:] // drop req-start
			respGot := vfProject(events, "resp-")
			last := events[len(events)-1]
			wantErr := ""
			switch so.ended {
			case "normal":
				if last.Kind != "resp-end" || last.Err != "" {
					return verifkit.Violf("h2-last-event", "stream %d ended normally but the trace ends with %v", so.stream, last)
				}
			case "rst-client":
				wantErr = http2.ErrCode(so.code).String()
				if last.Kind != "req-end" || !strings.Contains(last.Err, wantErr) {
					return verifkit.Violf("h2-last-event", "stream %d was reset by the client (%s) but the trace ends with %v", so.stream, wantErr, last)
				}
			case "rst-server":
				wantErr = http2.ErrCode(so.code).String()
				if last.Kind != "resp-end" || !strings.Contains(last.Err, wantErr) {
					return verifkit.Violf("h2-last-event", "stream %d was reset by the server (%s) but the trace ends with %v", so.stream, wantErr, last)
				}
			case "goaway":
				wantErr = http2.ErrCode(so.code).String()
				if last.Kind != "resp-end" || !strings.Contains(last.Err, wantErr) {
					return verifkit.Violf("h2-last-event", "stream %d was cut by GOAWAY (%s) but the trace ends with %v", so.stream, wantErr, last)
				}
			case "open":
				if !strings.Contains(last.Err, "socket closed") && !(ex.PeerCloses && strings.Contains(last.Err, "EOF")) {
					return verifkit.Violf("h2-last-event", "stream %d was open when the connection closed but the trace ends with %v", so.stream, last)
				}
			}
			// complete messages of each direction must be exactly the model's, in order
			if d := vfMatchPrefixEvents(vfDataOnly(reqModel), vfDataOnly(reqGot), so.reqEnded); d != "" {
				return verifkit.Violf("h2-request-messages", "stream %d (ended %s): request messages: %s\n model: %v\n actual: %v", so.stream, so.ended, d, reqModel, reqGot)
			}
			if so.gotResp {
				if d := vfMatchPrefixEvents(vfDataOnly(respModel), vfDataOnly(respGot), so.ended == "normal"); d != "" {
					return verifkit.Violf("h2-response-messages", "stream %d (ended %s): response messages: %s\n model: %v\n actual: %v", so.stream, so.ended, d, respModel, respGot)
				}
			}
			if so.reqEnded {
				found := false
				for _, e := range reqGot {
					if e.Kind == "req-end" && e.Err == "" {
						found = true
					}
				}
				if !found {
					return verifkit.Violf("h2-request-end", "stream %d: request ended (END_STREAM) but the trace has no clean request end: %v", so.stream, events)
				}
			}
		}
	}
	return nil
}

// vfDataOnly keeps data and end-stream events.
func vfDataOnly(evs []vfEv) []vfEv {
	var out []vfEv
	for _, e := range evs {
		if e.Kind == "req-data" || e.Kind == "resp-data" || e.Kind == "end-stream" {
			out = append(out, e)
		}
	}
	return out
}

// vfMatchPrefixEvents: model vs actual where partial (unfinished) events of
// the model are optional (who emits them depends on which side ended the stream).
// vfPartialRequired (C14H2Bodies): a body that stops inside an envelope must show in the trace as a final partial
// data event, however the stream ended. (C15 itself is about attribution and leaves that event optional.)
var vfPartialRequired bool

func vfMatchPrefixEvents(model, actual []vfEv, endedNormally bool) string {
	if vfPartialRequired {
		return vfMatchEvents(model, actual)
	}
	for i := range model {
		partial := !model[i].HasEnv || model[i].Len != uint64(model[i].Declared)
		if (model[i].Kind == "req-data" || model[i].Kind == "resp-data") && partial && model[i].HasEnv {
			model[i].optional = true
		}
		if (model[i].Kind == "req-data" || model[i].Kind == "resp-data") && !model[i].HasEnv && i == len(model)-1 && (vfIsPartialPrefix(model[i]) || !endedNormally) {
			model[i].optional = true
		}
	}
	return vfMatchEvents(model, actual)
}

func vfIsPartialPrefix(e vfEv) bool { return e.Len < 5 }

func vfC15Classify(ex vfExchange) ([]string, bool) {
	var cl []string
	faults := 0
	for _, s := range ex.Streams {
		if s.Fault != "" {
			faults++
			cl = append(cl, "fault:"+s.Fault)
		}
		if s.BigHeaders || s.HugeHeaders {
			cl = append(cl, "continuation")
		}
		if s.HugeHeaders {
			cl = append(cl, "header-list>16KiB")
		}
	}
	if ex.GoAwayAt >= 0 {
		faults++
		cl = append(cl, "goaway")
	}
	if len(ex.Streams) >= 2 {
		cl = append(cl, "multi-stream")
	}
	cutInHeader := len(ex.Cuts[0])+len(ex.Cuts[1]) > 0
	return cl, (len(ex.Streams) >= 2 && cutInHeader) || faults > 0
}

var vfH2CTs = []string{"application/grpc", "application/grpc+proto", "application/connect+proto", "application/grpc-web+proto", "application/proto"}

func vfGenMsgs(t *rapid.T, label string) []vfMsg {
	var out []vfMsg
	for i, n := 0, rapid.IntRange(0, 4).Draw(t, label+"-n"); i < n; i++ {
		m := vfMsg{Flags: rapid.SampledFrom([]byte{0, 0, 0, 1}).Draw(t, label+"-flags")}
		switch rapid.IntRange(0, 5).Draw(t, label+"-size") {
		case 0:
		case 1:
			m.Payload = bytes.Repeat([]byte{byte('a' + i)}, rapid.IntRange(16000, 40000).Draw(t, label+"-big"))
		default:
			m.Payload = rapid.SliceOfN(rapid.Byte(), 1, 60).Draw(t, label+"-payload")
		}
		out = append(out, m)
	}
	return out
}

func vfGenExchange(t *rapid.T) vfExchange {
	ex := vfExchange{Server: rapid.Bool().Draw(t, "server"), GoAwayAt: -1}
	n := rapid.IntRange(1, 5).Draw(t, "nstreams")
	nextName := 0
	for i := 0; i < n; i++ {
		s := vfStreamSpec{Named: rapid.IntRange(0, 5).Draw(t, "named") != 0, Name: nextName, Attempt: 1}
		nextName++
		s.ReqCT = rapid.SampledFrom(vfH2CTs).Draw(t, "reqCT")
		s.RespCT = s.ReqCT
		if rapid.IntRange(0, 3).Draw(t, "otherRespCT") == 0 {
			// the response need not be of the request's kind (an error page answering an enveloped request, ...)
			s.RespCT = rapid.SampledFrom(append([]string{"text/plain"}, vfH2CTs...)).Draw(t, "respCT")
		}
		s.ReqMsgs = vfGenMsgs(t, "req")
		s.RespMsgs = vfGenMsgs(t, "resp")
		for j, k := 0, rapid.IntRange(0, 3).Draw(t, "nsizes"); j < k; j++ {
			s.ReqFrameSizes = append(s.ReqFrameSizes, rapid.SampledFrom([]int{1, 2, 3, 5, 7, 100, 16384}).Draw(t, "reqsize"))
			s.RespFrameSizes = append(s.RespFrameSizes, rapid.SampledFrom([]int{1, 2, 4, 5, 9, 100, 16384}).Draw(t, "respsize"))
		}
		s.ReqEndEmpty = rapid.Bool().Draw(t, "reqEndEmpty")
		if rapid.IntRange(0, 5).Draw(t, "truncatedBodies") == 0 {
			s.ReqTail, s.RespTail = rapid.IntRange(0, 4).Draw(t, "reqTail"), rapid.IntRange(0, 4).Draw(t, "respTail")
		}
		s.ReqTrailers = rapid.IntRange(0, 4).Draw(t, "reqTrailers") == 0
		s.Trailers = rapid.Bool().Draw(t, "trailers")
		s.BigHeaders = rapid.IntRange(0, 4).Draw(t, "bigHeaders") == 0
		s.HugeHeaders = rapid.IntRange(0, 11).Draw(t, "hugeHeaders") == 0
		s.Query = rapid.SampledFrom([]string{"", "", "", "connect=v1&encoding=json", "a=1", "message=%7B%22q%22%3A1%7D&x=1", "message={\"q\":\"who?what\"}&x=1", "?", "a=b?c=d?e"}).Draw(t, "query")
		s.Padded = rapid.IntRange(0, 3).Draw(t, "padded") == 0
		for j := 0; j < 6; j++ {
			s.Order = append(s.Order, rapid.Bool().Draw(t, "order"))
		}
		switch rapid.IntRange(0, 9).Draw(t, "fault") {
		case 0:
			s.Fault = "rst-client"
		case 1:
			s.Fault = "rst-server"
		case 2:
			s.Fault = "open"
		case 3:
			s.Fault = "refused"
		}
		s.FaultAt = rapid.IntRange(0, 12).Draw(t, "faultAt")
		// any error code, NO_ERROR included (REFUSED_STREAM has a meaning of its own: the "refused" fault)
		s.RSTCode = uint32(rapid.SampledFrom([]http2.ErrCode{http2.ErrCodeCancel, http2.ErrCodeNo, http2.ErrCodeInternal, http2.ErrCodeProtocol, http2.ErrCodeEnhanceYourCalm,
			http2.ErrCodeNo, http2.ErrCodeFlowControl, http2.ErrCodeStreamClosed, http2.ErrCodeHTTP11Required}).Draw(t, "rstCode"))
		ex.Streams = append(ex.Streams, s)
		if s.Fault == "refused" && s.Named && len(ex.Streams) < 6 && rapid.Bool().Draw(t, "retry") {
			r := s
			r.Attempt = 2
			r.Fault = ""
			r.BigHeaders, r.HugeHeaders = false, false
			ex.Streams = append(ex.Streams, r)
		}
	}
	for i := 0; i < 12; i++ {
		ex.Schedule = append(ex.Schedule, rapid.IntRange(0, 7).Draw(t, "sched"))
	}
	for i, k := 0, rapid.IntRange(0, 4).Draw(t, "nnoise"); i < k; i++ {
		ex.Noise = append(ex.Noise, rapid.IntRange(1, 30).Draw(t, "noise"))
	}
	if rapid.IntRange(0, 5).Draw(t, "goaway") == 0 {
		ex.GoAwayAt = rapid.IntRange(0, 15).Draw(t, "goAwayAt")
		ex.GoAwayLast = rapid.IntRange(-1, 4).Draw(t, "goAwayLast")
		ex.GoAwayCode = uint32(rapid.SampledFrom([]http2.ErrCode{http2.ErrCodeNo, http2.ErrCodeInternal, http2.ErrCodeEnhanceYourCalm}).Draw(t, "goAwayCode"))
		ex.GoAwayGraceful = rapid.IntRange(0, 2).Draw(t, "goAwayGraceful") == 0
	}
	// cuts: inside frame headers (by construction) plus random ones
	frames, _ := vfBuildFrames(ex)
	var off [2]int
	off[0] = len(clientPreface)
	for _, f := range frames {
		if rapid.IntRange(0, 2).Draw(t, "cutInHeader") == 0 {
			ex.Cuts[f.Dir] = append(ex.Cuts[f.Dir], off[f.Dir]+rapid.IntRange(1, 8).Draw(t, "hdrcut"))
		}
		off[f.Dir] += len(f.Bytes)
	}
	for d := 0; d < 2; d++ {
		for i, k := 0, rapid.IntRange(0, 6).Draw(t, "nrandcuts"); i < k && off[d] > 1; i++ {
			ex.Cuts[d] = append(ex.Cuts[d], rapid.IntRange(1, off[d]-1).Draw(t, "randcut"))
		}
	}
	ex.EagerReply = rapid.IntRange(0, 3).Draw(t, "eagerReply") == 0
	ex.CloseFails = rapid.IntRange(0, 4).Draw(t, "closeFails") == 0
	for d := 0; d < 2; d++ {
		if rapid.IntRange(0, 3).Draw(t, "otherTableSize") == 0 {
			ex.TableSize[d] = rapid.SampledFrom([]int{1, 100, 200, 4097, 65536, 1 << 20}).Draw(t, "tableSize")
		}
	}
	ex.PeerCloses = rapid.IntRange(0, 3).Draw(t, "peerCloses") == 0
	if rapid.IntRange(0, 2).Draw(t, "timeoutReads") == 0 {
		for i, k := 0, rapid.IntRange(1, 6).Draw(t, "ntimeouts"); i < k; i++ {
			ex.TimeoutReads = append(ex.TimeoutReads, rapid.IntRange(0, 15).Draw(t, "timeoutRead"))
		}
	}
	if rapid.IntRange(0, 9).Draw(t, "bytewise") == 0 {
		for d := 0; d < 2; d++ {
			for i := 1; i < off[d] && i < 400; i++ {
				ex.Cuts[d] = append(ex.Cuts[d], i)
			}
		}
	}
	return ex
}

func TestVerifC15Exchange(t *testing.T) {
	verifkit.Run(t, "C15Exchange", verifkit.Spec[vfExchange]{Gen: vfGenExchange, Check: vfC15Check, Classify: vfC15Classify})
}

// ---- native fuzz target: arbitrary bytes, arbitrary partition, never panics, transparent ----

func FuzzVerifC15Conn(f *testing.F) {
	valid := vfValidExchangeBytes()
	f.Add(valid[0], valid[1], uint16(7), true)
	f.Add(valid[0], valid[1], uint16(1), false)
	for i, v := range vfValidExchanges()[1:] {
		f.Add(v[0], v[1], uint16(5+i), i%2 == 0)
	}
	f.Add([]byte(clientPreface), []byte{0, 0, 0, 4, 0, 0, 0, 0, 0}, uint16(3), true)
	f.Add([]byte{0, 0, 5, 1, 4, 0, 0, 0, 1, 0x82, 0x86, 0x84, 0x41, 0x8a}, []byte{0, 0, 4, 3, 0, 0, 0, 0, 1, 0, 0, 0, 7}, uint16(2), false)
	f.Fuzz(func(t *testing.T, c2s, s2c []byte, chunk uint16, server bool) {
		if len(c2s) > 1<<16 || len(s2c) > 1<<16 {
			return
		}
		in, out := s2c, c2s
		if server {
			in, out = c2s, s2c
		}
		step := int(chunk%97) + 1
		c := vfC15RawCase{Server: server, Inbound: in, Outbound: out}
		for i := step; i < len(out); i += step {
			c.WriteCuts = append(c.WriteCuts, i)
		}
		for i := 0; i < len(in); i += step {
			c.ReadSteps = append(c.ReadSteps, vfConnStep{N: step})
		}
		for i := 0; i < len(in)/step+len(out)/step+4; i++ {
			c.Order = append(c.Order, i%2 == 0)
		}
		if err := vfC15RawCheck(c); err != nil {
			t.Fatal(err)
		}
	})
}

// ---- several connections of one traced listener ----

type vfFakeListener struct{ conns chan net.Conn }

func (l *vfFakeListener) Accept() (net.Conn, error) {
	c, ok := <-l.conns
	if !ok {
		return nil, net.ErrClosed
	}
	return c, nil
}
func (l *vfFakeListener) Close() error   { return nil }
func (l *vfFakeListener) Addr() net.Addr { return &net.TCPAddr{IP: net.IPv4(127, 0, 0, 1), Port: 1} }

// TestVerifC15Listener: two connections accepted from one TracingHTTP2Listener. On the first a named stream is refused
// and the client retries it on the same connection; in between, a second connection carries another call and is closed
// (or hits the end of its input). The refused call still yields exactly one trace, that of the retry; the other
// connection's call yields its own.
func TestVerifC15Listener(t *testing.T) {
	en := verifkit.NewEnum(t, "C15Listener")
	type row struct {
		OtherPeerCloses bool `json:"otherConnectionEndsByPeer"`
		OtherStreams    int  `json:"otherConnectionStreams"`
	}
	mk := func(name, attempt int, refused bool) vfStreamSpec {
		sp := vfStreamSpec{Named: true, Name: name, Attempt: attempt, ReqCT: "application/grpc", RespCT: "application/grpc",
			ReqMsgs: []vfMsg{{Payload: []byte("ping")}}, RespMsgs: []vfMsg{{Payload: []byte("pong")}}, Trailers: true, Order: []bool{true, false, true, false}}
		if refused {
			sp.Fault, sp.FaultAt, sp.RSTCode = "refused", 1, 7
		}
		return sp
	}
	for _, peerCloses := range []bool{false, true} {
		for _, others := range []int{1, 2} {
			r := row{peerCloses, others}
			shared := &vfCollector{}
			fake := &vfFakeListener{conns: make(chan net.Conn, 4)}
			tl := TracingHTTP2Listener(fake, shared)
			vfConnFactory = func(inner *vfScriptConn, _ bool) (net.Conn, *vfCollector) {
				fake.conns <- inner
				c, err := tl.Accept()
				if err != nil {
					panic(err)
				}
				return c, shared
			}
			var otherErr error
			vfPauseBeforeFrame = func(desc string) time.Duration {
				if strings.HasPrefix(desc, "headers(s1,dir0") {
					return time.Millisecond
				}
				return 0
			}
			vfAtPause = func(string) {
				// the other connection, from accept to close, while the refused call waits for its retry
				savedPause, savedAt := vfPauseBeforeFrame, vfAtPause
				vfPauseBeforeFrame, vfAtPause = nil, nil
				defer func() { vfPauseBeforeFrame, vfAtPause = savedPause, savedAt }()
				other := vfExchange{Server: true, GoAwayAt: -1, Schedule: []int{0}, PeerCloses: peerCloses}
				for i := 0; i < others; i++ {
					other.Streams = append(other.Streams, mk(10+i, 1, false))
				}
				_, otherErr = vfRunExchange(other, [2][]int{})
			}
			first := vfExchange{Server: true, GoAwayAt: -1, Schedule: []int{0}, Streams: []vfStreamSpec{mk(0, 1, true), mk(0, 2, false)}}
			_, err := vfRunExchange(first, [2][]int{})
			vfConnFactory, vfPauseBeforeFrame, vfAtPause = nil, nil, nil
			var viol error
			switch {
			case err != nil:
				viol = err
			case otherErr != nil:
				viol = otherErr
			default:
				shared.mu.Lock()
				byName := map[string][]Trace{}
				for _, tr := range shared.traces {
					byName[tr.TestName] = append(byName[tr.TestName], tr)
				}
				shared.mu.Unlock()
				retried := byName[vfTestName(mk(0, 1, false))]
				switch {
				case len(retried) != 1:
					viol = verifkit.Violf("h2-trace-count", "%d traces completed for the call that was refused and retried (another connection of the same listener ended in between), want exactly 1", len(retried))
				case retried[0].Request == nil || retried[0].Request.Header.Get("X-Attempt") != "2":
					viol = verifkit.Violf("h2-wrong-stream", "the trace of the refused and retried call is not that of the retry")
				}
				for i := 0; i < others && viol == nil; i++ {
					if n := len(byName[vfTestName(mk(10+i, 1, false))]); n != 1 {
						viol = verifkit.Violf("h2-trace-count", "%d traces for call %d of the other connection, want 1", n, i)
					}
				}
			}
			en.Rec.Observe(r, []string{fmt.Sprintf("other-ends-by-peer:%v", peerCloses), fmt.Sprintf("other-streams:%d", others)}, true)
			if viol != nil && en.Fail(r, viol) {
				en.Done(true)
				return
			}
		}
	}
	en.Done(true)
}

// ---- refused streams and the retry period (shared with C16) ----

// TestVerifC16RetryTimer: a named stream is refused by the peer and never retried. The trace is held back for the
// retry period and then delivered by a timer; when the connection is closed later, that operation has already
// completed its trace - it must not be completed a second time. (Borrows the HTTP/2 exchange driver of the C15
// harness; waits out the real retry period, hence only a handful of cases.)
func TestVerifC15RetryTimer(t *testing.T) { vfRetryTimerUnit(t, "C15RetryTimer") }

func vfRetryTimerUnit(t *testing.T, unit string) {
	en := verifkit.NewEnum(t, unit)
	type row struct {
		Server bool `json:"server"`
		Extra  bool `json:"extraStream"` // another, normal stream on the same connection
		Wait   bool `json:"waitOutRetryPeriod"`
		// PeerEnds: the connection ends the usual way - the peer closes (Read returns EOF), then this side calls Close -
		// so the tracer learns twice that the connection is gone
		PeerEnds bool `json:"peerEnds"`
		// SlowCollector: the collector takes 600 ms to accept a trace and the connection is closed 150 ms after the
		// retry period ran out, i.e. while the held-back trace is being handed over
		SlowCollector bool `json:"slowCollector,omitempty"`
	}
	var rows []row
	for _, server := range []bool{false, true} {
		for _, extra := range []bool{false, true} {
			for _, wait := range []bool{true, false} {
				rows = append(rows, row{server, extra, wait, false, false})
			}
			rows = append(rows, row{server, extra, false, true, false})
		}
		rows = append(rows, row{server, false, true, false, true}, row{server, true, true, true, true})
	}
	var mu sync.Mutex // vfBeforeClose is a package variable: one exchange at a time
	for _, r := range rows {
		ex := vfExchange{Server: r.Server, GoAwayAt: -1, PeerCloses: r.PeerEnds}
		ex.Streams = append(ex.Streams, vfStreamSpec{Named: true, Name: 0, Attempt: 1, ReqCT: "application/proto", RespCT: "application/proto",
			ReqMsgs: []vfMsg{{Payload: []byte("ping")}}, Fault: "refused", FaultAt: 1, RSTCode: 7, Order: []bool{true, false}})
		if r.Extra {
			ex.Streams = append(ex.Streams, vfStreamSpec{Named: true, Name: 1, Attempt: 1, ReqCT: "application/proto", RespCT: "application/proto",
				ReqMsgs: []vfMsg{{Payload: []byte("a")}}, RespMsgs: []vfMsg{{Payload: []byte("b")}}, Trailers: true, Order: []bool{true, false}})
		}
		for i := 0; i < 12; i++ {
			ex.Schedule = append(ex.Schedule, i%2)
		}
		mu.Lock()
		if r.Wait {
			vfBeforeClose = func() { time.Sleep(retryWait + 500*time.Millisecond) }
		}
		if r.SlowCollector {
			vfBeforeClose = func() { time.Sleep(retryWait + 150*time.Millisecond) }
			vfSlowCollect = func(Trace) time.Duration { return 600 * time.Millisecond }
		}
		traces, err := vfRunExchange(ex, [2][]int{})
		vfBeforeClose, vfSlowCollect = nil, nil
		mu.Unlock()
		var viol error
		if err != nil {
			viol = err
		} else {
			count := map[string]int{}
			for _, tr := range traces {
				count[tr.TestName]++
			}
			for name, n := range count {
				if n != 1 {
					viol = verifkit.Violf("retry-complete-count", "the operation %q completed its trace %d times (refused stream, no retry, connection closed %v the retry period): want exactly once", name, n, map[bool]string{true: "after", false: "within"}[r.Wait])
				}
			}
			if count[vfTestName(ex.Streams[0])] == 0 {
				viol = verifkit.Violf("retry-missing-trace", "the refused stream never completed a trace (%+v)", r)
			}
		}
		en.Rec.Observe(r, []string{fmt.Sprintf("server:%v", r.Server), fmt.Sprintf("waited:%v", r.Wait)}, r.Wait)
		if viol != nil && en.Fail(r, viol) {
			break
		}
	}
	// a stream refused twice and then served: attempt 2 starts (and is refused) while attempt 1's retry period is still
	// running, attempt 3 is served after attempt 1's period has run out but within attempt 2's. The operation completes
	// its trace exactly once, with the served attempt.
	for _, server := range []bool{false, true} {
		ex := vfExchange{Server: server, GoAwayAt: -1, Schedule: []int{0}}
		for attempt := 1; attempt <= 3; attempt++ {
			sp := vfStreamSpec{Named: true, Name: 0, Attempt: attempt, ReqCT: "application/proto", RespCT: "application/proto",
				ReqMsgs: []vfMsg{{Payload: []byte("ping")}}, RespMsgs: []vfMsg{{Payload: []byte("pong")}}, Trailers: true, Order: []bool{true, false, true, false}}
			if attempt < 3 {
				sp.Fault, sp.FaultAt, sp.RSTCode = "refused", 1, 7
			}
			ex.Streams = append(ex.Streams, sp)
		}
		mu.Lock()
		vfPauseBeforeFrame = func(desc string) time.Duration {
			switch {
			case strings.HasPrefix(desc, "headers(s1,dir0"):
				return retryWait / 2
			case strings.HasPrefix(desc, "headers(s2,dir0"):
				return retryWait/2 + 400*time.Millisecond
			}
			return 0
		}
		err := vfC15Check(ex)
		vfPauseBeforeFrame = nil
		mu.Unlock()
		r := map[string]any{"server": server, "scenario": "refused, refused again within the retry period, then served"}
		en.Rec.Observe(r, []string{fmt.Sprintf("server:%v", server), "double-refusal"}, true)
		if err != nil && en.Fail(r, err) {
			break
		}
	}
	en.Done(true)
}
