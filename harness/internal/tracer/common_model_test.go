//go:build verif

package tracer

import (
	"encoding/binary"
	"fmt"
	"strings"

	"connectrpc.com/conformance/internal/verifkit"
)

type vfBodySpec struct {
	ContentType string `json:"contentType"`
	Encoding    string `json:"encoding"`  // negotiated per-message encoding ("" = none)
	WholeBody   string `json:"wholeBody"` // Content-Encoding of the whole body ("" = none)
	Body        []byte `json:"body"`
	Cuts        []int  `json:"cuts"`        // offsets at which a Read/Write call ends
	Cuts2       []int  `json:"cuts2"`       // a second partition of the same bytes
	End         string `json:"end"`         // eof | eof-with-data | error | close-early
	ErrWithData bool   `json:"errWithData"` // end=error: the last bytes and the error arrive in the same Read call
	CloseErr    bool   `json:"closeErr"`    // closing the body fails
	Items       string `json:"items"`       // readable description of the envelope items
	// Stray: the encoding header of the *other* family of protocols is present too, with this value (a multi-protocol
	// peer that sets both): it says nothing about this body
	Stray string `json:"strayEncodingHeader,omitempty"`
}

// vfEv is the comparable summary of one trace event.
type vfEv struct {
	Kind     string
	HasEnv   bool
	Flags    byte
	Declared uint32
	Len      uint64
	Index    int
	Content  string
	Err      string
	optional bool // model only: the event may or may not be present
}

func (e vfEv) String() string {
	switch e.Kind {
	case "req-data", "resp-data":
		if e.HasEnv {
			return fmt.Sprintf("%s#%d{flags=%#x declared=%d len=%d}", e.Kind, e.Index, e.Flags, e.Declared, e.Len)
		}
		return fmt.Sprintf("%s#%d{no-envelope len=%d}", e.Kind, e.Index, e.Len)
	case "end-stream":
		return fmt.Sprintf("end-stream{%q}", e.Content)
	case "req-end", "resp-end":
		return fmt.Sprintf("%s{err=%q}", e.Kind, e.Err)
	}
	return e.Kind
}

func vfSummarise(events []Event) []vfEv {
	var out []vfEv
	for _, ev := range events {
		switch ev := ev.(type) {
		case *RequestStart:
			out = append(out, vfEv{Kind: "req-start"})
		case *RequestBodyData:
			e := vfEv{Kind: "req-data", Len: ev.Len, Index: ev.MessageIndex}
			if ev.Envelope != nil {
				e.HasEnv, e.Flags, e.Declared = true, ev.Envelope.Flags, ev.Envelope.Len
			}
			out = append(out, e)
		case *RequestBodyEnd:
			out = append(out, vfEv{Kind: "req-end", Err: vfErrStr(ev.Err)})
		case *ResponseStart:
			out = append(out, vfEv{Kind: "resp-start"})
		case *ResponseError:
			out = append(out, vfEv{Kind: "resp-error", Err: vfErrStr(ev.Err)})
		case *ResponseBodyData:
			e := vfEv{Kind: "resp-data", Len: ev.Len, Index: ev.MessageIndex}
			if ev.Envelope != nil {
				e.HasEnv, e.Flags, e.Declared = true, ev.Envelope.Flags, ev.Envelope.Len
			}
			out = append(out, e)
		case *ResponseBodyEndStream:
			out = append(out, vfEv{Kind: "end-stream", Content: ev.Content})
		case *ResponseBodyEnd:
			out = append(out, vfEv{Kind: "resp-end", Err: vfErrStr(ev.Err)})
		case *RequestCanceled:
			out = append(out, vfEv{Kind: "canceled"})
		default:
			out = append(out, vfEv{Kind: fmt.Sprintf("%T", ev)})
		}
	}
	return out
}

func vfErrStr(err error) string {
	if err == nil {
		return ""
	}
	return err.Error()
}

// vfProtocolOf classifies a content type the way the protocol specs do.
func vfProtocolOf(spec vfBodySpec) (stream bool, proto string) {
	ct := strings.ToLower(spec.ContentType)
	if spec.WholeBody != "" {
		return false, "other"
	}
	switch {
	case strings.HasPrefix(ct, "application/connect+"):
		return true, "connect"
	case strings.HasPrefix(ct, "application/grpc-web"):
		return true, "grpcweb"
	case strings.HasPrefix(ct, "application/grpc"):
		return true, "grpc"
	}
	return false, "other"
}

// vfModelBody is the reference trace of one body (40-line envelope parser).
// seen is the number of body bytes that reached the application.
func vfModelBody(spec vfBodySpec, seen int, isRequest bool, endErr string) []vfEv {
	body := spec.Body[:seen]
	kind := "resp-data"
	endKind := "resp-end"
	if isRequest {
		kind, endKind = "req-data", "req-end"
	}
	var out []vfEv
	stream, proto := vfProtocolOf(spec)
	idx := 0
	if !stream {
		if len(body) > 0 {
			out = append(out, vfEv{Kind: kind, Len: uint64(len(body)), Index: 0})
		}
		return append(out, vfEv{Kind: endKind, Err: endErr})
	}
	for len(body) > 0 {
		if len(body) < 5 {
			out = append(out, vfEv{Kind: kind, Len: uint64(len(body)), Index: idx})
			break
		}
		flags, declared := body[0], binary.BigEndian.Uint32(body[1:5])
		body = body[5:]
		if uint64(len(body)) < uint64(declared) {
			// cut inside the payload (0 payload bytes seen: event optional)
			out = append(out, vfEv{Kind: kind, HasEnv: true, Flags: flags, Declared: declared, Len: uint64(len(body)), Index: idx, optional: len(body) == 0})
			break
		}
		payload := body[:declared]
		body = body[declared:]
		out = append(out, vfEv{Kind: kind, HasEnv: true, Flags: flags, Declared: declared, Len: uint64(declared), Index: idx})
		idx++
		if !isRequest && declared > 0 {
			isEnd := (proto == "connect" && flags&0x02 != 0) || (proto == "grpcweb" && flags&0x80 != 0)
			mayBeEnd := flags&0x82 != 0
			if mayBeEnd {
				content := string(payload)
				known := true
				if flags&0x01 != 0 {
					dec, err := verifkit.IndepDecode(strings.ToLower(spec.Encoding), payload)
					if err != nil {
						known = false
					}
					content = string(dec)
				}
				switch {
				case !known:
					out = append(out, vfEv{Kind: "end-stream", optional: true, Content: "\x00any"})
				case content == "":
					// nothing to show
				default:
					out = append(out, vfEv{Kind: "end-stream", Content: content, optional: !isEnd})
				}
			}
		}
	}
	return append(out, vfEv{Kind: endKind, Err: endErr})
}

// vfMatchEvents compares actual events with the model (optional model events
// may be absent).
func vfMatchEvents(model, actual []vfEv) string {
	i, j := 0, 0
	for i < len(model) || j < len(actual) {
		switch {
		case i < len(model) && j < len(actual) && vfSameEv(model[i], actual[j]):
			i++
			j++
		case i < len(model) && model[i].optional:
			i++
		default:
			return fmt.Sprintf("event %d: model %v, actual %v", j, vfEvAt(model, i), vfEvAt(actual, j))
		}
	}
	return ""
}

func vfEvAt(l []vfEv, i int) string {
	if i >= len(l) {
		return "<none>"
	}
	return l[i].String()
}

func vfSameEv(m, a vfEv) bool {
	if m.Kind == "end-stream" && a.Kind == "end-stream" && m.Content == "\x00any" {
		return true
	}
	m.optional, a.optional = false, false
	return m == a
}
