//go:build verif

package tracer

import (
	"bytes"
	"encoding/binary"
	"errors"
	"fmt"
	"io"
	"net/http"
	"net/http/httptest"
	"sort"
	"strings"
	"testing"

	"connectrpc.com/conformance/internal"
	"connectrpc.com/conformance/internal/verifkit"
	"pgregory.net/rapid"
)

// ---- C14: body tracing = reference envelope parse, partition independent, transparent ----

type vfC14Case struct {
	Side     string     `json:"side"` // client | server
	Req      vfBodySpec `json:"req"`
	Resp     vfBodySpec `json:"resp"`
	Status   int        `json:"status"`
	Trailers bool       `json:"trailers"`
	Flushes  bool       `json:"flushes"`
	// HandlerPanics (server side): the handler panics (http.ErrAbortHandler) after what it wrote of the response
	HandlerPanics bool `json:"handlerPanics,omitempty"`
}

// ---- scripted I/O ----

var errVerifBody = errors.New("verif: injected body error")
var errVerifClose = errors.New("verif: injected close error")

type vfReadRec struct {
	N   int
	Err string
}

// vfScriptReader delivers spec.Body cut at the given offsets and ends per spec.End.
type vfScriptReader struct {
	body        []byte
	cuts        []int
	end         string
	pos         int
	closed      int
	closeErr    error
	truncated   int // for end=error: number of bytes delivered before the error
	errWithData bool
}

func vfNewScriptReader(spec vfBodySpec, cuts []int) *vfScriptReader {
	r := &vfScriptReader{body: spec.Body, cuts: append([]int{}, cuts...), end: spec.End, truncated: len(spec.Body), errWithData: spec.ErrWithData}
	if spec.CloseErr {
		r.closeErr = errVerifClose
	}
	sort.Ints(r.cuts)
	return r
}

func (r *vfScriptReader) Read(p []byte) (int, error) {
	if len(p) == 0 {
		return 0, nil
	}
	if r.pos >= len(r.body) {
		if r.end == "error" {
			return 0, errVerifBody
		}
		return 0, io.EOF
	}
	end := len(r.body)
	idx := sort.SearchInts(r.cuts, r.pos+1)
	if idx < len(r.cuts) && r.cuts[idx] < end {
		end = r.cuts[idx]
	}
	if end-r.pos > len(p) {
		end = r.pos + len(p)
	}
	n := copy(p, r.body[r.pos:end])
	r.pos = end
	if r.pos >= len(r.body) && r.end == "eof-with-data" {
		return n, io.EOF
	}
	if r.pos >= len(r.body) && r.end == "error" && r.errWithData {
		return n, errVerifBody
	}
	return n, nil
}

func (r *vfScriptReader) Close() error {
	r.closed++
	return r.closeErr
}

// vfDrain reads a body the way an application would, logging every call.
// With end == "close-early" it stops after the first read and closes.
func vfDrain(body io.ReadCloser, closeEarly bool) (data []byte, log []vfReadRec, closeErr string) {
	buf := make([]byte, 1<<17)
	for {
		n, err := body.Read(buf)
		data = append(data, buf[:n]...)
		log = append(log, vfReadRec{N: n, Err: vfErrStr(err)})
		if err != nil || closeEarly {
			break
		}
	}
	return data, log, vfErrStr(body.Close())
}

// vfObservation is everything the application and the peer can see.
type vfObservation struct {
	ReqData     []byte
	ReqLog      []vfReadRec
	ReqCloseErr string
	RespData    []byte
	RespLog     []vfReadRec
	RespClose   string
	Status      int
	Header      string
	Trailer     string
	Writes      []vfReadRec
	Flushes     int
	RTErr       string
	Panic       string
}

func vfHeaderStr(h http.Header) string {
	keys := make([]string, 0, len(h))
	for k := range h {
		keys = append(keys, k)
	}
	sort.Strings(keys)
	var sb strings.Builder
	for _, k := range keys {
		fmt.Fprintf(&sb, "%s=%q;", k, h[k])
	}
	return sb.String()
}

func vfSetBodyHeaders(h http.Header, spec vfBodySpec, response bool) {
	h.Set("Content-Type", spec.ContentType)
	if spec.WholeBody != "" {
		h.Set("Content-Encoding", spec.WholeBody)
	}
	if spec.Encoding != "" {
		switch _, proto := vfProtocolOf(vfBodySpec{ContentType: spec.ContentType}); proto {
		case "connect":
			h.Set("Connect-Content-Encoding", spec.Encoding)
		case "grpc", "grpcweb":
			h.Set("Grpc-Encoding", spec.Encoding)
		}
	}
	if spec.Stray != "" {
		switch _, proto := vfProtocolOf(vfBodySpec{ContentType: spec.ContentType}); proto {
		case "connect":
			h.Set("Grpc-Encoding", spec.Stray)
		case "grpc", "grpcweb":
			h.Set("Connect-Content-Encoding", spec.Stray)
		}
	}
}

// ---- client side ----

type vfFakeTransport struct {
	c   vfC14Case
	obs *vfObservation
	cut int // which partition
}

func (f *vfFakeTransport) RoundTrip(req *http.Request) (*http.Response, error) {
	if req.Body != nil {
		f.obs.ReqData, f.obs.ReqLog, f.obs.ReqCloseErr = vfDrain(req.Body, f.c.Req.End == "close-early")
		last := f.obs.ReqLog[len(f.obs.ReqLog)-1]
		if last.Err != "" && last.Err != io.EOF.Error() {
			return nil, errVerifBody
		}
	}
	resp := &http.Response{
		StatusCode: f.c.Status, Status: fmt.Sprintf("%d %s", f.c.Status, http.StatusText(f.c.Status)),
		Proto: "HTTP/1.1", ProtoMajor: 1, ProtoMinor: 1, Header: http.Header{}, Request: req,
		ContentLength: -1,
	}
	vfSetBodyHeaders(resp.Header, f.c.Resp, true)
	resp.Header.Set("X-Verif", "1")
	cuts := f.c.Resp.Cuts
	if f.cut == 1 {
		cuts = f.c.Resp.Cuts2
	}
	resp.Body = vfNewScriptReader(f.c.Resp, cuts)
	if f.c.Trailers {
		resp.Trailer = http.Header{"X-Verif-Trailer": {"t1", "t2"}}
	}
	return resp, nil
}

func vfRunClient(c vfC14Case, cut int, wrap bool) (*vfObservation, []Trace) {
	obs := &vfObservation{}
	coll := &vfCollector{}
	var rt http.RoundTripper = &vfFakeTransport{c: c, obs: obs, cut: cut}
	if wrap {
		rt = TracingRoundTripper(rt, coll)
	}
	cuts := c.Req.Cuts
	if cut == 1 {
		cuts = c.Req.Cuts2
	}
	req, _ := http.NewRequest(http.MethodPost, "http://verif.test/connectrpc.conformance.v1.ConformanceService/Unary", nil)
	req.Body = vfNewScriptReader(c.Req, cuts)
	req.ContentLength = -1
	vfSetBodyHeaders(req.Header, c.Req, false)
	req.Header.Set(testCaseNameHeader, "verif/c14")
	resp, err := rt.RoundTrip(req)
	if err != nil {
		obs.RTErr = err.Error()
		return obs, coll.traces
	}
	obs.Status = resp.StatusCode
	obs.Header = vfHeaderStr(resp.Header)
	obs.RespData, obs.RespLog, obs.RespClose = vfDrain(resp.Body, c.Resp.End == "close-early")
	obs.Trailer = vfHeaderStr(resp.Trailer)
	return obs, coll.traces
}

// ---- server side ----

type vfRecorder struct {
	header     http.Header
	status     int
	body       bytes.Buffer
	writes     []vfReadRec
	flushes    int
	failAfter  int // fail writes once this many bytes were accepted (-1: never)
	snapshot   string
	afterWrite http.Header
}

func (r *vfRecorder) Header() http.Header { return r.header }
func (r *vfRecorder) WriteHeader(code int) {
	if r.status == 0 {
		r.status = code
		r.snapshot = vfHeaderStr(r.header)
	}
}
func (r *vfRecorder) Write(p []byte) (int, error) {
	if r.status == 0 {
		r.WriteHeader(200)
	}
	if r.failAfter >= 0 && r.body.Len()+len(p) > r.failAfter {
		n := r.failAfter - r.body.Len()
		if n < 0 {
			n = 0
		}
		r.body.Write(p[:n])
		r.writes = append(r.writes, vfReadRec{N: n, Err: errVerifBody.Error()})
		return n, errVerifBody
	}
	r.body.Write(p)
	r.writes = append(r.writes, vfReadRec{N: len(p)})
	return len(p), nil
}
func (r *vfRecorder) Flush() { r.flushes++ }

func vfRunServer(c vfC14Case, cut int, wrap bool) (*vfObservation, []Trace) {
	obs := &vfObservation{}
	coll := &vfCollector{}
	reqCuts, respCuts := c.Req.Cuts, c.Resp.Cuts
	if cut == 1 {
		reqCuts, respCuts = c.Req.Cuts2, c.Resp.Cuts2
	}
	var handler http.Handler = http.HandlerFunc(func(w http.ResponseWriter, r *http.Request) {
		obs.ReqData, obs.ReqLog, obs.ReqCloseErr = vfDrain(r.Body, c.Req.End == "close-early")
		vfSetBodyHeaders(w.Header(), c.Resp, true)
		w.Header().Set("X-Verif", "1")
		if c.Trailers {
			w.Header().Set("Trailer", "X-Declared-Trailer")
		}
		if c.Status != 200 || len(c.Resp.Body) == 0 {
			w.WriteHeader(c.Status)
		}
		// write the body in the drawn partition
		cuts := append([]int{}, respCuts...)
		sort.Ints(cuts)
		pos := 0
		body := c.Resp.Body
		for pos < len(body) {
			end := len(body)
			idx := sort.SearchInts(cuts, pos+1)
			if idx < len(cuts) && cuts[idx] < end {
				end = cuts[idx]
			}
			n, err := w.Write(body[pos:end])
			obs.Writes = append(obs.Writes, vfReadRec{N: n, Err: vfErrStr(err)})
			if err != nil {
				break
			}
			pos = end
			if c.Flushes {
				if f, ok := w.(http.Flusher); ok {
					f.Flush()
				}
			}
		}
		if c.HandlerPanics {
			// the handler gives up after what it has written (possibly the beginning of a message)
			panic(http.ErrAbortHandler)
		}
		if c.Trailers {
			w.Header().Set("X-Declared-Trailer", "d1")
			w.Header().Add(http.TrailerPrefix+"X-Verif-Trailer", "t1")
			w.Header().Add(http.TrailerPrefix+"X-Verif-Trailer", "t2")
		}
	})
	if wrap {
		handler = TracingHandler(handler, coll)
	}
	req := httptest.NewRequest(http.MethodPost, "/connectrpc.conformance.v1.ConformanceService/Unary", nil)
	req.Body = vfNewScriptReader(c.Req, reqCuts)
	req.ContentLength = -1
	vfSetBodyHeaders(req.Header, c.Req, false)
	req.Header.Set(testCaseNameHeader, "verif/c14")
	rec := &vfRecorder{header: http.Header{}, failAfter: -1}
	if c.Resp.End == "error" {
		rec.failAfter = len(c.Resp.Body) * 2 / 3
	}
	func() {
		defer func() {
			if p := recover(); p != nil {
				obs.Panic = fmt.Sprint(p) // (the server around the handler deals with it; with tracing it must still arrive there)
			}
		}()
		handler.ServeHTTP(rec, req)
	}()
	obs.Status = rec.status
	obs.Header = rec.snapshot
	obs.Trailer = vfHeaderStr(rec.header)
	obs.RespData = rec.body.Bytes()
	obs.RespLog = rec.writes
	obs.Flushes = rec.flushes
	return obs, coll.traces
}

// ---- the oracle ----

func vfC14Check(c vfC14Case) error {
	run := vfRunClient
	if c.Side == "server" {
		run = vfRunServer
	}
	plain, _ := run(c, 0, false)
	var summaries [][]vfEv
	for cut := 0; cut < 2; cut++ {
		obs, traces := run(c, cut, true)
		// (3) transparency: identical observations to the unwrapped run of the same script
		if cut == 0 {
			if a, b := fmt.Sprintf("%+v", *plain), fmt.Sprintf("%+v", *obs); a != b {
				return verifkit.Violf("not-transparent", "application/peer observations differ with tracing:\n plain : %.1500s\n traced: %.1500s", a, b)
			}
		}
		if len(traces) != 1 {
			return verifkit.Violf("trace-count", "%d traces completed (partition %d), want exactly 1", len(traces), cut)
		}
		events := vfSummarise(traces[0].Events)
		summaries = append(summaries, events)
		// (1) reference trace
		var model []vfEv
		model = append(model, vfEv{Kind: "req-start"})
		reqEndErr := ""
		switch {
		case c.Req.End == "error":
			reqEndErr = errVerifBody.Error()
		case c.Req.End == "close-early":
			reqEndErr = "closed before fully consumed"
			if c.Req.CloseErr {
				reqEndErr = "close: " + errVerifClose.Error() // (which text the trace carries is informational; the close did fail)
			}
		}
		reqSeen := len(obs.ReqData)
		model = append(model, vfModelBody(c.Req, reqSeen, true, reqEndErr)...)
		reqFailed := reqEndErr != ""
		if c.Req.End == "close-early" && vfReadHitEOF(obs.ReqLog) {
			// the single read already returned EOF: the body ended cleanly before the close
			model[len(model)-1].Err = ""
			reqFailed = false
		}
		if !reqFailed {
			model = append(model, vfEv{Kind: "resp-start"})
			respEndErr := ""
			switch {
			case c.Resp.End == "error":
				respEndErr = errVerifBody.Error()
			case c.Resp.End == "close-early" && c.Side == "client":
				respEndErr = "closed before fully consumed"
				if c.Resp.CloseErr {
					respEndErr = "close: " + errVerifClose.Error()
				}
			}
			if c.Side == "client" && c.Resp.End == "close-early" && vfReadHitEOF(obs.RespLog) {
				respEndErr = ""
			}
			if c.Side == "server" && c.Resp.End == "error" && len(c.Resp.Body) == 0 {
				respEndErr = "" // nothing written, nothing failed
			}
			if c.Side == "server" && c.HandlerPanics && respEndErr == "" {
				respEndErr = "panic: " + http.ErrAbortHandler.Error()
			}
			model = append(model, vfModelBody(c.Resp, len(obs.RespData), false, respEndErr)...)
		}
		if diff := vfMatchEvents(model, events); diff != "" {
			return verifkit.Violf("trace-mismatch", "side=%s partition=%d: %s\n model : %v\n actual: %v\n req items: %s\n resp items: %s", c.Side, cut, diff, model, events, c.Req.Items, c.Resp.Items)
		}
		if err := vfCheckPrinted(traces[0]); err != nil {
			return err
		}
	}
	// (2) the event list does not depend on the partition
	if c.Req.End == "close-early" || c.Resp.End == "close-early" {
		return nil // an early Close consumes a partition-dependent number of bytes
	}
	if a, b := fmt.Sprint(summaries[0]), fmt.Sprint(summaries[1]); a != b {
		return verifkit.Violf("partition-dependent", "events differ between two partitions of the same bytes:\n A: %s\n B: %s", a, b)
	}
	return nil
}

// vfCheckPrinted: the printed form of a trace (what the runner shows under "---- HTTP Trace ----") says of every
// enveloped message what its event says: "prefix: flags=F, len=L" and, once payload bytes were seen,
// "data: seen/L bytes" (the documented form, docs/configuring_and_running_tests.md); a partial prefix or a message
// of a body that is not enveloped prints as "data: N bytes".
func vfCheckPrinted(tr Trace) error {
	p := &internal.SimplePrinter{}
	tr.Print(p)
	printed := strings.Join(p.Messages, "\n")
	has := func(prefix, text string) bool {
		for _, l := range p.Messages {
			if strings.HasPrefix(l, prefix) && strings.HasSuffix(strings.TrimRight(l, "\n"), text) {
				return true
			}
		}
		return false
	}
	for _, ev := range tr.Events {
		var prefix string
		var env *Envelope
		var n uint64
		var idx int
		switch e := ev.(type) {
		case *RequestBodyData:
			prefix, env, n, idx = requestPrefix, e.Envelope, e.Len, e.MessageIndex
		case *ResponseBodyData:
			prefix, env, n, idx = responsePrefix, e.Envelope, e.Len, e.MessageIndex
		default:
			continue
		}
		var want []string
		if env != nil {
			want = append(want, fmt.Sprintf("message #%d: prefix: flags=%d, len=%d", idx+1, env.Flags, env.Len))
			if n > 0 {
				want = append(want, fmt.Sprintf("message #%d: data: %d/%d bytes", idx+1, n, env.Len))
			}
		} else {
			want = append(want, fmt.Sprintf("message #%d: data: %d bytes", idx+1, n))
		}
		for _, w := range want {
			if !has(prefix, w) {
				return verifkit.Violf("printed-trace", "the printed trace has no %q line ending in %q for the event %+v\n%.1500s", prefix, w, ev, printed)
			}
		}
	}
	return nil
}

func vfReadHitEOF(log []vfReadRec) bool {
	return len(log) > 0 && log[len(log)-1].Err == io.EOF.Error()
}

// ---- generator ----

// (media types are case-insensitive: the spelled-out variants are the same protocols)
var vfStreamCTs = []string{"application/connect+proto", "application/connect+json", "application/grpc", "application/grpc+proto", "application/grpc-web+proto", "application/grpc-web",
	"Application/Connect+Proto", "APPLICATION/GRPC", "application/GRPC-Web+proto"}
var vfUnaryCTs = []string{"application/proto", "application/json", "text/plain", "Application/JSON"}

func vfGenBody(t *rapid.T, label string, response bool) vfBodySpec {
	var spec vfBodySpec
	streamKind := rapid.IntRange(0, 9).Draw(t, label+"-kind")
	switch {
	case streamKind == 0:
		spec.ContentType = rapid.SampledFrom(vfUnaryCTs).Draw(t, label+"-ct")
	case streamKind == 1:
		spec.ContentType = rapid.SampledFrom(vfStreamCTs).Draw(t, label+"-ct")
		spec.WholeBody = "gzip"
	default:
		spec.ContentType = rapid.SampledFrom(vfStreamCTs).Draw(t, label+"-ct")
	}
	if rapid.Bool().Draw(t, label+"-hasenc") {
		spec.Encoding = rapid.SampledFrom(verifkit.EncodingNames).Draw(t, label+"-enc")
	}
	if rapid.IntRange(0, 4).Draw(t, label+"-stray") == 0 {
		spec.Stray = rapid.SampledFrom(verifkit.EncodingNames).Draw(t, label+"-strayenc")
	}
	_, proto := vfProtocolOf(vfBodySpec{ContentType: spec.ContentType})
	var buf bytes.Buffer
	var items []string
	var frameStarts []int
	n := rapid.IntRange(0, 6).Draw(t, label+"-nitems")
	for i := 0; i < n; i++ {
		frameStarts = append(frameStarts, buf.Len())
		var flags byte
		switch rapid.IntRange(0, 7).Draw(t, label+"-flagkind") {
		case 0, 1:
			flags = 0
		case 2:
			flags = 1
		case 3:
			flags = 2
		case 4:
			flags = 3
		case 5:
			flags = 0x80
		case 6:
			flags = 0x81
		default:
			flags = rapid.Byte().Draw(t, label+"-flags")
		}
		var payload []byte
		isEnd := response && flags&0x82 != 0
		if isEnd {
			var content string
			switch rapid.IntRange(0, 4).Draw(t, label+"-endkind") {
			case 4:
				// a large one (long error details / metadata values): more than any buffer the tracer might use
				content = `{"metadata":{"x-big":["` + strings.Repeat("0123456789abcdef", rapid.IntRange(3000, 9000).Draw(t, label+"-endbig")) + `"]}}`
			case 0:
				content = `{"error":{"code":"internal","message":"boom"},"metadata":{"x-a":["1"]}}`
			case 1:
				content = "grpc-status: 3\r\ngrpc-message: bad%20thing\r\nx-a: 1\r\n"
			case 2:
				content = "{}"
			default:
				content = ""
			}
			payload = []byte(content)
			if flags&1 != 0 {
				enc := strings.ToLower(spec.Encoding)
				payload = verifkit.IndepEncode(enc, payload)
				// a peer may flag as compressed what is not a valid stream of the negotiated encoding: cut inside
				// the stream header, or not that format at all (the tracer then has no content to show, and goes on)
				switch rapid.IntRange(0, 7).Draw(t, label+"-corruptEnd") {
				case 0:
					if len(payload) > 3 {
						payload = payload[:3]
					}
				case 1:
					payload = []byte("this is not compressed at all")
				}
			}
		} else {
			switch rapid.IntRange(0, 5).Draw(t, label+"-sizekind") {
			case 0:
				payload = nil
			case 1:
				payload = bytes.Repeat([]byte{byte(i + 1)}, rapid.IntRange(60000, 70000).Draw(t, label+"-big"))
			default:
				payload = rapid.SliceOfN(rapid.Byte(), 1, 40).Draw(t, label+"-payload")
			}
		}
		var prefix [5]byte
		prefix[0] = flags
		binary.BigEndian.PutUint32(prefix[1:], uint32(len(payload)))
		buf.Write(prefix[:])
		buf.Write(payload)
		items = append(items, fmt.Sprintf("{flags=%#x len=%d end=%v}", flags, len(payload), isEnd))
	}
	_ = proto
	body := buf.Bytes()
	// truncation
	spec.End = rapid.SampledFrom([]string{"eof", "eof", "eof-with-data", "error", "error", "close-early"}).Draw(t, label+"-end")
	spec.ErrWithData = spec.End == "error" && rapid.Bool().Draw(t, label+"-errWithData")
	spec.CloseErr = rapid.IntRange(0, 5).Draw(t, label+"-closeErr") == 0
	if len(body) > 0 && rapid.IntRange(0, 2).Draw(t, label+"-truncate") == 0 {
		var at int
		switch rapid.IntRange(0, 2).Draw(t, label+"-trunckind") {
		case 0: // inside a prefix
			at = frameStarts[rapid.IntRange(0, len(frameStarts)-1).Draw(t, label+"-tf")] + rapid.IntRange(1, 4).Draw(t, label+"-td")
		case 1: // exactly after a prefix
			at = frameStarts[rapid.IntRange(0, len(frameStarts)-1).Draw(t, label+"-tf")] + 5
		default:
			at = rapid.IntRange(0, len(body)).Draw(t, label+"-tpos")
		}
		if at < len(body) {
			body = body[:at]
			items = append(items, fmt.Sprintf("truncated@%d", at))
		}
	}
	spec.Body = body
	spec.Items = strings.Join(items, " ")
	genCuts := func(l string) []int {
		var cuts []int
		switch rapid.IntRange(0, 4).Draw(t, l+"-class") {
		case 0: // one byte at a time (bounded)
			for i := 1; i < len(body) && i < 600; i++ {
				cuts = append(cuts, i)
			}
		case 1: // inside every prefix
			for _, fs := range frameStarts {
				cuts = append(cuts, fs+rapid.IntRange(1, 4).Draw(t, l+"-d"))
			}
		case 2: // exactly at frame boundaries
			for _, fs := range frameStarts {
				cuts = append(cuts, fs, fs+5)
			}
		case 3: // a single call
		default:
			for i, n := 0, rapid.IntRange(1, 10).Draw(t, l+"-n"); i < n && len(body) > 1; i++ {
				cuts = append(cuts, rapid.IntRange(1, len(body)-1).Draw(t, l+"-cut"))
			}
		}
		return cuts
	}
	spec.Cuts = genCuts(label + "-cutsA")
	spec.Cuts2 = genCuts(label + "-cutsB")
	return spec
}

func vfGenC14(t *rapid.T) vfC14Case {
	c := vfC14Case{Side: rapid.SampledFrom([]string{"client", "server"}).Draw(t, "side")}
	c.Req = vfGenBody(t, "req", false)
	c.Resp = vfGenBody(t, "resp", true)
	c.Status = rapid.SampledFrom([]int{200, 200, 200, 400, 500}).Draw(t, "status")
	c.Trailers = rapid.Bool().Draw(t, "trailers")
	c.Flushes = rapid.Bool().Draw(t, "flushes")
	if c.Side == "server" && c.Resp.End == "close-early" {
		c.Resp.End = "eof"
	}
	if c.Side == "server" && c.Resp.End == "eof-with-data" {
		c.Resp.End = "eof"
	}
	c.HandlerPanics = c.Side == "server" && rapid.IntRange(0, 4).Draw(t, "handlerPanics") == 0
	if c.HandlerPanics {
		c.Trailers = false
	}
	return c
}

func vfC14Classify(c vfC14Case) ([]string, bool) {
	cl := []string{"side:" + c.Side}
	if c.HandlerPanics {
		cl = append(cl, "handler-panics")
	}
	nt := false
	for _, spec := range []vfBodySpec{c.Req, c.Resp} {
		stream, _ := vfProtocolOf(spec)
		if !stream {
			cl = append(cl, "non-stream")
			continue
		}
		if strings.Contains(spec.Items, "len=0 ") || strings.HasSuffix(spec.Items, "len=0 end=false}") {
			nt = true
			cl = append(cl, "zero-length-message")
		}
		if strings.Contains(spec.Items, "truncated@") {
			nt = true
			cl = append(cl, "truncated")
		}
		if strings.Contains(spec.Items, "end=true") {
			cl = append(cl, "end-stream")
			if spec.Encoding != "" && spec.Encoding != "identity" && (strings.Contains(spec.Items, "flags=0x2 ") || strings.Contains(spec.Items, "flags=0x80 ")) {
				nt = true
				cl = append(cl, "end-stream-uncompressed-under-encoding")
			}
		}
		if strings.Count(spec.Items, "{") >= 2 && len(spec.Cuts) > 0 {
			nt = true
		}
	}
	if c.Req.End != "eof" || c.Resp.End != "eof" {
		cl = append(cl, "abnormal-end")
	}
	return cl, nt
}

func TestVerifC14Bodies(t *testing.T) {
	verifkit.Run(t, "C14Bodies", verifkit.Spec[vfC14Case]{Gen: vfGenC14, Check: vfC14Check, Classify: vfC14Classify})
}

// TestVerifC14H2Bodies: the same body tracer behind the HTTP/2 connection wrapper (frames instead of Read/Write calls on
// a body): bodies that end part-way through an envelope prefix, several streams, resets - one partial event with the
// bytes actually seen, no event twice. (Borrows the exchange driver and oracle of the C15 harness.)
func TestVerifC14H2Bodies(t *testing.T) {
	vfPartialRequired = true
	defer func() { vfPartialRequired = false }()
	verifkit.Run(t, "C14H2Bodies", verifkit.Spec[vfExchange]{
		Gen: func(t *rapid.T) vfExchange {
			ex := vfGenExchange(t)
			for i := range ex.Streams {
				if ex.Streams[i].ReqTail == 0 && ex.Streams[i].RespTail == 0 {
					ex.Streams[i].ReqTail, ex.Streams[i].RespTail = rapid.IntRange(0, 4).Draw(t, "reqTail2"), rapid.IntRange(0, 4).Draw(t, "respTail2")
				}
			}
			return ex
		},
		Check: vfC15Check,
		Classify: func(ex vfExchange) ([]string, bool) {
			truncated := 0
			for _, s := range ex.Streams {
				if s.ReqTail > 0 || s.RespTail > 0 {
					truncated++
				}
			}
			return []string{fmt.Sprintf("streams-with-truncated-body:%d", truncated)}, truncated > 0
		},
	})
}
