//go:build verif

package tracer

import (
	"bytes"
	"io"
	"strings"
	"testing"

	"connectrpc.com/conformance/internal/verifkit"
	"pgregory.net/rapid"
)

// ---- C20 (tracer part): an encoding name on the wire denotes the same algorithm in the wire tracer ----

type vfC20WireCase struct {
	Name    string `json:"name"`    // as it appears in a header (any letter case)
	Payload []byte `json:"payload"` // uncompressed message
	Reuse   int    `json:"reuse"`   // how many times the decompressor is reset and reused
}

func vfC20WireCheck(c vfC20WireCase) error {
	canonical := strings.ToLower(c.Name)
	known := false
	for _, n := range verifkit.EncodingNames {
		if n == canonical {
			known = true
		}
	}
	dec := GetDecompressor(c.Name)
	if dec == nil {
		return verifkit.Violf("nil-decompressor", "GetDecompressor(%q) returned nil", c.Name)
	}
	if !known && canonical != "" {
		// an unknown name must yield something that fails cleanly rather than decoding with some other algorithm
		err := dec.Reset(bytes.NewReader(c.Payload))
		if err == nil {
			out, rerr := io.ReadAll(dec)
			if rerr == nil && len(c.Payload) > 0 && bytes.Equal(out, c.Payload) {
				return verifkit.Violf("unknown-name-decoded", "GetDecompressor(%q) passed data through as if it were identity", c.Name)
			}
		}
		return nil
	}
	wire := verifkit.IndepEncode(canonical, c.Payload)
	for round := 0; round <= c.Reuse; round++ {
		if err := dec.Reset(bytes.NewReader(wire)); err != nil {
			return verifkit.Violf("wire-name-reset", "round %d: decompressor for %q cannot be reset onto a valid %s stream of %d bytes: %v", round, c.Name, canonical, len(c.Payload), err)
		}
		out, err := io.ReadAll(dec)
		if err != nil {
			return verifkit.Violf("wire-name-decode", "round %d: decompressor for %q fails on a valid %s stream (%d bytes payload): %v", round, c.Name, canonical, len(c.Payload), err)
		}
		if !bytes.Equal(out, c.Payload) {
			return verifkit.Violf("wire-name-algorithm", "round %d: decompressor for %q decodes a %s stream to %d bytes that differ from the %d-byte payload", round, c.Name, canonical, len(out), len(c.Payload))
		}
		_ = dec.Close()
	}
	return nil
}

func TestVerifC20Wire(t *testing.T) {
	verifkit.Run(t, "C20Wire", verifkit.Spec[vfC20WireCase]{
		Gen: func(t *rapid.T) vfC20WireCase {
			names := append(append([]string{}, verifkit.EncodingNames...), "GZIP", "Br", "Zstd", "Deflate", "SNAPPY", "Identity", "", "compress", "x-gzip", "lz4")
			c := vfC20WireCase{Name: rapid.SampledFrom(names).Draw(t, "name"), Reuse: rapid.IntRange(0, 2).Draw(t, "reuse")}
			switch rapid.IntRange(0, 3).Draw(t, "kind") {
			case 0:
				c.Payload = []byte{}
			case 1:
				c.Payload = rapid.SliceOfN(rapid.Byte(), 1, 64).Draw(t, "small")
			case 2:
				c.Payload = bytes.Repeat(rapid.SliceOfN(rapid.Byte(), 1, 16).Draw(t, "unit"), rapid.IntRange(1, 5000).Draw(t, "times"))
			default:
				c.Payload = rapid.SliceOfN(rapid.Byte(), 65, 4096).Draw(t, "medium")
			}
			return c
		},
		Check: vfC20WireCheck,
		Classify: func(c vfC20WireCase) ([]string, bool) {
			cl := []string{"name:" + strings.ToLower(c.Name)}
			if len(c.Payload) == 0 {
				cl = append(cl, "empty")
			}
			if c.Reuse > 0 {
				cl = append(cl, "reused")
			}
			return cl, c.Reuse > 0 || len(c.Payload) == 0 || c.Name != strings.ToLower(c.Name)
		},
	})
}
