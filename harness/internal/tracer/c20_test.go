//go:build verif

package tracer

import (
	"bytes"
	"encoding/binary"
	"fmt"
	"io"
	"strings"
	"testing"

	"connectrpc.com/conformance/internal/verifkit"
	"pgregory.net/rapid"
)

// ---- C20 (tracer part): an encoding name on the wire denotes the same algorithm in the wire tracer ----

type vfC20WireCase struct {
	Name    string `json:"name"`    // as it appears in a header (any letter case)
	Payload []byte `json:"payload"` // uncompressed message
	Reuse   int    `json:"reuse"`   // how many times the decompressor is reset and reused
}

func vfC20WireCheck(c vfC20WireCase) error {
	canonical := strings.ToLower(c.Name)
	known := false
	for _, n := range verifkit.EncodingNames {
		if n == canonical {
			known = true
		}
	}
	dec := GetDecompressor(c.Name)
	if dec == nil {
		return verifkit.Violf("nil-decompressor", "GetDecompressor(%q) returned nil", c.Name)
	}
	if !known && canonical != "" {
		// an unknown name must yield something that fails cleanly rather than decoding with some other algorithm
		err := dec.Reset(bytes.NewReader(c.Payload))
		if err == nil {
			out, rerr := io.ReadAll(dec)
			if rerr == nil && len(c.Payload) > 0 && bytes.Equal(out, c.Payload) {
				return verifkit.Violf("unknown-name-decoded", "GetDecompressor(%q) passed data through as if it were identity", c.Name)
			}
		}
		return nil
	}
	wire := verifkit.IndepEncode(canonical, c.Payload)
	for round := 0; round <= c.Reuse; round++ {
		if err := dec.Reset(bytes.NewReader(wire)); err != nil {
			return verifkit.Violf("wire-name-reset", "round %d: decompressor for %q cannot be reset onto a valid %s stream of %d bytes: %v", round, c.Name, canonical, len(c.Payload), err)
		}
		out, err := io.ReadAll(dec)
		if err != nil {
			return verifkit.Violf("wire-name-decode", "round %d: decompressor for %q fails on a valid %s stream (%d bytes payload): %v", round, c.Name, canonical, len(c.Payload), err)
		}
		if !bytes.Equal(out, c.Payload) {
			return verifkit.Violf("wire-name-algorithm", "round %d: decompressor for %q decodes a %s stream to %d bytes that differ from the %d-byte payload", round, c.Name, canonical, len(out), len(c.Payload))
		}
		_ = dec.Close()
	}
	return nil
}

func TestVerifC20Wire(t *testing.T) {
	verifkit.Run(t, "C20Wire", verifkit.Spec[vfC20WireCase]{
		Gen: func(t *rapid.T) vfC20WireCase {
			names := append(append([]string{}, verifkit.EncodingNames...), "GZIP", "Br", "Zstd", "Deflate", "SNAPPY", "Identity", "", "compress", "x-gzip", "lz4")
			c := vfC20WireCase{Name: rapid.SampledFrom(names).Draw(t, "name"), Reuse: rapid.IntRange(0, 2).Draw(t, "reuse")}
			switch rapid.IntRange(0, 3).Draw(t, "kind") {
			case 0:
				c.Payload = []byte{}
			case 1:
				c.Payload = rapid.SliceOfN(rapid.Byte(), 1, 64).Draw(t, "small")
			case 2:
				c.Payload = bytes.Repeat(rapid.SliceOfN(rapid.Byte(), 1, 16).Draw(t, "unit"), rapid.IntRange(1, 5000).Draw(t, "times"))
			default:
				c.Payload = rapid.SliceOfN(rapid.Byte(), 65, 4096).Draw(t, "medium")
			}
			return c
		},
		Check: vfC20WireCheck,
		Classify: func(c vfC20WireCase) ([]string, bool) {
			cl := []string{"name:" + strings.ToLower(c.Name)}
			if len(c.Payload) == 0 {
				cl = append(cl, "empty")
			}
			if c.Reuse > 0 {
				cl = append(cl, "reused")
			}
			return cl, c.Reuse > 0 || len(c.Payload) == 0 || c.Name != strings.ToLower(c.Name)
		},
	})
}

// ---- C20 (tracer part, whole path): a compressed end-of-stream message through the body tracer ----

// TestVerifC20WireEndStream: a streamed response whose end-of-stream message is compressed with each encoding, of
// any size from nothing to 1 MiB, goes through the tracing round tripper (the C14 driver and oracle, borrowed): the
// traced end-stream content is what the independent encoder was given, the application sees the bytes unchanged.
func TestVerifC20WireEndStream(t *testing.T) {
	verifkit.Run(t, "C20WireEndStream", verifkit.Spec[vfC14Case]{
		Gen: func(t *rapid.T) vfC14Case {
			enc := rapid.SampledFrom(verifkit.EncodingNames).Draw(t, "encoding")
			web := rapid.Bool().Draw(t, "grpcWeb")
			size := rapid.SampledFrom([]int{0, 1, 40, 1000, 4095, 4096, 32768, 65535, 65536, 65537, 100000, 1 << 20}).Draw(t, "size")
			if rapid.Bool().Draw(t, "otherSize") {
				size = rapid.IntRange(0, 300000).Draw(t, "anySize")
			}
			var content string
			ct, flags := "application/connect+proto", byte(0x03)
			if web {
				ct, flags = "application/grpc-web+proto", 0x81
				content = "grpc-status: 0\r\nx-big: " + strings.Repeat("v", size) + "\r\n"
			} else {
				content = `{"metadata":{"x-big":["` + strings.Repeat("v", size) + `"]}}`
			}
			var body bytes.Buffer
			frame := func(flags byte, payload []byte) {
				var p [5]byte
				p[0] = flags
				binary.BigEndian.PutUint32(p[1:], uint32(len(payload)))
				body.Write(p[:])
				body.Write(payload)
			}
			frame(0, []byte("message"))
			frame(flags, verifkit.IndepEncode(enc, []byte(content)))
			resp := vfBodySpec{ContentType: ct, Encoding: enc, Body: body.Bytes(), End: "eof", Items: fmt.Sprintf("{flags=0 len=7} {flags=%#x end-stream of %d bytes, %s}", flags, len(content), enc)}
			for i, n := 0, rapid.IntRange(0, 3).Draw(t, "ncuts"); i < n; i++ {
				resp.Cuts = append(resp.Cuts, rapid.IntRange(1, body.Len()).Draw(t, "cut"))
			}
			resp.Cuts2 = []int{5, 12}
			return vfC14Case{Side: rapid.SampledFrom([]string{"client", "server"}).Draw(t, "side"), Status: 200,
				Req: vfBodySpec{ContentType: ct, End: "eof"}, Resp: resp}
		},
		Check: vfC14Check,
		Classify: func(c vfC14Case) ([]string, bool) {
			var size int
			if i := strings.Index(c.Resp.Items, "end-stream of "); i >= 0 {
				_, _ = fmt.Sscanf(c.Resp.Items[i:], "end-stream of %d bytes", &size)
			}
			cl := []string{"encoding:" + c.Resp.Encoding, c.Resp.ContentType, "side:" + c.Side}
			if size > 65536 {
				cl = append(cl, "end-stream>64KiB")
			}
			// non-trivial: a real compression algorithm and more content than fits any small buffer
			return cl, c.Resp.Encoding != "identity" && size > 4096
		},
	})
}
