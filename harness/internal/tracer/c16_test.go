//go:build verif

package tracer

import (
	"context"
	"errors"
	"fmt"
	"io"
	"net/http"
	"runtime"
	"strings"
	"sync"
	"testing"
	"time"

	"connectrpc.com/conformance/internal/verifkit"
	"pgregory.net/rapid"
)

// ---- C16a: Init/Complete/Await/Clear/Cancel as atomic operations vs a sequential model ----

type vfTrOp struct {
	Op     string `json:"op"` // init, complete, await, clear, cancel
	Name   int    `json:"name"`
	Waiter int    `json:"waiter"`
}

func (o vfTrOp) String() string {
	switch o.Op {
	case "await":
		return fmt.Sprintf("await(w%d,n%d)", o.Waiter, o.Name)
	case "cancel":
		return fmt.Sprintf("cancel(w%d)", o.Waiter)
	}
	return fmt.Sprintf("%s(n%d)", o.Op, o.Name)
}

type vfTrCase struct {
	Ops []vfTrOp `json:"ops"`
}

// vfSignalCtx is a context whose Done() tells the driver that the waiter has
// reached its select (Await calls Done() only after it captured its slot).
type vfSignalCtx struct {
	context.Context
	reached chan struct{}
	once    sync.Once
}

func (c *vfSignalCtx) Done() <-chan struct{} {
	c.once.Do(func() { close(c.reached) })
	return c.Context.Done()
}

type vfAwaitResult struct {
	id  string // trace id (carried in Trace.Err text) or ""
	err error
}

type vfWaiterState struct {
	blocked bool
	slot    *vfSlot // model slot the waiter is blocked on
	result  chan vfAwaitResult
	cancel  context.CancelFunc
}

type vfSlot struct {
	done bool
	id   string
}

const vfStepTimeout = 60 * time.Second // (generous: a machine busy with other work must not turn starvation into a verdict; a deadlock lasts)

// vfRunTracerOps executes the operations one after the other against a real
// Tracer and the model; returns a violation or nil. invalid=true means the
// sequence is outside the domain (e.g. second Await of a blocked waiter).
func vfRunTracerOps(ops []vfTrOp) (viol error, invalid bool) {
	tr := &Tracer{}
	model := map[int]*vfSlot{}
	waiters := map[int]*vfWaiterState{}
	var obtainedMu sync.Mutex
	var obtained []vfObtained
	nextID := 0
	name := func(n int) string { return fmt.Sprintf("test/%d", n) }
	defer func() {
		for _, w := range waiters {
			if w.cancel != nil {
				w.cancel()
			}
		}
	}()
	expectReturn := func(w int, ws *vfWaiterState, wantID string, wantCtxErr bool, after string) error {
		select {
		case res := <-ws.result:
			ws.blocked = false
			switch {
			case wantCtxErr:
				if res.err == nil || !errors.Is(res.err, context.Canceled) {
					return verifkit.Violf("await-wrong-result", "after %s: waiter w%d should return the context error, got trace %q err %v", after, w, res.id, res.err)
				}
			case wantID == "":
				if res.err == nil {
					return verifkit.Violf("await-wrong-result", "after %s: waiter w%d should fail immediately, got trace %q", after, w, res.id)
				}
				if errors.Is(res.err, context.Canceled) {
					return verifkit.Violf("await-wrong-result", "after %s: waiter w%d failed with a context error although it was not cancelled", after, w)
				}
			default:
				if res.err != nil || res.id != wantID {
					return verifkit.Violf("await-wrong-trace", "after %s: waiter w%d should obtain trace %q, got %q err %v", after, w, wantID, res.id, res.err)
				}
			}
			return nil
		case <-time.After(vfStepTimeout):
			return verifkit.Violf("await-hang", "after %s: waiter w%d did not return within %v", after, w, vfStepTimeout)
		}
	}
	for i, op := range ops {
		after := fmt.Sprintf("op %d %v of %v", i+1, op, ops)
		switch op.Op {
		case "init":
			if s := model[op.Name]; s != nil && !s.done {
				return nil, true // re-Init of a slot that is still awaited: outside the domain
			}
			// (re-initialising a name whose earlier trace has been handed over starts a new hand-off: the waiter gets the
			// first trace completed after this Init, not the earlier one)
			tr.Init(name(op.Name))
			model[op.Name] = &vfSlot{}
		case "complete":
			nextID++
			id := fmt.Sprintf("trace-%d", nextID)
			tr.Complete(Trace{TestName: name(op.Name), Err: errors.New(id)})
			if s := model[op.Name]; s != nil && !s.done {
				s.done, s.id = true, id
				for w, ws := range waiters {
					if ws.blocked && ws.slot == s {
						if err := expectReturn(w, ws, id, false, after); err != nil {
							return err, false
						}
					}
				}
			}
		case "clear":
			tr.Clear(name(op.Name))
			delete(model, op.Name)
		case "await-dead":
			// a wait whose context is over before it begins: it still obtains a trace that was completed before, fails at
			// once for a cleared / unknown name, and returns the context error at once while the trace is pending
			dead, cancelDead := context.WithCancel(context.Background())
			cancelDead()
			type out struct {
				id  string
				err error
			}
			ch := make(chan out, 1)
			go func(n string) {
				trace, err := tr.Await(dead, n)
				o := out{err: err}
				if trace != nil && trace.Err != nil {
					o.id = trace.Err.Error()
				}
				ch <- o
			}(name(op.Name))
			select {
			case o := <-ch:
				s := model[op.Name]
				switch {
				case s == nil && o.err == nil:
					return verifkit.Violf("await-wrong-result", "after %s: a wait on a cleared or unknown name returned trace %q", after, o.id), false
				case s != nil && s.done && (o.err != nil || o.id != s.id):
					return verifkit.Violf("await-wrong-trace", "after %s: the trace was completed before the wait began (its context already over): want trace %q, got %q err %v", after, s.id, o.id, o.err), false
				case s != nil && !s.done && (o.err == nil || !errors.Is(o.err, context.Canceled)):
					return verifkit.Violf("await-wrong-result", "after %s: a wait with a finished context on a pending trace returned (%q, %v), want the context error", after, o.id, o.err), false
				}
			case <-time.After(vfStepTimeout):
				return verifkit.Violf("await-hang", "after %s: a wait with a finished context did not return within %v", after, vfStepTimeout), false
			}
		case "await":
			ws := waiters[op.Waiter]
			if ws != nil && ws.blocked {
				return nil, true // a waiter waits for one thing at a time
			}
			base, cancel := context.WithCancel(context.Background())
			ctx := &vfSignalCtx{Context: base, reached: make(chan struct{})}
			ws = &vfWaiterState{result: make(chan vfAwaitResult, 1), cancel: cancel}
			waiters[op.Waiter] = ws
			go func(n string) {
				trace, err := tr.Await(ctx, n)
				res := vfAwaitResult{err: err}
				if trace != nil && trace.Err != nil {
					res.id = trace.Err.Error()
					obtainedMu.Lock()
					obtained = append(obtained, vfObtained{trace, res.id, n})
					obtainedMu.Unlock()
				}
				ws.result <- res
			}(name(op.Name))
			s := model[op.Name]
			switch {
			case s == nil:
				if err := expectReturn(op.Waiter, ws, "", false, after); err != nil {
					return err, false
				}
			case s.done:
				if err := expectReturn(op.Waiter, ws, s.id, false, after); err != nil {
					return err, false
				}
			default:
				// must block: wait until it reached the select (or wrongly returned)
				select {
				case <-ctx.reached:
					ws.blocked, ws.slot = true, s
				case res := <-ws.result:
					return verifkit.Violf("await-early-return", "after %s: waiter w%d returned (%q, %v) although nothing was completed", after, op.Waiter, res.id, res.err), false
				case <-time.After(vfStepTimeout):
					return verifkit.Violf("await-hang", "after %s: waiter w%d neither blocked nor returned", after, op.Waiter), false
				}
			}
		case "cancel":
			ws := waiters[op.Waiter]
			if ws == nil {
				continue
			}
			ws.cancel()
			if ws.blocked {
				if err := expectReturn(op.Waiter, ws, "", true, after); err != nil {
					return err, false
				}
			}
		}
	}
	// end: every waiter the model still considers blocked must still be blocked
	// (nothing delivered) and must return the context error when cancelled
	for w, ws := range waiters {
		if !ws.blocked {
			continue
		}
		ws.cancel()
		if err := expectReturn(w, ws, "", true, fmt.Sprintf("the end of %v (cancelling w%d)", ops, w)); err != nil {
			return err, false
		}
	}
	// a trace that was handed to a waiter stays that trace, whatever happens to the name (or other names) afterwards
	obtainedMu.Lock()
	defer obtainedMu.Unlock()
	for _, o := range obtained {
		if o.trace.Err == nil || o.trace.Err.Error() != o.id || o.trace.TestName != o.name {
			return verifkit.Violf("trace-changed-after-handoff", "after %v: the trace a waiter obtained for %s (%s) now reads as the trace %v of %q", ops, o.name, o.id, o.trace.Err, o.trace.TestName), false
		}
	}
	return nil, false
}

type vfObtained struct {
	trace *Trace
	id    string
	name  string
}

func vfTrClassify(c vfTrCase) ([]string, bool) {
	// Complete-before-Await, Await-before-Complete, and a Clear or duplicate Complete
	completed := map[int]int{}
	awaited := map[int]bool{}
	var cba, abc, clearOrDup, reinit bool
	inits := map[int]int{}
	for _, op := range c.Ops {
		switch op.Op {
		case "init":
			inits[op.Name]++
			if inits[op.Name] > 1 {
				reinit = true
			}
		case "complete":
			if awaited[op.Name] {
				abc = true
			}
			completed[op.Name]++
			if completed[op.Name] > 1 {
				clearOrDup = true
			}
		case "await":
			if completed[op.Name] > 0 {
				cba = true
			}
			awaited[op.Name] = true
		case "clear":
			clearOrDup = true
		}
	}
	var cl []string
	if reinit {
		cl = append(cl, "re-init")
	}
	if cba {
		cl = append(cl, "complete-before-await")
	}
	if abc {
		cl = append(cl, "await-before-complete")
	}
	if clearOrDup {
		cl = append(cl, "clear-or-duplicate")
	}
	return cl, (cba || abc) && clearOrDup
}

func vfTracerAlphabet(names, waiters int) []vfTrOp {
	var ops []vfTrOp
	for n := 0; n < names; n++ {
		ops = append(ops, vfTrOp{Op: "init", Name: n}, vfTrOp{Op: "complete", Name: n}, vfTrOp{Op: "clear", Name: n}, vfTrOp{Op: "await-dead", Name: n})
		for w := 0; w < waiters; w++ {
			ops = append(ops, vfTrOp{Op: "await", Name: n, Waiter: w})
		}
	}
	for w := 0; w < waiters; w++ {
		ops = append(ops, vfTrOp{Op: "cancel", Waiter: w})
	}
	return ops
}

// TestVerifC16TracerEnum: all operation sequences up to a length bound over 2
// names and 2 waiters (sequences outside the domain are pruned and counted).
func TestVerifC16TracerEnum(t *testing.T) {
	en := verifkit.NewEnum(t, "C16TracerEnum")
	var rc vfTrCase
	if en.ReplayCase(&rc) {
		if err, _ := vfRunTracerOps(rc.Ops); err != nil {
			en.Fail(rc, err)
		}
		en.Done(true)
		return
	}
	maxLen := verifkit.EnvInt("VERIF_C16_MAXLEN", 4)
	alphabet := vfTracerAlphabet(2, 2)
	shard, shards := verifkit.Shard()
	idx := 0
	complete := true
	var rec func(prefix []vfTrOp) bool
	rec = func(prefix []vfTrOp) bool {
		if len(prefix) == maxLen {
			idx++
			if idx%shards != shard {
				return true
			}
			c := vfTrCase{Ops: append([]vfTrOp{}, prefix...)}
			var err error
			var invalid bool
			perr := verifkit.SafeCall(func() error { err, invalid = vfRunTracerOps(c.Ops); return nil })
			if perr != nil {
				err = perr
			}
			if invalid {
				en.Rec.Exclude("outside-domain")
				return true
			}
			cl, nt := vfTrClassify(c)
			en.Rec.ObserveHash(uint64(idx), strings.Join(cl, "+"), nt)
			if idx%30011 == 3 {
				en.Rec.AddSample(fmt.Sprint(c.Ops))
			}
			if err != nil && en.Fail(c, err) {
				return false
			}
			return true
		}
		for _, op := range alphabet {
			if !rec(append(prefix, op)) {
				return false
			}
		}
		return true
	}
	// sequences of exactly maxLen cover all shorter ones as prefixes (every
	// operation is checked when it is executed)
	if !rec(nil) {
		complete = false
	}
	en.Rec.SetExtra("alphabet", len(alphabet))
	en.Rec.SetExtra("sequence_length", maxLen)
	en.Done(complete)
}

func TestVerifC16TracerRandom(t *testing.T) {
	alphabet := vfTracerAlphabet(3, 2)
	verifkit.Run(t, "C16TracerRandom", verifkit.Spec[vfTrCase]{
		Gen: func(t *rapid.T) vfTrCase {
			var c vfTrCase
			// build only in-domain sequences (track liveness/blocked state)
			live := map[int]bool{}
			blocked := map[int]bool{}
			blockedOn := map[int]int{}
			doneNames := map[int]bool{}
			for i, n := 0, rapid.IntRange(1, 30).Draw(t, "len"); i < n; i++ {
				op := rapid.SampledFrom(alphabet).Draw(t, "op")
				switch op.Op {
				case "init":
					if live[op.Name] {
						continue
					}
					live[op.Name] = true
					doneNames[op.Name] = false
				case "clear":
					delete(live, op.Name)
					delete(doneNames, op.Name)
				case "complete":
					if live[op.Name] && !doneNames[op.Name] {
						doneNames[op.Name] = true
						for w, b := range blocked {
							if b && blockedOn[w] == op.Name {
								blocked[w] = false
							}
						}
					}
				case "await":
					if blocked[op.Waiter] {
						continue
					}
					if live[op.Name] && !doneNames[op.Name] {
						blocked[op.Waiter] = true
						blockedOn[op.Waiter] = op.Name
					}
				case "cancel":
					blocked[op.Waiter] = false
				}
				c.Ops = append(c.Ops, op)
			}
			return c
		},
		Check: func(c vfTrCase) error {
			err, _ := vfRunTracerOps(c.Ops)
			return err
		},
		Classify: vfTrClassify,
	})
}

// ---- C16b: builder event orders ----

type vfBEvent struct {
	Kind string `json:"kind"`
}

var vfBuilderAlphabet = []string{"req-data", "req-end", "req-end-err", "resp-start", "resp-error", "resp-data", "end-stream", "resp-end", "resp-end-err", "canceled", "build"}

func vfMakeEvent(kind string) Event {
	switch kind {
	case "req-data":
		return &RequestBodyData{Envelope: &Envelope{Len: 3}, Len: 3}
	case "req-end":
		return &RequestBodyEnd{}
	case "req-end-err":
		return &RequestBodyEnd{Err: errors.New("verif req err")}
	case "resp-start":
		return &ResponseStart{Response: &http.Response{StatusCode: 200, Proto: "HTTP/1.1", ProtoMajor: 1, ProtoMinor: 1, Header: http.Header{}}}
	case "resp-error":
		return &ResponseError{Err: errors.New("verif resp err")}
	case "resp-data":
		return &ResponseBodyData{Envelope: &Envelope{Len: 4}, Len: 4}
	case "end-stream":
		return &ResponseBodyEndStream{Content: "{}"}
	case "resp-end":
		return &ResponseBodyEnd{}
	case "resp-end-err":
		return &ResponseBodyEnd{Err: errors.New("verif resp body err")}
	case "canceled":
		return &RequestCanceled{}
	}
	return nil
}

func vfFinishing(kind string) bool {
	switch kind {
	case "req-end-err", "resp-error", "resp-end", "resp-end-err", "canceled", "build":
		return true
	}
	return false
}

type vfBuilderCase struct {
	Named  bool       `json:"named"`
	Client bool       `json:"client"`
	Lanes  [][]string `json:"lanes"` // one lane = one goroutine's event sequence
	Yields []int      `json:"yields"`
	Procs  int        `json:"procs"`
	Repeat int        `json:"repeat"` // concurrent unit: how often the scenario is run
}

func vfEventKind(ev Event) string {
	switch ev := ev.(type) {
	case *RequestStart:
		return "req-start"
	case *RequestBodyData:
		return "req-data"
	case *RequestBodyEnd:
		if ev.Err != nil {
			return "req-end-err"
		}
		return "req-end"
	case *ResponseStart:
		return "resp-start"
	case *ResponseError:
		return "resp-error"
	case *ResponseBodyData:
		return "resp-data"
	case *ResponseBodyEndStream:
		return "end-stream"
	case *ResponseBodyEnd:
		if ev.Err != nil {
			return "resp-end-err"
		}
		return "resp-end"
	case *RequestCanceled:
		return "canceled"
	}
	return fmt.Sprintf("%T", ev)
}

// vfBuilderSequential: one lane, exact model.
func vfBuilderSequential(c vfBuilderCase) error {
	coll := &vfCollector{}
	req, _ := http.NewRequest(http.MethodPost, "http://verif.test/svc/Method", http.NoBody)
	if c.Named {
		req.Header.Set(testCaseNameHeader, "verif/c16")
	}
	b, _ := newBuilder(req, c.Client, coll)
	want := []string{"req-start"}
	finished := false
	for _, kind := range c.Lanes[0] {
		if kind == "build" {
			b.build()
		} else {
			b.add(vfMakeEvent(kind))
		}
		if !finished && kind != "build" {
			want = append(want, kind)
		}
		if vfFinishing(kind) {
			finished = true
		}
		wantCompletes := 0
		if finished && c.Named {
			wantCompletes = 1
		}
		coll.mu.Lock()
		got := len(coll.traces)
		coll.mu.Unlock()
		if got != wantCompletes {
			return verifkit.Violf("complete-count", "after %q in %v (named=%v): %d Complete calls, want %d", kind, c.Lanes[0], c.Named, got, wantCompletes)
		}
	}
	if !c.Named || !finished {
		return nil
	}
	trace := coll.traces[0]
	var got []string
	reqIdx, respIdx := 0, 0
	for _, ev := range trace.Events {
		got = append(got, vfEventKind(ev))
		switch ev := ev.(type) {
		case *RequestBodyData:
			if ev.MessageIndex != reqIdx {
				return verifkit.Violf("message-index", "request message index %d, want %d in %v", ev.MessageIndex, reqIdx, c.Lanes[0])
			}
			reqIdx++
		case *ResponseBodyData:
			if ev.MessageIndex != respIdx {
				return verifkit.Violf("message-index", "response message index %d, want %d in %v", ev.MessageIndex, respIdx, c.Lanes[0])
			}
			respIdx++
		}
	}
	if fmt.Sprint(got) != fmt.Sprint(want) {
		return verifkit.Violf("events-after-completion", "lane %v: delivered events %v, want %v", c.Lanes[0], got, want)
	}
	if trace.TestName != "verif/c16" {
		return verifkit.Violf("trace-name", "trace has test name %q", trace.TestName)
	}
	return nil
}

func TestVerifC16BuilderEnum(t *testing.T) {
	en := verifkit.NewEnum(t, "C16BuilderEnum")
	var rc vfBuilderCase
	if en.ReplayCase(&rc) {
		if err := verifkit.SafeCall(func() error { return vfBuilderSequential(rc) }); err != nil {
			en.Fail(rc, err)
		}
		en.Done(true)
		return
	}
	maxLen := verifkit.EnvInt("VERIF_C16_BUILDER_MAXLEN", 4)
	shard, shards := verifkit.Shard()
	idx := 0
	complete := true
	var rec func(prefix []string) bool
	rec = func(prefix []string) bool {
		if len(prefix) == maxLen {
			idx++
			if idx%shards != shard {
				return true
			}
			for _, named := range []bool{true, false} {
				c := vfBuilderCase{Named: named, Client: idx%2 == 0, Lanes: [][]string{append([]string{}, prefix...)}}
				err := verifkit.SafeCall(func() error { return vfBuilderSequential(c) })
				fin := 0
				for _, k := range prefix {
					if vfFinishing(k) {
						fin++
					}
				}
				en.Rec.ObserveHash(uint64(idx)*2+map[bool]uint64{true: 1, false: 0}[named], fmt.Sprintf("finishing-events:%d", fin), named && fin >= 2)
				if idx%20011 == 1 && named {
					en.Rec.AddSample(c)
				}
				if err != nil && en.Fail(c, err) {
					return false
				}
			}
			return true
		}
		for _, k := range vfBuilderAlphabet {
			if !rec(append(prefix, k)) {
				return false
			}
		}
		return true
	}
	if !rec(nil) {
		complete = false
	}
	en.Rec.SetExtra("alphabet", len(vfBuilderAlphabet))
	en.Rec.SetExtra("sequence_length", maxLen)
	en.Done(complete)
}

// vfBuilderConcurrent runs the concurrent scenario Repeat times (schedules differ from run to run).
func vfBuilderConcurrent(c vfBuilderCase) error {
	n := c.Repeat
	if n < 1 {
		n = 1
	}
	for i := 0; i < n; i++ {
		if err := vfBuilderConcurrentOnce(c); err != nil {
			return err
		}
	}
	return nil
}

// vfBuilderConcurrentOnce: several goroutines add events with drawn yield points.
func vfBuilderConcurrentOnce(c vfBuilderCase) error {
	if c.Procs > 0 {
		defer runtime.GOMAXPROCS(runtime.GOMAXPROCS(c.Procs))
	}
	coll := &vfCollector{}
	req, _ := http.NewRequest(http.MethodPost, "http://verif.test/svc/Method", http.NoBody)
	if c.Named {
		req.Header.Set(testCaseNameHeader, "verif/c16")
	}
	b, _ := newBuilder(req, c.Client, coll)
	var wg sync.WaitGroup
	start := make(chan struct{})
	type tagged struct {
		lane, pos int
	}
	tags := map[Event]tagged{}
	var tagMu sync.Mutex
	for li, lane := range c.Lanes {
		wg.Add(1)
		go func(li int, lane []string) {
			defer wg.Done()
			<-start
			for pi, kind := range lane {
				y := 0
				if len(c.Yields) > 0 {
					y = c.Yields[(li*7+pi)%len(c.Yields)]
				}
				for k := 0; k < y; k++ {
					runtime.Gosched()
				}
				if kind == "build" {
					b.build()
					continue
				}
				ev := vfMakeEvent(kind)
				tagMu.Lock()
				tags[ev] = tagged{li, pi}
				tagMu.Unlock()
				b.add(ev)
			}
		}(li, lane)
	}
	close(start)
	done := make(chan struct{})
	go func() { wg.Wait(); close(done) }()
	select {
	case <-done:
	case <-time.After(30 * time.Second):
		// a deadlock never ends; goroutines that are merely starved (a machine busy with other work, the race
		// detector, GOMAXPROCS(1) and thousands of yields) do: only the former is a violation
		select {
		case <-done:
			return nil // too slow to judge: no verdict
		case <-time.After(4 * time.Minute):
			return verifkit.Violf("builder-hang", "builder goroutines did not finish within 4.5 minutes: lanes %v", c.Lanes)
		}
	}
	anyFinishing := false
	for _, lane := range c.Lanes {
		for _, k := range lane {
			if vfFinishing(k) {
				anyFinishing = true
			}
		}
	}
	want := 0
	if c.Named && anyFinishing {
		want = 1
	}
	coll.mu.Lock()
	traces := append([]Trace{}, coll.traces...)
	coll.mu.Unlock()
	if len(traces) != want {
		return verifkit.Violf("complete-count", "lanes %v (named=%v): %d Complete calls, want %d", c.Lanes, c.Named, len(traces), want)
	}
	if want == 0 {
		return nil
	}
	events := traces[0].Events
	if len(events) == 0 || vfEventKind(events[0]) != "req-start" {
		return verifkit.Violf("events-order", "trace does not start with the request start")
	}
	lastPos := map[int]int{}
	for i, ev := range events[1:] {
		tg, ok := tags[ev]
		if !ok {
			return verifkit.Violf("events-unknown", "delivered event %d (%s) was never added", i+1, vfEventKind(ev))
		}
		if p, seen := lastPos[tg.lane]; seen && tg.pos <= p {
			return verifkit.Violf("events-order", "events of goroutine %d delivered out of order: lanes %v", tg.lane, c.Lanes)
		}
		lastPos[tg.lane] = tg.pos
	}
	// the last event is a finishing one unless completion came from build()
	last := vfEventKind(events[len(events)-1])
	hasBuild := false
	for _, lane := range c.Lanes {
		for _, k := range lane {
			if k == "build" {
				hasBuild = true
			}
		}
	}
	if !vfFinishing(last) && !hasBuild {
		return verifkit.Violf("events-after-completion", "trace ends with non-finishing event %q: lanes %v", last, c.Lanes)
	}
	if len(events) < 2 {
		return nil
	}
	for _, ev := range events[1 : len(events)-1] {
		if vfFinishing(vfEventKind(ev)) {
			return verifkit.Violf("events-after-completion", "event %q recorded before the end although it finishes the trace: %v", vfEventKind(ev), c.Lanes)
		}
	}
	return nil
}

func TestVerifC16BuilderConcurrent(t *testing.T) {
	verifkit.Run(t, "C16BuilderConcurrent", verifkit.Spec[vfBuilderCase]{
		Gen: func(t *rapid.T) vfBuilderCase {
			c := vfBuilderCase{Named: rapid.IntRange(0, 5).Draw(t, "named") != 0, Client: rapid.Bool().Draw(t, "client"),
				Procs: rapid.SampledFrom([]int{1, 2, 4, 16}).Draw(t, "procs")}
			for i, n := 0, rapid.IntRange(2, 4).Draw(t, "nlanes"); i < n; i++ {
				var lane []string
				for j, m := 0, rapid.IntRange(1, 5).Draw(t, "lanelen"); j < m; j++ {
					lane = append(lane, rapid.SampledFrom(vfBuilderAlphabet).Draw(t, "kind"))
				}
				c.Lanes = append(c.Lanes, lane)
			}
			for i := 0; i < 8; i++ {
				c.Yields = append(c.Yields, rapid.IntRange(0, 3).Draw(t, "yield"))
			}
			if rapid.IntRange(0, 3).Draw(t, "storm") == 0 {
				// a storm: one goroutine completes the trace while several others are busy adding data events; the
				// window between recording the completing event and handing the trace over is what matters
				c.Named, c.Procs, c.Yields, c.Lanes = true, rapid.SampledFrom([]int{4, 8, 16}).Draw(t, "stormProcs"), []int{0}, nil
				for i, n := 0, rapid.IntRange(2, 5).Draw(t, "spammers"); i < n; i++ {
					var lane []string
					kind := rapid.SampledFrom([]string{"req-data", "resp-data"}).Draw(t, "spamKind")
					for j, m := 0, rapid.IntRange(10, 60).Draw(t, "spamLen"); j < m; j++ {
						lane = append(lane, kind)
					}
					c.Lanes = append(c.Lanes, lane)
				}
				var fin []string
				for j, m := 0, rapid.IntRange(0, 20).Draw(t, "lead"); j < m; j++ {
					fin = append(fin, "resp-data")
				}
				c.Lanes = append(c.Lanes, append(fin, rapid.SampledFrom([]string{"resp-end", "resp-end-err", "req-end-err"}).Draw(t, "finisher")))
				c.Repeat = rapid.IntRange(10, 40).Draw(t, "repeat")
			}
			return c
		},
		Check: vfBuilderConcurrent,
		Classify: func(c vfBuilderCase) ([]string, bool) {
			lanesWithFinish := 0
			for _, lane := range c.Lanes {
				for _, k := range lane {
					if vfFinishing(k) {
						lanesWithFinish++
						break
					}
				}
			}
			return []string{fmt.Sprintf("finishing-lanes:%d", lanesWithFinish)}, c.Named && lanesWithFinish >= 2
		},
	})
}

// ---- C16c: the exported round-tripper under racing completion events ----

type vfRaceCase struct {
	RespErr      bool `json:"respErr"`    // transport returns an error instead of a response
	CancelAt     int  `json:"cancelAt"`   // 0: never; 1: before round trip; 2: while reading the body; 3: after the body
	BodyErr      bool `json:"bodyErr"`    // response body ends with an error
	CloseEarly   bool `json:"closeEarly"` // caller closes the body before EOF
	Concurrent   bool `json:"concurrent"` // cancel from another goroutine while reading
	Procs        int  `json:"procs"`
	Yields       int  `json:"yields"`
	DoubleClose  bool `json:"doubleClose"`
	ReadAfterEOF bool `json:"readAfterEOF"`
}

type vfSlowBody struct {
	data   []byte
	pos    int
	endErr error
	gate   chan struct{}
}

func (b *vfSlowBody) Read(p []byte) (int, error) {
	if b.gate != nil {
		<-b.gate
	}
	if b.pos >= len(b.data) {
		if b.endErr != nil {
			return 0, b.endErr
		}
		return 0, io.EOF
	}
	n := copy(p[:1], b.data[b.pos:])
	b.pos += n
	return n, nil
}
func (b *vfSlowBody) Close() error { return nil }

type vfCountingCollector struct {
	mu     sync.Mutex
	count  int
	events [][]Event
	lens   []int
}

func (c *vfCountingCollector) Complete(t Trace) {
	c.mu.Lock()
	defer c.mu.Unlock()
	c.count++
	c.events = append(c.events, t.Events)
	c.lens = append(c.lens, len(t.Events))
}

func vfRaceCheck(c vfRaceCase) error {
	if c.Procs > 0 {
		defer runtime.GOMAXPROCS(runtime.GOMAXPROCS(c.Procs))
	}
	coll := &vfCountingCollector{}
	transport := roundTripperFunc(func(req *http.Request) (*http.Response, error) {
		_, _ = io.Copy(io.Discard, req.Body)
		_ = req.Body.Close()
		if c.RespErr {
			return nil, errors.New("verif: transport failed")
		}
		if err := req.Context().Err(); err != nil {
			return nil, err
		}
		body := &vfSlowBody{data: []byte{0, 0, 0, 0, 2, 'h', 'i', 2, 0, 0, 0, 2, '{', '}'}}
		if c.BodyErr {
			body.endErr = errors.New("verif: body failed")
		}
		return &http.Response{StatusCode: 200, Status: "200 OK", Proto: "HTTP/1.1", ProtoMajor: 1, ProtoMinor: 1,
			Header: http.Header{"Content-Type": {"application/connect+proto"}}, Body: body, Request: req, ContentLength: -1}, nil
	})
	rt := TracingRoundTripper(transport, coll)
	ctx, cancel := context.WithCancel(context.Background())
	defer cancel()
	req, _ := http.NewRequestWithContext(ctx, http.MethodPost, "http://verif.test/svc/Method", strings.NewReader("\x00\x00\x00\x00\x01x"))
	req.Header.Set("Content-Type", "application/connect+proto")
	req.Header.Set(testCaseNameHeader, "verif/c16c")
	if c.CancelAt == 1 {
		cancel()
	}
	resp, err := rt.RoundTrip(req)
	if err == nil {
		var wg sync.WaitGroup
		buf := make([]byte, 4)
		reads := 0
		for {
			if c.CancelAt == 2 && reads == 3 {
				if c.Concurrent {
					wg.Add(1)
					go func() {
						defer wg.Done()
						for i := 0; i < c.Yields; i++ {
							runtime.Gosched()
						}
						cancel()
					}()
				} else {
					cancel()
				}
			}
			if c.CloseEarly && reads == 5 {
				break
			}
			_, rerr := resp.Body.Read(buf)
			reads++
			if rerr != nil {
				if c.ReadAfterEOF {
					_, _ = resp.Body.Read(buf)
				}
				break
			}
		}
		_ = resp.Body.Close()
		if c.DoubleClose {
			_ = resp.Body.Close()
		}
		wg.Wait()
	}
	if c.CancelAt == 3 {
		cancel()
	}
	// completion may come from the cancellation goroutine: wait for it (bounded)
	deadline := time.Now().Add(10 * time.Second)
	for {
		coll.mu.Lock()
		n := coll.count
		coll.mu.Unlock()
		if n >= 1 {
			break
		}
		if time.Now().After(deadline) {
			return verifkit.Violf("race-no-completion", "the operation ended (%+v) but its trace was never completed", c)
		}
		time.Sleep(200 * time.Microsecond)
	}
	cancel()
	// give a racing second completion a chance to show up
	for i := 0; i < 50; i++ {
		runtime.Gosched()
	}
	time.Sleep(time.Millisecond)
	coll.mu.Lock()
	defer coll.mu.Unlock()
	if coll.count != 1 {
		return verifkit.Violf("race-complete-count", "%d Complete calls for one operation (%+v)", coll.count, c)
	}
	if len(coll.events[0]) != coll.lens[0] {
		return verifkit.Violf("race-events-after-completion", "event list grew from %d to %d after completion", coll.lens[0], len(coll.events[0]))
	}
	last := vfEventKind(coll.events[0][len(coll.events[0])-1])
	if !vfFinishing(last) {
		return verifkit.Violf("race-last-event", "completed trace ends with %q (%+v)", last, c)
	}
	return nil
}

func TestVerifC16RoundTripRace(t *testing.T) {
	verifkit.Run(t, "C16RoundTripRace", verifkit.Spec[vfRaceCase]{
		Gen: func(t *rapid.T) vfRaceCase {
			return vfRaceCase{
				RespErr: rapid.IntRange(0, 4).Draw(t, "respErr") == 0, CancelAt: rapid.IntRange(0, 3).Draw(t, "cancelAt"),
				BodyErr: rapid.Bool().Draw(t, "bodyErr"), CloseEarly: rapid.Bool().Draw(t, "closeEarly"), Concurrent: rapid.Bool().Draw(t, "concurrent"),
				Procs: rapid.SampledFrom([]int{1, 2, 16}).Draw(t, "procs"), Yields: rapid.IntRange(0, 20).Draw(t, "yields"),
				DoubleClose: rapid.Bool().Draw(t, "doubleClose"), ReadAfterEOF: rapid.Bool().Draw(t, "readAfterEOF"),
			}
		},
		Check: vfRaceCheck,
		Classify: func(c vfRaceCase) ([]string, bool) {
			racing := 0
			if c.CancelAt != 0 {
				racing++
			}
			if c.BodyErr || c.CloseEarly {
				racing++
			}
			if c.RespErr {
				racing++
			}
			return []string{fmt.Sprintf("racing-finishers:%d", racing)}, racing >= 2
		},
	})
}

// TestVerifC16RetryTimer: a named stream is refused by the peer and never retried. The trace is held back for the
// retry period and then delivered by a timer; when the connection is closed later, that operation has already
// completed its trace - it must not be completed a second time. (Borrows the HTTP/2 exchange driver of the C15
// harness; waits out the real retry period, hence only a handful of cases.)
func TestVerifC16RetryTimer(t *testing.T) { vfRetryTimerUnit(t, "C16RetryTimer") }

// TestVerifC16H2Once: the HTTP/2 conversations of the C15 harness seen from C16's side - "each traced HTTP operation
// completes its trace exactly once": whatever the connection carries (table-size changes, header lists of any size,
// graceful GOAWAY pairs, resets, refusals), a named operation is completed once, never zero times and never twice.
// Only the count is judged here; what the trace says is C15's business.
func TestVerifC16H2Once(t *testing.T) {
	verifkit.Run(t, "C16H2Once", verifkit.Spec[vfExchange]{
		Gen: vfGenExchange,
		Check: func(ex vfExchange) error {
			err := vfC15Check(ex)
			var v *verifkit.Violation
			if errors.As(err, &v) && !strings.HasPrefix(v.Key, "h2-trace-count") && !strings.HasPrefix(v.Key, "h2-missing-trace") && !strings.HasPrefix(v.Key, "panic") {
				return nil
			}
			return err
		},
		Classify: vfC15Classify,
	})
}

// vfFailingWriter accepts a number of Write calls and fails the later ones (the client went away mid-response).
type vfFailingWriter struct {
	header   http.Header
	okWrites int
	writes   int
}

func (f *vfFailingWriter) Header() http.Header { return f.header }
func (f *vfFailingWriter) WriteHeader(int)     {}
func (f *vfFailingWriter) Write(p []byte) (int, error) {
	f.writes++
	if f.writes > f.okWrites {
		return 0, errors.New("verif: write: broken pipe")
	}
	return len(p), nil
}

// TestVerifC16ServerWriteFails: the tracing middleware around a handler whose k-th Write fails (the trace is completed
// at that point) and which then does what handlers do before they return: sets its status trailers, writes once more,
// flushes. The operation completes its trace exactly once, and the trace the collector was given is not touched
// afterwards - no event added, no header or trailer written into it.
func TestVerifC16ServerWriteFails(t *testing.T) {
	en := verifkit.NewEnum(t, "C16ServerWriteFails")
	type row struct {
		OKWrites    int    `json:"okWrites"`
		ContentType string `json:"contentType"`
		Epilogue    string `json:"epilogue"` // declared-trailers, prefixed-trailers, write-again, none
	}
	var rows []row
	for _, ok := range []int{0, 1, 2} {
		for _, ct := range []string{"application/grpc", "application/connect+proto", "application/proto"} {
			for _, ep := range []string{"declared-trailers", "prefixed-trailers", "write-again", "none"} {
				rows = append(rows, row{ok, ct, ep})
			}
		}
	}
	var replay row
	if en.ReplayCase(&replay) {
		rows = []row{replay}
	}
	for _, r := range rows {
		coll := &vfCollector{}
		handler := TracingHandler(http.HandlerFunc(func(w http.ResponseWriter, _ *http.Request) {
			w.Header().Set("Content-Type", r.ContentType)
			if r.Epilogue == "declared-trailers" {
				w.Header().Set("Trailer", "Grpc-Status, Grpc-Message")
			}
			for i := 0; i < 3; i++ {
				if _, err := w.Write([]byte{0, 0, 0, 0, 2, 'h', byte('0' + i)}); err != nil {
					break
				}
			}
			switch r.Epilogue {
			case "declared-trailers":
				w.Header().Set("Grpc-Status", "14")
				w.Header().Set("Grpc-Message", "aborted")
			case "prefixed-trailers":
				w.Header().Set(http.TrailerPrefix+"Grpc-Status", "14")
				w.Header().Set(http.TrailerPrefix+"Grpc-Message", "aborted")
			case "write-again":
				_, _ = w.Write([]byte{0, 0, 0, 0, 1, 'x'})
				if f, ok := w.(http.Flusher); ok {
					f.Flush()
				}
			}
		}), coll)
		req, _ := http.NewRequest(http.MethodPost, "http://verif.test/svc/Method", http.NoBody)
		req.Header.Set(testCaseNameHeader, "verif/c16/write-fails")
		req.Header.Set("Content-Type", r.ContentType)
		handler.ServeHTTP(&vfFailingWriter{header: http.Header{}, okWrites: r.OKWrites}, req)
		var viol error
		coll.mu.Lock()
		n := len(coll.traces)
		coll.mu.Unlock()
		if n != 1 {
			viol = verifkit.Violf("write-fails-complete-count", "the operation completed its trace %d times (write %d fails, then %s), want exactly once", n, r.OKWrites+1, r.Epilogue)
		} else if ch := coll.changedSinceComplete(); ch != "" {
			viol = verifkit.Violf("trace-changed-after-completion", "write %d fails, then the handler goes on (%s): %s", r.OKWrites+1, r.Epilogue, ch)
		}
		en.Rec.Observe(r, []string{"epilogue:" + r.Epilogue, fmt.Sprintf("okWrites:%d", r.OKWrites)}, r.Epilogue != "none")
		if viol != nil && en.Fail(r, viol) {
			break
		}
	}
	en.Done(true)
}
