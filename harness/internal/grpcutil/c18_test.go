//go:build verif

package grpcutil

import (
	"context"
	"encoding/base64"
	"fmt"
	"sort"
	"strings"
	"testing"

	conformancev1 "connectrpc.com/conformance/internal/gen/proto/go/connectrpc/conformance/v1"
	"connectrpc.com/conformance/internal/verifkit"
	"google.golang.org/grpc/metadata"
	"google.golang.org/protobuf/proto"
	"pgregory.net/rapid"
)

type vfErrCase struct {
	Err []byte `json:"err"` // binary conformance Error
	Txt string `json:"text"`
}

func vfMakeErrCase(e *conformancev1.Error) vfErrCase {
	data, _ := proto.Marshal(e)
	return vfErrCase{Err: data, Txt: e.String()}
}

func vfErrNontrivial(c vfErrCase) ([]string, bool) {
	var e conformancev1.Error
	_ = proto.Unmarshal(c.Err, &e)
	var cl []string
	if len(e.Details) >= 2 {
		cl = append(cl, "details>=2")
	}
	if e.Message == nil {
		cl = append(cl, "message-unset")
	}
	return cl, len(e.Details) >= 2
}

// proto Error -> gRPC status error -> proto Error is the identity.
func TestVerifC18ErrGRPC(t *testing.T) {
	verifkit.Run(t, "C18ErrGRPC", verifkit.Spec[vfErrCase]{
		Gen: func(t *rapid.T) vfErrCase {
			return vfMakeErrCase(verifkit.GenProtoError(t, 4, []string{"", "", "example.com/", "a/b/"}))
		},
		Check: func(c vfErrCase) error {
			var e conformancev1.Error
			if err := proto.Unmarshal(c.Err, &e); err != nil {
				return nil
			}
			back := ConvertGrpcToProtoError(ConvertProtoToGrpcError(&e))
			if back == nil {
				return verifkit.Violf("grpc-error-lost", "round trip returned nil for %v", &e)
			}
			if back.Code != e.Code {
				return verifkit.Violf("grpc-code", "code %v became %v", e.Code, back.Code)
			}
			if back.GetMessage() != e.GetMessage() {
				return verifkit.Violf("grpc-message", "message %q became %q", e.GetMessage(), back.GetMessage())
			}
			if len(back.Details) != len(e.Details) {
				return verifkit.Violf("grpc-details", "%d details became %d", len(e.Details), len(back.Details))
			}
			for i := range e.Details {
				if back.Details[i].TypeUrl != e.Details[i].TypeUrl || string(back.Details[i].Value) != string(e.Details[i].Value) {
					return verifkit.Violf("grpc-details", "detail %d changed: %v -> %v", i, e.Details[i], back.Details[i])
				}
			}
			if ConvertProtoToGrpcError(nil) != nil || ConvertGrpcToProtoError(nil) != nil {
				return verifkit.Violf("grpc-nil", "nil does not map to nil")
			}
			return nil
		},
		Classify: vfErrNontrivial,
	})
}

type vfHdr struct {
	Name  string   `json:"name"`
	Value []string `json:"value"`
}

type vfMetaCase struct {
	Headers []vfHdr `json:"headers"`
}

func vfToCase(hs []*conformancev1.Header) vfMetaCase {
	var c vfMetaCase
	for _, h := range hs {
		c.Headers = append(c.Headers, vfHdr{Name: h.Name, Value: append([]string{}, h.Value...)})
	}
	return c
}

func (c vfMetaCase) proto() []*conformancev1.Header {
	var out []*conformancev1.Header
	for _, h := range c.Headers {
		out = append(out, &conformancev1.Header{Name: h.Name, Value: append([]string{}, h.Value...)})
	}
	return out
}

// vfWantMeta: per lower-cased key, the concatenation of values in order; -bin
// values as the canonical (unpadded) base64 of the originally encoded bytes.
func vfWantMeta(c vfMetaCase) map[string][]string {
	want := map[string][]string{}
	for _, h := range c.Headers {
		key := strings.ToLower(h.Name)
		if _, ok := want[key]; !ok {
			want[key] = []string{}
		}
		for _, v := range h.Value {
			if strings.HasSuffix(key, "-bin") {
				raw, err := base64.RawStdEncoding.DecodeString(strings.TrimRight(v, "="))
				if err == nil {
					v = base64.RawStdEncoding.EncodeToString(raw)
				}
			}
			want[key] = append(want[key], v)
		}
	}
	return want
}

func vfFlatten(hs []*conformancev1.Header) map[string][]string {
	got := map[string][]string{}
	for _, h := range hs {
		key := strings.ToLower(h.Name)
		if _, ok := got[key]; !ok {
			got[key] = []string{}
		}
		got[key] = append(got[key], h.Value...)
	}
	return got
}

func vfMapStr(m map[string][]string) string {
	keys := make([]string, 0, len(m))
	for k := range m {
		keys = append(keys, k)
	}
	sort.Strings(keys)
	var sb strings.Builder
	for _, k := range keys {
		fmt.Fprintf(&sb, "%s=%q ", k, m[k])
	}
	return sb.String()
}

func vfMetaClassify(c vfMetaCase) ([]string, bool) {
	seen := map[string]int{}
	bin, undecodable := false, false
	for _, h := range c.Headers {
		k := strings.ToLower(h.Name)
		seen[k]++
		if strings.HasSuffix(k, "-bin") && len(h.Value) > 0 {
			bin = true
			for _, v := range h.Value {
				if _, err := base64.RawStdEncoding.DecodeString(strings.TrimRight(v, "=")); err != nil {
					undecodable = true
				}
			}
		}
	}
	rep := false
	for _, n := range seen {
		if n > 1 {
			rep = true
		}
	}
	var cl []string
	if rep {
		cl = append(cl, "repeated-key")
	}
	if bin {
		cl = append(cl, "binary-key")
	}
	if undecodable {
		cl = append(cl, "binary-value-not-base64")
	}
	return cl, rep || bin
}

// header list -> metadata.MD -> header list keeps every key and value.
func TestVerifC18Meta(t *testing.T) {
	verifkit.Run(t, "C18Meta", verifkit.Spec[vfMetaCase]{
		Gen: func(t *rapid.T) vfMetaCase {
			c := vfToCase(verifkit.GenHeaderList(t, "h", 5, true))
			// a -bin header whose value is not base64 at all: it is taken as the raw bytes (and so still encoded
			// exactly once on the way out), never dropped
			for i, h := range c.Headers {
				if !strings.HasSuffix(strings.ToLower(h.Name), "-bin") {
					continue
				}
				for j := range h.Value {
					if rapid.IntRange(0, 4).Draw(t, "undecodable") == 0 {
						c.Headers[i].Value[j] = rapid.SampledFrom([]string{"not base64!", "a", "ab=c", "%%%", "YWJj\n*"}).Draw(t, "raw-bin")
					}
				}
			}
			return c
		},
		Check: func(c vfMetaCase) error {
			want := vfWantMeta(c)
			md := ConvertProtoHeaderToMetadata(c.proto())
			// in the MD, -bin values are raw bytes
			for key, vals := range want {
				got, ok := md[key]
				if !ok {
					return verifkit.Violf("meta-key-lost", "key %q missing from metadata %v (input %v)", key, md, c.Headers)
				}
				if len(got) != len(vals) {
					return verifkit.Violf("meta-values-lost", "key %q: metadata has %d values %q, the header list has %d (input %v)", key, len(got), got, len(vals), c.Headers)
				}
				for i := range vals {
					w := vals[i]
					if strings.HasSuffix(key, "-bin") {
						if raw, err := base64.RawStdEncoding.DecodeString(w); err == nil {
							w = string(raw)
						}
					}
					if got[i] != w {
						return verifkit.Violf("meta-value-changed", "key %q value %d: %q, want %q", key, i, got[i], w)
					}
				}
			}
			if len(md) != len(want) {
				return verifkit.Violf("meta-key-invented", "metadata %v has keys not in the input %v", md, c.Headers)
			}
			back := vfFlatten(ConvertMetadataToProtoHeader(md))
			for key, vals := range want {
				if !strings.HasSuffix(key, "-bin") {
					continue
				}
				for i, v := range vals {
					if _, err := base64.RawStdEncoding.DecodeString(v); err != nil {
						// taken as raw bytes on the way in, encoded once on the way out
						want[key][i] = base64.RawStdEncoding.EncodeToString([]byte(v))
					}
				}
			}
			if vfMapStr(back) != vfMapStr(want) {
				return verifkit.Violf("meta-roundtrip", "header list -> metadata -> header list: got %s want %s", vfMapStr(back), vfMapStr(want))
			}
			// outgoing context: every (name, value) pair in order
			ctx := AppendToOutgoingContext(context.Background(), c.proto())
			out, _ := metadata.FromOutgoingContext(ctx)
			// outgoing metadata carries -bin values as raw bytes (grpc-go base64-encodes them
			// on the wire), so that they end up encoded exactly once
			wantOut := map[string][]string{}
			for _, h := range c.Headers {
				for _, v := range h.Value {
					k := strings.ToLower(h.Name)
					if strings.HasSuffix(k, "-bin") {
						if raw, err := base64.RawStdEncoding.DecodeString(strings.TrimRight(v, "=")); err == nil {
							v = string(raw)
						}
					}
					wantOut[k] = append(wantOut[k], v)
				}
			}
			gotOut := map[string][]string{}
			for k, v := range out {
				gotOut[strings.ToLower(k)] = append(gotOut[strings.ToLower(k)], v...)
			}
			if vfMapStr(gotOut) != vfMapStr(wantOut) {
				return verifkit.Violf("meta-outgoing", "outgoing metadata %s, want %s", vfMapStr(gotOut), vfMapStr(wantOut))
			}
			return nil
		},
		Classify: vfMetaClassify,
	})
}

// ---- percent-encoding ----

func vfPercentDecode(s string) (string, bool) {
	var out []byte
	for i := 0; i < len(s); i++ {
		if s[i] != '%' {
			out = append(out, s[i])
			continue
		}
		if i+2 >= len(s) {
			return "", false
		}
		hi, ok1 := vfHex(s[i+1])
		lo, ok2 := vfHex(s[i+2])
		if !ok1 || !ok2 {
			return "", false
		}
		out = append(out, hi<<4|lo)
		i += 2
	}
	return string(out), true
}

func vfHex(c byte) (byte, bool) {
	switch {
	case c >= '0' && c <= '9':
		return c - '0', true
	case c >= 'A' && c <= 'F':
		return c - 'A' + 10, true
	case c >= 'a' && c <= 'f':
		return c - 'a' + 10, true
	}
	return 0, false
}

type vfPctCase struct {
	Msg []byte `json:"msg"`
}

func TestVerifC18Percent(t *testing.T) {
	// the escape predicate, exhaustively
	for b := 0; b < 256; b++ {
		want := b < 0x20 || b > 0x7E || b == '%'
		// one direction only: escaping more than necessary is still invertible and printable
		if want && !ShouldEscapeByteInMessage(byte(b)) {
			rec := verifkit.NewRecorder("C18Percent")
			rec.Violate(vfPctCase{Msg: []byte{byte(b)}}, verifkit.Violf("percent-predicate", "ShouldEscapeByteInMessage(0x%02x) = false, but the byte is not printable ASCII or is %%", b))
			rec.Flush(true)
			t.Fatalf("escape predicate wrong for byte 0x%02x", b)
		}
	}
	verifkit.Run(t, "C18Percent", verifkit.Spec[vfPctCase]{
		Gen: func(t *rapid.T) vfPctCase {
			switch rapid.IntRange(0, 2).Draw(t, "kind") {
			case 0:
				return vfPctCase{Msg: []byte(verifkit.GenErrMessage(t, "msg"))}
			case 1:
				return vfPctCase{Msg: rapid.SliceOfN(rapid.Byte(), 0, 40).Draw(t, "bytes")}
			default:
				return vfPctCase{Msg: []byte(rapid.StringOfN(rapid.RuneFrom([]rune{'%', 'a', '4', '1', ' ', '~', 0x7f, 0x1f, 'é', '\n'}), 0, 12, -1).Draw(t, "pct"))}
			}
		},
		Check: func(c vfPctCase) error {
			enc := PercentEncodeMessage(string(c.Msg))
			for i := 0; i < len(enc); i++ {
				if enc[i] < 0x20 || enc[i] > 0x7E {
					return verifkit.Violf("percent-nonprintable", "encoding of %q contains byte 0x%02x: %q", c.Msg, enc[i], enc)
				}
			}
			dec, ok := vfPercentDecode(enc)
			if !ok {
				return verifkit.Violf("percent-malformed", "encoding of %q is not valid percent-encoding: %q", c.Msg, enc)
			}
			if dec != string(c.Msg) {
				return verifkit.Violf("percent-roundtrip", "decode(encode(%q)) = %q (encoded %q)", c.Msg, dec, enc)
			}
			return nil
		},
		Classify: func(c vfPctCase) ([]string, bool) {
			for _, b := range c.Msg {
				if b < 0x20 || b > 0x7E || b == '%' {
					return []string{"needs-escaping"}, true
				}
			}
			return []string{"plain"}, false
		},
	})
}
