//go:build verif

package compression

import (
	"bytes"
	"compress/gzip"
	"compress/zlib"
	"fmt"
	"io"
	"net/http"
	"strings"
	"testing"

	conformancev1 "connectrpc.com/conformance/internal/gen/proto/go/connectrpc/conformance/v1"
	"connectrpc.com/conformance/internal/verifkit"
	"connectrpc.com/connect"
	"github.com/andybalholm/brotli"
	"github.com/golang/snappy"
	"github.com/klauspost/compress/zstd"
	"pgregory.net/rapid"
)

// ---- C20: pooled compressor/decompressor histories, against independent decoders ----

var vfEncodings = []conformancev1.Compression{
	conformancev1.Compression_COMPRESSION_IDENTITY, conformancev1.Compression_COMPRESSION_GZIP, conformancev1.Compression_COMPRESSION_BR,
	conformancev1.Compression_COMPRESSION_ZSTD, conformancev1.Compression_COMPRESSION_DEFLATE, conformancev1.Compression_COMPRESSION_SNAPPY,
}

// vfIndepDecode decodes with the stdlib / third-party library called directly.
func vfIndepDecode(enc conformancev1.Compression, data []byte) ([]byte, error) {
	const limit = 8 << 20
	switch enc {
	case conformancev1.Compression_COMPRESSION_IDENTITY:
		return data, nil
	case conformancev1.Compression_COMPRESSION_GZIP:
		r, err := gzip.NewReader(bytes.NewReader(data))
		if err != nil {
			return nil, err
		}
		return io.ReadAll(io.LimitReader(r, limit))
	case conformancev1.Compression_COMPRESSION_DEFLATE:
		r, err := zlib.NewReader(bytes.NewReader(data))
		if err != nil {
			return nil, err
		}
		return io.ReadAll(io.LimitReader(r, limit))
	case conformancev1.Compression_COMPRESSION_BR:
		return io.ReadAll(io.LimitReader(brotli.NewReader(bytes.NewReader(data)), limit))
	case conformancev1.Compression_COMPRESSION_ZSTD:
		r, err := zstd.NewReader(bytes.NewReader(data), zstd.WithDecoderConcurrency(1))
		if err != nil {
			return nil, err
		}
		defer r.Close()
		return io.ReadAll(io.LimitReader(r, limit))
	case conformancev1.Compression_COMPRESSION_SNAPPY:
		return io.ReadAll(io.LimitReader(snappy.NewReader(bytes.NewReader(data)), limit))
	}
	return nil, fmt.Errorf("unknown encoding %v", enc)
}

// vfIndepEncode encodes with the library called directly.
func vfIndepEncode(enc conformancev1.Compression, data []byte) []byte {
	var buf bytes.Buffer
	var w io.WriteCloser
	switch enc {
	case conformancev1.Compression_COMPRESSION_IDENTITY:
		return append([]byte{}, data...)
	case conformancev1.Compression_COMPRESSION_GZIP:
		w = gzip.NewWriter(&buf)
	case conformancev1.Compression_COMPRESSION_DEFLATE:
		w = zlib.NewWriter(&buf)
	case conformancev1.Compression_COMPRESSION_BR:
		w = brotli.NewWriter(&buf)
	case conformancev1.Compression_COMPRESSION_ZSTD:
		zw, _ := zstd.NewWriter(&buf, zstd.WithEncoderConcurrency(1))
		w = zw
	case conformancev1.Compression_COMPRESSION_SNAPPY:
		w = snappy.NewBufferedWriter(&buf)
	}
	_, _ = w.Write(data)
	_ = w.Close()
	return buf.Bytes()
}

type vfData struct {
	Kind string `json:"kind"` // empty, byte, text, random, big
	Size int    `json:"size"`
	Seed int    `json:"seed"`
}

func (d vfData) bytes() []byte {
	switch d.Kind {
	case "empty":
		return nil
	case "byte":
		return []byte{byte(d.Seed)}
	case "text":
		return []byte(strings.Repeat("the quick brown fox ", d.Size/20+1)[:d.Size])
	default: // random / big: incompressible pseudo-random bytes (xorshift)
		out := make([]byte, d.Size)
		x := uint64(d.Seed)*2654435761 + 88172645463325252
		for i := range out {
			x ^= x << 13
			x ^= x >> 7
			x ^= x << 17
			out[i] = byte(x)
		}
		return out
	}
}

type vfStep struct {
	Op      string `json:"op"` // compress, decode, decode-corrupt, decode-truncated, decode-nothing, roundtrip
	Data    vfData `json:"data"`
	Pos     int    `json:"pos"`   // corruption position (per mille of the stream)
	Bit     int    `json:"bit"`   // bit to flip
	Chunked bool   `json:"chunk"` // write in several Write calls
}

type vfC20Case struct {
	Enc   int      `json:"enc"` // index into vfEncodings
	Steps []vfStep `json:"steps"`
	// ResetOnly: the decompressor is reset and reused without a Close in between ("reset and reused" rather than
	// "closed and reused"): after a read, good or bad, the next Reset follows directly
	ResetOnly bool `json:"resetOnly,omitempty"`
}

// vfPool mimics connect-go's compressionPool around ONE instance of each kind
// (Get/Put with the same Close/Reset calls; an instance whose Reset or Close
// fails is discarded and a new one is created, as the pool does).
type vfPool struct {
	enc       conformancev1.Compression
	comp      connect.Compressor
	decomp    connect.Decompressor
	discarded int
	resetOnly bool
	// sinkClosed: set when a compressor closed the writer it was given
	sinkClosed string
}

// vfClosableBuffer is a sink that could be closed (a pipe, a file): a compressor that is closed or recycled must
// leave it open - the next message of the same body goes to the same sink.
type vfClosableBuffer struct {
	bytes.Buffer
	closed int
}

func (b *vfClosableBuffer) Close() error { b.closed++; return nil }

func (p *vfPool) compress(data []byte, chunked bool) ([]byte, error) {
	var err error
	if p.comp == nil {
		if p.comp, err = GetCompressor(p.enc); err != nil {
			return nil, err
		}
	}
	var dst vfClosableBuffer
	defer func() {
		if dst.closed > 0 && p.sinkClosed == "" {
			p.sinkClosed = fmt.Sprintf("the %v compressor closed the sink it was writing to (%d time(s))", p.enc, dst.closed)
		}
	}()
	p.comp.Reset(&dst)
	if len(data) > 0 { // bytes.Buffer.WriteTo makes no Write call for an empty buffer
		if chunked && len(data) > 3 {
			cut := len(data) / 3
			for _, part := range [][]byte{data[:cut], data[cut : 2*cut], data[2*cut:]} {
				if _, err := p.comp.Write(part); err != nil {
					p.putComp()
					return nil, fmt.Errorf("write: %w", err)
				}
			}
		} else if _, err := p.comp.Write(data); err != nil {
			p.putComp()
			return nil, fmt.Errorf("write: %w", err)
		}
	}
	if err := p.putComp(); err != nil {
		return nil, fmt.Errorf("recycle compressor: %w", err)
	}
	return dst.Bytes(), nil
}

func (p *vfPool) putComp() error {
	if err := p.comp.Close(); err != nil {
		p.comp = nil
		p.discarded++
		return err
	}
	p.comp.Reset(io.Discard)
	return nil
}

func (p *vfPool) decompress(src []byte) ([]byte, error) {
	var err error
	if p.decomp == nil {
		if p.decomp, err = GetDecompressor(p.enc); err != nil {
			return nil, err
		}
	}
	if err := p.decomp.Reset(bytes.NewBuffer(src)); err != nil {
		p.decomp = nil // not returned to the pool
		p.discarded++
		return nil, fmt.Errorf("get decompressor: %w", err)
	}
	var dst bytes.Buffer
	_, err = dst.ReadFrom(io.LimitReader(p.decomp, 8<<20))
	if err != nil {
		_ = p.putDecomp()
		return dst.Bytes(), fmt.Errorf("decompress: %w", err)
	}
	if err := p.putDecomp(); err != nil {
		return dst.Bytes(), fmt.Errorf("recycle decompressor: %w", err)
	}
	return dst.Bytes(), nil
}

func (p *vfPool) putDecomp() error {
	if p.resetOnly {
		return nil // (the next use resets it)
	}
	if err := p.decomp.Close(); err != nil {
		p.decomp = nil
		p.discarded++
		return err
	}
	_ = p.decomp.Reset(http.NoBody)
	return nil
}

func (p *vfPool) release() {
	if p.decomp != nil {
		_ = p.decomp.Close()
	}
	if p.comp != nil {
		_ = p.comp.Close()
	}
}

func vfCorrupt(stream []byte, st vfStep) []byte {
	out := append([]byte{}, stream...)
	if len(out) == 0 {
		return out
	}
	pos := st.Pos * len(out) / 1000
	if st.Op == "decode-flip-at" || st.Op == "decode-cut-at" {
		pos = st.Pos // (an exact byte offset)
	}
	if pos >= len(out) {
		pos = len(out) - 1
	}
	switch st.Op {
	case "decode-flip-at":
		out[pos] ^= 1 << (uint(st.Bit) % 8)
	case "decode-cut-at":
		out = out[:pos]
	case "decode-corrupt":
		out[pos] ^= 1 << (uint(st.Bit) % 8)
	case "decode-truncated":
		out = out[:pos]
	case "decode-trailing":
		// the complete stream followed by stray bytes (a peer that kept writing)
		for i := 0; i <= st.Pos%16; i++ {
			out = append(out, byte(st.Bit*37+i))
		}
	}
	return out
}

func vfC20Check(c vfC20Case) error {
	enc := vfEncodings[c.Enc%len(vfEncodings)]
	pool := &vfPool{enc: enc, resetOnly: c.ResetOnly}
	defer pool.release()
	prevFailed := false
	for i, st := range c.Steps {
		data := st.Data.bytes()
		where := fmt.Sprintf("%s step %d (%s, %d bytes, after failed decode: %v)", enc, i+1, st.Op, len(data), prevFailed)
		switch st.Op {
		case "compress", "roundtrip":
			out, err := pool.compress(data, st.Chunked)
			if err != nil {
				return verifkit.Violf("compress-error", "%s: %v", where, err)
			}
			if pool.sinkClosed != "" {
				return verifkit.Violf("compressor-closed-sink", "%s: %s", where, pool.sinkClosed)
			}
			dec, err := vfIndepDecode(enc, out)
			if err != nil || !bytes.Equal(dec, data) {
				return verifkit.Violf("compress-not-decodable", "%s: output of the repo compressor is not what the %s library itself decodes to the input (err=%v, %d bytes)", where, enc, err, len(dec))
			}
			if st.Op == "roundtrip" {
				got, err := pool.decompress(out)
				if err != nil {
					return verifkit.Violf("roundtrip-error", "%s: %v", where, err)
				}
				if !bytes.Equal(got, data) {
					return verifkit.Violf("roundtrip-mismatch", "%s: decoded %d bytes, want %d", where, len(got), len(data))
				}
				prevFailed = false
			}
		case "decode":
			src := vfIndepEncode(enc, data)
			got, err := pool.decompress(src)
			if err != nil {
				return verifkit.Violf("valid-decode-error", "%s: a valid stream failed to decode: %v", where, err)
			}
			if !bytes.Equal(got, data) {
				return verifkit.Violf("valid-decode-mismatch", "%s: decoded %d bytes, want %d", where, len(got), len(data))
			}
			prevFailed = false
		case "decode-corrupt", "decode-truncated", "decode-nothing", "decode-trailing", "decode-flip-at", "decode-cut-at":
			var src []byte
			if st.Op != "decode-nothing" {
				src = vfCorrupt(vfIndepEncode(enc, data), st)
			}
			_, err := pool.decompress(src) // must not panic or hang; result is free
			prevFailed = err != nil
		}
	}
	return nil
}

func vfC20Classify(c vfC20Case) ([]string, bool) {
	nt := false
	var cl []string
	failedBefore := false
	uses := 0
	for _, st := range c.Steps {
		switch st.Op {
		case "decode", "roundtrip":
			if failedBefore {
				nt = true
				cl = append(cl, "valid-after-bad")
			}
			if uses > 0 {
				nt = true
			}
			failedBefore = false
			uses++
		case "decode-corrupt", "decode-truncated", "decode-nothing", "decode-trailing", "decode-flip-at", "decode-cut-at":
			failedBefore = true
			uses++
		case "compress":
			uses++
		}
		if st.Data.Kind == "empty" || st.Data.Kind == "big" {
			nt = true
			cl = append(cl, "data:"+st.Data.Kind)
		}
	}
	if uses > 1 {
		cl = append(cl, "reuse")
	}
	cl = append(cl, "enc:"+vfEncodings[c.Enc%len(vfEncodings)].String())
	return cl, nt
}

var vfOps = []string{"compress", "roundtrip", "decode", "decode-corrupt", "decode-truncated", "decode-nothing", "decode-trailing"}

func vfGenData(t *rapid.T) vfData {
	switch rapid.IntRange(0, 9).Draw(t, "datakind") {
	case 0:
		return vfData{Kind: "empty"}
	case 1:
		return vfData{Kind: "byte", Seed: rapid.IntRange(0, 255).Draw(t, "b")}
	case 2, 3, 4:
		return vfData{Kind: "text", Size: rapid.IntRange(1, 5000).Draw(t, "size")}
	case 5:
		return vfData{Kind: "big", Size: rapid.IntRange(65537, 300000).Draw(t, "size"), Seed: rapid.IntRange(0, 1000).Draw(t, "seed")}
	default:
		return vfData{Kind: "random", Size: rapid.IntRange(1, 3000).Draw(t, "size"), Seed: rapid.IntRange(0, 1000).Draw(t, "seed")}
	}
}

func TestVerifC20Histories(t *testing.T) {
	verifkit.Run(t, "C20Histories", verifkit.Spec[vfC20Case]{
		Gen: func(t *rapid.T) vfC20Case {
			c := vfC20Case{Enc: rapid.IntRange(0, 5).Draw(t, "enc"), ResetOnly: rapid.IntRange(0, 3).Draw(t, "resetOnly") == 0}
			for i, n := 0, rapid.IntRange(1, 12).Draw(t, "nsteps"); i < n; i++ {
				c.Steps = append(c.Steps, vfStep{
					Op: rapid.SampledFrom(vfOps).Draw(t, "op"), Data: vfGenData(t),
					Pos: rapid.IntRange(0, 999).Draw(t, "pos"), Bit: rapid.IntRange(0, 7).Draw(t, "bit"), Chunked: rapid.Bool().Draw(t, "chunked"),
				})
			}
			return c
		},
		Check:    vfC20Check,
		Classify: vfC20Classify,
	})
}

// TestVerifC20Enum: all histories up to length N over a fixed operation
// alphabet (3 data values x valid/corrupt/truncated decodes + compressions).
func TestVerifC20Enum(t *testing.T) {
	en := verifkit.NewEnum(t, "C20Enum")
	var rc vfC20Case
	if en.ReplayCase(&rc) {
		if err := verifkit.SafeCall(func() error { return vfC20Check(rc) }); err != nil {
			en.Fail(rc, err)
		}
		en.Done(true)
		return
	}
	maxLen := verifkit.EnvInt("VERIF_C20_MAXLEN", 3)
	a := vfData{Kind: "text", Size: 300}
	b := vfData{Kind: "empty"}
	big := vfData{Kind: "big", Size: 70000, Seed: 7}
	alphabet := []vfStep{
		{Op: "decode", Data: a}, {Op: "decode", Data: b}, {Op: "decode", Data: big},
		{Op: "decode-corrupt", Data: a, Pos: 500, Bit: 3}, {Op: "decode-truncated", Data: a, Pos: 500}, {Op: "decode-nothing"},
		{Op: "decode-corrupt", Data: a, Pos: 0, Bit: 0}, {Op: "decode-trailing", Data: a, Pos: 3, Bit: 1},
		{Op: "roundtrip", Data: a}, {Op: "roundtrip", Data: b}, {Op: "compress", Data: big, Chunked: true},
	}
	shard, shards := verifkit.Shard()
	complete := true
	idx := 0
	var rec func(enc int, prefix []vfStep) bool
	rec = func(enc int, prefix []vfStep) bool {
		if len(prefix) > 0 {
			idx++
			if idx%shards == shard {
				c := vfC20Case{Enc: enc, Steps: append([]vfStep{}, prefix...)}
				err := verifkit.SafeCall(func() error { return vfC20Check(c) })
				cl, nt := vfC20Classify(c)
				en.Rec.ObserveHash(uint64(idx), strings.Join(cl[len(cl)-1:], ""), nt)
				if idx%997 == 5 {
					en.Rec.AddSample(c)
				}
				if err != nil && en.Fail(c, err) {
					return false
				}
			}
		}
		if len(prefix) == maxLen {
			return true
		}
		for _, st := range alphabet {
			if !rec(enc, append(prefix, st)) {
				return false
			}
		}
		return true
	}
	for enc := range vfEncodings {
		if !rec(enc, nil) {
			complete = false
			break
		}
	}
	en.Rec.SetExtra("alphabet", len(alphabet))
	en.Rec.SetExtra("max_history_length", maxLen)
	en.Done(complete)
}

// TestVerifC20Names: the IANA names of this package denote the algorithms the
// libraries implement (each compressor output is decodable by the independent
// decoder of the same name only).
func TestVerifC20Names(t *testing.T) {
	en := verifkit.NewEnum(t, "C20Names")
	names := map[conformancev1.Compression]string{
		conformancev1.Compression_COMPRESSION_IDENTITY: Identity, conformancev1.Compression_COMPRESSION_GZIP: Gzip,
		conformancev1.Compression_COMPRESSION_BR: Brotli, conformancev1.Compression_COMPRESSION_ZSTD: Zstd,
		conformancev1.Compression_COMPRESSION_DEFLATE: Deflate, conformancev1.Compression_COMPRESSION_SNAPPY: Snappy,
	}
	want := map[conformancev1.Compression]string{
		conformancev1.Compression_COMPRESSION_IDENTITY: "identity", conformancev1.Compression_COMPRESSION_GZIP: "gzip",
		conformancev1.Compression_COMPRESSION_BR: "br", conformancev1.Compression_COMPRESSION_ZSTD: "zstd",
		conformancev1.Compression_COMPRESSION_DEFLATE: "deflate", conformancev1.Compression_COMPRESSION_SNAPPY: "snappy",
	}
	data := []byte(strings.Repeat("conformance ", 50))
	for i, enc := range vfEncodings {
		c := map[string]any{"encoding": enc.String(), "name": names[enc]}
		en.Rec.Observe(c, []string{enc.String()}, true)
		if names[enc] != want[enc] {
			en.Fail(c, verifkit.Violf("name-constant", "constant for %v is %q, IANA name is %q", enc, names[enc], want[enc]))
			continue
		}
		pool := &vfPool{enc: enc}
		out, err := pool.compress(data, false)
		pool.release()
		if err != nil {
			en.Fail(c, verifkit.Violf("compress-error", "%v: %v", enc, err))
			continue
		}
		for j, other := range vfEncodings {
			dec, derr := vfIndepDecode(other, out)
			ok := derr == nil && bytes.Equal(dec, data)
			if (i == j) != ok && other != conformancev1.Compression_COMPRESSION_IDENTITY {
				en.Fail(c, verifkit.Violf("name-algorithm", "output of compressor %v decodes with %v: %v (want %v)", enc, other, ok, i == j))
			}
		}
	}
	en.Done(true)
}

// ---- several instances in use at the same time (two RPCs in flight, as the RPC library's pools allow) ----

type vfC20Concurrent struct {
	Enc      int      `json:"enc"`
	Warmups  []int    `json:"warmups"`  // per instance: how many messages it handled (and was recycled after) before
	Data     []vfData `json:"data"`     // per instance: the message it handles now
	Schedule []int    `json:"schedule"` // which instance makes the next step (cyclic)
	Step     int      `json:"step"`     // bytes per Read / Write step
}

func vfC20ConcurrentCheck(c vfC20Concurrent) error {
	enc := vfEncodings[c.Enc]
	n := len(c.Data)
	// decompressors: recycle the way the pool does (Close, Reset(NoBody)), then all are handed a message at once
	decs := make([]connect.Decompressor, n)
	comps := make([]connect.Compressor, n)
	for i := 0; i < n; i++ {
		var err error
		if decs[i], err = GetDecompressor(enc); err != nil {
			return nil
		}
		if comps[i], err = GetCompressor(enc); err != nil {
			return nil
		}
		for w := 0; w < c.Warmups[i]; w++ {
			warm := []byte(fmt.Sprintf("warm-up message %d of instance %d", w, i))
			if err := decs[i].Reset(bytes.NewReader(vfIndepEncode(enc, warm))); err != nil {
				return verifkit.Violf("concurrent-warmup", "%v instance %d: Reset for warm-up %d failed: %v", enc, i, w, err)
			}
			if got, err := io.ReadAll(decs[i]); err != nil || !bytes.Equal(got, warm) {
				return verifkit.Violf("concurrent-warmup", "%v instance %d: warm-up %d decoded wrongly (err %v)", enc, i, w, err)
			}
			_ = decs[i].Close()
			_ = decs[i].Reset(http.NoBody)
			var sink bytes.Buffer
			comps[i].Reset(&sink)
			_, _ = comps[i].Write(warm)
			_ = comps[i].Close()
			comps[i].Reset(io.Discard)
		}
	}
	payloads := make([][]byte, n)
	outs := make([]bytes.Buffer, n) // decoded so far
	wire := make([]bytes.Buffer, n) // compressed so far
	written := make([]int, n)       // bytes handed to the compressor so far
	decDone := make([]bool, n)
	for i := 0; i < n; i++ {
		payloads[i] = c.Data[i].bytes()
		if err := decs[i].Reset(bytes.NewReader(vfIndepEncode(enc, payloads[i]))); err != nil {
			return verifkit.Violf("concurrent-reset", "%v instance %d of %d: Reset onto a valid stream failed while the others are in use: %v", enc, i, n, err)
		}
		comps[i].Reset(&wire[i])
	}
	step := c.Step
	if step < 1 {
		step = 1
	}
	buf := make([]byte, step)
	for k, left := 0, 2*n; left > 0 && k < 1<<20; k++ {
		i := c.Schedule[k%len(c.Schedule)] % n
		if !decDone[i] {
			m, err := decs[i].Read(buf)
			outs[i].Write(buf[:m])
			if err == io.EOF {
				decDone[i] = true
				left--
			} else if err != nil {
				return verifkit.Violf("concurrent-decode-error", "%v instance %d of %d: a valid stream failed to decode while other instances were in use: %v", enc, i, n, err)
			} else if outs[i].Len() > len(payloads[i])+step {
				return verifkit.Violf("concurrent-decode-mixed", "%v instance %d of %d: decoded more bytes than its message has", enc, i, n)
			}
		}
		if written[i] >= 0 {
			if written[i] < len(payloads[i]) {
				end := written[i] + step
				if end > len(payloads[i]) {
					end = len(payloads[i])
				}
				if _, err := comps[i].Write(payloads[i][written[i]:end]); err != nil {
					return verifkit.Violf("concurrent-compress-error", "%v instance %d: Write failed: %v", enc, i, err)
				}
				written[i] = end
			} else {
				if err := comps[i].Close(); err != nil {
					return verifkit.Violf("concurrent-compress-error", "%v instance %d: Close failed: %v", enc, i, err)
				}
				written[i] = -1
				left--
			}
		}
	}
	for i := 0; i < n; i++ {
		if !bytes.Equal(outs[i].Bytes(), payloads[i]) {
			return verifkit.Violf("concurrent-decode-mixed", "%v instance %d of %d (recycled %d times before): decoded %d bytes that differ from its %d-byte message - instances in use at the same time share state", enc, i, n, c.Warmups[i], outs[i].Len(), len(payloads[i]))
		}
		back, err := vfIndepDecode(enc, wire[i].Bytes())
		if err != nil || !bytes.Equal(back, payloads[i]) {
			return verifkit.Violf("concurrent-compress-mixed", "%v instance %d of %d: its output does not decode to its %d-byte message (err %v)", enc, i, n, len(payloads[i]), err)
		}
		_ = decs[i].Close()
	}
	return nil
}

func TestVerifC20Concurrent(t *testing.T) {
	verifkit.Run(t, "C20Concurrent", verifkit.Spec[vfC20Concurrent]{
		Gen: func(t *rapid.T) vfC20Concurrent {
			c := vfC20Concurrent{Enc: rapid.IntRange(0, 5).Draw(t, "enc"), Step: rapid.SampledFrom([]int{1, 7, 64, 1000, 70000}).Draw(t, "step")}
			for i, n := 0, rapid.IntRange(2, 3).Draw(t, "instances"); i < n; i++ {
				c.Warmups = append(c.Warmups, rapid.IntRange(0, 2).Draw(t, "warmups"))
				d := vfGenData(t)
				if d.Kind == "big" {
					d.Size = 65537 + d.Size%5000
				}
				c.Data = append(c.Data, d)
			}
			for i := 0; i < 9; i++ {
				c.Schedule = append(c.Schedule, rapid.IntRange(0, 2).Draw(t, "sched"))
			}
			c.Schedule = append(c.Schedule, 0, 1, 2) // every instance gets its turn
			return c
		},
		Check: vfC20ConcurrentCheck,
		Classify: func(c vfC20Concurrent) ([]string, bool) {
			recycled := 0
			for _, w := range c.Warmups {
				if w > 0 {
					recycled++
				}
			}
			return []string{vfEncodings[c.Enc].String(), fmt.Sprintf("recycled-instances:%d", recycled)}, recycled >= 1
		},
	})
}

// TestVerifC20Flips: for every encoding, every single-bit flip and every cut of the stream of one short message, and
// the stream followed by 1-4 stray bytes, is decoded on a pooled instance - and right after it, on the same instance,
// a valid stream, which must decode to its message (the quantifier's "any single-bit flip or cut", exhaustively).
func TestVerifC20Flips(t *testing.T) {
	en := verifkit.NewEnum(t, "C20Flips")
	var rc vfC20Case
	if en.ReplayCase(&rc) {
		if err := verifkit.SafeCall(func() error { return vfC20Check(rc) }); err != nil {
			en.Fail(rc, err)
		}
		en.Done(true)
		return
	}
	msg := vfData{Kind: "text", Size: 120}
	other := vfData{Kind: "text", Size: 300}
	shard, shards := verifkit.Shard()
	idx := 0
	for enc := range vfEncodings {
		n := len(vfIndepEncode(vfEncodings[enc], msg.bytes()))
		var bad []vfStep
		for pos := 0; pos < n; pos++ {
			for bit := 0; bit < 8; bit++ {
				bad = append(bad, vfStep{Op: "decode-flip-at", Data: msg, Pos: pos, Bit: bit})
			}
			bad = append(bad, vfStep{Op: "decode-cut-at", Data: msg, Pos: pos})
		}
		for k := 0; k < 4; k++ {
			bad = append(bad, vfStep{Op: "decode-trailing", Data: msg, Pos: k, Bit: k})
		}
		for _, b := range bad {
			idx++
			if idx%shards != shard {
				continue
			}
			c := vfC20Case{Enc: enc, Steps: []vfStep{b, {Op: "decode", Data: other}, {Op: "decode", Data: msg}}, ResetOnly: idx%3 == 0}
			err := verifkit.SafeCall(func() error { return vfC20Check(c) })
			en.Rec.ObserveHash(uint64(idx), "enc:"+vfEncodings[enc].String()+" "+b.Op, true)
			if idx%499 == 7 {
				en.Rec.AddSample(c)
			}
			if err != nil && en.Fail(c, err) {
				en.Done(false)
				return
			}
		}
	}
	en.Done(true)
}
