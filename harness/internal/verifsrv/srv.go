//go:build verif

// Package verifsrv starts reference servers in-process through the exported
// referenceserver.RunInReferenceMode (virtual package of the /verif harness).
package verifsrv

import (
	"bufio"
	"context"
	"fmt"
	"io"
	"strings"
	"sync"
	"time"

	"connectrpc.com/conformance/internal"
	"connectrpc.com/conformance/internal/app/grpcserver"
	"connectrpc.com/conformance/internal/app/referenceserver"
	conformancev1 "connectrpc.com/conformance/internal/gen/proto/go/connectrpc/conformance/v1"
)

// Server is a running in-process reference server.
type Server struct {
	Host   string
	Port   uint32
	Cert   []byte
	cancel context.CancelFunc
	done   chan error

	mu    sync.Mutex
	lines []string
	cond  *sync.Cond
}

// RunFunc is the shape of the peers' exported entry points.
type RunFunc func(ctx context.Context, args []string, in io.ReadCloser, out, errOut io.WriteCloser) error

// Start starts a reference server (reference mode) for the given request.
func Start(req *conformancev1.ServerCompatRequest) (*Server, error) {
	return StartWith(func(ctx context.Context, args []string, in io.ReadCloser, out, errOut io.WriteCloser) error {
		return referenceserver.RunInReferenceMode(ctx, args, in, out, errOut, nil)
	}, req)
}

// StartGRPC starts the grpc-go reference server (the runner's second kind of in-process server).
func StartGRPC(req *conformancev1.ServerCompatRequest) (*Server, error) {
	return StartWith(grpcserver.Run, req)
}

// StartWith starts the given server entry point for the request.
func StartWith(run RunFunc, req *conformancev1.ServerCompatRequest) (*Server, error) {
	ctx, cancel := context.WithCancel(context.Background())
	inR, inW := io.Pipe()
	outR, outW := io.Pipe()
	errR, errW := io.Pipe()
	s := &Server{cancel: cancel, done: make(chan error, 1)}
	s.cond = sync.NewCond(&s.mu)
	go func() {
		sc := bufio.NewScanner(errR)
		sc.Buffer(make([]byte, 1<<20), 1<<20)
		for sc.Scan() {
			s.mu.Lock()
			s.lines = append(s.lines, sc.Text())
			s.cond.Broadcast()
			s.mu.Unlock()
		}
	}()
	go func() {
		err := run(ctx, []string{"reference-server", "-port", "0", "-bind", "127.0.0.1"}, inR, outW, errW)
		_ = outW.CloseWithError(io.EOF)
		_ = errW.Close()
		s.done <- err
	}()
	go func() {
		_ = internal.WriteDelimitedMessage(inW, req)
	}()
	resp := &conformancev1.ServerCompatResponse{}
	if err := internal.ReadDelimitedMessage(outR, resp, "reference server", 20*time.Second, 1<<20); err != nil {
		cancel()
		return nil, fmt.Errorf("reference server did not start: %w", err)
	}
	go func() { _, _ = io.Copy(io.Discard, outR) }()
	s.Host, s.Port, s.Cert = resp.Host, resp.Port, resp.PemCert
	return s, nil
}

var (
	cacheMu sync.Mutex
	cache   = map[string]*cachedServer{}
)

type cachedServer struct {
	s    *Server
	uses int
}

// Cached returns a long-lived server per key. The reference client leaves the
// connections of its per-request transports open until process exit; run in-process
// thousands of times that exhausts the descriptor limit, so the server is replaced
// (and the old one stopped, which closes its connections) after maxUses calls.
func Cached(key string, req *conformancev1.ServerCompatRequest, maxUses int) (*Server, error) {
	return CachedWith(key, Start, req, maxUses)
}

// CachedWith is Cached for another kind of server (StartGRPC).
func CachedWith(key string, start func(*conformancev1.ServerCompatRequest) (*Server, error), req *conformancev1.ServerCompatRequest, maxUses int) (*Server, error) {
	cacheMu.Lock()
	defer cacheMu.Unlock()
	if c, ok := cache[key]; ok {
		if c.uses < maxUses {
			c.uses++
			return c.s, nil
		}
		delete(cache, key)
		old := c.s
		go old.Stop()
	}
	s, err := start(req)
	if err != nil {
		return nil, err
	}
	cache[key] = &cachedServer{s: s, uses: 1}
	return s, nil
}

// StopCached stops every cached server.
func StopCached() {
	cacheMu.Lock()
	defer cacheMu.Unlock()
	for k, c := range cache {
		c.s.Stop()
		delete(cache, k)
	}
}

// Addr returns host:port.
func (s *Server) Addr() string { return fmt.Sprintf("%s:%d", s.Host, s.Port) }

// Stop shuts the server down.
func (s *Server) Stop() {
	s.cancel()
	select {
	case <-s.done:
	case <-time.After(10 * time.Second):
	}
}

// Feedback returns the stderr lines that start with "<testName>: ". It waits
// up to the grace period for lines to arrive (the server prints asynchronously
// with respect to the response only in rare cases).
func (s *Server) Feedback(testName string, wantAtLeast int, grace time.Duration) []string {
	deadline := time.Now().Add(grace)
	for {
		s.mu.Lock()
		var out []string
		for _, l := range s.lines {
			if strings.HasPrefix(l, testName+": ") {
				out = append(out, strings.TrimPrefix(l, testName+": "))
			}
		}
		s.mu.Unlock()
		if len(out) >= wantAtLeast || time.Now().After(deadline) {
			return out
		}
		time.Sleep(2 * time.Millisecond)
	}
}

// AllLines returns all stderr lines so far.
func (s *Server) AllLines() []string {
	s.mu.Lock()
	defer s.mu.Unlock()
	return append([]string{}, s.lines...)
}
