//go:build verif

package internal

import (
	"bytes"
	"encoding/binary"
	"errors"
	"fmt"
	"io"
	"runtime"
	"sort"
	"strings"
	"sync"
	"testing"
	"time"

	conformancev1 "connectrpc.com/conformance/internal/gen/proto/go/connectrpc/conformance/v1"
	"connectrpc.com/conformance/internal/verifkit"
	"google.golang.org/protobuf/proto"
	"pgregory.net/rapid"
)

// ---- C09: framing under arbitrary chunking, truncation, oversize, stalls ----

// vfChunkReader serves data in chunks ending at the given cut offsets.
type vfChunkReader struct {
	data        []byte
	cuts        []int // sorted offsets at which a Read call ends
	zeroAt      map[int]bool
	eofWithData bool
	pos         int
	reads       int
	finalErr    error
}

func (r *vfChunkReader) Read(p []byte) (int, error) {
	r.reads++
	if len(p) == 0 {
		return 0, nil
	}
	if r.zeroAt[r.reads] {
		return 0, nil
	}
	if r.pos >= len(r.data) {
		if r.finalErr != nil {
			return 0, r.finalErr
		}
		return 0, io.EOF
	}
	end := len(r.data)
	idx := sort.SearchInts(r.cuts, r.pos+1)
	if idx < len(r.cuts) && r.cuts[idx] < end {
		end = r.cuts[idx]
	}
	if end-r.pos > len(p) {
		end = r.pos + len(p)
	}
	n := copy(p, r.data[r.pos:end])
	r.pos = end
	if r.pos >= len(r.data) && r.eofWithData {
		return n, io.EOF
	}
	return n, nil
}

type vfC09Case struct {
	Msgs        [][]byte `json:"msgs"` // binary ClientCompatResponse messages
	JSON        bool     `json:"json"`
	Decoder     string   `json:"decoder"` // "delimited" (ReadDelimitedMessage) or "codec" (NewCodec decoder)
	IndepEnc    bool     `json:"indepEncoder"`
	Cuts        []int    `json:"cuts"`
	ZeroReads   []int    `json:"zeroReads"`
	EOFWithData bool     `json:"eofWithData"`
	Truncate    int      `json:"truncate"` // -1: none, otherwise keep only this many bytes
	CutClass    string   `json:"cutClass"`
}

func vfIndepEncode(msgs [][]byte) []byte {
	var buf bytes.Buffer
	for _, m := range msgs {
		var l [4]byte
		binary.BigEndian.PutUint32(l[:], uint32(len(m)))
		buf.Write(l[:])
		buf.Write(m)
	}
	return buf.Bytes()
}

// vfEncodeStream encodes the messages; returns the stream and the end offset of each frame.
func vfEncodeStream(c vfC09Case) ([]byte, []int, []*conformancev1.ClientCompatResponse, error) {
	var msgs []*conformancev1.ClientCompatResponse
	for _, raw := range c.Msgs {
		m := &conformancev1.ClientCompatResponse{}
		if err := proto.Unmarshal(raw, m); err != nil {
			return nil, nil, nil, fmt.Errorf("harness: %w", err)
		}
		msgs = append(msgs, m)
	}
	var buf bytes.Buffer
	var ends []int
	switch {
	case c.JSON:
		enc := NewCodec(true).NewEncoder(&buf)
		for _, m := range msgs {
			if err := enc.Encode(m); err != nil {
				return nil, nil, nil, verifkit.Violf("encode-error", "JSON encoder failed: %v", err)
			}
			ends = append(ends, buf.Len())
		}
	case c.IndepEnc:
		for _, raw := range c.Msgs {
			buf.Write(vfIndepEncode([][]byte{raw}))
			ends = append(ends, buf.Len())
		}
	case c.Decoder == "codec":
		enc := NewCodec(false).NewEncoder(&buf)
		for _, m := range msgs {
			if err := enc.Encode(m); err != nil {
				return nil, nil, nil, verifkit.Violf("encode-error", "binary encoder failed: %v", err)
			}
			ends = append(ends, buf.Len())
		}
	default:
		for _, m := range msgs {
			if err := WriteDelimitedMessage(&buf, m); err != nil {
				return nil, nil, nil, verifkit.Violf("encode-error", "WriteDelimitedMessage failed: %v", err)
			}
			ends = append(ends, buf.Len())
		}
	}
	return buf.Bytes(), ends, msgs, nil
}

const vfMaxSize = 16 * 1024 * 1024

func vfC09Check(c vfC09Case) error {
	stream, ends, msgs, err := vfEncodeStream(c)
	if err != nil {
		return err
	}
	// the repo's binary encoders must produce what an independent decoder reads back
	if !c.JSON && !c.IndepEnc {
		off := 0
		for i, m := range msgs {
			if off+4 > len(stream) {
				return verifkit.Violf("encoder-layout", "frame %d: stream too short", i)
			}
			n := int(binary.BigEndian.Uint32(stream[off:]))
			if off+4+n != ends[i] {
				return verifkit.Violf("encoder-layout", "frame %d: prefix says %d bytes, frame has %d", i, n, ends[i]-off-4)
			}
			got := &conformancev1.ClientCompatResponse{}
			if err := proto.Unmarshal(stream[off+4:ends[i]], got); err != nil || !proto.Equal(got, m) {
				return verifkit.Violf("encoder-layout", "frame %d does not decode to the message written (err=%v)", i, err)
			}
			off = ends[i]
		}
	}
	full := len(stream)
	fullStream := stream
	if c.Truncate >= 0 && c.Truncate < full {
		stream = stream[:c.Truncate]
	}
	// expected: complete messages, then the kind of end
	complete := 0
	for _, e := range ends {
		if c.JSON && e > 0 && e <= full && fullStream[e-1] == '\n' {
			e-- // a JSON document is complete at its closing brace; the newline is a separator
		}
		if e <= len(stream) {
			complete++
		}
	}
	lastEnd := 0
	if complete > 0 {
		lastEnd = ends[complete-1]
		if lastEnd > len(stream) {
			lastEnd = len(stream)
		}
	}
	rest := stream[lastEnd:]
	cleanEnd := len(rest) == 0
	if c.JSON && len(bytes.TrimSpace(rest)) == 0 {
		cleanEnd = true
	}
	zero := map[int]bool{}
	for _, z := range c.ZeroReads {
		zero[z] = true
	}
	reader := &vfChunkReader{data: stream, cuts: append([]int{}, c.Cuts...), zeroAt: zero, eofWithData: c.EOFWithData}
	sort.Ints(reader.cuts)
	var next func() (*conformancev1.ClientCompatResponse, error)
	if c.Decoder == "codec" || c.JSON {
		dec := NewCodec(c.JSON).NewDecoder(reader)
		next = func() (*conformancev1.ClientCompatResponse, error) {
			m := &conformancev1.ClientCompatResponse{}
			return m, dec.DecodeNext(m)
		}
	} else {
		next = func() (*conformancev1.ClientCompatResponse, error) {
			m := &conformancev1.ClientCompatResponse{}
			return m, ReadDelimitedMessage(reader, m, "verif peer", 20*time.Second, vfMaxSize)
		}
	}
	for i := 0; i < complete; i++ {
		got, err := next()
		if err != nil {
			return verifkit.Violf("lost-message", "message %d of %d complete ones: got error %v (cut class %s)", i+1, complete, err, c.CutClass)
		}
		if !proto.Equal(got, msgs[i]) {
			return verifkit.Violf("wrong-message", "message %d differs from what was written (cut class %s)", i+1, c.CutClass)
		}
	}
	got, err := next()
	if err == nil {
		return verifkit.Violf("phantom-message", "after %d complete messages and %d trailing bytes the decoder returned another message: %v", complete, len(rest), got)
	}
	if cleanEnd {
		if !errors.Is(err, io.EOF) || errors.Is(err, io.ErrUnexpectedEOF) {
			return verifkit.Violf("clean-end-misreported", "stream ended cleanly after %d messages but decoder said: %v", complete, err)
		}
		return nil
	}
	// truncated inside a frame
	if c.JSON {
		if errors.Is(err, io.EOF) && !errors.Is(err, io.ErrUnexpectedEOF) && err == io.EOF {
			return verifkit.Violf("truncation-as-clean-end", "stream cut %d bytes into JSON message %d was reported as a clean end", len(rest), complete+1)
		}
		return nil
	}
	if !errors.Is(err, io.ErrUnexpectedEOF) {
		return verifkit.Violf("truncation-misreported", "stream cut %d bytes into frame %d (prefix+payload %d bytes): want unexpected EOF, got: %v", len(rest), complete+1, ends[complete]-lastEnd, err)
	}
	if errors.Is(err, io.EOF) {
		// every consumer in the repository tells a clean end by errors.Is(err, io.EOF)
		return verifkit.Violf("truncation-as-clean-end", "stream cut %d bytes into frame %d: the error %q also matches io.EOF, i.e. a clean end", len(rest), complete+1, err)
	}
	return nil
}

func vfC09Classify(c vfC09Case) ([]string, bool) {
	cl := []string{"cuts:" + c.CutClass}
	if c.JSON {
		cl = append(cl, "json")
	} else {
		cl = append(cl, "binary-"+c.Decoder)
	}
	trunc := "none"
	nt := false
	if c.Truncate >= 0 {
		stream, ends, _, err := vfEncodeStream(c)
		if err == nil && c.Truncate < len(stream) {
			trunc = "inside-frame"
			prev := 0
			for _, e := range ends {
				if c.Truncate == e || c.Truncate == 0 {
					trunc = "at-boundary"
				}
				if !c.JSON && c.Truncate > prev && c.Truncate < prev+4 {
					trunc = "inside-prefix"
				}
				prev = e
			}
			if trunc != "at-boundary" {
				nt = true
			}
		}
	}
	cl = append(cl, "trunc:"+trunc)
	if len(c.Msgs) >= 2 && (c.CutClass == "inside-prefix" || c.CutClass == "spanning" || c.CutClass == "one-byte") {
		nt = true
	}
	if len(c.Msgs) >= 2 {
		cl = append(cl, "multi-message")
	}
	return cl, nt
}

func vfGenMsg(t *rapid.T) []byte {
	md := (&conformancev1.ClientCompatResponse{}).ProtoReflect().Descriptor()
	opts := verifkit.MsgGenOptions{MaxDepth: 4, AnyTypes: vfAnyTypes, BigBytesIn: 12, BigBytes: 70000}
	kind := rapid.IntRange(0, 9).Draw(t, "msgkind")
	if kind == 0 {
		return nil // zero-length message
	}
	m := verifkit.GenMessage(t, md, opts)
	data, err := proto.Marshal(m)
	if err != nil {
		panic(err)
	}
	return data
}

func vfGenC09(t *rapid.T) vfC09Case {
	c := vfC09Case{Truncate: -1}
	for i, n := 0, rapid.IntRange(0, 6).Draw(t, "nmsgs"); i < n; i++ {
		c.Msgs = append(c.Msgs, vfGenMsg(t))
	}
	switch rapid.IntRange(0, 3).Draw(t, "wire") {
	case 0:
		c.JSON = true
		c.Decoder = "codec"
	case 1:
		c.Decoder = "codec"
	default:
		c.Decoder = "delimited"
	}
	if !c.JSON {
		c.IndepEnc = rapid.Bool().Draw(t, "indepEncoder")
	}
	stream, ends, _, err := vfEncodeStream(c)
	if err != nil {
		return c
	}
	total := len(stream)
	classes := []string{"one-byte", "inside-prefix", "prefix-boundary", "spanning", "random", "single-read"}
	c.CutClass = rapid.SampledFrom(classes).Draw(t, "cutclass")
	frameStart := func(i int) int {
		if i == 0 {
			return 0
		}
		return ends[i-1]
	}
	switch c.CutClass {
	case "one-byte":
		for i := 1; i < total; i++ {
			c.Cuts = append(c.Cuts, i)
		}
	case "inside-prefix":
		for i := range ends {
			c.Cuts = append(c.Cuts, frameStart(i)+rapid.IntRange(1, 3).Draw(t, "d"))
		}
	case "prefix-boundary":
		for i := range ends {
			c.Cuts = append(c.Cuts, frameStart(i)+4)
			if rapid.Bool().Draw(t, "alsoEnd") {
				c.Cuts = append(c.Cuts, ends[i])
			}
		}
	case "spanning":
		// a cut in the middle of every second frame only: reads span frame boundaries
		for i := range ends {
			if i%2 == 1 && ends[i]-frameStart(i) > 5 {
				c.Cuts = append(c.Cuts, frameStart(i)+4+rapid.IntRange(0, ends[i]-frameStart(i)-5).Draw(t, "mid"))
			}
		}
	case "random":
		for i, n := 0, rapid.IntRange(1, 12).Draw(t, "ncuts"); i < n && total > 1; i++ {
			c.Cuts = append(c.Cuts, rapid.IntRange(1, total-1).Draw(t, "cut"))
		}
	}
	for i, n := 0, rapid.IntRange(0, 2).Draw(t, "nzero"); i < n; i++ {
		c.ZeroReads = append(c.ZeroReads, rapid.IntRange(1, 12).Draw(t, "zeroAt"))
	}
	c.EOFWithData = rapid.Bool().Draw(t, "eofWithData")
	if total > 0 && rapid.IntRange(0, 2).Draw(t, "truncate") == 0 {
		switch rapid.IntRange(0, 3).Draw(t, "trunckind") {
		case 0: // inside a prefix
			i := rapid.IntRange(0, len(ends)-1).Draw(t, "tframe")
			c.Truncate = frameStart(i) + rapid.IntRange(1, 3).Draw(t, "td")
		case 1: // at a frame boundary
			i := rapid.IntRange(0, len(ends)-1).Draw(t, "tframe")
			c.Truncate = ends[i]
		case 2: // exactly after a prefix
			i := rapid.IntRange(0, len(ends)-1).Draw(t, "tframe")
			c.Truncate = frameStart(i) + 4
		default:
			c.Truncate = rapid.IntRange(0, total-1).Draw(t, "tpos")
		}
		if c.Truncate >= total {
			c.Truncate = -1
		}
	}
	return c
}

func TestVerifC09Chunking(t *testing.T) {
	verifkit.Run(t, "C09Chunking", verifkit.Spec[vfC09Case]{Gen: vfGenC09, Check: vfC09Check, Classify: vfC09Classify})
}

// ---- oversize prefixes ----

type vfC09Oversize struct {
	Limit   int    `json:"limit"`
	Size    uint32 `json:"size"`
	Trailer int    `json:"trailer"` // bytes available after the prefix
	Cut     int    `json:"cut"`     // prefix delivered in chunks of this size
}

type vfCountingReader struct {
	data             []byte
	pos, chunk       int
	readsAfterPrefix int
	bytesAfterPrefix int
}

func (r *vfCountingReader) Read(p []byte) (int, error) {
	if len(p) == 0 {
		return 0, nil
	}
	if r.pos >= 4 {
		r.readsAfterPrefix++
	}
	if r.pos >= len(r.data) {
		return 0, io.EOF
	}
	n := r.chunk
	if n > len(p) {
		n = len(p)
	}
	if n > len(r.data)-r.pos {
		n = len(r.data) - r.pos
	}
	copy(p, r.data[r.pos:r.pos+n])
	r.pos += n
	if r.pos > 4 {
		r.bytesAfterPrefix += n
	}
	return n, nil
}

func TestVerifC09Oversize(t *testing.T) {
	verifkit.Run(t, "C09Oversize", verifkit.Spec[vfC09Oversize]{
		Gen: func(t *rapid.T) vfC09Oversize {
			limit := rapid.SampledFrom([]int{0, 1, 100, 1024, 1 << 20, 16 << 20}).Draw(t, "limit")
			var size uint32
			switch rapid.IntRange(0, 3).Draw(t, "sizekind") {
			case 0:
				size = uint32(limit + 1)
			case 1:
				size = 0xFFFFFFFF
			case 2:
				size = 3_000_000_000
			default:
				size = uint32(limit) + 1 + uint32(rapid.IntRange(0, 1<<30).Draw(t, "delta"))
			}
			return vfC09Oversize{Limit: limit, Size: size, Trailer: rapid.IntRange(0, 64).Draw(t, "trailer"), Cut: rapid.IntRange(1, 4).Draw(t, "cut")}
		},
		Check: func(c vfC09Oversize) error {
			data := make([]byte, 4+c.Trailer)
			binary.BigEndian.PutUint32(data, c.Size)
			r := &vfCountingReader{data: data, chunk: c.Cut}
			var before, after runtime.MemStats
			runtime.ReadMemStats(&before)
			msg := &conformancev1.ClientCompatResponse{}
			err := ReadDelimitedMessage(r, msg, "verif peer", 20*time.Second, c.Limit)
			runtime.ReadMemStats(&after)
			if err == nil {
				return verifkit.Violf("oversize-accepted", "prefix %d above limit %d was accepted", c.Size, c.Limit)
			}
			if !strings.Contains(err.Error(), fmt.Sprint(c.Size)) {
				return verifkit.Violf("oversize-unnamed", "error for prefix %d does not name the size: %v", c.Size, err)
			}
			if r.readsAfterPrefix > 0 {
				return verifkit.Violf("oversize-read-on", "after an oversize prefix (%d > %d) the reader was read %d more time(s): %v", c.Size, c.Limit, r.readsAfterPrefix, err)
			}
			if d := after.TotalAlloc - before.TotalAlloc; d > 32<<20 && uint64(c.Size) > 64<<20 {
				return verifkit.Violf("oversize-allocated", "oversize prefix %d: %d bytes were allocated before rejecting", c.Size, d)
			}
			return nil
		},
		Classify: func(c vfC09Oversize) ([]string, bool) {
			if int(c.Size) == c.Limit+1 {
				return []string{"limit+1"}, true
			}
			return []string{"far-above"}, c.Size >= 1<<30
		},
	})
}

// ---- at-limit acceptance: a message of exactly the limit is read ----

func TestVerifC09AtLimit(t *testing.T) {
	type atLimit struct {
		Size  int `json:"size"`
		Delta int `json:"delta"` // limit = encoded size + delta
	}
	verifkit.Run(t, "C09AtLimit", verifkit.Spec[atLimit]{
		Gen: func(t *rapid.T) atLimit {
			return atLimit{Size: rapid.IntRange(0, 5000).Draw(t, "size"), Delta: rapid.IntRange(-2, 2).Draw(t, "delta")}
		},
		Check: func(c atLimit) error {
			msg := &conformancev1.ClientCompatResponse{TestName: strings.Repeat("n", c.Size)}
			var buf bytes.Buffer
			if err := WriteDelimitedMessage(&buf, msg); err != nil {
				return verifkit.Violf("encode-error", "%v", err)
			}
			n := buf.Len() - 4
			limit := n + c.Delta
			if limit < 0 {
				return nil
			}
			got := &conformancev1.ClientCompatResponse{}
			err := ReadDelimitedMessage(bytes.NewReader(buf.Bytes()), got, "verif peer", 20*time.Second, limit)
			if n <= limit {
				if err != nil || !proto.Equal(got, msg) {
					return verifkit.Violf("at-limit-rejected", "message of %d bytes with limit %d: err=%v", n, limit, err)
				}
			} else if err == nil {
				return verifkit.Violf("above-limit-accepted", "message of %d bytes with limit %d was accepted", n, limit)
			}
			return nil
		},
		Classify: func(c atLimit) ([]string, bool) {
			return []string{fmt.Sprintf("delta%+d", c.Delta)}, c.Delta >= -1 && c.Delta <= 0
		},
	})
}

// ---- stalls ----

type vfStallReader struct {
	data    []byte
	pos     int
	chunk   int
	release chan struct{}
	delay   time.Duration // the peer's first bytes arrive this late
}

func (r *vfStallReader) Read(p []byte) (int, error) {
	if len(p) == 0 {
		return 0, nil
	}
	if r.delay > 0 && r.pos == 0 && len(r.data) > 0 {
		time.Sleep(r.delay)
		r.delay = 0
	}
	if r.pos >= len(r.data) {
		<-r.release
		return 0, io.EOF
	}
	n := r.chunk
	if n > len(p) {
		n = len(p)
	}
	if n > len(r.data)-r.pos {
		n = len(r.data) - r.pos
	}
	copy(p, r.data[r.pos:r.pos+n])
	r.pos += n
	return n, nil
}

type vfC09Stall struct {
	PayloadLen int `json:"payloadLen"`
	Delivered  int `json:"delivered"` // bytes of the frame delivered before the peer stalls
	Chunk      int `json:"chunk"`
	// Late: the delivered bytes arrive late (after 80% of the period) but in time; the configured period still bounds
	// the whole call, it does not start over when the prefix is complete
	Late bool `json:"late"`
}

func TestVerifC09Stall(t *testing.T) {
	var mu sync.Mutex
	verifkit.Run(t, "C09Stall", verifkit.Spec[vfC09Stall]{
		Gen: func(t *rapid.T) vfC09Stall {
			n := rapid.IntRange(1, 300).Draw(t, "payloadLen")
			var k int
			switch rapid.IntRange(0, 3).Draw(t, "where") {
			case 0:
				k = rapid.IntRange(0, 3).Draw(t, "inPrefix")
			case 1:
				k = 4
			default:
				k = 4 + rapid.IntRange(0, n-1).Draw(t, "inPayload")
			}
			return vfC09Stall{PayloadLen: n, Delivered: k, Chunk: rapid.IntRange(1, 7).Draw(t, "chunk"), Late: k >= 1 && rapid.IntRange(0, 9).Draw(t, "late") == 0}
		},
		Check: func(c vfC09Stall) error {
			mu.Lock()
			defer mu.Unlock()
			if c.Late {
				// "within the configured period": one-sided, with generous slack and three attempts (a loaded machine
				// delays timers; only a call that overruns every time is judged)
				const period, slack = 400 * time.Millisecond, 200 * time.Millisecond
				var worst time.Duration
				for attempt := 0; attempt < 3; attempt++ {
					frame := make([]byte, 4+c.PayloadLen)
					binary.BigEndian.PutUint32(frame, uint32(c.PayloadLen))
					r := &vfStallReader{data: frame[:c.Delivered], chunk: c.Chunk, release: make(chan struct{}), delay: period * 8 / 10}
					start := time.Now()
					err := ReadDelimitedMessage(r, &conformancev1.ClientCompatResponse{}, "verif peer", period, vfMaxSize)
					elapsed := time.Since(start)
					close(r.release)
					if err == nil || !strings.Contains(err.Error(), "timed out") {
						return verifkit.Violf("stall-text", "peer stalled after %d late bytes: expected a timeout error, got: %v", c.Delivered, err)
					}
					if elapsed <= period+slack {
						return nil
					}
					if attempt == 0 || elapsed < worst {
						worst = elapsed
					}
				}
				return verifkit.Violf("stall-overrun", "peer delivered %d bytes after %v and then stalled: the timeout error took at least %v in three attempts, configured period %v", c.Delivered, period*8/10, worst, period)
			}
			frame := make([]byte, 4+c.PayloadLen)
			binary.BigEndian.PutUint32(frame, uint32(c.PayloadLen))
			r := &vfStallReader{data: frame[:c.Delivered], chunk: c.Chunk, release: make(chan struct{})}
			defer close(r.release)
			const timeout = 40 * time.Millisecond
			start := time.Now()
			err := ReadDelimitedMessage(r, &conformancev1.ClientCompatResponse{}, "verif peer", timeout, vfMaxSize)
			elapsed := time.Since(start)
			if err == nil {
				return verifkit.Violf("stall-no-error", "peer stalled after %d bytes but no error was returned", c.Delivered)
			}
			if elapsed < timeout-5*time.Millisecond {
				return verifkit.Violf("stall-early", "timeout error after %v, before the configured %v: %v", elapsed, timeout, err)
			}
			if elapsed > 10*time.Second {
				return nil // machine too loaded to judge; not a verdict
			}
			if !strings.Contains(err.Error(), "timed out") || !strings.Contains(err.Error(), "verif peer") {
				return verifkit.Violf("stall-text", "expected a timeout error naming the source, got: %v", err)
			}
			var want string
			switch {
			case c.Delivered == 0:
				want = ""
			case c.Delivered < 4:
				want = fmt.Sprintf("read %d/4 bytes of length prefix", c.Delivered)
			default:
				want = fmt.Sprintf("read %d/%d bytes of message", c.Delivered-4, c.PayloadLen)
			}
			if want == "" {
				if strings.Contains(err.Error(), "read ") {
					return verifkit.Violf("stall-progress", "nothing was received, yet the error reports progress: %v", err)
				}
			} else if !strings.Contains(err.Error(), want) {
				return verifkit.Violf("stall-progress", "stalled after %d bytes of a %d-byte payload frame: want %q in: %v", c.Delivered, c.PayloadLen, want, err)
			}
			return nil
		},
		Classify: func(c vfC09Stall) ([]string, bool) {
			switch {
			case c.Delivered == 0:
				return []string{"nothing"}, false
			case c.Delivered < 4:
				return []string{"inside-prefix"}, true
			case c.Delivered == 4:
				return []string{"after-prefix"}, true
			}
			return []string{"inside-payload"}, true
		},
	})
}

// FuzzVerifC09Stream: arbitrary bytes as the peer's output, arbitrary read partition. The reader must behave
// like the obvious reference parser: complete frames are returned (or rejected because the payload is not a
// message), a stream that ends between frames is a clean end, one that ends inside a frame is an unexpected end,
// a declared size above the limit is an error that is neither - and nothing ever panics or returns a message
// that the bytes do not contain.
func FuzzVerifC09Stream(f *testing.F) {
	valid, _ := proto.Marshal(&conformancev1.ClientCompatResponse{TestName: "a/b"})
	f.Add(vfIndepEncode([][]byte{valid, valid}), uint8(1), false, false)
	f.Add(vfIndepEncode([][]byte{valid})[:3], uint8(2), true, false)
	f.Add([]byte{0, 0, 4, 1, 1, 2}, uint8(3), false, true)
	f.Add([]byte{0xff, 0xff, 0xff, 0xff}, uint8(0), true, false)
	f.Add(append(vfIndepEncode([][]byte{{}}), 0, 0), uint8(7), true, true)
	f.Add(vfIndepEncode([][]byte{valid, valid})[:len(valid)+8], uint8(5), false, true)
	const limit = 1024
	f.Fuzz(func(t *testing.T, data []byte, step uint8, eofWithData bool, useCodec bool) {
		if len(data) > 1<<14 {
			return
		}
		var cuts []int
		if step > 0 {
			for off, k := 0, 0; off < len(data); k++ {
				off += 1 + (int(step)*(k+1))%7
				cuts = append(cuts, off)
			}
		}
		reader := &vfChunkReader{data: data, cuts: cuts, zeroAt: map[int]bool{}, eofWithData: eofWithData}
		dec := NewCodec(false).NewDecoder(reader) // the peer-side binary stream decoder (no size limit of its own)
		off := 0
		for frame := 0; frame < 64; frame++ {
			msg := &conformancev1.ClientCompatResponse{}
			rest := data[off:]
			var err error
			if useCodec {
				if len(rest) >= 4 && binary.BigEndian.Uint32(rest) > limit {
					return // the peer-side decoder trusts the runner's prefix
				}
				err = dec.DecodeNext(msg)
			} else {
				err = ReadDelimitedMessage(reader, msg, "fuzz peer", 20*time.Second, limit)
			}
			switch {
			case len(rest) == 0:
				if err != io.EOF {
					t.Fatalf("frame %d: clean end of input reported as %v", frame, err)
				}
				return
			case len(rest) < 4:
				if !errors.Is(err, io.ErrUnexpectedEOF) || errors.Is(err, io.EOF) {
					t.Fatalf("frame %d: input ends %d bytes into a length prefix, got %v (must be an unexpected end and not match io.EOF)", frame, len(rest), err)
				}
				return
			}
			size := int(binary.BigEndian.Uint32(rest))
			if size > limit {
				if err == nil || errors.Is(err, io.EOF) || errors.Is(err, io.ErrUnexpectedEOF) {
					t.Fatalf("frame %d: declared size %d exceeds the limit %d, got %v", frame, size, limit, err)
				}
				if reader.pos > off+4+64*1024 {
					t.Fatalf("frame %d: %d bytes consumed past an oversize prefix", frame, reader.pos-off-4)
				}
				return
			}
			if len(rest) < 4+size {
				if !errors.Is(err, io.ErrUnexpectedEOF) || errors.Is(err, io.EOF) {
					t.Fatalf("frame %d: input ends %d bytes into a %d-byte payload, got %v (must be an unexpected end and not match io.EOF)", frame, len(rest)-4, size, err)
				}
				return
			}
			want := &conformancev1.ClientCompatResponse{}
			uerr := proto.Unmarshal(rest[4:4+size], want)
			if (uerr == nil) != (err == nil) {
				t.Fatalf("frame %d: payload unmarshal error %v, reader returned %v", frame, uerr, err)
			}
			if err != nil {
				return // a rejected payload ends the conversation
			}
			if !proto.Equal(want, msg) {
				t.Fatalf("frame %d: message differs from the payload bytes", frame)
			}
			off += 4 + size
		}
	})
}

// ---- zero-length messages over a pipe ----

// TestVerifC09EmptyMessage: a message whose encoding has no bytes (every field at its default) is a frame of four zero
// bytes. Over an io.Pipe - what every peer's output is connected to - such a frame is returned at once as the empty
// message, alone, between other messages, several in a row; a peer that goes quiet afterwards gives the ordinary
// "timed out" error for the next read, and the read of the empty message itself never waits for more output.
func TestVerifC09EmptyMessage(t *testing.T) {
	en := verifkit.NewEnum(t, "C09EmptyMessage")
	type row struct {
		Frames []int `json:"payloadLengths"` // what the peer writes before it goes quiet (0 = the empty message)
	}
	const period = 400 * time.Millisecond
	for _, frames := range [][]int{{0}, {0, 0}, {5, 0}, {0, 7}, {3, 0, 0, 9, 0}} {
		r := row{frames}
		pr, pw := io.Pipe()
		go func() {
			for i, n := range frames {
				msg := &conformancev1.ClientCompatResponse{}
				if n > 0 {
					msg.TestName = strings.Repeat("x", n-2) // (field tag + length + n-2 bytes = n)
				}
				data, _ := proto.Marshal(msg)
				if len(data) != n {
					panic(fmt.Sprintf("frame %d: %d bytes, want %d", i, len(data), n))
				}
				var l [4]byte
				binary.BigEndian.PutUint32(l[:], uint32(n))
				_, _ = pw.Write(l[:])
				if n > 0 {
					_, _ = pw.Write(data)
				}
			}
			// ... and nothing more: neither data nor a close
		}()
		var viol error
		for i, n := range frames {
			got := &conformancev1.ClientCompatResponse{TestName: "stale"}
			start := time.Now()
			done := make(chan error, 1)
			go func() { done <- ReadDelimitedMessage(pr, got, "verif peer", period, vfMaxSize) }()
			select {
			case err := <-done:
				switch {
				case err != nil:
					viol = verifkit.Violf("empty-message-error", "frame %d of %v (%d bytes): %v", i, frames, n, err)
				case n == 0 && got.TestName != "":
					viol = verifkit.Violf("empty-message-stale", "frame %d of %v is the empty message but the result still holds %q", i, frames, got.TestName)
				case n > 0 && len(got.TestName) != n-2:
					viol = verifkit.Violf("wrong-message", "frame %d of %v decoded wrongly", i, frames)
				}
			case <-time.After(10 * period):
				viol = verifkit.Violf("empty-message-hang", "frame %d of %v (%d payload bytes) had been written completely, but reading it did not return within %v (timeout %v, waited since %v)", i, frames, n, 10*period, period, time.Since(start).Round(time.Millisecond))
			}
			if viol != nil {
				break
			}
		}
		if viol == nil {
			// the peer is quiet now: the ordinary timeout
			done := make(chan error, 1)
			go func() { done <- ReadDelimitedMessage(pr, &conformancev1.ClientCompatResponse{}, "verif peer", period, vfMaxSize) }()
			select {
			case err := <-done:
				if err == nil || !strings.Contains(err.Error(), "timed out") {
					viol = verifkit.Violf("stall-text", "after %v the peer is quiet: expected a timeout error, got %v", frames, err)
				}
			case <-time.After(10 * period):
				viol = verifkit.Violf("stall-hang", "after %v the peer is quiet: the read did not time out within %v", frames, 10*period)
			}
		}
		_ = pw.Close()
		en.Rec.Observe(r, []string{fmt.Sprintf("frames:%d", len(frames))}, true)
		if viol != nil && en.Fail(r, viol) {
			break
		}
	}
	en.Done(true)
}
