//go:build verif

package internal

import (
	"bytes"
	"encoding/json"
	"fmt"
	"net/http"
	"net/textproto"
	"sort"
	"strings"
	"testing"

	conformancev1 "connectrpc.com/conformance/internal/gen/proto/go/connectrpc/conformance/v1"
	"connectrpc.com/conformance/internal/verifkit"
	"google.golang.org/protobuf/encoding/protowire"
	"google.golang.org/protobuf/proto"
	"google.golang.org/protobuf/reflect/protoreflect"
	"pgregory.net/rapid"
)

type vfC18ErrCase struct {
	Err []byte `json:"err"`
	Txt string `json:"text"`
}

func vfTypeName(url string) string {
	if i := strings.LastIndex(url, "/"); i >= 0 {
		return url[i+1:]
	}
	return url
}

// proto Error -> Connect error -> proto Error keeps code, message, details.
func TestVerifC18ErrConnect(t *testing.T) {
	verifkit.Run(t, "C18ErrConnect", verifkit.Spec[vfC18ErrCase]{
		Gen: func(t *rapid.T) vfC18ErrCase {
			e := verifkit.GenProtoError(t, 4, []string{"", "", "example.com/", "a/b/"})
			data, _ := proto.Marshal(e)
			return vfC18ErrCase{Err: data, Txt: e.String()}
		},
		Check: func(c vfC18ErrCase) error {
			var e conformancev1.Error
			if err := proto.Unmarshal(c.Err, &e); err != nil {
				return nil
			}
			ce := ConvertProtoToConnectError(&e)
			if ce == nil {
				return verifkit.Violf("connect-error-lost", "conversion returned nil")
			}
			if int32(ce.Code()) != int32(e.Code) || ce.Message() != e.GetMessage() || len(ce.Details()) != len(e.Details) {
				return verifkit.Violf("connect-forward", "proto %v became connect {code %v, message %q, %d details}", &e, ce.Code(), ce.Message(), len(ce.Details()))
			}
			for _, back := range []*conformancev1.Error{ConvertConnectToProtoError(ce), ConvertErrorToProtoError(fmt.Errorf("wrapped: %w", ce))} {
				if back == nil {
					return verifkit.Violf("connect-error-lost", "back conversion returned nil")
				}
				if back.Code != e.Code {
					return verifkit.Violf("connect-code", "code %v became %v", e.Code, back.Code)
				}
				if back.GetMessage() != e.GetMessage() {
					return verifkit.Violf("connect-message", "message %q became %q", e.GetMessage(), back.GetMessage())
				}
				if len(back.Details) != len(e.Details) {
					return verifkit.Violf("connect-details", "%d details became %d", len(e.Details), len(back.Details))
				}
				for i := range e.Details {
					if vfTypeName(back.Details[i].TypeUrl) != vfTypeName(e.Details[i].TypeUrl) {
						return verifkit.Violf("connect-detail-type", "detail %d type %q became %q", i, e.Details[i].TypeUrl, back.Details[i].TypeUrl)
					}
					if !strings.Contains(back.Details[i].TypeUrl, "/") {
						return verifkit.Violf("connect-detail-type", "detail %d type URL %q has no prefix (cannot be resolved)", i, back.Details[i].TypeUrl)
					}
					if string(back.Details[i].Value) != string(e.Details[i].Value) {
						return verifkit.Violf("connect-detail-bytes", "detail %d bytes changed", i)
					}
				}
			}
			if ConvertProtoToConnectError(nil) != nil || ConvertConnectToProtoError(nil) != nil || ConvertErrorToProtoError(nil) != nil {
				return verifkit.Violf("connect-nil", "nil does not map to nil")
			}
			return nil
		},
		Classify: func(c vfC18ErrCase) ([]string, bool) {
			var e conformancev1.Error
			_ = proto.Unmarshal(c.Err, &e)
			return nil, len(e.Details) >= 2
		},
	})
}

type vfC18Hdr struct {
	Name  string   `json:"name"`
	Value []string `json:"value"`
}

type vfC18HdrCase struct {
	Headers []vfC18Hdr `json:"headers"`
}

func vfHdrMapStr(m map[string][]string) string {
	keys := make([]string, 0, len(m))
	for k := range m {
		keys = append(keys, k)
	}
	sort.Strings(keys)
	var sb strings.Builder
	for _, k := range keys {
		fmt.Fprintf(&sb, "%s=%q ", k, m[k])
	}
	return sb.String()
}

// header list -> http.Header -> header list keeps every key and value in order.
func TestVerifC18HTTPHeader(t *testing.T) {
	verifkit.Run(t, "C18HTTPHeader", verifkit.Spec[vfC18HdrCase]{
		Gen: func(t *rapid.T) vfC18HdrCase {
			var c vfC18HdrCase
			for _, h := range verifkit.GenHeaderList(t, "h", 5, true) {
				c.Headers = append(c.Headers, vfC18Hdr{Name: h.Name, Value: h.Value})
			}
			return c
		},
		Check: func(c vfC18HdrCase) error {
			var list []*conformancev1.Header
			want := map[string][]string{}
			for _, h := range c.Headers {
				list = append(list, &conformancev1.Header{Name: h.Name, Value: h.Value})
				if len(h.Value) > 0 {
					k := strings.ToLower(h.Name)
					want[k] = append(want[k], h.Value...)
				}
			}
			for _, trailers := range []bool{false, true} {
				dest := http.Header{}
				if trailers {
					AddTrailers(list, dest)
				} else {
					AddHeaders(list, dest)
				}
				got := map[string][]string{}
				for _, h := range ConvertToProtoHeader(dest) {
					name := h.Name
					if trailers {
						if !strings.HasPrefix(name, http.TrailerPrefix) {
							return verifkit.Violf("trailer-prefix", "trailer key %q lacks the trailer prefix", name)
						}
						name = strings.TrimPrefix(name, http.TrailerPrefix)
					}
					if textproto.CanonicalMIMEHeaderKey(name) != name && !trailers {
						return verifkit.Violf("header-key", "key %q is not canonical", name)
					}
					got[strings.ToLower(name)] = append(got[strings.ToLower(name)], h.Value...)
				}
				if trailers {
					// "Trailer:"-prefixed keys are not canonicalised by net/http, so names
					// differing only in case stay separate entries: compare as multisets
					for _, m := range []map[string][]string{got, want} {
						for k := range m {
							s := append([]string{}, m[k]...)
							sort.Strings(s)
							m[k] = s
						}
					}
				}
				if vfHdrMapStr(got) != vfHdrMapStr(want) {
					return verifkit.Violf("http-header-roundtrip", "trailers=%v: got %s want %s", trailers, vfHdrMapStr(got), vfHdrMapStr(want))
				}
			}
			return nil
		},
		Classify: func(c vfC18HdrCase) ([]string, bool) {
			seen := map[string]int{}
			for _, h := range c.Headers {
				seen[strings.ToLower(h.Name)]++
			}
			for _, n := range seen {
				if n > 1 {
					return []string{"repeated-key"}, true
				}
			}
			return nil, false
		},
	})
}

// ---- strict codecs ----

type vfC18CodecCase struct {
	Prev []byte `json:"prev,omitempty"` // a message of the same type that the decode target holds beforehand
	Type string `json:"type"`
	Msg  []byte `json:"msg"` // binary encoding of the message
}

var vfCodecTypes = []proto.Message{
	&conformancev1.UnaryRequest{}, &conformancev1.ConformancePayload{}, &conformancev1.ClientCompatRequest{},
	&conformancev1.ClientResponseResult{}, &conformancev1.ServerCompatRequest{}, &conformancev1.BidiStreamRequest{},
	&conformancev1.ClientCompatResponse{}, &conformancev1.Config{}, &conformancev1.RawHTTPResponse{},
}

func vfNewOfType(name string) proto.Message {
	for _, m := range vfCodecTypes {
		if string(m.ProtoReflect().Descriptor().FullName()) == name {
			return m.ProtoReflect().New().Interface()
		}
	}
	return nil
}

func vfHasContent(m protoreflect.Message) bool {
	found := false
	m.Range(func(fd protoreflect.FieldDescriptor, _ protoreflect.Value) bool {
		if fd.IsList() || fd.Kind() == protoreflect.BytesKind || fd.HasPresence() {
			found = true
			return false
		}
		return true
	})
	return found
}

func TestVerifC18Codec(t *testing.T) {
	verifkit.Run(t, "C18Codec", verifkit.Spec[vfC18CodecCase]{
		Gen: func(t *rapid.T) vfC18CodecCase {
			typ := rapid.SampledFrom(vfCodecTypes).Draw(t, "type")
			m := verifkit.GenMessage(t, typ.ProtoReflect().Descriptor(), verifkit.MsgGenOptions{MaxDepth: 4, AnyTypes: vfAnyTypes})
			data, err := proto.Marshal(m)
			if err != nil {
				panic(err)
			}
			// what the decode target holds beforehand (a message object that is used again)
			prev, err := proto.Marshal(verifkit.GenMessage(t, typ.ProtoReflect().Descriptor(), verifkit.MsgGenOptions{MaxDepth: 2, AnyTypes: vfAnyTypes}))
			if err != nil {
				panic(err)
			}
			return vfC18CodecCase{Type: string(typ.ProtoReflect().Descriptor().FullName()), Msg: data, Prev: prev}
		},
		Check: func(c vfC18CodecCase) error {
			orig := vfNewOfType(c.Type)
			if orig == nil || proto.Unmarshal(c.Msg, orig) != nil {
				return nil
			}
			type codec interface {
				Name() string
				Marshal(any) ([]byte, error)
				Unmarshal([]byte, any) error
				MarshalStable(any) ([]byte, error)
				MarshalAppend([]byte, any) ([]byte, error)
			}
			for _, cd := range []codec{StrictProtoCodec{}, StrictJSONCodec{}} {
				encoders := map[string]func() ([]byte, error){
					"Marshal":       func() ([]byte, error) { return cd.Marshal(orig) },
					"MarshalStable": func() ([]byte, error) { return cd.MarshalStable(orig) },
					"MarshalAppend": func() ([]byte, error) {
						b, err := cd.MarshalAppend([]byte("PFX"), orig)
						if err == nil && !strings.HasPrefix(string(b), "PFX") {
							return nil, fmt.Errorf("MarshalAppend dropped the existing bytes")
						}
						if err == nil {
							b = b[3:]
						}
						return b, err
					},
				}
				for _, name := range []string{"Marshal", "MarshalStable", "MarshalAppend"} {
					data, err := encoders[name]()
					if err != nil {
						return verifkit.Violf("codec-marshal:"+cd.Name(), "%s codec %s failed: %v", cd.Name(), name, err)
					}
					back := orig.ProtoReflect().New().Interface()
					if err := cd.Unmarshal(data, back); err != nil {
						return verifkit.Violf("codec-roundtrip:"+cd.Name(), "%s codec cannot decode its own %s output: %v (first bytes %q)", cd.Name(), name, err, truncateBytes(data))
					}
					if !proto.Equal(orig, back) {
						return verifkit.Violf("codec-roundtrip:"+cd.Name(), "%s codec: Unmarshal(%s(m)) differs from m", cd.Name(), name)
					}
				}
			}
			// decoding gives the encoded message whatever the target held before: a target used for an earlier message, the
			// message itself (repeated fields must not double), and - for the empty message, whose binary encoding has
			// no bytes at all - a target that is not empty
			for _, cd := range []codec{StrictProtoCodec{}, StrictJSONCodec{}} {
				empty := orig.ProtoReflect().New().Interface()
				for _, m := range []proto.Message{orig, empty} {
					data, err := cd.Marshal(m)
					if err != nil {
						continue
					}
					prevs := []proto.Message{proto.Clone(orig)}
					if p := vfNewOfType(c.Type); p != nil && len(c.Prev) > 0 && proto.Unmarshal(c.Prev, p) == nil {
						prevs = append(prevs, p)
					}
					for _, target := range prevs {
						if err := cd.Unmarshal(data, target); err != nil {
							return verifkit.Violf("codec-reused-target:"+cd.Name(), "%s codec cannot decode its own output into a used message: %v", cd.Name(), err)
						}
						if !proto.Equal(m, target) {
							return verifkit.Violf("codec-reused-target:"+cd.Name(), "%s codec: decoding %d bytes into a message that held something before does not give the encoded message (%d bytes when re-encoded canonically, want %d)",
								cd.Name(), len(data), proto.Size(target), proto.Size(m))
						}
					}
				}
			}
			// an encoding stays what it was: encoding another message afterwards (as a second caller of the same codec
			// would) must not change bytes handed out earlier
			for _, cd := range []codec{StrictProtoCodec{}, StrictJSONCodec{}} {
				for _, name := range []string{"Marshal", "MarshalStable"} {
					enc := func(m any) ([]byte, error) {
						if name == "Marshal" {
							return cd.Marshal(m)
						}
						return cd.MarshalStable(m)
					}
					first, err := enc(orig)
					if err != nil {
						continue
					}
					snapshot := append([]byte{}, first...)
					for _, other := range vfCodecTypes {
						_, _ = enc(other) // (zero values of the other message types: short encodings that fit any reused buffer)
					}
					_, _ = enc(&conformancev1.Header{Name: strings.Repeat("n", len(first)+8)})
					if !bytes.Equal(first, snapshot) {
						return verifkit.Violf("codec-output-aliased:"+cd.Name(), "%s codec: the bytes returned by %s changed after later %s calls for other messages", cd.Name(), name, name)
					}
				}
			}
			// unknown fields must be rejected, not dropped
			good, err := proto.Marshal(orig)
			if err != nil {
				return nil
			}
			const unused = protowire.Number(1999)
			for wt, extra := range map[string][]byte{
				"varint":  protowire.AppendVarint(protowire.AppendTag(nil, unused, protowire.VarintType), 7),
				"fixed32": protowire.AppendFixed32(protowire.AppendTag(nil, unused, protowire.Fixed32Type), 7),
				"fixed64": protowire.AppendFixed64(protowire.AppendTag(nil, unused, protowire.Fixed64Type), 7),
				"bytes":   protowire.AppendBytes(protowire.AppendTag(nil, unused, protowire.BytesType), []byte("x")),
				"group":   protowire.AppendTag(protowire.AppendTag(nil, unused, protowire.StartGroupType), unused, protowire.EndGroupType),
			} {
				for _, pos := range []string{"after", "before"} {
					data := append(append([]byte{}, good...), extra...)
					if pos == "before" {
						data = append(append([]byte{}, extra...), good...)
					}
					back := orig.ProtoReflect().New().Interface()
					if err := (StrictProtoCodec{}).Unmarshal(data, back); err == nil {
						return verifkit.Violf("codec-unknown-accepted:proto", "proto codec accepted an unknown %s field placed %s the message", wt, pos)
					}
				}
			}
			js, err := (StrictJSONCodec{}).Marshal(orig)
			if err != nil {
				return nil
			}
			var obj map[string]json.RawMessage
			if json.Unmarshal(js, &obj) == nil {
				obj["verifUnknownField"] = json.RawMessage("1")
				data, _ := json.Marshal(obj)
				back := orig.ProtoReflect().New().Interface()
				if err := (StrictJSONCodec{}).Unmarshal(data, back); err == nil {
					return verifkit.Violf("codec-unknown-accepted:json", "JSON codec accepted an unknown key")
				}
			}
			return nil
		},
		Classify: func(c vfC18CodecCase) ([]string, bool) {
			m := vfNewOfType(c.Type)
			if m == nil || proto.Unmarshal(c.Msg, m) != nil {
				return nil, false
			}
			return []string{c.Type[strings.LastIndex(c.Type, ".")+1:]}, vfHasContent(m.ProtoReflect())
		},
	})
}

func truncateBytes(b []byte) []byte {
	if len(b) > 40 {
		return b[:40]
	}
	return b
}
