//go:build verif

package internal

var vfAnyTypes = []string{
	"connectrpc.conformance.v1.Header",
	"connectrpc.conformance.v1.ConformancePayload.RequestInfo",
	"connectrpc.conformance.v1.UnaryRequest",
	"connectrpc.conformance.v1.Error",
}
