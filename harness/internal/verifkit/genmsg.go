//go:build verif

package verifkit

import (
	"google.golang.org/protobuf/proto"
	"google.golang.org/protobuf/reflect/protoreflect"
	"google.golang.org/protobuf/reflect/protoregistry"
	"google.golang.org/protobuf/types/known/anypb"
	"pgregory.net/rapid"
)

// MsgGenOptions tunes GenMessage.
type MsgGenOptions struct {
	MaxDepth   int      // nesting depth of message-typed fields
	MaxBytes   int      // upper bound for bytes/string fields
	AnyTypes   []string // full names of message types that may be packed into Any fields
	FieldProb  int      // a field is populated with probability 1/FieldProb... (2 = half)
	BigBytesIn int      // one in BigBytesIn bytes fields gets up to BigBytes bytes (0 = never)
	BigBytes   int
}

// GenMessage draws an arbitrary instance of the message type described by md
// using protoreflect: every scalar kind, repeated fields, maps, oneofs, nested
// messages and google.protobuf.Any (packed with one of opts.AnyTypes).
func GenMessage(t *rapid.T, md protoreflect.MessageDescriptor, opts MsgGenOptions) proto.Message {
	if opts.MaxDepth == 0 {
		opts.MaxDepth = 3
	}
	if opts.MaxBytes == 0 {
		opts.MaxBytes = 24
	}
	if opts.FieldProb == 0 {
		opts.FieldProb = 2
	}
	mt, err := protoregistry.GlobalTypes.FindMessageByName(md.FullName())
	if err != nil {
		panic(err)
	}
	msg := mt.New()
	genInto(t, msg, opts, 0)
	return msg.Interface()
}

func genInto(t *rapid.T, msg protoreflect.Message, opts MsgGenOptions, depth int) {
	md := msg.Descriptor()
	if md.FullName() == "google.protobuf.Any" {
		genAny(t, msg, opts, depth)
		return
	}
	fields := md.Fields()
	// decide oneofs first
	chosen := map[protoreflect.FullName]protoreflect.FieldNumber{}
	for i := 0; i < md.Oneofs().Len(); i++ {
		oo := md.Oneofs().Get(i)
		if oo.IsSynthetic() {
			continue
		}
		k := rapid.IntRange(-1, oo.Fields().Len()-1).Draw(t, string(oo.Name()))
		if k >= 0 {
			chosen[oo.FullName()] = oo.Fields().Get(k).Number()
		} else {
			chosen[oo.FullName()] = 0
		}
	}
	for i := 0; i < fields.Len(); i++ {
		fd := fields.Get(i)
		if oo := fd.ContainingOneof(); oo != nil && !oo.IsSynthetic() {
			if chosen[oo.FullName()] != fd.Number() {
				continue
			}
		} else if rapid.IntRange(0, opts.FieldProb-1).Draw(t, "set-"+string(fd.Name())) != 0 {
			continue
		}
		switch {
		case fd.IsMap():
			n := rapid.IntRange(0, 2).Draw(t, "maplen")
			m := msg.Mutable(fd).Map()
			for j := 0; j < n; j++ {
				k := genScalar(t, fd.MapKey(), opts).MapKey()
				var v protoreflect.Value
				if fd.MapValue().Message() != nil {
					v = m.NewValue()
					if depth < opts.MaxDepth {
						genInto(t, v.Message(), opts, depth+1)
					}
				} else {
					v = genScalar(t, fd.MapValue(), opts)
				}
				m.Set(k, v)
			}
		case fd.IsList():
			n := rapid.IntRange(0, 3).Draw(t, "listlen")
			l := msg.Mutable(fd).List()
			for j := 0; j < n; j++ {
				if fd.Message() != nil {
					if depth >= opts.MaxDepth {
						break
					}
					v := l.NewElement()
					genInto(t, v.Message(), opts, depth+1)
					l.Append(v)
				} else {
					l.Append(genScalar(t, fd, opts))
				}
			}
		case fd.Message() != nil:
			if depth >= opts.MaxDepth {
				continue
			}
			v := msg.NewField(fd)
			genInto(t, v.Message(), opts, depth+1)
			msg.Set(fd, v)
		default:
			msg.Set(fd, genScalar(t, fd, opts))
		}
	}
}

func genAny(t *rapid.T, msg protoreflect.Message, opts MsgGenOptions, depth int) {
	if len(opts.AnyTypes) == 0 {
		return
	}
	name := rapid.SampledFrom(opts.AnyTypes).Draw(t, "anytype")
	mt, err := protoregistry.GlobalTypes.FindMessageByName(protoreflect.FullName(name))
	if err != nil {
		return
	}
	inner := mt.New()
	if depth < opts.MaxDepth {
		genInto(t, inner, opts, depth+1)
	}
	packed, err := anypb.New(inner.Interface())
	if err != nil {
		return
	}
	md := msg.Descriptor()
	msg.Set(md.Fields().ByName("type_url"), protoreflect.ValueOfString(packed.TypeUrl))
	msg.Set(md.Fields().ByName("value"), protoreflect.ValueOfBytes(packed.Value))
}

var genStrings = []string{"", "a", "hello", "x-custom", "héllo wörld", "日本語", "with space", "a%b", "line\nbreak", "tab\t", "\"quoted\"", "😀"}

func genScalar(t *rapid.T, fd protoreflect.FieldDescriptor, opts MsgGenOptions) protoreflect.Value {
	switch fd.Kind() {
	case protoreflect.BoolKind:
		return protoreflect.ValueOfBool(rapid.Bool().Draw(t, "bool"))
	case protoreflect.Int32Kind, protoreflect.Sint32Kind, protoreflect.Sfixed32Kind:
		return protoreflect.ValueOfInt32(rapid.Int32().Draw(t, "i32"))
	case protoreflect.Int64Kind, protoreflect.Sint64Kind, protoreflect.Sfixed64Kind:
		return protoreflect.ValueOfInt64(rapid.Int64().Draw(t, "i64"))
	case protoreflect.Uint32Kind, protoreflect.Fixed32Kind:
		return protoreflect.ValueOfUint32(rapid.Uint32().Draw(t, "u32"))
	case protoreflect.Uint64Kind, protoreflect.Fixed64Kind:
		return protoreflect.ValueOfUint64(rapid.Uint64().Draw(t, "u64"))
	case protoreflect.FloatKind:
		return protoreflect.ValueOfFloat32(float32(rapid.IntRange(-1000, 1000).Draw(t, "f32")) / 8)
	case protoreflect.DoubleKind:
		return protoreflect.ValueOfFloat64(float64(rapid.IntRange(-100000, 100000).Draw(t, "f64")) / 16)
	case protoreflect.StringKind:
		if rapid.Bool().Draw(t, "strkind") {
			return protoreflect.ValueOfString(rapid.SampledFrom(genStrings).Draw(t, "str"))
		}
		return protoreflect.ValueOfString(rapid.StringN(0, opts.MaxBytes, -1).Draw(t, "rstr"))
	case protoreflect.BytesKind:
		max := opts.MaxBytes
		if opts.BigBytesIn > 0 && rapid.IntRange(0, opts.BigBytesIn-1).Draw(t, "big") == 0 {
			max = opts.BigBytes
			n := rapid.IntRange(0, max).Draw(t, "bigsize")
			seedByte := rapid.Byte().Draw(t, "bigseed")
			b := make([]byte, n)
			for i := range b {
				b[i] = seedByte + byte(i*7)
			}
			return protoreflect.ValueOfBytes(b)
		}
		return protoreflect.ValueOfBytes(rapid.SliceOfN(rapid.Byte(), 0, max).Draw(t, "bytes"))
	case protoreflect.EnumKind:
		vals := fd.Enum().Values()
		return protoreflect.ValueOfEnum(vals.Get(rapid.IntRange(0, vals.Len()-1).Draw(t, "enum")).Number())
	}
	panic("unsupported kind " + fd.Kind().String())
}
