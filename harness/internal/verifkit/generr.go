//go:build verif

package verifkit

import (
	"encoding/base64"

	conformancev1 "connectrpc.com/conformance/internal/gen/proto/go/connectrpc/conformance/v1"
	"google.golang.org/protobuf/proto"
	"google.golang.org/protobuf/types/known/anypb"
	"pgregory.net/rapid"
)

// ErrMessages are status/error messages that stress escaping and encodings.
var ErrMessages = []string{"", "oops", "100% wrong", "%", "%%41", "a\r\nb", "tab\there", "héllo wörld", "日本語のエラー", "emoji 😀!", "~tilde~", " lead and trail ", "\x7f", "null\x00byte"}

// GenErrMessage draws an error message (valid UTF-8).
func GenErrMessage(t *rapid.T, label string) string {
	if rapid.Bool().Draw(t, label+"-listed") {
		return rapid.SampledFrom(ErrMessages).Draw(t, label)
	}
	return rapid.StringN(0, 40, -1).Draw(t, label+"-free")
}

// GenDetail draws an error detail of a registered message type. prefixes are
// the type-URL prefixes to choose from ("" means the default prefix).
func GenDetail(t *rapid.T, label string, prefixes []string) *anypb.Any {
	var msg proto.Message
	switch rapid.IntRange(0, 3).Draw(t, label+"-kind") {
	case 0:
		msg = &conformancev1.Header{Name: rapid.SampledFrom([]string{"x-a", "X-B", ""}).Draw(t, label+"-name"), Value: []string{GenErrMessage(t, label+"-v")}}
	case 1:
		msg = &conformancev1.ConformancePayload_RequestInfo{TimeoutMs: proto.Int64(int64(rapid.IntRange(0, 100000).Draw(t, label+"-to")))}
	case 2:
		msg = &conformancev1.ConformancePayload{Data: rapid.SliceOfN(rapid.Byte(), 0, 40).Draw(t, label+"-data")}
	default:
		msg = &conformancev1.Error{Code: conformancev1.Code(rapid.IntRange(1, 16).Draw(t, label+"-code")), Message: proto.String(GenErrMessage(t, label+"-m"))}
	}
	a, err := anypb.New(msg)
	if err != nil {
		panic(err)
	}
	if len(prefixes) > 0 {
		p := rapid.SampledFrom(prefixes).Draw(t, label+"-prefix")
		if p != "" {
			a.TypeUrl = p + string(msg.ProtoReflect().Descriptor().FullName())
		}
	}
	return a
}

// GenProtoError draws a conformance Error: code 1..16, message unset or any
// UTF-8, 0..maxDetails details.
func GenProtoError(t *rapid.T, maxDetails int, prefixes []string) *conformancev1.Error {
	e := &conformancev1.Error{Code: conformancev1.Code(rapid.IntRange(1, 16).Draw(t, "code"))}
	if rapid.IntRange(0, 3).Draw(t, "hasMessage") != 0 {
		e.Message = proto.String(GenErrMessage(t, "message"))
	}
	for i, n := 0, rapid.IntRange(0, maxDetails).Draw(t, "ndetails"); i < n; i++ {
		e.Details = append(e.Details, GenDetail(t, "detail", prefixes))
	}
	return e
}

// HeaderNames/HeaderValues used by GenHeaderList.
var hdrNames = []string{"x-a", "X-A", "x-b", "X-Custom-Header", "y-data-bin", "Y-Data-Bin", "z-bin", "x-c"}

// GenHeaderList draws a header list: names in any case, possibly repeated
// (also differing only in case) when allowRepeat, -bin names with padded or
// unpadded base64 values, 0-3 values each.
func GenHeaderList(t *rapid.T, label string, max int, allowRepeat bool) []*conformancev1.Header {
	n := rapid.IntRange(0, max).Draw(t, label+"-n")
	var out []*conformancev1.Header
	used := map[string]bool{}
	for i := 0; i < n; i++ {
		name := rapid.SampledFrom(hdrNames).Draw(t, label+"-name")
		lower := lowerASCII(name)
		if used[lower] && !allowRepeat {
			continue
		}
		used[lower] = true
		h := &conformancev1.Header{Name: name}
		isBin := len(lower) > 4 && lower[len(lower)-4:] == "-bin"
		for j, nv := 0, rapid.IntRange(0, 3).Draw(t, label+"-nv"); j < nv; j++ {
			if isBin {
				raw := rapid.SliceOfN(rapid.Byte(), 0, 9).Draw(t, label+"-bin")
				if rapid.Bool().Draw(t, label+"-padded") {
					h.Value = append(h.Value, base64.StdEncoding.EncodeToString(raw))
				} else {
					h.Value = append(h.Value, base64.RawStdEncoding.EncodeToString(raw))
				}
			} else {
				h.Value = append(h.Value, rapid.SampledFrom([]string{"v1", "v2", "a, b", "", "hello world", "x;q=1"}).Draw(t, label+"-v"))
			}
		}
		out = append(out, h)
	}
	return out
}

func lowerASCII(s string) string {
	b := []byte(s)
	for i, c := range b {
		if c >= 'A' && c <= 'Z' {
			b[i] = c + 32
		}
	}
	return string(b)
}
