//go:build verif

package verifkit

import (
	"bytes"
	"compress/gzip"
	"compress/zlib"
	"fmt"
	"io"

	"github.com/andybalholm/brotli"
	"github.com/golang/snappy"
	"github.com/klauspost/compress/zstd"
)

// EncodingNames are the IANA names of the six supported encodings.
var EncodingNames = []string{"identity", "gzip", "br", "zstd", "deflate", "snappy"}

// IndepEncode compresses with the stdlib/third-party library called directly
// (not through the repository's wrappers).
func IndepEncode(name string, data []byte) []byte {
	var buf bytes.Buffer
	var w io.WriteCloser
	switch name {
	case "", "identity":
		return append([]byte{}, data...)
	case "gzip":
		w = gzip.NewWriter(&buf)
	case "deflate":
		w = zlib.NewWriter(&buf)
	case "br":
		w = brotli.NewWriter(&buf)
	case "zstd":
		zw, _ := zstd.NewWriter(&buf, zstd.WithEncoderConcurrency(1))
		w = zw
	case "snappy":
		w = snappy.NewBufferedWriter(&buf)
	default:
		panic("unknown encoding " + name)
	}
	_, _ = w.Write(data)
	_ = w.Close()
	return buf.Bytes()
}

// IndepDecode decompresses with the library called directly; output is capped.
func IndepDecode(name string, data []byte) ([]byte, error) {
	const limit = 8 << 20
	switch name {
	case "", "identity":
		return data, nil
	case "gzip":
		r, err := gzip.NewReader(bytes.NewReader(data))
		if err != nil {
			return nil, err
		}
		return io.ReadAll(io.LimitReader(r, limit))
	case "deflate":
		r, err := zlib.NewReader(bytes.NewReader(data))
		if err != nil {
			return nil, err
		}
		return io.ReadAll(io.LimitReader(r, limit))
	case "br":
		return io.ReadAll(io.LimitReader(brotli.NewReader(bytes.NewReader(data)), limit))
	case "zstd":
		r, err := zstd.NewReader(bytes.NewReader(data), zstd.WithDecoderConcurrency(1))
		if err != nil {
			return nil, err
		}
		defer r.Close()
		return io.ReadAll(io.LimitReader(r, limit))
	case "snappy":
		return io.ReadAll(io.LimitReader(snappy.NewReader(bytes.NewReader(data)), limit))
	}
	return nil, fmt.Errorf("unknown encoding %q", name)
}
