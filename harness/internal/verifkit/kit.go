//go:build verif

// Package verifkit is the shared helper package of the /verif harness. It is
// mapped into the repository's module by a build overlay (it does not exist in
// /repo) and is only compiled with -tags verif.
//
// It provides: the rapid-driven runner (generator + oracle + classification),
// an enumerating runner for bounded-exhaustive spaces, statistics/evidence
// output, replay files, and hash-set merging for the driver.
package verifkit

import (
	"bufio"
	"encoding/binary"
	"encoding/json"
	"errors"
	"fmt"
	"hash/fnv"
	"os"
	"path/filepath"
	"runtime/debug"
	"sort"
	"strconv"
	"strings"
	"sync"
	"testing"

	"pgregory.net/rapid"
)

// Violation is an oracle failure. Key identifies the failing input class (used
// to match entries of known_findings.json); Msg is free text.
type Violation struct {
	Key string
	Msg string
}

func (v *Violation) Error() string {
	if v.Key == "" {
		return v.Msg
	}
	return v.Key + ": " + v.Msg
}

// Violf builds a Violation with a finding key.
func Violf(key, format string, args ...any) error {
	return &Violation{Key: key, Msg: fmt.Sprintf(format, args...)}
}

// Spec describes one check over generated cases.
type Spec[C any] struct {
	// Gen draws a case. All randomness must come from t.
	Gen func(t *rapid.T) C
	// Check is the oracle: nil means the property held for this case.
	Check func(c C) error
	// Classify returns class labels of the case (for the histogram) and
	// whether the case is non-trivial by the property's stated rule.
	Classify func(c C) (classes []string, nontrivial bool)
}

const maxHashes = 6_000_000

// Recorder accumulates statistics of one unit in one process.
type Recorder struct {
	mu          sync.Mutex
	Unit        string
	evaluations int64
	nontrivial  int64
	hashes      map[uint64]struct{}
	hashCapped  bool
	classes     map[string]int64
	samples     []json.RawMessage
	ntSamples   int
	violations  []violationRec
	excluded    map[string]int64
	extra       map[string]any
	exhaustive  bool
}

type violationRec struct {
	Key    string `json:"key"`
	Msg    string `json:"msg"`
	Replay string `json:"replay"`
}

type statsFile struct {
	Unit        string            `json:"unit"`
	Evaluations int64             `json:"evaluations"`
	Nontrivial  int64             `json:"nontrivial"`
	Distinct    int               `json:"distinct_nontrivial"`
	HashCapped  bool              `json:"hash_capped"`
	HashFile    string            `json:"hash_file"`
	Classes     map[string]int64  `json:"classes"`
	Samples     []json.RawMessage `json:"samples"`
	Violations  []violationRec    `json:"violations"`
	Excluded    map[string]int64  `json:"excluded,omitempty"`
	Extra       map[string]any    `json:"extra,omitempty"`
	Exhaustive  bool              `json:"exhaustive"`
	Completed   bool              `json:"completed"`
}

// NewRecorder creates a recorder for the named unit.
func NewRecorder(unit string) *Recorder {
	return &Recorder{
		Unit:     unit,
		hashes:   map[uint64]struct{}{},
		classes:  map[string]int64{},
		excluded: map[string]int64{},
		extra:    map[string]any{},
	}
}

func hashJSON(b []byte) uint64 {
	h := fnv.New64a()
	_, _ = h.Write(b)
	return h.Sum64()
}

// Observe records one evaluated case.
func (r *Recorder) Observe(c any, classes []string, nontrivial bool) {
	var raw []byte
	if nontrivial || len(r.samples) < 2 {
		raw, _ = json.Marshal(c)
	}
	r.mu.Lock()
	defer r.mu.Unlock()
	r.evaluations++
	for _, cl := range classes {
		r.classes[cl]++
	}
	if nontrivial {
		r.nontrivial++
		if len(r.hashes) < maxHashes {
			r.hashes[hashJSON(raw)] = struct{}{}
		} else {
			r.hashCapped = true
		}
	}
	// keep up to 2 arbitrary and up to 4 non-trivial samples (bounded size)
	if len(raw) > 0 && len(raw) <= 4096 {
		if nontrivial && r.ntSamples < 4 {
			// take non-trivial samples spread out: 1st, 10th, 100th, 1000th
			if n := r.nontrivial; n == 1 || n == 10 || n == 100 || n == 1000 {
				r.samples = append(r.samples, raw)
				r.ntSamples++
			}
		} else if !nontrivial && len(r.samples)-r.ntSamples < 2 {
			r.samples = append(r.samples, raw)
		}
	}
}

// ObserveHash records one evaluated case of an enumeration where building a
// JSON case per element is too expensive: the caller provides the hash.
func (r *Recorder) ObserveHash(h uint64, class string, nontrivial bool) {
	r.mu.Lock()
	defer r.mu.Unlock()
	r.evaluations++
	if class != "" {
		r.classes[class]++
	}
	if nontrivial {
		r.nontrivial++
		if len(r.hashes) < maxHashes {
			r.hashes[h] = struct{}{}
		} else {
			r.hashCapped = true
		}
	}
}

// AddSample adds a sample case explicitly (used by enumerations).
func (r *Recorder) AddSample(c any) {
	raw, err := json.Marshal(c)
	if err != nil || len(raw) > 8192 {
		return
	}
	r.mu.Lock()
	defer r.mu.Unlock()
	if len(r.samples) < 8 {
		r.samples = append(r.samples, raw)
	}
}

// Exclude counts a case class excluded by construction (known finding).
func (r *Recorder) Exclude(class string) {
	r.mu.Lock()
	defer r.mu.Unlock()
	r.excluded[class]++
}

// SetExtra stores an additional key in the unit's statistics.
func (r *Recorder) SetExtra(key string, val any) {
	r.mu.Lock()
	defer r.mu.Unlock()
	r.extra[key] = val
}

// SetExhaustive marks that this unit enumerated its (finite) space completely.
func (r *Recorder) SetExhaustive(b bool) {
	r.mu.Lock()
	defer r.mu.Unlock()
	r.exhaustive = b
}

// NumViolations returns the number of recorded violations.
func (r *Recorder) NumViolations() int {
	r.mu.Lock()
	defer r.mu.Unlock()
	return len(r.violations)
}

// Violate records a violation and writes the replay file for it. The replay
// file for one unit and key is overwritten by later (smaller, shrunk) cases.
func (r *Recorder) Violate(c any, err error) string {
	key := ""
	var v *Violation
	if errors.As(err, &v) {
		key = v.Key
	}
	replay := ""
	if dir := os.Getenv("VERIF_REPLAY_DIR"); dir != "" {
		_ = os.MkdirAll(dir, 0o755)
		name := r.Unit
		if key != "" {
			name += "." + sanitize(key)
		}
		if sh := os.Getenv("VERIF_SHARD"); sh != "" {
			name += ".s" + sh
		}
		replay = filepath.Join(dir, name+".json")
		rawCase, _ := json.Marshal(c)
		doc := map[string]any{
			"unit":  r.Unit,
			"key":   key,
			"error": err.Error(),
			"case":  json.RawMessage(rawCase),
		}
		data, _ := json.MarshalIndent(doc, "", " ")
		_ = os.WriteFile(replay, data, 0o644)
	}
	r.mu.Lock()
	defer r.mu.Unlock()
	// one record per key (the last one is the shrunk one)
	for i := range r.violations {
		if r.violations[i].Key == key {
			r.violations[i].Msg = truncate(err.Error(), 2000)
			r.violations[i].Replay = replay
			return replay
		}
	}
	r.violations = append(r.violations, violationRec{Key: key, Msg: truncate(err.Error(), 2000), Replay: replay})
	return replay
}

func truncate(s string, n int) string {
	if len(s) <= n {
		return s
	}
	return s[:n] + "…"
}

func sanitize(s string) string {
	var sb strings.Builder
	for _, r := range s {
		switch {
		case r >= 'a' && r <= 'z', r >= 'A' && r <= 'Z', r >= '0' && r <= '9', r == '-', r == '_':
			sb.WriteRune(r)
		default:
			sb.WriteByte('_')
		}
		if sb.Len() > 60 {
			break
		}
	}
	return sb.String()
}

// Flush writes the statistics file (if VERIF_OUT is set).
func (r *Recorder) Flush(completed bool) {
	dir := os.Getenv("VERIF_OUT")
	if dir == "" {
		return
	}
	_ = os.MkdirAll(dir, 0o755)
	r.mu.Lock()
	defer r.mu.Unlock()
	base := r.Unit
	if sh := os.Getenv("VERIF_SHARD"); sh != "" {
		base += ".s" + sh
	}
	hashFile := filepath.Join(dir, base+".hashes")
	if f, err := os.Create(hashFile); err == nil {
		w := bufio.NewWriter(f)
		var buf [8]byte
		for h := range r.hashes {
			binary.LittleEndian.PutUint64(buf[:], h)
			_, _ = w.Write(buf[:])
		}
		_ = w.Flush()
		_ = f.Close()
	}
	st := statsFile{
		Unit:        r.Unit,
		Evaluations: r.evaluations,
		Nontrivial:  r.nontrivial,
		Distinct:    len(r.hashes),
		HashCapped:  r.hashCapped,
		HashFile:    hashFile,
		Classes:     r.classes,
		Samples:     r.samples,
		Violations:  r.violations,
		Excluded:    r.excluded,
		Extra:       r.extra,
		Exhaustive:  r.exhaustive && completed,
		Completed:   completed,
	}
	data, _ := json.MarshalIndent(st, "", " ")
	_ = os.WriteFile(filepath.Join(dir, base+".stats.json"), data, 0o644)
}

// safeCheck runs the oracle, converting a panic into a violation.
func safeCheck[C any](check func(C) error, c C) (err error) {
	defer func() {
		if p := recover(); p != nil {
			err = &Violation{Key: "panic", Msg: fmt.Sprintf("panic: %v\n%s", p, truncate(string(debug.Stack()), 6000))}
		}
	}()
	return check(c)
}

// Tier returns "quick" or "thorough".
func Tier() string {
	if os.Getenv("VERIF_TIER") == "thorough" {
		return "thorough"
	}
	return "quick"
}

// Thorough reports whether the thorough tier is running.
func Thorough() bool { return Tier() == "thorough" }

// EnvInt reads an integer environment variable with a default.
func EnvInt(name string, def int) int {
	if s := os.Getenv(name); s != "" {
		if n, err := strconv.Atoi(s); err == nil {
			return n
		}
	}
	return def
}

// Shard returns this process's shard index and the total number of shards.
func Shard() (int, int) {
	return EnvInt("VERIF_SHARD", 0), EnvInt("VERIF_SHARDS", 1)
}

type replayDoc struct {
	Unit string          `json:"unit"`
	Key  string          `json:"key"`
	Case json.RawMessage `json:"case"`
}

// loadReplay returns the replay case for the unit if VERIF_REPLAY names a file
// for it. skip=true means a replay is requested for a different unit.
func loadReplay(unit string) (raw json.RawMessage, active bool, skip bool, err error) {
	path := os.Getenv("VERIF_REPLAY")
	if path == "" {
		return nil, false, false, nil
	}
	data, err := os.ReadFile(path)
	if err != nil {
		return nil, true, false, err
	}
	var doc replayDoc
	if err := json.Unmarshal(data, &doc); err != nil {
		return nil, true, false, err
	}
	if doc.Unit != unit {
		return nil, true, true, nil
	}
	return doc.Case, true, false, nil
}

// Run executes a Spec under rapid (or replays a saved case), records the
// statistics and fails the test on a violation.
func Run[C any](t *testing.T, unit string, spec Spec[C]) {
	t.Helper()
	rec := NewRecorder(unit)
	raw, active, skip, err := loadReplay(unit)
	if active {
		if skip {
			t.Skip("replay is for another unit")
		}
		if err != nil {
			t.Fatalf("cannot load replay: %v", err)
		}
		var c C
		if err := json.Unmarshal(raw, &c); err != nil {
			t.Fatalf("cannot decode replay case: %v", err)
		}
		cerr := safeCheck(spec.Check, c)
		rec.Observe(c, []string{"replay"}, true)
		if cerr != nil {
			rec.Violate(c, cerr)
			rec.Flush(true)
			t.Fatalf("replayed case violates the property: %v", cerr)
		}
		rec.Flush(true)
		return
	}
	completed := false
	defer func() { rec.Flush(completed) }()
	current = rec
	defer func() { current = nil }()
	rapid.Check(t, func(rt *rapid.T) {
		c := spec.Gen(rt)
		var classes []string
		nontrivial := true
		if spec.Classify != nil {
			classes, nontrivial = spec.Classify(c)
		}
		cerr := safeCheck(spec.Check, c)
		rec.Observe(c, classes, nontrivial)
		if cerr != nil {
			rec.Violate(c, cerr)
			rt.Fatalf("%v", cerr)
		}
	})
	completed = !t.Failed()
}

// current is the recorder of the Run in progress (one at a time per process).
var current *Recorder

// Excluded counts a case class that a generator excluded by construction
// (the input class of a recorded finding) in the running unit's statistics.
func Excluded(class string) {
	if current != nil {
		current.Exclude(class)
	}
}

// Enum is the runner for enumerated (non-random) spaces.
type Enum struct {
	T   *testing.T
	Rec *Recorder
	max int
}

// NewEnum creates an enumerating runner; it skips when a replay for another
// unit is requested. Call Done when the enumeration finished.
func NewEnum(t *testing.T, unit string) *Enum {
	if p := os.Getenv("VERIF_REPLAY"); p != "" {
		_, _, skip, _ := loadReplay(unit)
		if skip {
			t.Skip("replay is for another unit")
		}
	}
	return &Enum{T: t, Rec: NewRecorder(unit), max: 5}
}

// ReplayCase decodes the replay case into c when this unit is being replayed.
func (e *Enum) ReplayCase(c any) bool {
	raw, active, skip, err := loadReplay(e.Rec.Unit)
	if !active || skip {
		return false
	}
	if err != nil {
		e.T.Fatalf("cannot load replay: %v", err)
	}
	if err := json.Unmarshal(raw, c); err != nil {
		e.T.Fatalf("cannot decode replay case: %v", err)
	}
	return true
}

// Fail records a violating case of the enumeration. It returns true when the
// enumeration should stop (too many violations).
func (e *Enum) Fail(c any, err error) bool {
	e.Rec.Violate(c, err)
	e.T.Errorf("%v", err)
	e.max--
	return e.max <= 0
}

// Done flushes statistics; complete says the space was enumerated fully.
func (e *Enum) Done(complete bool) {
	e.Rec.SetExhaustive(complete)
	e.Rec.Flush(complete || e.T.Failed())
}

// SafeCall runs f and converts a panic into a Violation with key "panic".
func SafeCall(f func() error) (err error) {
	defer func() {
		if p := recover(); p != nil {
			err = &Violation{Key: "panic", Msg: fmt.Sprintf("panic: %v\n%s", p, truncate(string(debug.Stack()), 6000))}
		}
	}()
	return f()
}

// MergeHashFiles returns the size of the union of the given hash files.
func MergeHashFiles(paths []string) (int, error) {
	set := map[uint64]struct{}{}
	for _, p := range paths {
		data, err := os.ReadFile(p)
		if err != nil {
			return 0, err
		}
		for i := 0; i+8 <= len(data); i += 8 {
			set[binary.LittleEndian.Uint64(data[i:])] = struct{}{}
		}
	}
	return len(set), nil
}

func init() {
	// Merge mode for the driver: VERIF_KIT_MERGE="file1:file2:..." prints the
	// size of the union of the hash sets and exits.
	if spec := os.Getenv("VERIF_KIT_MERGE"); spec != "" {
		paths := strings.Split(spec, ":")
		sort.Strings(paths)
		n, err := MergeHashFiles(paths)
		if err != nil {
			fmt.Fprintln(os.Stderr, err)
			os.Exit(3)
		}
		fmt.Println(n)
		os.Exit(0)
	}
}
