//go:build verif

package grpcclient

import (
	"context"
	"encoding/base64"
	"fmt"
	"net"
	"strings"
	"sync"
	"testing"
	"time"

	"connectrpc.com/conformance/internal/app/grpcserver"
	conformancev1 "connectrpc.com/conformance/internal/gen/proto/go/connectrpc/conformance/v1"
	"connectrpc.com/conformance/internal/verifkit"
	"google.golang.org/grpc"
	"google.golang.org/grpc/credentials/insecure"
	"google.golang.org/protobuf/proto"
	"google.golang.org/protobuf/types/known/anypb"
	"pgregory.net/rapid"
)

// ---- C18: response metadata as the gRPC reference client reports it ----
//
// The gRPC reference client turns the metadata it received into the header lists of its result. Every key of the
// response definition must come back (up to letter case) with every value in order, "-bin" values base64-encoded
// exactly once - for every kind of RPC, with and without an error, also when the error reaches the client while it
// is still sending.

type vfGCHdr struct {
	Name   string   `json:"name"`
	Bin    bool     `json:"bin"`
	Values [][]byte `json:"values"`
}

type vfGCCase struct {
	RPC      int       `json:"rpc"` // 0 unary, 1 client stream, 2 server stream, 3 half-duplex bidi, 4 full-duplex bidi
	NReq     int       `json:"requests"`
	NResp    int       `json:"responses"`
	ErrCode  int       `json:"errCode"` // 0: none
	Headers  []vfGCHdr `json:"headers"`
	Trailers []vfGCHdr `json:"trailers"`
}

func (h vfGCHdr) proto() *conformancev1.Header {
	out := &conformancev1.Header{Name: h.Name}
	for _, v := range h.Values {
		if h.Bin {
			out.Value = append(out.Value, base64.RawStdEncoding.EncodeToString(v))
		} else {
			out.Value = append(out.Value, string(v))
		}
	}
	return out
}

var (
	vfGCOnce sync.Once
	vfGCConn *grpc.ClientConn
	vfGCErr  error
)

func vfGCEnsure() error {
	vfGCOnce.Do(func() {
		lis, err := net.Listen("tcp", "127.0.0.1:0")
		if err != nil {
			vfGCErr = err
			return
		}
		server := grpc.NewServer()
		conformancev1.RegisterConformanceServiceServer(server, grpcserver.NewConformanceServiceServer())
		go func() { _ = server.Serve(lis) }()
		vfGCConn, vfGCErr = grpc.NewClient(lis.Addr().String(), grpc.WithTransportCredentials(insecure.NewCredentials()))
	})
	return vfGCErr
}

func vfGCCheck(c vfGCCase) error {
	if err := vfGCEnsure(); err != nil {
		return nil
	}
	var hdrs, trls []*conformancev1.Header
	for _, h := range c.Headers {
		hdrs = append(hdrs, h.proto())
	}
	for _, h := range c.Trailers {
		trls = append(trls, h.proto())
	}
	var defErr *conformancev1.Error
	if c.ErrCode > 0 {
		defErr = &conformancev1.Error{Code: conformancev1.Code(c.ErrCode), Message: proto.String("verif")}
	}
	var data [][]byte
	for i := 0; i < c.NResp; i++ {
		data = append(data, []byte(fmt.Sprintf("resp-%d", i)))
	}
	unaryDef := &conformancev1.UnaryResponseDefinition{ResponseHeaders: hdrs, ResponseTrailers: trls}
	if defErr != nil {
		unaryDef.Response = &conformancev1.UnaryResponseDefinition_Error{Error: defErr}
	} else {
		unaryDef.Response = &conformancev1.UnaryResponseDefinition_ResponseData{ResponseData: []byte("resp")}
	}
	streamDef := &conformancev1.StreamResponseDefinition{ResponseHeaders: hdrs, ResponseTrailers: trls, ResponseData: data, Error: defErr}
	ccr := &conformancev1.ClientCompatRequest{TestName: "verif/c18/grpcclient", Service: proto.String("connectrpc.conformance.v1.ConformanceService")}
	var msgs []proto.Message
	nreq := c.NReq
	switch c.RPC {
	case 0:
		ccr.Method, ccr.StreamType = proto.String("Unary"), conformancev1.StreamType_STREAM_TYPE_UNARY
		msgs = []proto.Message{&conformancev1.UnaryRequest{ResponseDefinition: unaryDef, RequestData: []byte("q")}}
	case 1:
		ccr.Method, ccr.StreamType = proto.String("ClientStream"), conformancev1.StreamType_STREAM_TYPE_CLIENT_STREAM
		for i := 0; i < nreq; i++ {
			m := &conformancev1.ClientStreamRequest{RequestData: []byte("q")}
			if i == 0 {
				m.ResponseDefinition = unaryDef
			}
			msgs = append(msgs, m)
		}
	case 2:
		ccr.Method, ccr.StreamType = proto.String("ServerStream"), conformancev1.StreamType_STREAM_TYPE_SERVER_STREAM
		msgs = []proto.Message{&conformancev1.ServerStreamRequest{ResponseDefinition: streamDef, RequestData: []byte("q")}}
	default:
		ccr.Method, ccr.StreamType = proto.String("BidiStream"), conformancev1.StreamType_STREAM_TYPE_HALF_DUPLEX_BIDI_STREAM
		if c.RPC == 4 {
			ccr.StreamType = conformancev1.StreamType_STREAM_TYPE_FULL_DUPLEX_BIDI_STREAM
		}
		for i := 0; i < nreq; i++ {
			m := &conformancev1.BidiStreamRequest{RequestData: []byte("q")}
			if i == 0 {
				m.ResponseDefinition, m.FullDuplex = streamDef, c.RPC == 4
			}
			msgs = append(msgs, m)
		}
	}
	for _, m := range msgs {
		a, err := anypb.New(m)
		if err != nil {
			return nil
		}
		ccr.RequestMessages = append(ccr.RequestMessages, a)
	}
	ctx, cancel := context.WithTimeout(context.Background(), 30*time.Second)
	defer cancel()
	result, err := newInvoker(vfGCConn).Invoke(ctx, ccr)
	if err != nil || result == nil {
		return verifkit.Violf("grpcclient-invoke", "Invoke failed: %v (%+v)", err, c)
	}
	if c.ErrCode > 0 && (result.Error == nil || int(result.Error.Code) != c.ErrCode) {
		return verifkit.Violf("grpcclient-error", "the response definition ends with code %d, the client reports %v (%+v)", c.ErrCode, result.Error, c)
	}
	reported := map[string][]string{}
	for _, h := range append(append([]*conformancev1.Header{}, result.ResponseHeaders...), result.ResponseTrailers...) {
		k := strings.ToLower(h.Name)
		reported[k] = append(reported[k], h.Value...)
	}
	for _, h := range append(append([]vfGCHdr{}, c.Headers...), c.Trailers...) {
		want := h.proto().Value
		got := reported[strings.ToLower(h.Name)]
		if fmt.Sprintf("%q", got) != fmt.Sprintf("%q", want) {
			return verifkit.Violf("grpcclient-metadata", "%q: the client reports %q, the response definition has %q (rpc kind %d, %d requests, %d responses, error code %d)\nheaders %v\ntrailers %v",
				h.Name, got, want, c.RPC, c.NReq, c.NResp, c.ErrCode, result.ResponseHeaders, result.ResponseTrailers)
		}
	}
	return nil
}

func TestVerifC18GRPCClientMeta(t *testing.T) {
	if err := vfGCEnsure(); err != nil {
		t.Fatalf("cannot start the gRPC reference server: %v", err)
	}
	texts := []string{"v", "Value1", "two words", "x;y=1, z", "~!@#$%^&*()", "caf%C3%A9"}
	genHdrs := func(t *rapid.T, label, prefix string) []vfGCHdr {
		var out []vfGCHdr
		for i, n := 0, rapid.IntRange(0, 3).Draw(t, label+"-n"); i < n; i++ {
			h := vfGCHdr{Bin: rapid.Bool().Draw(t, label+"-bin")}
			h.Name = fmt.Sprintf("%s%d", prefix, i)
			if rapid.Bool().Draw(t, label+"-mixedCase") {
				h.Name = strings.ToUpper(h.Name[:3]) + h.Name[3:]
			}
			if h.Bin {
				h.Name += "-bin"
			}
			for j, k := 0, rapid.IntRange(1, 3).Draw(t, label+"-nv"); j < k; j++ {
				if h.Bin {
					h.Values = append(h.Values, rapid.SliceOfN(rapid.Byte(), 1, 24).Draw(t, label+"-bytes"))
				} else {
					h.Values = append(h.Values, []byte(rapid.SampledFrom(texts).Draw(t, label+"-text")))
				}
			}
			out = append(out, h)
		}
		return out
	}
	verifkit.Run(t, "C18GRPCClientMeta", verifkit.Spec[vfGCCase]{
		Gen: func(t *rapid.T) vfGCCase {
			c := vfGCCase{RPC: rapid.IntRange(0, 4).Draw(t, "rpc"), NReq: rapid.IntRange(1, 3).Draw(t, "nreq"), NResp: rapid.IntRange(0, 3).Draw(t, "nresp")}
			if rapid.Bool().Draw(t, "error") {
				c.ErrCode = rapid.IntRange(1, 16).Draw(t, "code")
			}
			c.Headers = genHdrs(t, "hdr", "x-verif-h")
			c.Trailers = genHdrs(t, "trl", "x-verif-t")
			return c
		},
		Check: vfGCCheck,
		Classify: func(c vfGCCase) ([]string, bool) {
			bin := false
			for _, h := range append(append([]vfGCHdr{}, c.Headers...), c.Trailers...) {
				bin = bin || h.Bin
			}
			cl := []string{fmt.Sprintf("rpc:%d", c.RPC)}
			if c.ErrCode > 0 {
				cl = append(cl, "error")
			}
			if c.RPC == 4 && c.ErrCode > 0 && c.NReq > c.NResp {
				cl = append(cl, "error-while-sending")
			}
			return cl, bin
		},
	})
}
