//go:build verif

package connectconformance

import "strings"

// vfRefGlob is the reference matcher written from the statement of C08:
// literals equal, `*` exactly one component, `**` zero or more.
func vfRefGlob(pat, name []string) bool {
	if len(pat) == 0 {
		return len(name) == 0
	}
	switch pat[0] {
	case "**":
		for i := 0; i <= len(name); i++ {
			if vfRefGlob(pat[1:], name[i:]) {
				return true
			}
		}
		return false
	case "*":
		return len(name) > 0 && vfRefGlob(pat[1:], name[1:])
	default:
		return len(name) > 0 && name[0] == pat[0] && vfRefGlob(pat[1:], name[1:])
	}
}

func vfRefGlobStr(pattern, name string) bool {
	return vfRefGlob(strings.Split(pattern, "/"), strings.Split(name, "/"))
}

func vfRefAny(patterns []string, name string) bool {
	for _, p := range patterns {
		if vfRefGlobStr(p, name) {
			return true
		}
	}
	return false
}

type vfNullPrinter struct{}

func (vfNullPrinter) Printf(string, ...any)               {}
func (vfNullPrinter) PrefixPrintf(string, string, ...any) {}

func vfTrieOrEmpty(p []string) *testTrie {
	tr := parsePatterns(p)
	if tr == nil {
		tr = &testTrie{}
	}
	return tr
}
