//go:build verif

package connectconformance

import (
	conformancev1 "connectrpc.com/conformance/internal/gen/proto/go/connectrpc/conformance/v1"
	"google.golang.org/protobuf/proto"
	"google.golang.org/protobuf/types/known/anypb"
	"pgregory.net/rapid"
)

type vfSuiteTC struct {
	Name    string `json:"name"`
	Stream  int32  `json:"stream"`
	Service string `json:"service"`
	Method  string `json:"method"`
	// EmptyKeys: service and method are spelled out in the suite file but empty (service: ""), which is
	// what a templated file gives; "no service and method" all the same.
	EmptyKeys bool `json:"emptyKeys,omitempty"`
	RawReq    bool `json:"rawRequest"`
	RawResp   bool `json:"rawResponse"`
	// Preset: the suite file already fills request fields that the runner owns (the proto docs say they
	// "must not be present", so rejecting such a suite is fine; if it is expanded the runner's values must win).
	// bit 0 server_tls_cert, bit 1 client_tls_creds, bit 2 http_version/protocol/codec/compression, bit 3 host/port
	Preset int `json:"preset"`
}

type vfSuite struct {
	Name         string      `json:"name"`
	Mode         int32       `json:"mode"` // 0 any, 1 client, 2 server
	Protocols    []int32     `json:"protocols"`
	Versions     []int32     `json:"versions"`
	Codecs       []int32     `json:"codecs"`
	Compressions []int32     `json:"compressions"`
	TLS          bool        `json:"reliesOnTls"`
	Certs        bool        `json:"reliesOnTlsClientCerts"`
	Get          bool        `json:"reliesOnConnectGet"`
	Limit        bool        `json:"reliesOnMessageReceiveLimit"`
	Cases        []vfSuiteTC `json:"cases"`
	// EmptyLists: the axes the suite leaves open are empty lists rather than absent ones (the same message)
	EmptyLists bool `json:"emptyLists,omitempty"`
}

func vfSuiteProto(s vfSuite) *conformancev1.TestSuite {
	out := &conformancev1.TestSuite{
		Name: s.Name, Mode: conformancev1.TestSuite_TestMode(s.Mode),
		RelevantProtocols: vfEnums[conformancev1.Protocol](s.Protocols), RelevantHttpVersions: vfEnums[conformancev1.HTTPVersion](s.Versions),
		RelevantCodecs: vfEnums[conformancev1.Codec](s.Codecs), RelevantCompressions: vfEnums[conformancev1.Compression](s.Compressions),
		ReliesOnTls: s.TLS, ReliesOnTlsClientCerts: s.Certs, ReliesOnConnectGet: s.Get, ReliesOnMessageReceiveLimit: s.Limit,
	}
	if s.EmptyLists {
		if len(out.RelevantProtocols) == 0 {
			out.RelevantProtocols = []conformancev1.Protocol{}
		}
		if len(out.RelevantHttpVersions) == 0 {
			out.RelevantHttpVersions = []conformancev1.HTTPVersion{}
		}
		if len(out.RelevantCodecs) == 0 {
			out.RelevantCodecs = []conformancev1.Codec{}
		}
		if len(out.RelevantCompressions) == 0 {
			out.RelevantCompressions = []conformancev1.Compression{}
		}
	}
	for _, tc := range s.Cases {
		req := &conformancev1.ClientCompatRequest{TestName: tc.Name, StreamType: conformancev1.StreamType(tc.Stream)}
		if tc.Service != "" {
			req.Service = proto.String(tc.Service)
		}
		if tc.Method != "" {
			req.Method = proto.String(tc.Method)
		}
		if tc.EmptyKeys && tc.Service == "" && tc.Method == "" {
			req.Service, req.Method = proto.String(""), proto.String("")
		}
		if tc.Preset&1 != 0 {
			req.ServerTlsCert = []byte("STALE-CERT")
		}
		if tc.Preset&2 != 0 {
			req.ClientTlsCreds = &conformancev1.TLSCreds{Cert: []byte("STALE"), Key: []byte("STALE")}
		}
		if tc.Preset&4 != 0 {
			req.HttpVersion, req.Protocol = conformancev1.HTTPVersion_HTTP_VERSION_3, conformancev1.Protocol_PROTOCOL_GRPC_WEB
			req.Codec, req.Compression = conformancev1.Codec_CODEC_JSON, conformancev1.Compression_COMPRESSION_SNAPPY
		}
		if tc.Preset&8 != 0 {
			req.Host, req.Port = "stale.example", 9
		}
		var msg proto.Message
		var raw *conformancev1.RawHTTPResponse
		if tc.RawResp {
			raw = &conformancev1.RawHTTPResponse{StatusCode: 200}
		}
		switch conformancev1.StreamType(tc.Stream) {
		case conformancev1.StreamType_STREAM_TYPE_UNARY:
			msg = &conformancev1.UnaryRequest{ResponseDefinition: &conformancev1.UnaryResponseDefinition{RawResponse: raw}}
		case conformancev1.StreamType_STREAM_TYPE_CLIENT_STREAM:
			msg = &conformancev1.ClientStreamRequest{ResponseDefinition: &conformancev1.UnaryResponseDefinition{RawResponse: raw}}
		case conformancev1.StreamType_STREAM_TYPE_SERVER_STREAM:
			msg = &conformancev1.ServerStreamRequest{ResponseDefinition: &conformancev1.StreamResponseDefinition{RawResponse: raw}}
		default:
			msg = &conformancev1.BidiStreamRequest{ResponseDefinition: &conformancev1.StreamResponseDefinition{RawResponse: raw}}
		}
		a, _ := anypb.New(msg)
		req.RequestMessages = []*anypb.Any{a}
		if tc.RawReq {
			req.RawRequest = &conformancev1.RawHTTPRequest{Verb: "POST", Uri: "/x"}
		}
		t := &conformancev1.TestCase{Request: req}
		if tc.RawResp {
			t.ExpectedResponse = &conformancev1.ClientResponseResult{}
		}
		out.TestCases = append(out.TestCases, t)
	}
	return out
}

var vfSuiteWords = []string{"Basic", "Client Cancellation", "Errors", "TLS", "Connect GET", "Message Size", "Dup"}
var vfTestNames = []string{"unary/success", "unary/error", "server-stream/cancel-after-responses", "bidi/full", "client-stream/many", "a", "a/b/c"}

func vfGenAxis(t *rapid.T, label string, max int32) []int32 {
	switch rapid.IntRange(0, 3).Draw(t, label+"-kind") {
	case 0:
		return nil
	case 1:
		return []int32{rapid.Int32Range(1, max).Draw(t, label+"-one")}
	default:
		n := rapid.IntRange(2, int(max)).Draw(t, label+"-n")
		perm := rapid.Permutation(func() []int32 {
			var all []int32
			for i := int32(1); i <= max; i++ {
				all = append(all, i)
			}
			return all
		}()).Draw(t, label+"-perm")
		return perm[:n]
	}
}

func vfGenSuites(t *rapid.T, mode int32) []vfSuite {
	var out []vfSuite
	names := rapid.Permutation(vfSuiteWords).Draw(t, "suiteNames")
	for i, n := 0, rapid.IntRange(1, 4).Draw(t, "nsuites"); i < n; i++ {
		s := vfSuite{Name: names[i], Mode: int32(rapid.SampledFrom([]int{0, 0, 1, 2}).Draw(t, "mode"))}
		s.Protocols = vfGenAxis(t, "protocols", 3)
		s.Versions = vfGenAxis(t, "versions", 3)
		s.Codecs = vfGenAxis(t, "codecs", 2)
		s.Compressions = vfGenAxis(t, "compressions", 6)
		s.TLS = rapid.IntRange(0, 3).Draw(t, "tls") == 0
		if s.TLS {
			s.Certs = rapid.Bool().Draw(t, "certs")
		}
		if rapid.IntRange(0, 4).Draw(t, "get") == 0 {
			s.Get = true
			s.Protocols = []int32{1}
		}
		s.Limit = rapid.IntRange(0, 4).Draw(t, "limit") == 0
		s.EmptyLists = rapid.IntRange(0, 5).Draw(t, "emptyLists") == 0
		tnames := rapid.Permutation(vfTestNames).Draw(t, "testNames")
		for j, k := 0, rapid.IntRange(1, 5).Draw(t, "ncases"); j < k; j++ {
			tc := vfSuiteTC{Name: tnames[j], Stream: int32(rapid.IntRange(1, 5).Draw(t, "stream"))}
			if rapid.IntRange(0, 4).Draw(t, "explicit") == 0 {
				tc.Service, tc.Method = "connectrpc.conformance.v1.ConformanceService", rapid.SampledFrom([]string{"IdempotentUnary", "Unimplemented", "Unary"}).Draw(t, "method")
			} else if rapid.IntRange(0, 5).Draw(t, "emptyKeys") == 0 {
				tc.EmptyKeys = true
			}
			if rapid.IntRange(0, 11).Draw(t, "presetRunnerFields") == 0 {
				tc.Preset = rapid.IntRange(1, 15).Draw(t, "preset")
			}
			// raw payloads only where the mode allows them
			if s.Mode == 2 && rapid.IntRange(0, 5).Draw(t, "rawReq") == 0 {
				tc.RawReq = true
			}
			if s.Mode == 1 && rapid.IntRange(0, 5).Draw(t, "rawResp") == 0 {
				tc.RawResp = true
			}
			s.Cases = append(s.Cases, tc)
		}
		out = append(out, s)
	}
	return out
}

// vfClearPresets drops the runner-owned request fields again (checks that run real peers keep to documented suites).
func vfClearPresets(suites []vfSuite) []vfSuite {
	for i := range suites {
		for j := range suites[i].Cases {
			suites[i].Cases[j].Preset = 0
		}
	}
	return suites
}
