//go:build verif

package connectconformance

import (
	"bytes"
	"context"
	"encoding/binary"
	"encoding/json"
	"errors"
	"fmt"
	"os"
	"path/filepath"
	"regexp"
	"sort"
	"strconv"
	"strings"
	"sync"
	"testing"
	"time"

	conformancev1 "connectrpc.com/conformance/internal/gen/proto/go/connectrpc/conformance/v1"
	"connectrpc.com/conformance/internal/verifkit"
	"google.golang.org/protobuf/encoding/protojson"
	"google.golang.org/protobuf/proto"
	"google.golang.org/protobuf/types/known/anypb"
	"pgregory.net/rapid"
)

// ---- C04 / G1: truth table of the verdict and the accounting ----

type vfC04Row struct {
	Kind     string `json:"kind"`    // pass, assert-fail, client-error, setup, could-not-run, no-result, unanswered
	Marking  string `json:"marking"` // none, failing, flaky
	Feedback bool   `json:"feedback"`
}

type vfC04Case struct {
	Rows []vfC04Row `json:"rows"`
	// Style: how the markings are spelled. 0: every marked case by its full name; 1: the first marked case
	// of a list by its full name, the others as Suite/*/case-N (a literal and a wildcard branch at the same
	// level); 2: all as **/case-N next to a literal pattern for a case that is not in the run.
	Style int `json:"style,omitempty"`
}

func vfC04Pattern(style, i, nth int) []string {
	switch {
	case style == 1 && nth > 0:
		return []string{fmt.Sprintf("Suite/*/case-%d", i)}
	case style == 2:
		pats := []string{fmt.Sprintf("**/case-%d", i)}
		if nth == 0 {
			pats = append(pats, "Suite/verif-c04/case-99")
		}
		return pats
	}
	return []string{vfC04Name(i)}
}

var vfC04Kinds = []string{"pass", "assert-fail", "client-error", "setup", "could-not-run", "no-result", "unanswered"}
var vfC04Markings = []string{"none", "failing", "flaky"}

func vfC04Name(i int) string { return fmt.Sprintf("Suite/verif-c04/case-%d", i) }

// vfC04Model: does the run succeed, and in which counter does each case belong?
func vfC04Model(c vfC04Case) (success bool, counters []string) {
	success = true
	for _, r := range c.Rows {
		ran := r.Kind == "pass" || r.Kind == "assert-fail" || r.Kind == "client-error"
		failed := r.Kind != "pass" || r.Feedback
		var counter string
		switch {
		case r.Kind == "could-not-run" || r.Kind == "unanswered":
			success = false
			counter = "could-not-run"
		case !ran: // setup error, no result from the client
			success = false
			counter = "failed"
		case r.Marking == "failing":
			if failed {
				counter = "expected"
			} else {
				success = false
				counter = "failed"
			}
		case r.Marking == "flaky":
			if failed {
				counter = "expected"
			} else {
				counter = "passed"
			}
		default:
			if failed {
				success = false
				counter = "failed"
			} else {
				counter = "passed"
			}
		}
		counters = append(counters, counter)
	}
	return success, counters
}

var vfTotalsRe = regexp.MustCompile(`Total cases: (\d+)\n(\d+) passed, (\d+) failed`)
var vfCouldNotRe = regexp.MustCompile(`Another (\d+) could not be run`)
var vfExpectedRe = regexp.MustCompile(`\(Another (\d+) failed as expected`)

func vfC04Check(c vfC04Case) error {
	var failing, flaky []string
	for i, r := range c.Rows {
		switch r.Marking {
		case "failing":
			failing = append(failing, vfC04Pattern(c.Style, i, len(failing))...)
		case "flaky":
			flaky = append(flaky, vfC04Pattern(c.Style, i, len(flaky))...)
		}
	}
	results := newResults(len(c.Rows), vfTrieOrEmpty(failing), vfTrieOrEmpty(flaky), nil)
	expected := &conformancev1.ClientResponseResult{Payloads: []*conformancev1.ConformancePayload{{Data: []byte("data")}}}
	for i, r := range c.Rows {
		name := vfC04Name(i)
		def := &conformancev1.TestCase{Request: &conformancev1.ClientCompatRequest{TestName: name, StreamType: conformancev1.StreamType_STREAM_TYPE_UNARY}, ExpectedResponse: expected}
		switch r.Kind {
		case "pass":
			results.assert(name, def, &conformancev1.ClientResponseResult{Payloads: []*conformancev1.ConformancePayload{{Data: []byte("data")}}})
		case "assert-fail":
			results.assert(name, def, &conformancev1.ClientResponseResult{Payloads: []*conformancev1.ConformancePayload{{Data: []byte("other")}}})
		case "client-error":
			// whatever the client wrote into the message - also nothing at all, or several lines - it reported an error
			msgs := []string{"client says no", "", "\n", "  \r\n", "line one\nline two\n", "\tindented"}
			results.failed(name, &conformancev1.ClientErrorResult{Message: msgs[(i+len(c.Rows))%len(msgs)]})
		case "setup":
			results.failedToStart([]*conformancev1.TestCase{def}, errors.New("error starting server: verif"))
		case "could-not-run":
			results.setOutcome(name, true, &couldNotRunError{errClosed})
		case "no-result":
			results.failRemaining([]*conformancev1.TestCase{def}, &failedToGetResultError{errNoOutcome})
		case "unanswered":
			// no outcome is ever recorded
		}
		if r.Feedback {
			results.recordSideband(name, "peer feedback for "+name)
		}
	}
	printer := &vfC11PrinterLite{}
	ok := results.report(printer)
	out := strings.Join(printer.lines, "\n")
	wantOK, counters := vfC04Model(c)
	if ok != wantOK {
		return verifkit.Violf(fmt.Sprintf("verdict:%v-want-%v", ok, wantOK), "report() = %v, want %v for rows %+v\noutput:\n%s", ok, wantOK, c.Rows, out)
	}
	// accounting
	want := map[string]int{}
	for _, ctr := range counters {
		want[ctr]++
	}
	m := vfTotalsRe.FindStringSubmatch(out)
	if m == nil {
		return verifkit.Violf("totals-missing", "no totals line in the output:\n%s", out)
	}
	passed, _ := strconv.Atoi(m[2])
	failed, _ := strconv.Atoi(m[3])
	couldNot, expectedN := 0, 0
	if mm := vfCouldNotRe.FindStringSubmatch(out); mm != nil {
		couldNot, _ = strconv.Atoi(mm[1])
	}
	if mm := vfExpectedRe.FindStringSubmatch(out); mm != nil {
		expectedN, _ = strconv.Atoi(mm[1])
	}
	if passed+failed+couldNot+expectedN != len(c.Rows) {
		return verifkit.Violf("totals-do-not-add-up", "passed %d + failed %d + could-not-run %d + failed-as-expected %d != %d selected cases; rows %+v\noutput:\n%s", passed, failed, couldNot, expectedN, len(c.Rows), c.Rows, out)
	}
	if passed != want["passed"] || failed != want["failed"] || couldNot != want["could-not-run"] || expectedN != want["expected"] {
		return verifkit.Violf("totals-wrong", "passed/failed/could-not-run/expected = %d/%d/%d/%d, want %d/%d/%d/%d; rows %+v\noutput:\n%s", passed, failed, couldNot, expectedN,
			want["passed"], want["failed"], want["could-not-run"], want["expected"], c.Rows, out)
	}
	// every failing case is named
	for i, ctr := range counters {
		name := vfC04Name(i)
		switch ctr {
		case "failed":
			if !strings.Contains(out, "FAILED: "+name+":") && !strings.Contains(out, "FAILED: "+name+" was") {
				return verifkit.Violf("failing-case-unnamed", "case %d counts as failed but no FAILED line names it; rows %+v\noutput:\n%s", i, c.Rows, out)
			}
		case "expected":
			if !strings.Contains(out, "INFO: "+name+" ") {
				return verifkit.Violf("failing-case-unnamed", "case %d failed as expected but no INFO line names it\noutput:\n%s", i, out)
			}
		case "passed":
			if strings.Contains(out, "FAILED: "+name+":") || strings.Contains(out, "FAILED: "+name+" was") {
				return verifkit.Violf("passing-case-flagged", "case %d passed but a FAILED line names it\noutput:\n%s", i, out)
			}
		}
	}
	return nil
}

type vfC11PrinterLite struct{ lines []string }

func (p *vfC11PrinterLite) Printf(msg string, args ...any) {
	p.lines = append(p.lines, fmt.Sprintf(msg, args...))
}
func (p *vfC11PrinterLite) PrefixPrintf(prefix, msg string, args ...any) {
	p.lines = append(p.lines, prefix+": "+fmt.Sprintf(msg, args...))
}

func vfC04Classify(c vfC04Case) ([]string, bool) {
	nt := false
	for _, r := range c.Rows {
		if r.Marking != "none" || r.Feedback || r.Kind == "setup" || r.Kind == "could-not-run" || r.Kind == "unanswered" || r.Kind == "no-result" {
			nt = true
		}
	}
	ok, _ := vfC04Model(c)
	return []string{fmt.Sprintf("success:%v", ok), fmt.Sprintf("cases:%d", len(c.Rows)), fmt.Sprintf("marking-style:%d", c.Style)}, nt
}

func vfAllRows() []vfC04Row {
	var rows []vfC04Row
	for _, k := range vfC04Kinds {
		for _, m := range vfC04Markings {
			for _, f := range []bool{false, true} {
				if k == "unanswered" && f {
					// a case that was never handed to the client cannot have drawn peer feedback
					continue
				}
				rows = append(rows, vfC04Row{Kind: k, Marking: m, Feedback: f})
			}
		}
	}
	return rows
}

// TestVerifC04Table enumerates all assignments for 1..N cases.
func TestVerifC04Table(t *testing.T) {
	en := verifkit.NewEnum(t, "C04Table")
	var rc vfC04Case
	if en.ReplayCase(&rc) {
		if err := verifkit.SafeCall(func() error { return vfC04Check(rc) }); err != nil {
			en.Fail(rc, err)
		}
		en.Done(true)
		return
	}
	maxCases := verifkit.EnvInt("VERIF_C04_CASES", 2)
	rows := vfAllRows()
	shard, shards := verifkit.Shard()
	idx := 0
	complete := true
	var rec func(prefix []vfC04Row) bool
	rec = func(prefix []vfC04Row) bool {
		if len(prefix) > 0 {
			idx++
			if idx%shards == shard {
				c := vfC04Case{Rows: append([]vfC04Row{}, prefix...), Style: (idx / shards) % 3}
				err := verifkit.SafeCall(func() error { return vfC04Check(c) })
				cl, nt := vfC04Classify(c)
				en.Rec.ObserveHash(uint64(idx), strings.Join(cl, "+"), nt)
				if idx%9973 == 3 {
					en.Rec.AddSample(c)
				}
				if err != nil && en.Fail(c, err) {
					return false
				}
			}
		}
		if len(prefix) == maxCases {
			return true
		}
		for _, r := range rows {
			if !rec(append(prefix, r)) {
				return false
			}
		}
		return true
	}
	if !rec(nil) {
		complete = false
	}
	en.Rec.SetExtra("rows_per_case", len(rows))
	en.Rec.SetExtra("max_cases", maxCases)
	en.Done(complete)
}

func TestVerifC04Random(t *testing.T) {
	rows := vfAllRows()
	verifkit.Run(t, "C04Random", verifkit.Spec[vfC04Case]{
		Gen: func(t *rapid.T) vfC04Case {
			var c vfC04Case
			for i, n := 0, rapid.IntRange(1, 12).Draw(t, "ncases"); i < n; i++ {
				if rapid.IntRange(0, 2).Draw(t, "plain") == 0 {
					c.Rows = append(c.Rows, vfC04Row{Kind: "pass", Marking: "none"})
				} else {
					c.Rows = append(c.Rows, rapid.SampledFrom(rows).Draw(t, "row"))
				}
			}
			c.Style = rapid.IntRange(0, 2).Draw(t, "style")
			return c
		},
		Check:    vfC04Check,
		Classify: vfC04Classify,
	})
}

// ---- C04 / G2: process fate through the exported Run with a scripted client ----

type vfFateCase struct {
	Tests     []vfFateTest `json:"tests"`
	ExitAfter int          `json:"exitAfter"` // -1: client runs until EOF
	ExitCode  int          `json:"exitCode"`
	ExitDelay int          `json:"exitDelayMs"`
	Garbage   int          `json:"garbage"`
	Duplicate int          `json:"duplicate"`
	Order     string       `json:"order"`
}

type vfFateTest struct {
	Action  string `json:"action"`  // match, deviate, error, none, feedback
	Marking string `json:"marking"` // none, failing, flaky
}

func vfFateWorkDir() string {
	dir, err := os.MkdirTemp(".", "c04fate")
	if err != nil {
		panic(err)
	}
	abs, _ := filepath.Abs(dir)
	return abs
}

const vfFateConfig = `features:
  versions: [HTTP_VERSION_1]
  protocols: [PROTOCOL_CONNECT]
  codecs: [CODEC_PROTO]
  compressions: [COMPRESSION_IDENTITY]
  streamTypes: [STREAM_TYPE_UNARY]
  supportsTls: false
  supportsH2c: false
  supportsConnectGet: false
  supportsMessageReceiveLimit: false
`

func vfFateCheck(c vfFateCase) error {
	dir := vfFateWorkDir()
	defer os.RemoveAll(dir)
	suite := &conformancev1.TestSuite{Name: "Verif Fate", Mode: conformancev1.TestSuite_TEST_MODE_CLIENT}
	for i := range c.Tests {
		msg, _ := anypb.New(&conformancev1.UnaryRequest{ResponseDefinition: &conformancev1.UnaryResponseDefinition{
			Response: &conformancev1.UnaryResponseDefinition_ResponseData{ResponseData: []byte(fmt.Sprintf("data-%d", i))}}})
		suite.TestCases = append(suite.TestCases, &conformancev1.TestCase{Request: &conformancev1.ClientCompatRequest{
			TestName: fmt.Sprintf("fate/case-%d", i), StreamType: conformancev1.StreamType_STREAM_TYPE_UNARY, RequestMessages: []*anypb.Any{msg}}})
	}
	suiteJSON, err := protojson.Marshal(suite)
	if err != nil {
		return nil
	}
	suiteFile := filepath.Join(dir, "suite.yaml")
	cfgFile := filepath.Join(dir, "config.yaml")
	_ = os.WriteFile(suiteFile, suiteJSON, 0o644)
	_ = os.WriteFile(cfgFile, []byte(vfFateConfig), 0o644)
	// names and matching results, computed like the runner does
	suites, err := parseTestSuites(map[string][]byte{suiteFile: suiteJSON})
	if err != nil {
		return verifkit.Violf("fate-harness", "suite rejected: %v", err)
	}
	cfgCases, err := parseConfig(cfgFile, []byte(vfFateConfig))
	if err != nil {
		return verifkit.Violf("fate-harness", "config rejected: %v", err)
	}
	lib, err := newTestCaseLibrary(suites, cfgCases, conformancev1.TestSuite_TEST_MODE_CLIENT)
	if err != nil {
		return verifkit.Violf("fate-harness", "library: %v", err)
	}
	script := vfClientScript{Expected: map[string][]byte{}, Actions: map[string]string{}, ExitAfter: c.ExitAfter, ExitCode: c.ExitCode, ExitDelay: c.ExitDelay, Garbage: c.Garbage, Duplicate: c.Duplicate, Order: c.Order}
	names := make([]string, len(c.Tests))
	var failing, flaky []string
	for full, tc := range lib.testCases {
		var idx int
		if _, err := fmt.Sscanf(lib.testCaseNames[full], "fate/case-%d", &idx); err != nil || idx >= len(c.Tests) {
			return verifkit.Violf("fate-harness", "unexpected permutation %q", full)
		}
		names[idx] = full
		data, _ := proto.Marshal(tc.ExpectedResponse)
		script.Expected[full] = data
		script.Actions[full] = c.Tests[idx].Action
		switch c.Tests[idx].Marking {
		case "failing":
			failing = append(failing, full)
		case "flaky":
			flaky = append(flaky, full)
		}
	}
	if len(lib.testCases) != len(c.Tests) {
		return verifkit.Violf("fate-harness", "%d permutations for %d tests", len(lib.testCases), len(c.Tests))
	}
	scriptFile := filepath.Join(dir, "script.json")
	logFile := filepath.Join(dir, "peer.log")
	scriptData, _ := json.Marshal(script)
	_ = os.WriteFile(scriptFile, scriptData, 0o644)
	logP, errP := &vfSyncPrinter{}, &vfSyncPrinter{}
	type runResult struct {
		ok  bool
		err error
	}
	ch := make(chan runResult, 1)
	go func() {
		ok, err := Run(&Flags{ConfigFile: cfgFile, TestFiles: []string{suiteFile}, KnownFailingPatterns: failing, KnownFlakyPatterns: flaky,
			ClientCommand: vfPeerCommand("script-client", scriptFile, logFile), MaxServers: 1, Parallelism: 1, ServerBind: "127.0.0.1"}, logP, errP)
		ch <- runResult{ok, err}
	}()
	var rr runResult
	select {
	case rr = <-ch:
	case <-time.After(4 * time.Minute):
		return nil // cannot judge (the runner's own 20 s / 3 s waits piled up): inconclusive, not a violation
	}
	events := vfReadPeerLog(logFile)
	received := map[string]bool{}
	for _, ev := range events {
		if ev.Event == "request" {
			received[ev.Name] = true
		}
	}
	// the model
	wantOK := true
	var why []string
	if c.ExitCode != 0 {
		wantOK = false
		why = append(why, "client exit status != 0")
	}
	answerNo := 0
	for i, t := range c.Tests {
		if !received[names[i]] {
			wantOK = false
			why = append(why, fmt.Sprintf("case %d never reached the client", i))
			continue
		}
		if t.Action != "none" {
			answerNo++
		}
		ran := t.Action != "none"
		failed := t.Action == "deviate" || t.Action == "error" || t.Action == "error-empty" || t.Action == "feedback"
		switch {
		case !ran:
			wantOK = false
			why = append(why, fmt.Sprintf("case %d got no result", i))
		case t.Marking == "failing" && !failed:
			wantOK = false
			why = append(why, fmt.Sprintf("case %d is known-failing but passed", i))
		case t.Marking == "none" && failed:
			wantOK = false
			why = append(why, fmt.Sprintf("case %d failed", i))
		}
	}
	if (c.Garbage > 0 && c.Garbage <= answerNo) || (c.Duplicate > 0 && c.Duplicate <= answerNo) {
		wantOK = false
		why = append(why, "client wrote a garbled or duplicate answer")
	}
	gotOK := rr.ok && rr.err == nil
	if os.Getenv("VERIF_DEBUG") != "" {
		fmt.Printf("DEBUG ok=%v err=%v\nstdout:\n%s\nstderr:\n%s\nevents=%+v\n", rr.ok, rr.err, logP.String(), errP.String(), events)
	}
	// whenever Run comes back with a verdict it has printed the report: totals that account for every selected
	// case once, and a FAILED line for each case that counts against success for a reason of its own
	if rr.err == nil {
		out := logP.String()
		m := vfTotalsRe.FindStringSubmatch(out)
		if m == nil {
			return verifkit.Violf("run-totals-missing", "Run returned %v but printed no totals\ncase %+v\nstdout:\n%s\nstderr:\n%s", rr.ok, c, out, errP.String())
		}
		total, _ := strconv.Atoi(m[1])
		passed, _ := strconv.Atoi(m[2])
		failed, _ := strconv.Atoi(m[3])
		couldNot, expectedN := 0, 0
		if mm := vfCouldNotRe.FindStringSubmatch(out); mm != nil {
			couldNot, _ = strconv.Atoi(mm[1])
		}
		if mm := vfExpectedRe.FindStringSubmatch(out); mm != nil {
			expectedN, _ = strconv.Atoi(mm[1])
		}
		if total != len(c.Tests) || passed+failed+couldNot+expectedN != len(c.Tests) {
			return verifkit.Violf("run-totals-do-not-add-up", "total %d, passed %d + failed %d + could-not-run %d + failed-as-expected %d, selected %d\ncase %+v\nstdout:\n%s", total, passed, failed, couldNot, expectedN, len(c.Tests), c, out)
		}
		for i, t := range c.Tests {
			if !received[names[i]] {
				continue // which of the unsent cases are named depends on where the client died
			}
			failedCase := t.Action == "deviate" || t.Action == "error" || t.Action == "error-empty" || t.Action == "feedback"
			// (a case that was handed over but never answered counts against success whatever its marking)
			if (t.Marking == "none" && failedCase) || (t.Marking == "failing" && t.Action == "match") || t.Action == "none" {
				if !strings.Contains(out, "FAILED: "+names[i]+":") && !strings.Contains(out, "FAILED: "+names[i]+" was") {
					return verifkit.Violf("run-failing-case-unnamed", "case %d (%s, marking %s) counts against success but no FAILED line names it\ncase %+v\nstdout:\n%s", i, t.Action, t.Marking, c, out)
				}
			}
		}
	}
	if gotOK != wantOK {
		return verifkit.Violf(fmt.Sprintf("run-verdict:%v-want-%v", gotOK, wantOK), "Run returned (%v, %v), the statement demands success=%v (%s)\ncase %+v\nreceived by client: %d of %d\nstdout:\n%s\nstderr:\n%s",
			rr.ok, rr.err, wantOK, strings.Join(why, "; "), c, len(received), len(c.Tests), logP.String(), errP.String())
	}
	return nil
}

func TestVerifC04Fate(t *testing.T) {
	verifkit.Run(t, "C04Fate", verifkit.Spec[vfFateCase]{
		Gen: func(t *rapid.T) vfFateCase {
			c := vfFateCase{ExitAfter: -1, Order: rapid.SampledFrom([]string{"immediate", "immediate", "reverse-pairs", "at-end"}).Draw(t, "order")}
			n := rapid.IntRange(2, 6).Draw(t, "ntests")
			allGood := rapid.Bool().Draw(t, "allGood") // the process fate alone decides
			for i := 0; i < n; i++ {
				if allGood {
					c.Tests = append(c.Tests, vfFateTest{Action: "match", Marking: "none"})
					continue
				}
				c.Tests = append(c.Tests, vfFateTest{
					Action:  rapid.SampledFrom([]string{"match", "match", "match", "deviate", "error", "error-empty", "none", "feedback"}).Draw(t, "action"),
					Marking: rapid.SampledFrom([]string{"none", "none", "failing", "flaky"}).Draw(t, "marking")})
			}
			switch rapid.IntRange(0, 5).Draw(t, "fate") {
			case 0:
				c.ExitAfter = rapid.IntRange(0, n).Draw(t, "exitAfter")
				c.ExitCode = rapid.SampledFrom([]int{0, 0, 1}).Draw(t, "exitCode")
			case 1:
				// exits with status 0 while the (first) server is still starting: after the runner
				// checked that the client is alive, before it hands over any request
				c.ExitAfter, c.ExitCode, c.ExitDelay = 0, 0, rapid.SampledFrom([]int{60, 100, 140}).Draw(t, "exitDelay")
			case 2:
				c.ExitCode = 1
			case 3:
				c.Garbage = rapid.IntRange(1, n).Draw(t, "garbage")
			case 4:
				c.Duplicate = rapid.IntRange(1, n).Draw(t, "duplicate")
			}
			if c.ExitAfter < 0 {
				// a client that silently skips a request and then keeps running is only detected by the
				// runner's fixed 20 s output timeout; keep such cases to clients that exit by themselves
				for i := range c.Tests {
					if c.Tests[i].Action == "none" {
						c.Tests[i].Action = "error"
					}
				}
			}
			return c
		},
		Check: vfFateCheck,
		Classify: func(c vfFateCase) ([]string, bool) {
			nt := c.ExitAfter > 0 && c.ExitAfter < len(c.Tests)
			cl := []string{fmt.Sprintf("exitAfter:%v", c.ExitAfter >= 0), fmt.Sprintf("exitCode:%d", c.ExitCode)}
			for _, t := range c.Tests {
				if t.Marking != "none" && t.Action != "match" {
					nt = true
				}
				if t.Action == "feedback" {
					cl = append(cl, "real-feedback")
				}
			}
			return cl, nt
		},
	})
}

// TestVerifC04FateTable: the small cross product that the random Fate unit reaches only rarely in a quick run -
// one distinguished case among two passing ones x what the client does with it x its marking x whether the client
// then exits by itself (status 0) or runs on to the end of its input. Every row goes through the real Run with
// scripted peer processes and the same oracle as the random unit.
func TestVerifC04FateTable(t *testing.T) {
	en := verifkit.NewEnum(t, "C04FateTable")
	var replay vfFateCase
	if en.ReplayCase(&replay) {
		if err := verifkit.SafeCall(func() error { return vfFateCheck(replay) }); err != nil {
			en.Fail(replay, err)
		}
		en.Done(false)
		return
	}
	var rows []vfFateCase
	for _, action := range []string{"match", "deviate", "error", "error-empty", "none"} {
		for _, marking := range []string{"none", "failing", "flaky"} {
			for _, selfExit := range []bool{false, true} {
				if action == "none" && !selfExit {
					continue // a silent client that keeps running is only detected by the runner's 20 s output timeout
				}
				for pos := 0; pos < 3; pos += 2 {
					c := vfFateCase{ExitAfter: -1, Order: "immediate"}
					for i := 0; i < 3; i++ {
						c.Tests = append(c.Tests, vfFateTest{Action: "match", Marking: "none"})
					}
					c.Tests[pos] = vfFateTest{Action: action, Marking: marking}
					if selfExit {
						c.ExitAfter, c.ExitCode = 3, 0
					}
					rows = append(rows, c)
				}
			}
		}
	}
	shard, shards := verifkit.Shard()
	var mu sync.Mutex
	var wg sync.WaitGroup
	sem := make(chan struct{}, 4)
	for i, c := range rows {
		if i%shards != shard {
			continue
		}
		wg.Add(1)
		sem <- struct{}{}
		go func(c vfFateCase) {
			defer wg.Done()
			defer func() { <-sem }()
			err := verifkit.SafeCall(func() error { return vfFateCheck(c) })
			mu.Lock()
			defer mu.Unlock()
			d := c.Tests[0]
			if c.Tests[2].Action != "match" || c.Tests[2].Marking != "none" {
				d = c.Tests[2]
			}
			en.Rec.Observe(c, []string{"action:" + d.Action, "marking:" + d.Marking, fmt.Sprintf("selfExit:%v", c.ExitAfter >= 0)}, d.Action != "match" || d.Marking != "none")
			if err != nil {
				en.Fail(c, err)
			}
		}(c)
	}
	wg.Wait()
	en.Done(true)
}

// TestVerifC04Sideband: feedback from a reference server arrives on its stderr while the batch runs. Whatever the
// shape of that stream - line terminated or cut off by the end of the stream, other output around it, one or several
// lines for a case - a case with feedback counts against success and is named, cases without stay passes.
// (fake server process and fake client of the C11 harness, real runTestCasesForServer and report)
func TestVerifC04Sideband(t *testing.T) {
	en := verifkit.NewEnum(t, "C04Sideband")
	type row struct {
		N        int    `json:"n"`
		Target   int    `json:"target"`   // the case that draws feedback
		Lines    int    `json:"lines"`    // feedback lines for it
		Position string `json:"position"` // first, middle, last line of the stderr stream
		FinalEOL bool   `json:"finalEOL"`
		Marking  string `json:"marking"`
		Colons   bool   `json:"colons"` // the feedback text has ": " of its own, as several of the reference server's messages do
	}
	var rows []row
	for _, n := range []int{1, 3} {
		for target := 0; target < n; target += 2 {
			for _, lines := range []int{1, 2} {
				for _, pos := range []string{"first", "middle", "last"} {
					for _, eol := range []bool{true, false} {
						for _, marking := range []string{"none", "failing", "flaky"} {
							rows = append(rows, row{n, target, lines, pos, eol, marking, false}, row{n, target, lines, pos, eol, marking, true})
						}
					}
				}
			}
		}
	}
	for _, r := range rows {
		var testCases []*conformancev1.TestCase
		expected := map[string]*conformancev1.ClientResponseResult{}
		for i := 0; i < r.N; i++ {
			exp := &conformancev1.ClientResponseResult{Payloads: []*conformancev1.ConformancePayload{{Data: []byte(fmt.Sprintf("payload-%d", i))}}}
			testCases = append(testCases, &conformancev1.TestCase{Request: &conformancev1.ClientCompatRequest{TestName: vfC11Name(i)}, ExpectedResponse: exp})
			expected[vfC11Name(i)] = exp
		}
		var fb []string
		for l := 0; l < r.Lines; l++ {
			if r.Colons {
				fb = append(fb, fmt.Sprintf("%s: invalid value for \"grpc-timeout\" header: \"%dx\": unknown unit", vfC11Name(r.Target), l+1))
				continue
			}
			fb = append(fb, fmt.Sprintf("%s: expected HTTP version %d; instead got 2", vfC11Name(r.Target), l+1))
		}
		noise := []string{"2024/01/01 12:00:00 http: TLS handshake error: EOF", "plain log line"}
		var lines []string
		switch r.Position {
		case "first":
			lines = append(append(lines, fb...), noise...)
		case "middle":
			lines = append(append(append(lines, noise[0]), fb...), noise[1])
		default:
			lines = append(append(lines, noise...), fb...)
		}
		stderr := strings.Join(lines, "\n")
		if r.FinalEOL {
			stderr += "\n"
		}
		resp, _ := proto.Marshal(&conformancev1.ServerCompatResponse{Host: "127.0.0.1", Port: 1})
		var frame bytes.Buffer
		var l [4]byte
		binary.BigEndian.PutUint32(l[:], uint32(len(resp)))
		frame.Write(l[:])
		frame.Write(resp)
		proc := &vfFakeProc{done: make(chan struct{})}
		starter := processStarter(func(ctx context.Context, _ bool) (*process, error) {
			return &process{processController: proc, stdin: &vfFakeStdin{}, stdout: bytes.NewReader(frame.Bytes()), stderr: strings.NewReader(stderr)}, nil
		})
		var failing, flaky []string
		switch r.Marking {
		case "failing":
			failing = []string{vfC11Name(r.Target)}
		case "flaky":
			flaky = []string{vfC11Name(r.Target)}
		}
		results := newResults(r.N, vfTrieOrEmpty(failing), vfTrieOrEmpty(flaky), nil)
		client := &vfFakeClient{c: vfC11Case{N: r.N, Delivery: "sync"}, expected: expected}
		done := make(chan struct{})
		go func() {
			defer close(done)
			runTestCasesForServer(context.Background(), false, true, serverInstance{}, testCases, nil, nil, starter, &vfC11Printer{}, &vfC11Printer{}, results, client, nil, false)
		}()
		var viol error
		select {
		case <-done:
		case <-time.After(30 * time.Second):
			viol = verifkit.Violf("sideband-hang", "batch did not end: %+v", r)
		}
		if viol == nil {
			printer := &vfC11PrinterLite{}
			ok := results.report(printer)
			out := strings.Join(printer.lines, "\n")
			name := vfC11Name(r.Target)
			// unmarked: the feedback is a failure; known-failing / flaky: it failed as expected (and the run succeeds)
			wantOK := r.Marking != "none"
			switch {
			case ok != wantOK:
				viol = verifkit.Violf(fmt.Sprintf("sideband-verdict:%v-want-%v", ok, wantOK), "report() = %v although %q drew feedback on the server's stderr (%+v)\nstderr: %q\noutput:\n%s", ok, name, r, stderr, out)
			case r.Marking == "none" && !strings.Contains(out, "FAILED: "+name+":"):
				viol = verifkit.Violf("sideband-unnamed", "%q drew feedback but no FAILED line names it (%+v)\noutput:\n%s", name, r, out)
			case r.Marking != "none" && !strings.Contains(out, "INFO: "+name+" "):
				viol = verifkit.Violf("sideband-unnamed", "%q drew feedback and is marked %s but no INFO line names it (%+v)\noutput:\n%s", name, r.Marking, r, out)
			default:
				for l := 0; l < r.Lines; l++ {
					wantLine := fmt.Sprintf("expected HTTP version %d; instead got 2", l+1)
					if r.Colons {
						wantLine = fmt.Sprintf("invalid value for \"grpc-timeout\" header: \"%dx\": unknown unit", l+1)
					}
					if !strings.Contains(out, wantLine) {
						viol = verifkit.Violf("sideband-line-lost", "feedback line %d of %d for %q is not in the report (%+v)\noutput:\n%s", l+1, r.Lines, name, r, out)
					}
				}
				for i := 0; i < r.N; i++ {
					if i != r.Target && strings.Contains(out, "FAILED: "+vfC11Name(i)+":") {
						viol = verifkit.Violf("sideband-misattributed", "case %d has no feedback but is reported FAILED (%+v)\noutput:\n%s", i, r, out)
					}
				}
			}
		}
		en.Rec.Observe(r, []string{"position:" + r.Position, fmt.Sprintf("finalEOL:%v", r.FinalEOL), "marking:" + r.Marking, fmt.Sprintf("colons-in-message:%v", r.Colons)}, !r.FinalEOL || r.Lines > 1 || r.Colons)
		if viol != nil && en.Fail(r, viol) {
			break
		}
	}
	en.Done(true)
}

// TestVerifC04ServerExit: the server under test goes away (exit status 0, or killed) after k of 3 cases have been
// handed to the client. The cases that could not be run any more count against success whatever their marking,
// and each is named FAILED in the report. Uses the C11 fakes ("with": ["C11"]).
func TestVerifC04ServerExit(t *testing.T) {
	en := verifkit.NewEnum(t, "C04ServerExit")
	type row struct {
		After   int    `json:"after"`   // the server is gone after that many sends (of 3)
		Clean   bool   `json:"clean"`   // exit status 0
		Marking string `json:"marking"` // of the cases that were not sent any more
		RefSrv  bool   `json:"refServer"`
	}
	var rows []row
	for _, after := range []int{1, 2} {
		for _, clean := range []bool{true, false} {
			for _, marking := range []string{"none", "failing", "flaky"} {
				for _, ref := range []bool{false, true} {
					rows = append(rows, row{after, clean, marking, ref})
				}
			}
		}
	}
	const n = 3
	for _, r := range rows {
		var testCases []*conformancev1.TestCase
		expected := map[string]*conformancev1.ClientResponseResult{}
		for i := 0; i < n; i++ {
			exp := &conformancev1.ClientResponseResult{Payloads: []*conformancev1.ConformancePayload{{Data: []byte(fmt.Sprintf("payload-%d", i))}}}
			testCases = append(testCases, &conformancev1.TestCase{Request: &conformancev1.ClientCompatRequest{TestName: vfC11Name(i)}, ExpectedResponse: exp})
			expected[vfC11Name(i)] = exp
		}
		resp, _ := proto.Marshal(&conformancev1.ServerCompatResponse{Host: "127.0.0.1", Port: 1})
		var frame bytes.Buffer
		var l [4]byte
		binary.BigEndian.PutUint32(l[:], uint32(len(resp)))
		frame.Write(l[:])
		frame.Write(resp)
		proc := &vfFakeProc{done: make(chan struct{})}
		if !r.Clean {
			proc.exitErr = errors.New("signal: killed")
		}
		starter := processStarter(func(ctx context.Context, _ bool) (*process, error) {
			return &process{processController: proc, stdin: &vfFakeStdin{}, stdout: bytes.NewReader(frame.Bytes()), stderr: strings.NewReader("")}, nil
		})
		var unsent []string
		for i := r.After; i < n; i++ {
			unsent = append(unsent, vfC11Name(i))
		}
		var failing, flaky []string
		switch r.Marking {
		case "failing":
			failing = unsent
		case "flaky":
			flaky = unsent
		}
		results := newResults(n, vfTrieOrEmpty(failing), vfTrieOrEmpty(flaky), nil)
		client := &vfFakeClient{c: vfC11Case{N: n, Delivery: "sync", ServerFault: "die", FaultAt: r.After}, expected: expected, proc: proc}
		done := make(chan struct{})
		go func() {
			defer close(done)
			runTestCasesForServer(context.Background(), false, r.RefSrv, serverInstance{}, testCases, nil, nil, starter, &vfC11Printer{}, &vfC11Printer{}, results, client, nil, false)
		}()
		var viol error
		select {
		case <-done:
		case <-time.After(30 * time.Second):
			viol = verifkit.Violf("server-exit-hang", "batch did not end: %+v", r)
		}
		if viol == nil {
			client.mu.Lock()
			sent := append([]string{}, client.sends...)
			client.mu.Unlock()
			printer := &vfC11PrinterLite{}
			ok := results.report(printer)
			out := strings.Join(printer.lines, "\n")
			switch {
			case ok:
				viol = verifkit.Violf("server-exit-success", "report() = true although the server was gone after %d of %d cases (%+v; handed to the client: %v)\noutput:\n%s", r.After, n, r, sent, out)
			default:
				for _, name := range unsent {
					if vfContainsStr(sent, name) {
						continue // (handed over all the same: then its own verdict stands; success is still impossible above)
					}
					if !strings.Contains(out, "FAILED: "+name+":") {
						viol = verifkit.Violf("server-exit-unnamed", "%q could not be run (server gone after %d sends) but no FAILED line names it (%+v)\noutput:\n%s", name, r.After, r, out)
					}
				}
			}
		}
		en.Rec.Observe(r, []string{fmt.Sprintf("after:%d", r.After), fmt.Sprintf("clean-exit:%v", r.Clean), "marking:" + r.Marking}, true)
		if viol != nil && en.Fail(r, viol) {
			break
		}
	}
	en.Done(true)
}

func vfContainsStr(l []string, s string) bool {
	for _, x := range l {
		if x == s {
			return true
		}
	}
	return false
}

// TestVerifC04Printer: see vfPrinterUnit (C11 harness): feedback written by the reference server's real printer for
// awkward test names and messages makes the run fail and names the case.
func TestVerifC04Printer(t *testing.T) { vfPrinterUnit(t, "C04Printer", true) }

// TestVerifC04ClientFeedback: feedback that the reference client attaches to a result which otherwise matches
// (its wire checks) makes the case fail - when the client of the run is the reference client, whatever the server
// is: the server under test (server mode) or the reference server. Real batch function, C11 fakes.
func TestVerifC04ClientFeedback(t *testing.T) {
	en := verifkit.NewEnum(t, "C04ClientFeedback")
	type row struct {
		RefClient bool   `json:"referenceClient"`
		RefServer bool   `json:"referenceServer"`
		Lines     int    `json:"feedbackLines"`
		Marking   string `json:"marking"`
	}
	const n = 3
	for _, refClient := range []bool{true, false} {
		for _, refServer := range []bool{false, true} {
			for _, lines := range []int{1, 2} {
				for _, marking := range []string{"none", "failing", "flaky"} {
					r := row{refClient, refServer, lines, marking}
					var testCases []*conformancev1.TestCase
					expected := map[string]*conformancev1.ClientResponseResult{}
					for i := 0; i < n; i++ {
						exp := &conformancev1.ClientResponseResult{Payloads: []*conformancev1.ConformancePayload{{Data: []byte(fmt.Sprintf("payload-%d", i))}}}
						testCases = append(testCases, &conformancev1.TestCase{Request: &conformancev1.ClientCompatRequest{TestName: vfC11Name(i)}, ExpectedResponse: exp})
						expected[vfC11Name(i)] = exp
					}
					target := vfC11Name(1)
					var fb []string
					for l := 0; l < lines; l++ {
						fb = append(fb, fmt.Sprintf("headers include incorrectly-encoded 'X-Bad-Bin' value (finding %d)", l+1))
					}
					resp, _ := proto.Marshal(&conformancev1.ServerCompatResponse{Host: "127.0.0.1", Port: 1})
					var frame bytes.Buffer
					var l [4]byte
					binary.BigEndian.PutUint32(l[:], uint32(len(resp)))
					frame.Write(l[:])
					frame.Write(resp)
					proc := &vfFakeProc{done: make(chan struct{})}
					starter := processStarter(func(ctx context.Context, _ bool) (*process, error) {
						return &process{processController: proc, stdin: &vfFakeStdin{}, stdout: bytes.NewReader(frame.Bytes()), stderr: strings.NewReader("")}, nil
					})
					var failing, flaky []string
					switch marking {
					case "failing":
						failing = []string{target}
					case "flaky":
						flaky = []string{target}
					}
					results := newResults(n, vfTrieOrEmpty(failing), vfTrieOrEmpty(flaky), nil)
					client := &vfFakeClient{c: vfC11Case{N: n, Delivery: "sync"}, expected: expected, feedback: map[string][]string{target: fb}}
					done := make(chan struct{})
					go func() {
						defer close(done)
						runTestCasesForServer(context.Background(), refClient, refServer, serverInstance{}, testCases, nil, nil, starter, &vfC11Printer{}, &vfC11Printer{}, results, client, nil, false)
					}()
					var viol error
					select {
					case <-done:
					case <-time.After(30 * time.Second):
						viol = verifkit.Violf("client-feedback-hang", "batch did not end: %+v", r)
					}
					if viol == nil {
						printer := &vfC11PrinterLite{}
						ok := results.report(printer)
						out := strings.Join(printer.lines, "\n")
						switch {
						case !refClient:
							// (a client under test is not a reference peer: what it puts into that field is not the runner's business)
						case ok != (marking != "none"):
							viol = verifkit.Violf(fmt.Sprintf("client-feedback-verdict:%v", ok), "report() = %v although the reference client attached feedback to the result of %q (reference server: %v, marking %s)\noutput:\n%s", ok, target, refServer, marking, out)
						case marking == "none" && !strings.Contains(out, "FAILED: "+target+":"):
							viol = verifkit.Violf("client-feedback-unnamed", "%q drew client feedback but no FAILED line names it (%+v)\noutput:\n%s", target, r, out)
						default:
							for l := 0; l < lines; l++ {
								if !strings.Contains(out, fmt.Sprintf("(finding %d)", l+1)) {
									viol = verifkit.Violf("client-feedback-line-lost", "feedback line %d of %d is not in the report (%+v)\noutput:\n%s", l+1, lines, r, out)
								}
							}
						}
					}
					en.Rec.Observe(r, []string{fmt.Sprintf("reference-client:%v", refClient), fmt.Sprintf("reference-server:%v", refServer), "marking:" + marking}, refClient)
					if viol != nil && en.Fail(r, viol) {
						en.Done(true)
						return
					}
				}
			}
		}
	}
	en.Done(true)
}

// TestVerifC04FeedbackRace: client mode, two server instances up at once (--max-servers 2). For one case the reference
// server reports feedback at once while the client's (matching) answer arrives 1.5 s later - by then the other
// instance's batch is over. The feedback still turns that case into a failure: the run fails and names it.
func TestVerifC04FeedbackRace(t *testing.T) {
	en := verifkit.NewEnum(t, "C04FeedbackRace")
	type row struct {
		Held    int    `json:"heldPermutation"` // index (sorted names) of the permutation whose answer is held back
		Marking string `json:"marking"`
	}
	const config = `features:
  versions: [HTTP_VERSION_1, HTTP_VERSION_2]
  protocols: [PROTOCOL_CONNECT]
  codecs: [CODEC_PROTO]
  compressions: [COMPRESSION_IDENTITY]
  streamTypes: [STREAM_TYPE_UNARY]
  supportsTls: false
  supportsH2c: true
  supportsConnectGet: false
  supportsMessageReceiveLimit: false
`
	for _, held := range []int{0, 3} {
		for _, marking := range []string{"none", "flaky"} {
			r := row{held, marking}
			dir := vfFateWorkDir()
			suite := &conformancev1.TestSuite{Name: "Verif Race", Mode: conformancev1.TestSuite_TEST_MODE_CLIENT}
			for i := 0; i < 2; i++ {
				msg, _ := anypb.New(&conformancev1.UnaryRequest{ResponseDefinition: &conformancev1.UnaryResponseDefinition{
					Response: &conformancev1.UnaryResponseDefinition_ResponseData{ResponseData: []byte(fmt.Sprintf("data-%d", i))}}})
				suite.TestCases = append(suite.TestCases, &conformancev1.TestCase{Request: &conformancev1.ClientCompatRequest{
					TestName: fmt.Sprintf("race/case-%d", i), StreamType: conformancev1.StreamType_STREAM_TYPE_UNARY, RequestMessages: []*anypb.Any{msg}}})
			}
			suiteJSON, _ := protojson.Marshal(suite)
			suiteFile, cfgFile := filepath.Join(dir, "suite.yaml"), filepath.Join(dir, "config.yaml")
			_ = os.WriteFile(suiteFile, suiteJSON, 0o644)
			_ = os.WriteFile(cfgFile, []byte(config), 0o644)
			suites, err := parseTestSuites(map[string][]byte{suiteFile: suiteJSON})
			if err != nil {
				t.Fatal(err)
			}
			cfgCases, err := parseConfig(cfgFile, []byte(config))
			if err != nil {
				t.Fatal(err)
			}
			lib, err := newTestCaseLibrary(suites, cfgCases, conformancev1.TestSuite_TEST_MODE_CLIENT)
			if err != nil {
				t.Fatal(err)
			}
			var names []string
			for n := range lib.testCases {
				names = append(names, n)
			}
			sort.Strings(names)
			script := vfClientScript{Expected: map[string][]byte{}, Actions: map[string]string{}, ExitAfter: -1, Order: "immediate"}
			for _, n := range names {
				script.Expected[n], _ = proto.Marshal(lib.testCases[n].ExpectedResponse)
			}
			target := names[held%len(names)]
			script.Actions[target] = "feedback-hold"
			var flaky []string
			if marking == "flaky" {
				flaky = []string{target}
			}
			scriptFile, logFile := filepath.Join(dir, "script.json"), filepath.Join(dir, "peer.log")
			data, _ := json.Marshal(script)
			_ = os.WriteFile(scriptFile, data, 0o644)
			logP, errP := &vfSyncPrinter{}, &vfSyncPrinter{}
			type runResult struct {
				ok  bool
				err error
			}
			ch := make(chan runResult, 1)
			go func() {
				ok, err := Run(&Flags{ConfigFile: cfgFile, TestFiles: []string{suiteFile}, KnownFlakyPatterns: flaky,
					ClientCommand: vfPeerCommand("script-client", scriptFile, logFile), MaxServers: 2, Parallelism: 4, ServerBind: "127.0.0.1"}, logP, errP)
				ch <- runResult{ok, err}
			}()
			var viol error
			select {
			case rr := <-ch:
				out := logP.Full()
				gotOK := rr.ok && rr.err == nil
				switch {
				case len(names) != 4:
					viol = verifkit.Violf("feedback-race-harness", "%d permutations, want 4", len(names))
				case gotOK != (marking == "flaky"):
					viol = verifkit.Violf(fmt.Sprintf("feedback-race-verdict:%v", gotOK), "Run = (%v, %v) although the reference server reported feedback for %q (its matching answer arrived 1.5 s later, after the other server's batch had ended; marking %s)\noutput (tail):\n%s", rr.ok, rr.err, target, marking, vfC04Tail(out, 1500))
				case marking == "none" && !strings.Contains(out, "FAILED: "+target+":"):
					viol = verifkit.Violf("feedback-race-unnamed", "%q drew feedback but no FAILED line names it\noutput (tail):\n%s", target, vfC04Tail(out, 1500))
				}
			case <-time.After(3 * time.Minute):
			}
			_ = os.RemoveAll(dir)
			en.Rec.Observe(r, []string{"marking:" + marking, fmt.Sprintf("held:%d", held)}, true)
			if viol != nil && en.Fail(r, viol) {
				break
			}
		}
	}
	en.Done(true)
}

func vfC04Tail(s string, n int) string {
	if len(s) > n {
		return "..." + s[len(s)-n:]
	}
	return s
}

// ---- C04: feedback of the reference client in server mode, through the exported Run ----

// TestVerifC04ServerModeFeedback: server mode - the runner's own reference client against a server under test that is
// a real OS process (the test binary re-executed as "trailer-server": the repository's conformance server behind a
// proxy that appends an HTTP trailer to every response). Every result matches its expectation, but the reference
// client reports the trailer as feedback for each case: the run must not succeed, every case is named FAILED with that
// feedback - unless it is marked known-failing / known-flaky, in which case it "failed as expected".
func TestVerifC04ServerModeFeedback(t *testing.T) {
	en := verifkit.NewEnum(t, "C04ServerModeFeedback")
	type row struct {
		Marking string `json:"marking"`
		Cases   int    `json:"cases"`
	}
	var rows []row
	for _, m := range []string{"none", "failing", "flaky"} {
		for _, n := range []int{1, 3} {
			rows = append(rows, row{m, n})
		}
	}
	var replay row
	if en.ReplayCase(&replay) {
		rows = []row{replay}
	}
	for _, r := range rows {
		viol := func() error {
			dir, err := os.MkdirTemp(".", "c04sm")
			if err != nil {
				return nil
			}
			dir, _ = filepath.Abs(dir)
			defer os.RemoveAll(dir)
			var sb strings.Builder
			sb.WriteString("name: Verif C04\nrelevantProtocols: [PROTOCOL_CONNECT]\nrelevantHttpVersions: [HTTP_VERSION_1]\nrelevantCodecs: [CODEC_PROTO]\nrelevantCompressions: [COMPRESSION_IDENTITY]\ntestCases:\n")
			for i := 0; i < r.Cases; i++ {
				fmt.Fprintf(&sb, "- request:\n    testName: unary/case-%d\n    streamType: STREAM_TYPE_UNARY\n    requestMessages:\n    - \"@type\": type.googleapis.com/connectrpc.conformance.v1.UnaryRequest\n      responseDefinition:\n        responseData: \"dGVzdCByZXNwb25zZQ==\"\n", i)
			}
			suiteFile, cfgFile := filepath.Join(dir, "suite.yaml"), filepath.Join(dir, "config.yaml")
			_ = os.WriteFile(suiteFile, []byte(sb.String()), 0o644)
			_ = os.WriteFile(cfgFile, []byte("features:\n  versions: [HTTP_VERSION_1]\n  protocols: [PROTOCOL_CONNECT]\n  codecs: [CODEC_PROTO]\n  compressions: [COMPRESSION_IDENTITY]\n  streamTypes: [STREAM_TYPE_UNARY]\n  supportsTls: false\n  supportsH2c: false\n  supportsConnectGet: false\n  supportsMessageReceiveLimit: false\n"), 0o644)
			flags := &Flags{ConfigFile: cfgFile, TestFiles: []string{suiteFile}, ServerCommand: vfPeerCommand("trailer-server", "", ""), MaxServers: 1, Parallelism: 2}
			switch r.Marking {
			case "failing":
				flags.KnownFailingPatterns = []string{"Verif C04/**"}
			case "flaky":
				flags.KnownFlakyPatterns = []string{"Verif C04/**"}
			}
			logP, errP := &vfC11PrinterLite{}, &vfC11PrinterLite{}
			type result struct {
				ok  bool
				err error
			}
			done := make(chan result, 1)
			go func() {
				ok, err := Run(flags, logP, errP)
				done <- result{ok, err}
			}()
			var res result
			select {
			case res = <-done:
			case <-time.After(2 * time.Minute):
				return nil // (an OS process is involved: no verdict on timing here)
			}
			out := strings.Join(logP.lines, "\n")
			if res.err != nil {
				return nil // could not run at all (environment): no verdict
			}
			if !strings.Contains(out, fmt.Sprintf("Total cases: %d", r.Cases)) {
				return nil
			}
			if !strings.Contains(out, "HTTP trailers") {
				if strings.Contains(out, fmt.Sprintf("%d passed, 0 failed", r.Cases)) && res.ok {
					return verifkit.Violf("server-mode-feedback-dropped", "every response of the server under test carried an HTTP trailer, which the reference client reports as feedback, yet the run succeeded with no case named (%+v)\noutput:\n%s", r, out)
				}
				return verifkit.Violf("server-mode-feedback-unnamed", "the reference client's feedback about the HTTP trailer appears nowhere in the report (%+v)\noutput:\n%s", r, out)
			}
			for i := 0; i < r.Cases; i++ {
				name := fmt.Sprintf("unary/case-%d", i)
				want := "FAILED: "
				if r.Marking != "none" {
					want = "INFO: "
				}
				found := false
				for _, l := range strings.Split(out, "\n") {
					if strings.HasPrefix(l, want) && strings.Contains(l, name) {
						found = true
					}
				}
				if !found {
					return verifkit.Violf("server-mode-feedback-unnamed", "case %s drew feedback from the reference client but has no %q line (%+v)\noutput:\n%s", name, want, r, out)
				}
			}
			if wantOK := r.Marking != "none"; res.ok != wantOK {
				return verifkit.Violf("server-mode-feedback-verdict", "Run = %v, want %v: every case drew feedback from the reference client, marking %s\noutput:\n%s", res.ok, wantOK, r.Marking, out)
			}
			return nil
		}()
		en.Rec.Observe(r, []string{"marking:" + r.Marking, fmt.Sprintf("cases:%d", r.Cases)}, true)
		if viol != nil && en.Fail(r, viol) {
			break
		}
	}
	en.Done(true)
}
