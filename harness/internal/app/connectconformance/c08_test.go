//go:build verif

package connectconformance

import (
	"errors"
	"google.golang.org/protobuf/types/known/anypb"
	"fmt"
	"sort"
	"strings"
	"sync"
	"testing"

	conformancev1 "connectrpc.com/conformance/internal/gen/proto/go/connectrpc/conformance/v1"
	"connectrpc.com/conformance/internal/verifkit"
	"pgregory.net/rapid"
)

// vfAllSeqs enumerates all sequences over alphabet of length minLen..maxLen.
func vfAllSeqs(alphabet []string, minLen, maxLen int) []string {
	var out []string
	var rec func(prefix []string)
	rec = func(prefix []string) {
		if len(prefix) >= minLen {
			out = append(out, strings.Join(prefix, "/"))
		}
		if len(prefix) == maxLen {
			return
		}
		for _, a := range alphabet {
			rec(append(append([]string{}, prefix...), a))
		}
	}
	rec(nil)
	return out
}

type vfC08Case struct {
	Patterns []string `json:"patterns"`
	Names    []string `json:"names"`
	Skip     []string `json:"skip,omitempty"`
}

func vfNamesToCases(names []string) []*conformancev1.TestCase {
	out := make([]*conformancev1.TestCase, len(names))
	for i, n := range names {
		out[i] = &conformancev1.TestCase{Request: &conformancev1.ClientCompatRequest{TestName: n}}
	}
	return out
}

// vfC08CheckSet checks, for one pattern set and a list of names: per-name match
// agreement with the reference matcher, and the unmatched-pattern report.
func vfC08CheckSet(c vfC08Case) error {
	trie := parsePatterns(c.Patterns)
	if trie == nil {
		if len(c.Patterns) != 0 {
			return verifkit.Violf("nil-trie", "parsePatterns returned nil for %q", c.Patterns)
		}
		return nil
	}
	// distinct patterns
	seen := map[string]struct{}{}
	var distinct []string
	for _, p := range c.Patterns {
		if _, ok := seen[p]; !ok {
			seen[p] = struct{}{}
			distinct = append(distinct, p)
		}
	}
	if trie.length() != len(distinct) {
		return verifkit.Violf("length", "trie.length()=%d, want %d distinct patterns %q", trie.length(), len(distinct), distinct)
	}
	for _, n := range c.Names {
		got := trie.matchPattern(n)
		want := vfRefAny(c.Patterns, n)
		if got != want {
			return verifkit.Violf("match", "patterns %q name %q: matchPattern=%v, glob semantics say %v", c.Patterns, n, got, want)
		}
	}
	// Now the unmatched report via the real entry point.
	trie2 := parsePatterns(c.Patterns)
	count, err := tryMatchPatterns("verif", trie2, vfNamesToCases(c.Names))
	wantCount := 0
	for _, n := range c.Names {
		if vfRefAny(c.Patterns, n) {
			wantCount++
		}
	}
	if count != wantCount {
		return verifkit.Violf("matchcount", "patterns %q names %q: tryMatchPatterns counted %d matches, want %d", c.Patterns, c.Names, count, wantCount)
	}
	reported := map[string]bool{}
	if err != nil {
		lines := strings.Split(err.Error(), "\n")
		if !strings.Contains(lines[0], "unmatched") {
			return verifkit.Violf("unmatched-text", "unexpected error text %q", err.Error())
		}
		for _, l := range lines[1:] {
			reported[l] = true
		}
	}
	for _, p := range distinct {
		matchesSome := false
		uniquely := false
		for _, n := range c.Names {
			if !vfRefGlobStr(p, n) {
				continue
			}
			matchesSome = true
			others := false
			for _, q := range distinct {
				if q != p && vfRefGlobStr(q, n) {
					others = true
					break
				}
			}
			if !others {
				uniquely = true
			}
		}
		if !matchesSome && !reported[p] {
			return verifkit.Violf("unmatched-missed", "patterns %q names %q: pattern %q matches no name but was not reported (err=%v)", c.Patterns, c.Names, p, err)
		}
		if uniquely && reported[p] {
			return verifkit.Violf("unmatched-spurious", "patterns %q names %q: pattern %q is the only one matching some name but was reported unmatched", c.Patterns, c.Names, p)
		}
	}
	for p := range reported {
		if _, ok := seen[p]; !ok {
			return verifkit.Violf("unmatched-unknown", "patterns %q: reported unknown pattern %q", c.Patterns, p)
		}
	}
	return nil
}

func vfC08Classify(c vfC08Case) ([]string, bool) {
	wild := false
	for _, p := range c.Patterns {
		if strings.Contains(p, "*") {
			wild = true
		}
	}
	some, none := false, false
	for _, n := range c.Names {
		if vfRefAny(c.Patterns, n) {
			some = true
		} else {
			none = true
		}
	}
	var classes []string
	if wild {
		classes = append(classes, "wildcard")
	}
	if some && none {
		classes = append(classes, "mixed-match")
	}
	if len(c.Patterns) >= 2 {
		classes = append(classes, "multi-pattern")
	}
	return classes, wild && some && none
}

// TestVerifC08Singles: every single pattern over {a,b,*,**} up to length 4 x
// every name over {a,b} of length 1..4 (bounded-exhaustive).
func TestVerifC08Singles(t *testing.T) {
	en := verifkit.NewEnum(t, "C08Singles")
	var rc vfC08Case
	if en.ReplayCase(&rc) {
		if err := verifkit.SafeCall(func() error { return vfC08CheckSet(rc) }); err != nil {
			en.Fail(rc, err)
		}
		en.Done(true)
		return
	}
	patterns := vfAllSeqs([]string{"a", "b", "*", "**"}, 1, 4)
	names := vfAllSeqs([]string{"a", "b"}, 1, 4)
	complete := true
	for _, p := range patterns {
		c := vfC08Case{Patterns: []string{p}, Names: names}
		err := verifkit.SafeCall(func() error { return vfC08CheckSet(c) })
		cl, nt := vfC08Classify(c)
		en.Rec.Observe(c, cl, nt)
		if err != nil {
			// narrow down to the first failing name for the replay
			for _, n := range names {
				c1 := vfC08Case{Patterns: []string{p}, Names: []string{n}}
				if err1 := verifkit.SafeCall(func() error { return vfC08CheckSet(c1) }); err1 != nil {
					c, err = c1, err1
					break
				}
			}
			if en.Fail(c, err) {
				complete = false
				break
			}
		}
	}
	en.Rec.SetExtra("patterns", len(patterns))
	en.Rec.SetExtra("names", len(names))
	en.Done(complete)
}

// TestVerifC08Pairs: every unordered pair of patterns (as above) x every name.
// Pairs matter because the trie shares prefixes and short-circuits. Sharded.
func TestVerifC08Pairs(t *testing.T) {
	en := verifkit.NewEnum(t, "C08Pairs")
	var rc vfC08Case
	if en.ReplayCase(&rc) {
		if err := verifkit.SafeCall(func() error { return vfC08CheckSet(rc) }); err != nil {
			en.Fail(rc, err)
		}
		en.Done(true)
		return
	}
	maxLen := verifkit.EnvInt("VERIF_C08_MAXLEN", 4)
	patterns := vfAllSeqs([]string{"a", "b", "*", "**"}, 1, maxLen)
	names := vfAllSeqs([]string{"a", "b"}, 1, 4)
	shard, shards := verifkit.Shard()
	complete := true
	idx := 0
outer:
	for i, p := range patterns {
		for j := i + 1; j < len(patterns); j++ {
			idx++
			if idx%shards != shard {
				continue
			}
			c := vfC08Case{Patterns: []string{p, patterns[j]}, Names: names}
			err := verifkit.SafeCall(func() error { return vfC08CheckSet(c) })
			cl, nt := vfC08Classify(c)
			en.Rec.ObserveHash(uint64(i)<<32|uint64(j), strings.Join(cl, "+"), nt)
			if idx%20011 == 1 {
				en.Rec.AddSample(vfC08Case{Patterns: c.Patterns, Names: names[:4]})
			}
			if err != nil {
				if en.Fail(vfC08Case{Patterns: c.Patterns, Names: names}, err) {
					complete = false
					break outer
				}
			}
		}
	}
	en.Rec.SetExtra("patterns", len(patterns))
	en.Rec.SetExtra("names_per_pair", len(names))
	en.Done(complete)
}

var vfC08Components = []string{"a", "b", "c", "*", "**", "a*", "**", "*"}

func vfGenPattern(t *rapid.T, label string) string {
	n := rapid.IntRange(1, 8).Draw(t, label+"-len")
	comps := make([]string, n)
	for i := range comps {
		comps[i] = rapid.SampledFrom(vfC08Components).Draw(t, label)
	}
	return strings.Join(comps, "/")
}

func vfGenName(t *rapid.T, label string) string {
	n := rapid.IntRange(1, 8).Draw(t, label+"-len")
	comps := make([]string, n)
	for i := range comps {
		comps[i] = rapid.SampledFrom([]string{"a", "b", "c", "a*"}).Draw(t, label)
	}
	return strings.Join(comps, "/")
}

// TestVerifC08Random: random pattern sets (1-6 patterns, up to 8 components)
// against random names; also run/skip composition through the real filter.
func TestVerifC08Random(t *testing.T) {
	verifkit.Run(t, "C08Random", verifkit.Spec[vfC08Case]{
		Gen: func(t *rapid.T) vfC08Case {
			var c vfC08Case
			np := rapid.IntRange(1, 6).Draw(t, "npatterns")
			for i := 0; i < np; i++ {
				c.Patterns = append(c.Patterns, vfGenPattern(t, "pat"))
			}
			ns := rapid.IntRange(0, 3).Draw(t, "nskip")
			for i := 0; i < ns; i++ {
				c.Skip = append(c.Skip, vfGenPattern(t, "skip"))
			}
			nn := rapid.IntRange(1, 10).Draw(t, "nnames")
			for i := 0; i < nn; i++ {
				// half of the names are derived from a pattern so that matches are frequent
				if rapid.Bool().Draw(t, "derived") {
					src := rapid.SampledFrom(c.Patterns).Draw(t, "src")
					var comps []string
					for _, pc := range strings.Split(src, "/") {
						switch pc {
						case "*":
							comps = append(comps, rapid.SampledFrom([]string{"a", "b", "c"}).Draw(t, "fill"))
						case "**":
							k := rapid.IntRange(0, 2).Draw(t, "k")
							for x := 0; x < k; x++ {
								comps = append(comps, rapid.SampledFrom([]string{"a", "b", "c"}).Draw(t, "fill"))
							}
						default:
							comps = append(comps, pc)
						}
					}
					if len(comps) == 0 {
						comps = []string{"a"}
					}
					c.Names = append(c.Names, strings.Join(comps, "/"))
				} else {
					c.Names = append(c.Names, vfGenName(t, "name"))
				}
			}
			return c
		},
		Check: func(c vfC08Case) error {
			if err := vfC08CheckSet(vfC08Case{Patterns: c.Patterns, Names: c.Names}); err != nil {
				return err
			}
			// run/skip composition through the real filter
			for _, variant := range []struct{ run, skip []string }{
				{c.Patterns, c.Skip}, {nil, c.Skip}, {c.Patterns, nil}, {c.Skip, c.Patterns}, {nil, nil},
			} {
				filter := newFilter(parsePatterns(variant.run), parsePatterns(variant.skip))
				cases := vfNamesToCases(c.Names)
				var want []string
				for _, n := range c.Names {
					if (len(variant.run) == 0 || vfRefAny(variant.run, n)) && !vfRefAny(variant.skip, n) {
						want = append(want, n)
					}
				}
				for _, tc := range cases {
					exp := (len(variant.run) == 0 || vfRefAny(variant.run, tc.Request.TestName)) && !vfRefAny(variant.skip, tc.Request.TestName)
					if got := filter.accept(tc); got != exp {
						return verifkit.Violf("accept", "run=%q skip=%q name=%q: accept=%v want %v", variant.run, variant.skip, tc.Request.TestName, got, exp)
					}
				}
				var got []string
				for _, tc := range filter.apply(cases) {
					got = append(got, tc.Request.TestName)
				}
				if fmt.Sprint(got) != fmt.Sprint(want) {
					return verifkit.Violf("apply", "run=%q skip=%q names=%q: apply kept %q want %q", variant.run, variant.skip, c.Names, got, want)
				}
			}
			return nil
		},
		Classify: func(c vfC08Case) ([]string, bool) {
			cl, nt := vfC08Classify(c)
			if len(c.Skip) > 0 {
				cl = append(cl, "with-skip")
			}
			return cl, nt
		},
	})
}

// ---- marking ambiguity and unmatched patterns through run() ----

type vfC08RunCase struct {
	Tests        []string `json:"tests"`
	KnownFailing []string `json:"knownFailing"`
	KnownFlaky   []string `json:"knownFlaky"`
	Run          []string `json:"run"`
	Skip         []string `json:"skip"`
	// GRPC: the one config case is gRPC over HTTP/2, so that (client mode) every test also exists as a permutation
	// against the grpc-go reference server, named with the component "(grpc server impl)" before the test name
	GRPC bool `json:"grpc,omitempty"`
}

// vfC08Names: the permutation names of the run.
func vfC08Names(c vfC08RunCase) []string {
	var names []string
	for _, n := range c.Tests {
		names = append(names, "S/TLS:false/"+n)
		if c.GRPC {
			names = append(names, "S/TLS:false/(grpc server impl)/"+n)
		}
	}
	return names
}

// vfC08Suite builds a one-suite library with the given test names; with the
// single config case used here every permutation is named "S/TLS:false/<test>".
func vfC08Suite(tests []string, grpc ...bool) map[string]*conformancev1.TestSuite {
	suites := vfC08SuiteConnect(tests)
	if len(grpc) > 0 && grpc[0] {
		suites["s.yaml"].RelevantProtocols = []conformancev1.Protocol{conformancev1.Protocol_PROTOCOL_GRPC}
		suites["s.yaml"].RelevantHttpVersions = []conformancev1.HTTPVersion{conformancev1.HTTPVersion_HTTP_VERSION_2}
	}
	return suites
}

func vfC08SuiteConnect(tests []string) map[string]*conformancev1.TestSuite {
	suite := &conformancev1.TestSuite{
		Name:                 "S",
		RelevantProtocols:    []conformancev1.Protocol{conformancev1.Protocol_PROTOCOL_CONNECT},
		RelevantHttpVersions: []conformancev1.HTTPVersion{conformancev1.HTTPVersion_HTTP_VERSION_1},
		RelevantCodecs:       []conformancev1.Codec{conformancev1.Codec_CODEC_PROTO},
		RelevantCompressions: []conformancev1.Compression{conformancev1.Compression_COMPRESSION_IDENTITY},
	}
	for _, n := range tests {
		suite.TestCases = append(suite.TestCases, &conformancev1.TestCase{
			Request: &conformancev1.ClientCompatRequest{
				TestName:        n,
				StreamType:      conformancev1.StreamType_STREAM_TYPE_UNARY,
				RequestMessages: nil,
			},
		})
	}
	return map[string]*conformancev1.TestSuite{"s.yaml": suite}
}

func vfC08ConfigCases(grpc ...bool) []configCase {
	if len(grpc) > 0 && grpc[0] {
		return []configCase{{
			Version:     conformancev1.HTTPVersion_HTTP_VERSION_2,
			Protocol:    conformancev1.Protocol_PROTOCOL_GRPC,
			Codec:       conformancev1.Codec_CODEC_PROTO,
			Compression: conformancev1.Compression_COMPRESSION_IDENTITY,
			StreamType:  conformancev1.StreamType_STREAM_TYPE_UNARY,
		}}
	}
	return []configCase{{
		Version:     conformancev1.HTTPVersion_HTTP_VERSION_1,
		Protocol:    conformancev1.Protocol_PROTOCOL_CONNECT,
		Codec:       conformancev1.Codec_CODEC_PROTO,
		Compression: conformancev1.Compression_COMPRESSION_IDENTITY,
		StreamType:  conformancev1.StreamType_STREAM_TYPE_UNARY,
	}}
}

// TestVerifC08Run drives the real run() up to the point where it would start a
// client process (the client command does not exist, so a configuration that
// passes all pattern validation ends with "error starting client").
func TestVerifC08Run(t *testing.T) {
	verifkit.Run(t, "C08Run", verifkit.Spec[vfC08RunCase]{
		Gen: func(t *rapid.T) vfC08RunCase {
			var c vfC08RunCase
			n := rapid.IntRange(1, 6).Draw(t, "ntests")
			seen := map[string]bool{}
			for len(c.Tests) < n {
				k := rapid.IntRange(1, 3).Draw(t, "depth")
				comps := make([]string, k)
				for i := range comps {
					comps[i] = rapid.SampledFrom([]string{"a", "b", "c"}).Draw(t, "comp")
				}
				name := strings.Join(comps, "/")
				if seen[name] {
					name += fmt.Sprintf("/t%d", len(c.Tests))
				}
				seen[name] = true
				c.Tests = append(c.Tests, name)
			}
			c.GRPC = rapid.IntRange(0, 2).Draw(t, "grpc") == 0
			genPats := func(label string, max int) []string {
				k := rapid.IntRange(0, max).Draw(t, label+"-n")
				var out []string
				for i := 0; i < k; i++ {
					// derive from a test name, generalising components
					src := strings.Split(rapid.SampledFrom(vfC08Names(c)).Draw(t, label+"-src"), "/")
					var comps []string
					for _, sc := range src {
						switch rapid.IntRange(0, 9).Draw(t, label+"-gen") {
						case 0, 1:
							comps = append(comps, "*")
						case 2:
							comps = append(comps, "**")
						case 3:
							// drop the component
						case 4:
							comps = append(comps, "zz")
						default:
							comps = append(comps, sc)
						}
					}
					if len(comps) == 0 {
						comps = []string{"**"}
					}
					out = append(out, strings.Join(comps, "/"))
				}
				return out
			}
			c.KnownFailing = genPats("kf", 3)
			c.KnownFlaky = genPats("kfl", 3)
			c.Run = genPats("run", 2)
			c.Skip = genPats("skip", 2)
			return c
		},
		Check: func(c vfC08RunCase) error {
			suites := vfC08Suite(c.Tests, c.GRPC)
			flags := &Flags{ClientCommand: []string{"/nonexistent/verif-no-such-client"}, MaxServers: 1, Parallelism: 1}
			results, err := run(vfC08ConfigCases(c.GRPC), vfTrieOrEmpty(c.KnownFailing), vfTrieOrEmpty(c.KnownFlaky),
				parsePatterns(c.Run), parsePatterns(c.Skip), suites, vfNullPrinter{}, vfNullPrinter{}, flags)
			if err == nil {
				return verifkit.Violf("run-no-error", "run() with a non-existent client returned no error (results=%v)", results != nil)
			}
			names := vfC08Names(c)
			unmatched := func(pats []string) []string {
				var out []string
				for _, p := range pats {
					ok := false
					for _, n := range names {
						if vfRefGlobStr(p, n) {
							ok = true
							break
						}
					}
					if !ok {
						out = append(out, p)
					}
				}
				return out
			}
			// expected error, in the order run() validates
			type stage struct {
				what string
				pats []string
			}
			for _, st := range []stage{{"known failing", c.KnownFailing}, {"known flaky", c.KnownFlaky}, {"run patterns", c.Run}, {"no-run patterns", c.Skip}} {
				um := unmatched(st.pats)
				isStageErr := strings.HasPrefix(err.Error(), st.what+": unmatched")
				if len(um) > 0 && !isStageErr {
					return verifkit.Violf("unmatched-not-rejected", "%s patterns %q match no permutation of %q but run() said: %v", st.what, um, names, err)
				}
				if isStageErr {
					// every truly unmatched pattern must be listed; a listed pattern that
					// does match something is a shadowed one (not asserted, DESIGN C08 NA)
					for _, p := range um {
						if !vfContainsLine(err.Error(), p) {
							return verifkit.Violf("unmatched-not-listed", "%s pattern %q matches nothing but is not listed in: %v", st.what, p, err)
						}
					}
					return nil
				}
			}
			if strings.Contains(err.Error(), "unmatched") {
				return verifkit.Violf("unmatched-unexpected", "unexpected unmatched error: %v", err)
			}
			var conflicts []string
			for _, n := range names {
				if vfRefAny(c.KnownFailing, n) && vfRefAny(c.KnownFlaky, n) {
					conflicts = append(conflicts, n)
				}
			}
			sort.Strings(conflicts)
			if len(conflicts) > 0 {
				if !strings.Contains(err.Error(), "ambiguous") {
					return verifkit.Violf("ambiguity-accepted", "names %q are matched as both known-failing %q and known-flaky %q but run() said: %v", conflicts, c.KnownFailing, c.KnownFlaky, err)
				}
				for _, n := range conflicts {
					if !vfContainsLine(err.Error(), n) {
						return verifkit.Violf("ambiguity-not-listed", "conflicting name %q not listed in: %v", n, err)
					}
				}
				return nil
			}
			if strings.Contains(err.Error(), "ambiguous") {
				return verifkit.Violf("ambiguity-spurious", "no name is matched by both %q and %q, yet: %v", c.KnownFailing, c.KnownFlaky, err)
			}
			if !strings.Contains(err.Error(), "error starting client") {
				return verifkit.Violf("run-unexpected-error", "expected the run to get as far as starting the client, got: %v", err)
			}
			return nil
		},
		Classify: func(c vfC08RunCase) ([]string, bool) {
			var cl []string
			names := vfC08Names(c)
			if c.GRPC {
				cl = append(cl, "grpc-impl-names")
			}
			conflict := false
			for _, n := range names {
				if vfRefAny(c.KnownFailing, n) && vfRefAny(c.KnownFlaky, n) {
					conflict = true
				}
			}
			if conflict {
				cl = append(cl, "ambiguous")
			}
			if len(c.KnownFailing) > 0 && len(c.KnownFlaky) > 0 {
				cl = append(cl, "both-markings")
			}
			return cl, len(c.KnownFailing) > 0 && len(c.KnownFlaky) > 0
		},
	})
}

func vfContainsLine(text, line string) bool {
	for _, l := range strings.Split(text, "\n") {
		if strings.TrimPrefix(l, ":") == line {
			return true
		}
	}
	return false
}

// TestVerifC08Concurrent: one pattern set consulted from several goroutines at once (the match counters of the trie
// are atomics: it is meant to be shared). Every single answer must be the reference matcher's, and afterwards a
// pattern counts as unmatched exactly if no name matched it.
func TestVerifC08Concurrent(t *testing.T) {
	verifkit.Run(t, "C08Concurrent", verifkit.Spec[vfC08Case]{
		Gen: func(t *rapid.T) vfC08Case {
			var c vfC08Case
			for i, n := 0, rapid.IntRange(1, 6).Draw(t, "npatterns"); i < n; i++ {
				c.Patterns = append(c.Patterns, vfGenPattern(t, "pat"))
			}
			for i, n := 0, rapid.IntRange(4, 16).Draw(t, "nnames"); i < n; i++ {
				c.Names = append(c.Names, vfGenName(t, "name"))
			}
			return c
		},
		Check: func(c vfC08Case) error {
			trie := parsePatterns(c.Patterns)
			if trie == nil {
				return nil
			}
			const workers, rounds = 6, 40
			errs := make(chan error, workers)
			start := make(chan struct{})
			var wg sync.WaitGroup
			for w := 0; w < workers; w++ {
				wg.Add(1)
				go func(w int) {
					defer wg.Done()
					<-start
					for r := 0; r < rounds; r++ {
						for k := range c.Names {
							name := c.Names[(k+w*3+r)%len(c.Names)]
							if got, want := trie.matchPattern(name), vfRefAny(c.Patterns, name); got != want {
								select {
								case errs <- verifkit.Violf("concurrent-match", "patterns %q name %q: matchPattern=%v while %d goroutines use the set, glob semantics say %v", c.Patterns, name, got, workers, want):
								default:
								}
								return
							}
						}
					}
				}(w)
			}
			close(start)
			wg.Wait()
			select {
			case err := <-errs:
				return err
			default:
			}
			unmatched := map[string]bool{}
			for u := range trie.allUnmatched() {
				unmatched[u] = true
			}
			for _, p := range c.Patterns {
				hit := false
				for _, n := range c.Names {
					if vfRefGlobStr(p, n) {
						hit = true
					}
				}
				// (a pattern shadowed by another one of the set may be reported unmatched although it matches: documented
				// gap of the sequential matcher too; the other direction is firm)
				if !hit && !unmatched[p] {
					return verifkit.Violf("concurrent-unmatched", "pattern %q matched no name but is not reported unmatched after concurrent use (names %q)", p, c.Names)
				}
			}
			return nil
		},
		Classify: func(c vfC08Case) ([]string, bool) {
			hits := 0
			for _, n := range c.Names {
				if vfRefAny(c.Patterns, n) {
					hits++
				}
			}
			return []string{fmt.Sprintf("matching-names:%d", hits)}, hits > 0 && hits < len(c.Names)
		},
	})
}

// ---- executed runs: what is actually run is what the patterns select, also for the permutations of the gRPC peers ----

type vfC08ExecCase struct {
	Tests []string `json:"tests"`
	Run   []string `json:"run"`
	Skip  []string `json:"skip"`
}

var vfC08Markers = []string{"", "(grpc impls)/", "(grpc client impl)/", "(grpc server impl)/"}

// TestVerifC08Exec runs the in-process reference peers (connect-go and grpc-go clients and servers) over a small gRPC
// suite with --run / --skip patterns derived from the permutation names, marker components included. The outcome map
// must have exactly the names the reference matcher selects.
func TestVerifC08Exec(t *testing.T) {
	verifkit.Run(t, "C08Exec", verifkit.Spec[vfC08ExecCase]{
		Gen: func(t *rapid.T) vfC08ExecCase {
			var c vfC08ExecCase
			c.Tests = rapid.SampledFrom([][]string{{"a"}, {"a", "b"}, {"a", "b/a"}, {"unary/x", "unary/y", "z"}}).Draw(t, "tests")
			gen := func(label string, max int) []string {
				var out []string
				for i, k := 0, rapid.IntRange(0, max).Draw(t, label+"-n"); i < k; i++ {
					src := strings.Split("S/TLS:false/"+strings.TrimSuffix(rapid.SampledFrom(vfC08Markers).Draw(t, label+"-marker"), "/")+"/"+rapid.SampledFrom(c.Tests).Draw(t, label+"-src"), "/")
					var comps []string
					for _, sc := range src {
						if sc == "" {
							continue
						}
						switch rapid.IntRange(0, 5).Draw(t, label+"-gen") {
						case 0:
							comps = append(comps, "*")
						case 1:
							comps = append(comps, "**")
						default:
							comps = append(comps, sc)
						}
					}
					out = append(out, strings.Join(comps, "/"))
				}
				return out
			}
			c.Run = gen("run", 2)
			c.Skip = gen("skip", 2)
			return c
		},
		Check: func(c vfC08ExecCase) error {
			suite := &conformancev1.TestSuite{
				Name:                 "S",
				RelevantProtocols:    []conformancev1.Protocol{conformancev1.Protocol_PROTOCOL_GRPC},
				RelevantHttpVersions: []conformancev1.HTTPVersion{conformancev1.HTTPVersion_HTTP_VERSION_2},
				RelevantCodecs:       []conformancev1.Codec{conformancev1.Codec_CODEC_PROTO},
				RelevantCompressions: []conformancev1.Compression{conformancev1.Compression_COMPRESSION_IDENTITY},
			}
			for _, n := range c.Tests {
				msg, err := anypb.New(&conformancev1.UnaryRequest{ResponseDefinition: &conformancev1.UnaryResponseDefinition{
					Response: &conformancev1.UnaryResponseDefinition_ResponseData{ResponseData: []byte("ok")}}})
				if err != nil {
					return nil
				}
				suite.TestCases = append(suite.TestCases, &conformancev1.TestCase{Request: &conformancev1.ClientCompatRequest{
					TestName: n, StreamType: conformancev1.StreamType_STREAM_TYPE_UNARY, RequestMessages: []*anypb.Any{msg}}})
			}
			configCases := []configCase{{Version: conformancev1.HTTPVersion_HTTP_VERSION_2, Protocol: conformancev1.Protocol_PROTOCOL_GRPC,
				Codec: conformancev1.Codec_CODEC_PROTO, Compression: conformancev1.Compression_COMPRESSION_IDENTITY, StreamType: conformancev1.StreamType_STREAM_TYPE_UNARY}}
			var names []string
			for _, n := range c.Tests {
				for _, m := range vfC08Markers {
					names = append(names, "S/TLS:false/"+m+n)
				}
			}
			matches := func(pats []string, name string) bool {
				for _, p := range pats {
					if vfRefGlobStr(p, name) {
						return true
					}
				}
				return false
			}
			for _, p := range append(append([]string{}, c.Run...), c.Skip...) {
				used := false
				for _, n := range names {
					if vfRefGlobStr(p, n) {
						used = true
					}
				}
				if !used {
					return nil // rejected before anything runs (C08Run)
				}
			}
			var want []string
			for _, n := range names {
				if (len(c.Run) == 0 || matches(c.Run, n)) && !matches(c.Skip, n) {
					want = append(want, n)
				}
			}
			results, err := run(configCases, &testTrie{}, &testTrie{}, parsePatterns(c.Run), parsePatterns(c.Skip),
				map[string]*conformancev1.TestSuite{"s.yaml": suite}, vfNullPrinter{}, vfNullPrinter{}, &Flags{MaxServers: 2, Parallelism: 4, ServerBind: "127.0.0.1"})
			if len(want) == 0 {
				return nil // (nothing selected: how that is reported is not what this unit is about)
			}
			if err != nil {
				if strings.Contains(err.Error(), "unmatched and possibly invalid") {
					return nil // a pattern shadowed by another one (documented gap of the unmatched-pattern report)
				}
				return verifkit.Violf("exec-run-error", "run() failed: %v (run %q skip %q tests %q)", err, c.Run, c.Skip, c.Tests)
			}
			var got []string
			for n := range results.outcomes {
				got = append(got, n)
			}
			sort.Strings(got)
			sort.Strings(want)
			if strings.Join(got, "\n") != strings.Join(want, "\n") {
				return verifkit.Violf("exec-wrong-set", "--run %q --skip %q over %q: cases with an outcome\n  %q\nselected by the patterns\n  %q", c.Run, c.Skip, names, got, want)
			}
			return nil
		},
		Classify: func(c vfC08ExecCase) ([]string, bool) {
			marker := false
			for _, p := range append(append([]string{}, c.Run...), c.Skip...) {
				if strings.Contains(p, "(grpc") {
					marker = true
				}
			}
			var cl []string
			if marker {
				cl = append(cl, "pattern-names-grpc-marker")
			}
			if len(c.Run) > 0 {
				cl = append(cl, "run")
			}
			if len(c.Skip) > 0 {
				cl = append(cl, "skip")
			}
			return cl, marker
		},
	})
}

// ---- the known-failing / known-flaky classification of recorded outcomes follows the patterns ----

type vfC08ClassCase struct {
	Names    []string `json:"names"`
	Failing  []string `json:"knownFailing"`
	Flaky    []string `json:"knownFlaky"`
	Fails    []bool   `json:"fails"`    // per name: the client's result does not match
	Sideband []bool   `json:"sideband"` // per name: the reference peer reports feedback after the outcome was recorded
	// NoOutcome: per name: no result of the client's was ever recorded for it (it timed out for that case) - the peer's
	// feedback is all there is (only together with Sideband)
	NoOutcome []bool `json:"noOutcome,omitempty"`
}

// TestVerifC08Classify: names and pattern sets over a small alphabet; every name gets an outcome (pass or failure) and
// possibly feedback afterwards. In the report a failing case is "failed (as expected)" iff a known-failing or
// known-flaky pattern matches its name (reference matcher), a passing case "was expected to fail" iff a known-failing
// pattern and no known-flaky one matches it, and anything else that failed is FAILED.
func TestVerifC08Classify(t *testing.T) {
	verifkit.Run(t, "C08Classify", verifkit.Spec[vfC08ClassCase]{
		Gen: func(t *rapid.T) vfC08ClassCase {
			var c vfC08ClassCase
			seen := map[string]bool{}
			for i, n := 0, rapid.IntRange(1, 5).Draw(t, "names"); i < n; i++ {
				k := rapid.IntRange(1, 3).Draw(t, "depth")
				comps := make([]string, k)
				for j := range comps {
					comps[j] = rapid.SampledFrom([]string{"a", "b", "c"}).Draw(t, "comp")
				}
				name := strings.Join(comps, "/")
				if seen[name] {
					continue
				}
				seen[name] = true
				c.Names = append(c.Names, name)
				c.Fails = append(c.Fails, rapid.Bool().Draw(t, "fails"))
				c.Sideband = append(c.Sideband, rapid.IntRange(0, 2).Draw(t, "sideband") == 0)
				c.NoOutcome = append(c.NoOutcome, c.Sideband[len(c.Sideband)-1] && rapid.IntRange(0, 2).Draw(t, "noOutcome") == 0)
			}
			gen := func(label string) []string {
				var out []string
				for i, k := 0, rapid.IntRange(0, 2).Draw(t, label+"-n"); i < k; i++ {
					var comps []string
					for _, sc := range strings.Split(rapid.SampledFrom(c.Names).Draw(t, label+"-src"), "/") {
						switch rapid.IntRange(0, 5).Draw(t, label+"-gen") {
						case 0:
							comps = append(comps, "*")
						case 1:
							comps = append(comps, "**")
						default:
							comps = append(comps, sc)
						}
					}
					out = append(out, strings.Join(comps, "/"))
				}
				return out
			}
			c.Failing, c.Flaky = gen("failing"), gen("flaky")
			return c
		},
		Check: func(c vfC08ClassCase) error {
			for _, n := range c.Names {
				if vfRefAny(c.Failing, n) && vfRefAny(c.Flaky, n) {
					return nil // rejected before anything runs (C08Run)
				}
			}
			results := newResults(len(c.Names), vfTrieOrEmpty(c.Failing), vfTrieOrEmpty(c.Flaky), nil)
			for i, n := range c.Names {
				if i < len(c.NoOutcome) && c.NoOutcome[i] {
					continue
				}
				var err error
				if c.Fails[i] {
					err = errors.New("result does not match")
				}
				results.setOutcome(n, false, err)
			}
			for i, n := range c.Names {
				if c.Sideband[i] {
					results.recordSideband(n, "feedback from the reference peer")
				}
			}
			printer := &vfC08Lines{}
			ok := results.report(printer)
			out := strings.Join(printer.lines, "\n")
			wantOK := true
			for i, n := range c.Names {
				failed := c.Fails[i] || c.Sideband[i]
				kf, kfl := vfRefAny(c.Failing, n), vfRefAny(c.Flaky, n)
				asExpected := strings.Contains(out, "INFO: "+n+" failed (as expected)")
				hardFail := strings.Contains(out, "FAILED: "+n+":")
				unexpectedPass := strings.Contains(out, "FAILED: "+n+" was expected to fail but did not")
				var want string
				switch {
				case failed && (kf || kfl):
					want = "as-expected"
				case failed:
					want, wantOK = "failed", false
				case kf:
					want, wantOK = "unexpected-pass", false
				default:
					want = "pass"
				}
				got := "pass"
				switch {
				case asExpected:
					got = "as-expected"
				case hardFail:
					got = "failed"
				case unexpectedPass:
					got = "unexpected-pass"
				}
				if got != want {
					return verifkit.Violf("classification:"+want+"-reported-"+got, "name %q (fails=%v, feedback afterwards=%v) with known-failing %q (matches: %v) and known-flaky %q (matches: %v) is reported as %s, want %s\noutput:\n%s",
						n, c.Fails[i], c.Sideband[i], c.Failing, kf, c.Flaky, kfl, got, want, out)
				}
			}
			if ok != wantOK {
				return verifkit.Violf("classification-verdict", "report() = %v, want %v (names %q fails %v feedback %v failing %q flaky %q)\noutput:\n%s", ok, wantOK, c.Names, c.Fails, c.Sideband, c.Failing, c.Flaky, out)
			}
			return nil
		},
		Classify: func(c vfC08ClassCase) ([]string, bool) {
			sb, pat := false, len(c.Failing)+len(c.Flaky) > 0
			for _, s := range c.Sideband {
				sb = sb || s
			}
			var cl []string
			for _, n := range c.NoOutcome {
				if n {
					cl = append(cl, "feedback-without-outcome")
					break
				}
			}
			if sb {
				cl = append(cl, "feedback-after-outcome")
			}
			if len(c.Flaky) > 0 {
				cl = append(cl, "known-flaky")
			}
			if len(c.Failing) > 0 {
				cl = append(cl, "known-failing")
			}
			return cl, pat
		},
	})
}

type vfC08Lines struct{ lines []string }

func (p *vfC08Lines) Printf(msg string, args ...any) { p.lines = append(p.lines, fmt.Sprintf(msg, args...)) }
func (p *vfC08Lines) PrefixPrintf(prefix, msg string, args ...any) {
	p.lines = append(p.lines, prefix+": "+fmt.Sprintf(msg, args...))
}
