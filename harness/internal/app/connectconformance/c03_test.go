//go:build verif

package connectconformance

import (
	"bytes"
	"fmt"
	"sort"
	"strings"
	"sync"
	"testing"

	"connectrpc.com/conformance/internal/app/connectconformance/testsuites"
	conformancev1 "connectrpc.com/conformance/internal/gen/proto/go/connectrpc/conformance/v1"
	"connectrpc.com/conformance/internal/verifkit"
	"google.golang.org/protobuf/proto"
	"google.golang.org/protobuf/reflect/protoreflect"
	"google.golang.org/protobuf/types/known/anypb"
	"google.golang.org/protobuf/types/known/emptypb"
	"pgregory.net/rapid"
)

// ---- C03: metamorphic check of (*testResults).assert ----
//
// actual := expected; one labelled deviation (must fail, naming the class);
// then any number of labelled lenient rewrites on other fields (must not change
// the verdict). Without a deviation the outcome must be nil.

type vfOp struct {
	Kind string `json:"kind"`
	A    int    `json:"a"`
	B    int    `json:"b"`
	C    int    `json:"c"`
}

type vfC03Case struct {
	Def       []byte `json:"def"`       // binary TestCase{Request{StreamType}, ExpectedResponse, OtherAllowedErrorCodes}
	DefText   string `json:"defText"`   // the same, readable (not used by replay)
	Deviation int    `json:"deviation"` // -1: none; otherwise index (mod count) into vfDeviations(def)
	Lenient   []vfOp `json:"lenient"`
}

type vfDeviation struct {
	class string // discrepancy class
	field string // field tag (lenient ops with the same tag are skipped)
	pos   int    // position (n-th payload/detail/value), 0-based
	want  string // substring that must appear in the error text
	alt   string // weaker substring accepted when the merged-metadata leniency was applied too
	apply func(actual *conformancev1.ClientResponseResult)
}

func vfFirstReqInfo(r *conformancev1.ClientResponseResult) *conformancev1.ConformancePayload_RequestInfo {
	if len(r.Payloads) > 0 {
		return r.Payloads[0].RequestInfo
	}
	return nil
}

// vfHeaderLists names the header lists of a result that the assertion compares.
type vfHdrList struct {
	what string // text used by the assertion
	get  func(r *conformancev1.ClientResponseResult) []*conformancev1.Header
	set  func(r *conformancev1.ClientResponseResult, h []*conformancev1.Header)
	qp   bool
}

func vfHdrLists() []vfHdrList {
	return []vfHdrList{
		{what: "response headers", get: func(r *conformancev1.ClientResponseResult) []*conformancev1.Header { return r.ResponseHeaders },
			set: func(r *conformancev1.ClientResponseResult, h []*conformancev1.Header) { r.ResponseHeaders = h }},
		{what: "response trailers", get: func(r *conformancev1.ClientResponseResult) []*conformancev1.Header { return r.ResponseTrailers },
			set: func(r *conformancev1.ClientResponseResult, h []*conformancev1.Header) { r.ResponseTrailers = h }},
		{what: "request headers", get: func(r *conformancev1.ClientResponseResult) []*conformancev1.Header {
			return vfFirstReqInfo(r).GetRequestHeaders()
		}, set: func(r *conformancev1.ClientResponseResult, h []*conformancev1.Header) {
			if ri := vfFirstReqInfo(r); ri != nil {
				ri.RequestHeaders = h
			}
		}},
		{what: "request query params", qp: true, get: func(r *conformancev1.ClientResponseResult) []*conformancev1.Header {
			return vfFirstReqInfo(r).GetConnectGetInfo().GetQueryParams()
		}, set: func(r *conformancev1.ClientResponseResult, h []*conformancev1.Header) {
			if ri := vfFirstReqInfo(r); ri != nil && ri.ConnectGetInfo != nil {
				ri.ConnectGetInfo.QueryParams = h
			}
		}},
	}
}

func vfCloneHeaders(h []*conformancev1.Header) []*conformancev1.Header {
	out := make([]*conformancev1.Header, len(h))
	for i, x := range h {
		out[i] = proto.Clone(x).(*conformancev1.Header)
	}
	return out
}

// vfAlterRequestAny changes the request_data of a packed request message.
func vfAlterRequestAny(a *anypb.Any) *anypb.Any {
	msg, err := anypb.UnmarshalNew(a, proto.UnmarshalOptions{})
	if err != nil {
		return nil
	}
	fd := msg.ProtoReflect().Descriptor().Fields().ByName("request_data")
	if fd == nil {
		return nil
	}
	old := msg.ProtoReflect().Get(fd).Bytes()
	msg.ProtoReflect().Set(fd, protoreflect.ValueOfBytes(append(append([]byte{}, old...), 'X')))
	out, err := anypb.New(msg)
	if err != nil {
		return nil
	}
	return out
}

// vfSmuggleIntoRequestAny: the same message with a field the message type does not define appended to its bytes
// (field 1000, length-delimited): known fields, count and order are untouched, the bytes are not.
func vfSmuggleIntoRequestAny(a *anypb.Any) *anypb.Any {
	out := proto.Clone(a).(*anypb.Any)
	out.Value = append(append([]byte{}, out.Value...), 0xc2, 0x3e, 0x08, 's', 'm', 'u', 'g', 'g', 'l', 'e', 'd')
	return out
}

var vfReqInfoName = (&conformancev1.ConformancePayload_RequestInfo{}).ProtoReflect().Descriptor().FullName()

// vfDeviations lists every applicable single deviation of the expected result,
// at every position.
func vfDeviations(def *conformancev1.TestCase) []vfDeviation {
	exp := def.ExpectedResponse
	var out []vfDeviation
	add := func(d vfDeviation) { out = append(out, d) }
	// ---- error
	if exp.Error == nil {
		add(vfDeviation{class: "error-added", field: "error", want: "received an unexpected error", apply: func(a *conformancev1.ClientResponseResult) {
			a.Error = &conformancev1.Error{Code: conformancev1.Code_CODE_UNKNOWN, Message: proto.String("verif")}
		}})
	} else {
		add(vfDeviation{class: "error-removed", field: "error", want: "expecting an error but received none", apply: func(a *conformancev1.ClientResponseResult) { a.Error = nil }})
		allowed := map[conformancev1.Code]bool{exp.Error.Code: true}
		for _, c := range def.OtherAllowedErrorCodes {
			allowed[c] = true
		}
		for code := conformancev1.Code(1); code <= 16; code++ {
			if !allowed[code] {
				code := code
				add(vfDeviation{class: "error-code", field: "error-code", pos: int(code), want: "does not match expected code", apply: func(a *conformancev1.ClientResponseResult) { a.Error.Code = code }})
			}
		}
		if exp.Error.Message != nil {
			add(vfDeviation{class: "error-message", field: "error-message", want: "does not match expected message", apply: func(a *conformancev1.ClientResponseResult) {
				a.Error.Message = proto.String(exp.Error.GetMessage() + "!")
			}})
			if exp.Error.GetMessage() != "" {
				add(vfDeviation{class: "error-message", field: "error-message", pos: 1, want: "does not match expected message", apply: func(a *conformancev1.ClientResponseResult) {
					a.Error.Message = nil
				}})
			}
		}
		add(vfDeviation{class: "detail-added", field: "error-details", pos: len(exp.Error.Details), want: "details; expecting", apply: func(a *conformancev1.ClientResponseResult) {
			extra, _ := anypb.New(&conformancev1.Header{Name: "verif-extra"})
			a.Error.Details = append(a.Error.Details, extra)
		}})
		for i := range exp.Error.Details {
			i := i
			add(vfDeviation{class: "detail-dropped", field: "error-details", pos: i, want: "details; expecting", apply: func(a *conformancev1.ClientResponseResult) {
				a.Error.Details = append(append([]*anypb.Any{}, a.Error.Details[:i]...), a.Error.Details[i+1:]...)
			}})
			add(vfDeviation{class: "detail-type", field: "error-details", pos: i, want: fmt.Sprintf("error detail #%d does not match", i+1), apply: func(a *conformancev1.ClientResponseResult) {
				repl, _ := anypb.New(&emptypb.Empty{})
				if a.Error.Details[i].TypeUrl == repl.TypeUrl {
					repl, _ = anypb.New(&conformancev1.Header{Name: "verif"})
				}
				a.Error.Details[i] = repl
			}})
			if exp.Error.Details[i].MessageName() == vfReqInfoName {
				// a RequestInfo detail is compared like the first payload's request info
				eri := &conformancev1.ConformancePayload_RequestInfo{}
				if exp.Error.Details[i].UnmarshalTo(eri) == nil {
					mut := func(f func(ri *conformancev1.ConformancePayload_RequestInfo)) func(a *conformancev1.ClientResponseResult) {
						return func(a *conformancev1.ClientResponseResult) { vfMutDetailReqInfo(a, i, f) }
					}
					if eri.TimeoutMs != nil {
						t := eri.GetTimeoutMs()
						add(vfDeviation{class: "detail-timeout-above", field: "timeout", pos: i, want: "timeout", apply: mut(func(ri *conformancev1.ConformancePayload_RequestInfo) { ri.TimeoutMs = proto.Int64(t + 1) })})
						add(vfDeviation{class: "detail-timeout-above", field: "timeout", pos: 100 + i, want: "timeout", apply: mut(func(ri *conformancev1.ConformancePayload_RequestInfo) { ri.TimeoutMs = proto.Int64(t + timeoutGraceModel) })})
						add(vfDeviation{class: "detail-timeout-missing", field: "timeout", pos: i, want: "did not echo back a timeout", apply: mut(func(ri *conformancev1.ConformancePayload_RequestInfo) { ri.TimeoutMs = nil })})
						if t-timeoutGraceModel-1 >= 0 {
							add(vfDeviation{class: "detail-timeout-below", field: "timeout", pos: i, want: "timeout", apply: mut(func(ri *conformancev1.ConformancePayload_RequestInfo) { ri.TimeoutMs = proto.Int64(t - timeoutGraceModel - 1) })})
						}
					} else {
						add(vfDeviation{class: "detail-timeout-unexpected", field: "timeout", pos: i, want: "but none was expected", apply: mut(func(ri *conformancev1.ConformancePayload_RequestInfo) { ri.TimeoutMs = proto.Int64(100) })})
					}
					for k, h := range eri.RequestHeaders {
						k, h := k, h
						add(vfDeviation{class: "detail-reqheader-missing", field: "error-details", pos: i*100 + k, want: fmt.Sprintf("actual request headers missing %q", strings.ToLower(h.Name)), apply: mut(func(ri *conformancev1.ConformancePayload_RequestInfo) {
							ri.RequestHeaders = append(ri.RequestHeaders[:k:k], ri.RequestHeaders[k+1:]...)
						})})
						add(vfDeviation{class: "detail-reqheader-value", field: "error-details", pos: i*100 + k, want: fmt.Sprintf("request headers has incorrect values for %q", strings.ToLower(h.Name)), apply: mut(func(ri *conformancev1.ConformancePayload_RequestInfo) {
							ri.RequestHeaders[k].Value = append(append([]string{}, ri.RequestHeaders[k].Value...), "verif-extra-value")
						})})
					}
					add(vfDeviation{class: "detail-echo-added", field: "error-details", pos: i, want: "request messages to be described", apply: mut(func(ri *conformancev1.ConformancePayload_RequestInfo) {
						extra, _ := anypb.New(&conformancev1.UnaryRequest{RequestData: []byte("verif")})
						ri.Requests = append(ri.Requests, extra)
					})})
					for j := range eri.Requests {
						j := j
						add(vfDeviation{class: "detail-echo-dropped", field: "error-details", pos: i*100 + j, want: "request messages to be described", apply: mut(func(ri *conformancev1.ConformancePayload_RequestInfo) {
							ri.Requests = append(ri.Requests[:j:j], ri.Requests[j+1:]...)
						})})
						if alt := vfAlterRequestAny(eri.Requests[j]); alt != nil {
							add(vfDeviation{class: "detail-echo-altered", field: "error-details", pos: i*100 + j, want: fmt.Sprintf("request #%d: did not survive round-trip", j+1), apply: mut(func(ri *conformancev1.ConformancePayload_RequestInfo) {
								ri.Requests[j] = alt
							})})
						}
						smuggled := vfSmuggleIntoRequestAny(eri.Requests[j])
						add(vfDeviation{class: "detail-echo-extra-bytes", field: "error-details", pos: i*100 + j, want: fmt.Sprintf("request #%d: did not survive round-trip", j+1), apply: mut(func(ri *conformancev1.ConformancePayload_RequestInfo) {
							ri.Requests[j] = smuggled
						})})
					}
				}
			}
			if exp.Error.Details[i].MessageName() != vfReqInfoName {
				add(vfDeviation{class: "detail-bytes", field: "error-details", pos: i, want: fmt.Sprintf("error detail #%d does not match", i+1), apply: func(a *conformancev1.ClientResponseResult) {
					d := proto.Clone(a.Error.Details[i]).(*anypb.Any)
					// re-encode a different message of the same type: set/extend its first string or bytes field
					msg, err := anypb.UnmarshalNew(d, proto.UnmarshalOptions{})
					changed := false
					if err == nil {
						fields := msg.ProtoReflect().Descriptor().Fields()
						for k := 0; k < fields.Len() && !changed; k++ {
							fd := fields.Get(k)
							if fd.IsList() || fd.IsMap() {
								continue
							}
							switch fd.Kind() {
							case protoreflect.StringKind:
								msg.ProtoReflect().Set(fd, protoreflect.ValueOfString(msg.ProtoReflect().Get(fd).String()+"~"))
								changed = true
							case protoreflect.BytesKind:
								msg.ProtoReflect().Set(fd, protoreflect.ValueOfBytes(append(append([]byte{}, msg.ProtoReflect().Get(fd).Bytes()...), '~')))
								changed = true
							case protoreflect.Int32Kind, protoreflect.Int64Kind:
								msg.ProtoReflect().Set(fd, protoreflect.ValueOfInt64(msg.ProtoReflect().Get(fd).Int()+1))
								changed = true
							}
						}
						if changed {
							if nd, err := anypb.New(msg); err == nil {
								nd.TypeUrl = d.TypeUrl
								d = nd
							} else {
								changed = false
							}
						}
					}
					if !changed {
						repl, _ := anypb.New(&conformancev1.Header{Name: "verif-bytes"})
						d = repl
					}
					a.Error.Details[i] = d
				}})
			}
		}
	}
	// ---- payloads
	add(vfDeviation{class: "payload-added", field: "payloads", pos: len(exp.Payloads), want: "response messages but instead got", apply: func(a *conformancev1.ClientResponseResult) {
		a.Payloads = append(a.Payloads, &conformancev1.ConformancePayload{Data: []byte("verif")})
	}})
	for i, p := range exp.Payloads {
		i, p := i, p
		add(vfDeviation{class: "payload-dropped", field: "payloads", pos: i, want: "response messages but instead got", apply: func(a *conformancev1.ClientResponseResult) {
			a.Payloads = append(append([]*conformancev1.ConformancePayload{}, a.Payloads[:i]...), a.Payloads[i+1:]...)
		}})
		add(vfDeviation{class: "payload-data", field: "payloads", pos: i, want: fmt.Sprintf("response #%d: expecting data", i+1), apply: func(a *conformancev1.ClientResponseResult) {
			d := append([]byte{}, a.Payloads[i].Data...)
			if len(d) == 0 {
				d = []byte{0}
			} else {
				d[len(d)/2] ^= 0x01
			}
			a.Payloads[i].Data = d
		}})
		if len(p.Data) > 1 {
			// one byte altered at the very end / very beginning of the data, whatever its length
			for _, where := range []string{"last", "first"} {
				where := where
				add(vfDeviation{class: "payload-data-" + where + "-byte", field: "payloads", pos: i, want: fmt.Sprintf("response #%d: expecting data", i+1), apply: func(a *conformancev1.ClientResponseResult) {
					d := append([]byte{}, a.Payloads[i].Data...)
					if where == "last" {
						d[len(d)-1] ^= 0x80
					} else {
						d[0] ^= 0x80
					}
					a.Payloads[i].Data = d
				}})
			}
		}
		if len(exp.Payloads) > 1 && i+1 < len(exp.Payloads) && !proto.Equal(exp.Payloads[i], exp.Payloads[i+1]) &&
			(string(exp.Payloads[i].Data) != string(exp.Payloads[i+1].Data)) {
			add(vfDeviation{class: "payload-order", field: "payloads", pos: i, want: fmt.Sprintf("response #%d: expecting data", i+1), apply: func(a *conformancev1.ClientResponseResult) {
				a.Payloads[i].Data, a.Payloads[i+1].Data = a.Payloads[i+1].Data, a.Payloads[i].Data
			}})
		}
		// echoed requests of the i-th payload
		nreq := len(p.GetRequestInfo().GetRequests())
		add(vfDeviation{class: "echo-added", field: "payloads", pos: i, want: "request messages to be described", apply: func(a *conformancev1.ClientResponseResult) {
			if a.Payloads[i].RequestInfo == nil {
				a.Payloads[i].RequestInfo = &conformancev1.ConformancePayload_RequestInfo{}
			}
			extra, _ := anypb.New(&conformancev1.UnaryRequest{RequestData: []byte("verif")})
			a.Payloads[i].RequestInfo.Requests = append(a.Payloads[i].RequestInfo.Requests, extra)
		}})
		for j := 0; j < nreq; j++ {
			j := j
			add(vfDeviation{class: "echo-dropped", field: "payloads", pos: i*100 + j, want: "request messages to be described", apply: func(a *conformancev1.ClientResponseResult) {
				ri := a.Payloads[i].RequestInfo
				ri.Requests = append(append([]*anypb.Any{}, ri.Requests[:j]...), ri.Requests[j+1:]...)
			}})
			if alt := vfAlterRequestAny(p.RequestInfo.Requests[j]); alt != nil {
				add(vfDeviation{class: "echo-altered", field: "payloads", pos: i*100 + j, want: fmt.Sprintf("request #%d: did not survive round-trip", j+1), apply: func(a *conformancev1.ClientResponseResult) {
					a.Payloads[i].RequestInfo.Requests[j] = alt
				}})
			}
			smuggled := vfSmuggleIntoRequestAny(p.RequestInfo.Requests[j])
			add(vfDeviation{class: "echo-extra-bytes", field: "payloads", pos: i*100 + j, want: fmt.Sprintf("request #%d: did not survive round-trip", j+1), apply: func(a *conformancev1.ClientResponseResult) {
				a.Payloads[i].RequestInfo.Requests[j] = smuggled
			}})
		}
	}
	// ---- header-like lists
	for _, hl := range vfHdrLists() {
		hl := hl
		list := hl.get(exp)
		for k, h := range list {
			k, h := k, h
			if !(hl.qp && len(list) < 2) { // dropping the only query param makes the list empty = not compared (documented gap, not asserted)
				add(vfDeviation{class: "meta-missing:" + hl.what, field: "meta", pos: k, want: fmt.Sprintf("actual %s missing %q", hl.what, strings.ToLower(h.Name)), alt: fmt.Sprintf("%q", strings.ToLower(h.Name)), apply: func(a *conformancev1.ClientResponseResult) {
					cur := vfCloneHeaders(hl.get(a))
					hl.set(a, append(cur[:k], cur[k+1:]...))
				}})
			}
			for n := range h.Value {
				n := n
				add(vfDeviation{class: "meta-value:" + hl.what, field: "meta", pos: k*100 + n, want: fmt.Sprintf("%s has incorrect values for %q", hl.what, strings.ToLower(h.Name)), alt: fmt.Sprintf("%q", strings.ToLower(h.Name)), apply: func(a *conformancev1.ClientResponseResult) {
					cur := vfCloneHeaders(hl.get(a))
					cur[k].Value[n] += "-verif-altered"
					hl.set(a, cur)
				}})
			}
			for n, v := range h.Value {
				n := n
				if !strings.Contains(v, ",") && strings.TrimSpace(v) != v && strings.TrimSpace(v) != "" {
					add(vfDeviation{class: "meta-value-trimmed:" + hl.what, field: "meta", pos: k*100 + n, want: fmt.Sprintf("%s has incorrect values for %q", hl.what, strings.ToLower(h.Name)), alt: fmt.Sprintf("%q", strings.ToLower(h.Name)), apply: func(a *conformancev1.ClientResponseResult) {
						cur := vfCloneHeaders(hl.get(a))
						cur[k].Value[n] = strings.TrimSpace(cur[k].Value[n])
						hl.set(a, cur)
					}})
				}
			}
			if len(h.Value) >= 1 {
				add(vfDeviation{class: "meta-value-dropped:" + hl.what, field: "meta", pos: k, want: fmt.Sprintf("%s has incorrect values for %q", hl.what, strings.ToLower(h.Name)), alt: fmt.Sprintf("%q", strings.ToLower(h.Name)), apply: func(a *conformancev1.ClientResponseResult) {
					cur := vfCloneHeaders(hl.get(a))
					cur[k].Value = cur[k].Value[:len(cur[k].Value)-1]
					if len(canonicalModel(cur[k].Value)) == len(canonicalModel(h.Value)) {
						// dropping an empty trailing value of "a," style lists is not observable; add one instead
						cur[k].Value = append(append([]string{}, h.Value...), "verif-extra-value")
					}
					hl.set(a, cur)
				}})
			}
			if cm := canonicalModel(h.Value); len(cm) >= 2 && cm[0] != cm[len(cm)-1] {
				// the values in another order (service.proto: values are "in the order they appeared")
				add(vfDeviation{class: "meta-value-order:" + hl.what, field: "meta", pos: k, want: fmt.Sprintf("%s has incorrect values for %q", hl.what, strings.ToLower(h.Name)), alt: fmt.Sprintf("%q", strings.ToLower(h.Name)), apply: func(a *conformancev1.ClientResponseResult) {
					cur := vfCloneHeaders(hl.get(a))
					vals := canonicalModel(cur[k].Value)
					vals[0], vals[len(vals)-1] = vals[len(vals)-1], vals[0]
					cur[k].Value = vals
					hl.set(a, cur)
				}})
			}
			add(vfDeviation{class: "meta-value-added:" + hl.what, field: "meta", pos: k, want: fmt.Sprintf("%s has incorrect values for %q", hl.what, strings.ToLower(h.Name)), alt: fmt.Sprintf("%q", strings.ToLower(h.Name)), apply: func(a *conformancev1.ClientResponseResult) {
				cur := vfCloneHeaders(hl.get(a))
				cur[k].Value = append(cur[k].Value, "verif-extra-value")
				hl.set(a, cur)
			}})
		}
	}
	// ---- all response metadata reported on one side where the documented leniency
	// (unary and client-stream errors) does not apply
	st := def.GetRequest().GetStreamType()
	unaryLike := st == conformancev1.StreamType_STREAM_TYPE_UNARY || st == conformancev1.StreamType_STREAM_TYPE_CLIENT_STREAM
	if exp.Error == nil || !unaryLike {
		if len(exp.ResponseHeaders) > 0 {
			add(vfDeviation{class: "meta-misattributed:headers-as-trailers", field: "meta", want: fmt.Sprintf("actual response headers missing %q", strings.ToLower(exp.ResponseHeaders[0].Name)), apply: func(a *conformancev1.ClientResponseResult) {
				a.ResponseHeaders, a.ResponseTrailers = nil, vfMergeMeta(a.ResponseHeaders, a.ResponseTrailers)
			}})
		}
		if len(exp.ResponseTrailers) > 0 {
			add(vfDeviation{class: "meta-misattributed:trailers-as-headers", field: "meta", want: fmt.Sprintf("actual response trailers missing %q", strings.ToLower(exp.ResponseTrailers[0].Name)), apply: func(a *conformancev1.ClientResponseResult) {
				a.ResponseHeaders, a.ResponseTrailers = vfMergeMeta(a.ResponseHeaders, a.ResponseTrailers), nil
			}})
		}
	}
	// ---- timeout (first payload only: that is where the runner compares it)
	if len(exp.Payloads) > 0 {
		ri := exp.Payloads[0].RequestInfo
		if ri != nil && ri.TimeoutMs != nil {
			t := ri.GetTimeoutMs()
			set := func(v *int64) func(a *conformancev1.ClientResponseResult) {
				return func(a *conformancev1.ClientResponseResult) { a.Payloads[0].RequestInfo.TimeoutMs = v }
			}
			add(vfDeviation{class: "timeout-above", field: "timeout", want: "timeout", apply: set(proto.Int64(t + 1))})
			add(vfDeviation{class: "timeout-missing", field: "timeout", want: "did not echo back a timeout", apply: set(nil)})
			if t-timeoutGraceModel-1 >= 0 {
				add(vfDeviation{class: "timeout-below", field: "timeout", want: "timeout", apply: set(proto.Int64(t - timeoutGraceModel - 1))})
			}
		} else {
			add(vfDeviation{class: "timeout-unexpected", field: "timeout", want: "but none was expected", apply: func(a *conformancev1.ClientResponseResult) {
				if a.Payloads[0].RequestInfo == nil {
					a.Payloads[0].RequestInfo = &conformancev1.ConformancePayload_RequestInfo{}
				}
				a.Payloads[0].RequestInfo.TimeoutMs = proto.Int64(100)
			}})
		}
	}
	// ---- HTTP status
	if exp.HttpStatusCode != nil {
		add(vfDeviation{class: "http-status", field: "status", want: "HTTP status code does not match", apply: func(a *conformancev1.ClientResponseResult) {
			a.HttpStatusCode = proto.Int32(exp.GetHttpStatusCode() + 1)
		}})
	}
	return out
}

const timeoutGraceModel = 500 // documented grace window in ms

// vfMutDetailReqInfo rewrites the RequestInfo packed in the i-th error detail.
func vfMutDetailReqInfo(a *conformancev1.ClientResponseResult, i int, f func(ri *conformancev1.ConformancePayload_RequestInfo)) {
	if a.Error == nil || i >= len(a.Error.Details) {
		return
	}
	ri := &conformancev1.ConformancePayload_RequestInfo{}
	if a.Error.Details[i].UnmarshalTo(ri) != nil {
		return
	}
	f(ri)
	if d, err := anypb.New(ri); err == nil {
		a.Error.Details[i] = d
	}
}

// vfMergeMeta: one bag of metadata; per name, header values followed by trailer values.
func vfMergeMeta(headers, trailers []*conformancev1.Header) []*conformancev1.Header {
	merged := vfCloneHeaders(headers)
	for _, tr := range trailers {
		found := false
		for _, m := range merged {
			if strings.EqualFold(m.Name, tr.Name) {
				m.Value = append(m.Value, tr.Value...)
				found = true
				break
			}
		}
		if !found {
			merged = append(merged, proto.Clone(tr).(*conformancev1.Header))
		}
	}
	return merged
}

// canonicalModel: comma-splitting with a single optional space around commas.
func canonicalModel(vals []string) []string {
	var out []string
	for _, v := range vals {
		parts := strings.Split(v, ",")
		for i, p := range parts {
			if i > 0 && strings.HasPrefix(p, " ") {
				p = p[1:]
			}
			if i < len(parts)-1 && strings.HasSuffix(p, " ") {
				p = p[:len(p)-1]
			}
			out = append(out, p)
		}
	}
	return out
}

func vfCleanVals(vals []string) bool {
	for _, v := range vals {
		if v != strings.TrimSpace(v) || strings.Contains(v, ",") {
			return false
		}
	}
	return true
}

// vfApplyLenient applies one lenient rewrite; returns the label if applied.
func vfApplyLenient(def *conformancev1.TestCase, a *conformancev1.ClientResponseResult, op vfOp, devField string) string {
	exp := def.ExpectedResponse
	lists := vfHdrLists()
	pick := func() (vfHdrList, []*conformancev1.Header) {
		hl := lists[((op.A%len(lists))+len(lists))%len(lists)]
		return hl, vfCloneHeaders(hl.get(a))
	}
	switch op.Kind {
	case "recase":
		hl, cur := pick()
		if len(cur) == 0 {
			return ""
		}
		k := op.B % len(cur)
		if op.C%2 == 0 {
			cur[k].Name = strings.ToUpper(cur[k].Name)
		} else {
			cur[k].Name = strings.Title(cur[k].Name) //nolint:staticcheck
		}
		hl.set(a, cur)
		return "recase"
	case "extra-meta":
		hl, cur := pick()
		if hl.what == "request headers" && vfFirstReqInfo(a) == nil {
			return ""
		}
		if hl.qp {
			// adding query params when none are expected makes no difference; when some are expected extra ones are allowed
			if vfFirstReqInfo(a) == nil || vfFirstReqInfo(a).ConnectGetInfo == nil {
				return ""
			}
		}
		cur = append(cur, &conformancev1.Header{Name: "X-Verif-Unrelated", Value: []string{"1", "2"}})
		hl.set(a, cur)
		return "extra-meta"
	case "join":
		hl, cur := pick()
		if len(cur) == 0 {
			return ""
		}
		k := op.B % len(cur)
		if len(cur[k].Value) < 2 || !vfCleanVals(cur[k].Value) {
			return ""
		}
		sep := ", "
		if op.C%2 == 1 {
			sep = ","
		}
		if op.C%4 >= 2 && len(cur[k].Value) >= 3 {
			// join only the first two
			cur[k].Value = append([]string{cur[k].Value[0] + sep + cur[k].Value[1]}, cur[k].Value[2:]...)
		} else {
			cur[k].Value = []string{strings.Join(cur[k].Value, sep)}
		}
		hl.set(a, cur)
		return "join"
	case "split":
		hl, cur := pick()
		if len(cur) == 0 {
			return ""
		}
		k := op.B % len(cur)
		var vals []string
		did := false
		for _, v := range cur[k].Value {
			if strings.Contains(v, ",") && !strings.Contains(v, " ") {
				vals = append(vals, strings.Split(v, ",")...)
				did = true
			} else {
				vals = append(vals, v)
			}
		}
		if !did {
			return ""
		}
		cur[k].Value = vals
		hl.set(a, cur)
		return "split"
	case "merge-meta":
		st := def.Request.StreamType
		if len(exp.Payloads) != 0 || exp.Error == nil ||
			(st != conformancev1.StreamType_STREAM_TYPE_UNARY && st != conformancev1.StreamType_STREAM_TYPE_CLIENT_STREAM) {
			return ""
		}
		// all metadata in one bag: per name, header values followed by trailer values
		merged := vfCloneHeaders(a.ResponseHeaders)
		for _, tr := range a.ResponseTrailers {
			found := false
			for _, m := range merged {
				if strings.EqualFold(m.Name, tr.Name) {
					m.Value = append(m.Value, tr.Value...)
					found = true
					break
				}
			}
			if !found {
				merged = append(merged, proto.Clone(tr).(*conformancev1.Header))
			}
		}
		if op.A%2 == 0 {
			a.ResponseHeaders, a.ResponseTrailers = nil, merged
		} else {
			a.ResponseHeaders, a.ResponseTrailers = merged, nil
		}
		return "merge-meta"
	case "other-code":
		if devField == "error-code" || devField == "error" || exp.Error == nil || a.Error == nil || len(def.OtherAllowedErrorCodes) == 0 {
			return ""
		}
		a.Error.Code = def.OtherAllowedErrorCodes[op.A%len(def.OtherAllowedErrorCodes)]
		return "other-code"
	case "any-message":
		if devField == "error-message" || devField == "error" || exp.Error == nil || a.Error == nil || exp.Error.Message != nil {
			return ""
		}
		a.Error.Message = proto.String(fmt.Sprintf("some message %d", op.A))
		return "any-message"
	case "timeout-window":
		if devField == "timeout" {
			return ""
		}
		if len(exp.Payloads) == 0 || len(a.Payloads) == 0 {
			// echoed timeout inside a RequestInfo error detail
			if devField == "error-details" || devField == "error" || exp.Error == nil || a.Error == nil || len(exp.Error.Details) != len(a.Error.Details) {
				return ""
			}
			for i, d := range exp.Error.Details {
				eri := &conformancev1.ConformancePayload_RequestInfo{}
				if d.MessageName() != vfReqInfoName || d.UnmarshalTo(eri) != nil || eri.TimeoutMs == nil {
					continue
				}
				t := eri.GetTimeoutMs()
				lo := t - timeoutGraceModel
				if lo < 0 {
					lo = 0
				}
				v := lo + int64(op.B)%(t-lo+1)
				if op.A%3 == 0 {
					v = lo
				}
				vfMutDetailReqInfo(a, i, func(ri *conformancev1.ConformancePayload_RequestInfo) { ri.TimeoutMs = proto.Int64(v) })
				return "timeout-window"
			}
			return ""
		}
		ri := exp.Payloads[0].RequestInfo
		if ri == nil || ri.TimeoutMs == nil || a.Payloads[0].RequestInfo == nil {
			return ""
		}
		t := ri.GetTimeoutMs()
		lo := t - timeoutGraceModel
		if lo < 0 {
			lo = 0
		}
		var v int64
		switch op.A % 3 {
		case 0:
			v = lo
		case 1:
			v = t
		default:
			v = lo + int64(op.B)%(t-lo+1)
		}
		a.Payloads[0].RequestInfo.TimeoutMs = proto.Int64(v)
		return "timeout-window"
	case "status":
		if devField == "status" {
			return ""
		}
		if exp.HttpStatusCode != nil {
			a.HttpStatusCode = nil
			return "status-dropped"
		}
		a.HttpStatusCode = proto.Int32(int32(200 + op.A%300))
		return "status-unexpected"
	case "unsent":
		a.NumUnsentRequests = int32(op.A % 5)
		return "unsent"
	}
	return ""
}

type vfC03Result struct {
	deviation *vfDeviation
	lenient   []string
	outcome   error
}

// one-entry memo: Classify and Check look at the same case one after the other
var vfC03Memo struct {
	key *byte
	dev int
	len int
	res *vfC03Result
	err error
}

func vfC03Run(c vfC03Case) (*vfC03Result, error) {
	if len(c.Def) > 0 && vfC03Memo.key == &c.Def[0] && vfC03Memo.dev == c.Deviation && vfC03Memo.len == len(c.Lenient) {
		return vfC03Memo.res, vfC03Memo.err
	}
	res, err := vfC03RunUncached(c)
	if len(c.Def) > 0 {
		vfC03Memo.key, vfC03Memo.dev, vfC03Memo.len, vfC03Memo.res, vfC03Memo.err = &c.Def[0], c.Deviation, len(c.Lenient), res, err
	}
	return res, err
}

func vfC03RunUncached(c vfC03Case) (*vfC03Result, error) {
	var def conformancev1.TestCase
	if err := proto.Unmarshal(c.Def, &def); err != nil {
		return nil, fmt.Errorf("harness: bad definition: %w", err)
	}
	if def.Request == nil {
		def.Request = &conformancev1.ClientCompatRequest{}
	}
	if def.ExpectedResponse == nil {
		def.ExpectedResponse = &conformancev1.ClientResponseResult{}
	}
	def.Request.TestName = "verif/c03"
	actual := proto.Clone(def.ExpectedResponse).(*conformancev1.ClientResponseResult)
	res := &vfC03Result{}
	devField := ""
	if c.Deviation >= 0 {
		devs := vfDeviations(&def)
		if len(devs) > 0 {
			d := devs[c.Deviation%len(devs)]
			d.apply(actual)
			res.deviation = &d
			devField = d.field
		}
	}
	for _, op := range c.Lenient {
		if l := vfApplyLenient(&def, actual, op, devField); l != "" {
			res.lenient = append(res.lenient, l)
		}
	}
	results := newResults(1, &testTrie{}, &testTrie{}, nil)
	results.assert(def.Request.TestName, &def, actual)
	results.mu.Lock()
	outcome, ok := results.outcomes[def.Request.TestName]
	results.mu.Unlock()
	if !ok {
		return res, verifkit.Violf("no-outcome", "assert recorded no outcome")
	}
	res.outcome = outcome.actualFailure
	if outcome.setupError {
		return res, verifkit.Violf("setup-flag", "assert recorded a setup error")
	}
	return res, nil
}

func vfC03Check(c vfC03Case) error {
	res, err := vfC03Run(c)
	if err != nil {
		return err
	}
	if res.deviation == nil {
		if res.outcome != nil {
			return verifkit.Violf("lenient-rejected:"+strings.Join(vfUniqSorted(res.lenient), "+"), "actual equals expected up to documented leniencies %v but the assertion failed:\n%v\nexpected: %s", res.lenient, res.outcome, c.DefText)
		}
		return nil
	}
	if res.outcome == nil {
		return verifkit.Violf("deviation-missed:"+res.deviation.class, "deviation %s at position %d (with lenient rewrites %v) was not flagged; expected: %s", res.deviation.class, res.deviation.pos, res.lenient, c.DefText)
	}
	want := res.deviation.want
	for _, l := range res.lenient {
		// with all metadata moved to one side the runner reports the original
		// attribution errors, which name the header but not necessarily the list
		if l == "merge-meta" && res.deviation.alt != "" {
			want = res.deviation.alt
		}
	}
	if !strings.Contains(res.outcome.Error(), want) {
		return verifkit.Violf("deviation-unnamed:"+res.deviation.class, "deviation %s at position %d was flagged but the text does not name it (want %q):\n%v", res.deviation.class, res.deviation.pos, res.deviation.want, res.outcome)
	}
	return nil
}

func vfUniqSorted(s []string) []string {
	m := map[string]bool{}
	for _, x := range s {
		m[x] = true
	}
	var out []string
	for x := range m {
		out = append(out, x)
	}
	sort.Strings(out)
	return out
}

func vfC03Classify(c vfC03Case) ([]string, bool) {
	res, err := vfC03Run(c)
	if err != nil || res == nil {
		return []string{"harness-error"}, false
	}
	var cl []string
	nt := false
	if res.deviation != nil {
		cl = append(cl, "dev:"+strings.SplitN(res.deviation.class, ":", 2)[0])
		if res.deviation.pos >= 1 || strings.HasPrefix(res.deviation.class, "timeout") {
			nt = true
		}
	} else {
		cl = append(cl, "lenient-only")
	}
	for _, l := range vfUniqSorted(res.lenient) {
		cl = append(cl, "len:"+l)
		if l == "merge-meta" || l == "timeout-window" || l == "join" || l == "split" {
			nt = true
		}
	}
	return cl, nt
}

// ---------------------------------------------------------------- generators

var vfHdrNames = []string{"x-a", "X-B", "x-custom-header", "Y-Trail", "z-bin", "x-a-2"}
var vfHdrVals = []string{"v1", "v2", "a,b", "hello world", "", "x;y=1", "1,2,3", " lead", "trail ", "v1"}

func vfGenHeaders(t *rapid.T, label string, max int) []*conformancev1.Header {
	n := rapid.IntRange(0, max).Draw(t, label+"-n")
	names := rapid.Permutation(vfHdrNames).Draw(t, label+"-names")
	var out []*conformancev1.Header
	for i := 0; i < n && i < len(names); i++ {
		nv := rapid.IntRange(1, 3).Draw(t, label+"-nv")
		h := &conformancev1.Header{Name: names[i]}
		for j := 0; j < nv; j++ {
			h.Value = append(h.Value, rapid.SampledFrom(vfHdrVals).Draw(t, label+"-v"))
		}
		out = append(out, h)
	}
	return out
}

func vfGenRequestAny(t *rapid.T, label string) *anypb.Any {
	data := []byte(rapid.StringMatching("[a-z]{0,6}").Draw(t, label+"-data"))
	var msg proto.Message
	switch rapid.IntRange(0, 3).Draw(t, label+"-type") {
	case 0:
		msg = &conformancev1.UnaryRequest{RequestData: data}
	case 1:
		msg = &conformancev1.ClientStreamRequest{RequestData: data}
	case 2:
		msg = &conformancev1.ServerStreamRequest{RequestData: data}
	default:
		msg = &conformancev1.BidiStreamRequest{RequestData: data, FullDuplex: true}
	}
	a, _ := anypb.New(msg)
	return a
}

func vfGenReqInfo(t *rapid.T, label string, first bool) *conformancev1.ConformancePayload_RequestInfo {
	ri := &conformancev1.ConformancePayload_RequestInfo{}
	for i, n := 0, rapid.IntRange(0, 3).Draw(t, label+"-nreq"); i < n; i++ {
		ri.Requests = append(ri.Requests, vfGenRequestAny(t, label+"-req"))
	}
	if first {
		ri.RequestHeaders = vfGenHeaders(t, label+"-hdr", 3)
		if rapid.Bool().Draw(t, label+"-hasTimeout") {
			ri.TimeoutMs = proto.Int64(rapid.SampledFrom([]int64{0, 1, 100, 499, 500, 501, 2000, 1 << 40}).Draw(t, label+"-timeout"))
		}
		if rapid.IntRange(0, 3).Draw(t, label+"-hasQP") == 0 {
			ri.ConnectGetInfo = &conformancev1.ConformancePayload_ConnectGetInfo{QueryParams: vfGenHeaders(t, label+"-qp", 3)}
		}
	}
	return ri
}

func vfGenDefinition(t *rapid.T) *conformancev1.TestCase {
	def := &conformancev1.TestCase{Request: &conformancev1.ClientCompatRequest{
		StreamType: conformancev1.StreamType(rapid.IntRange(1, 5).Draw(t, "streamType")),
	}}
	exp := &conformancev1.ClientResponseResult{}
	def.ExpectedResponse = exp
	np := rapid.IntRange(0, 4).Draw(t, "npayloads")
	for i := 0; i < np; i++ {
		p := &conformancev1.ConformancePayload{Data: rapid.SliceOfN(rapid.Byte(), 0, 12).Draw(t, "data")}
		if rapid.IntRange(0, 5).Draw(t, "bigData") == 0 {
			// (response data is not always a handful of bytes)
			p.Data = bytes.Repeat(append([]byte{byte(i)}, p.Data...), rapid.SampledFrom([]int{6, 20, 70, 400}).Draw(t, "repeat"))
		}
		if rapid.IntRange(0, 4).Draw(t, "hasRI") != 0 {
			p.RequestInfo = vfGenReqInfo(t, "ri", i == 0)
		}
		exp.Payloads = append(exp.Payloads, p)
	}
	if rapid.Bool().Draw(t, "hasError") {
		e := &conformancev1.Error{Code: conformancev1.Code(rapid.IntRange(1, 16).Draw(t, "code"))}
		switch rapid.IntRange(0, 2).Draw(t, "msgKind") {
		case 0:
			e.Message = proto.String(rapid.SampledFrom([]string{"", "oops", "a%b", "é∑"}).Draw(t, "msg"))
		}
		for i, n := 0, rapid.IntRange(0, 3).Draw(t, "ndetails"); i < n; i++ {
			var d *anypb.Any
			switch rapid.IntRange(0, 2).Draw(t, "detailKind") {
			case 0:
				d, _ = anypb.New(&conformancev1.Header{Name: rapid.SampledFrom(vfHdrNames).Draw(t, "dname"), Value: []string{"x"}})
			case 1:
				d, _ = anypb.New(vfGenReqInfo(t, "dri", true))
			default:
				d, _ = anypb.New(&conformancev1.ConformancePayload{Data: []byte("detail")})
			}
			e.Details = append(e.Details, d)
		}
		exp.Error = e
		for i, n := 0, rapid.IntRange(0, 2).Draw(t, "nother"); i < n; i++ {
			def.OtherAllowedErrorCodes = append(def.OtherAllowedErrorCodes, conformancev1.Code(rapid.IntRange(1, 16).Draw(t, "other")))
		}
	}
	exp.ResponseHeaders = vfGenHeaders(t, "rh", 3)
	exp.ResponseTrailers = vfGenHeaders(t, "rt", 3)
	if rapid.Bool().Draw(t, "hasStatus") {
		exp.HttpStatusCode = proto.Int32(int32(rapid.SampledFrom([]int{200, 400, 404, 500, 503}).Draw(t, "status")))
	}
	return def
}

var vfLenientKinds = []string{"recase", "extra-meta", "join", "split", "merge-meta", "other-code", "any-message", "timeout-window", "status", "unsent"}

func vfGenLenient(t *rapid.T) []vfOp {
	var ops []vfOp
	for i, n := 0, rapid.IntRange(0, 4).Draw(t, "nlenient"); i < n; i++ {
		ops = append(ops, vfOp{Kind: rapid.SampledFrom(vfLenientKinds).Draw(t, "lkind"),
			A: rapid.IntRange(0, 1000).Draw(t, "la"), B: rapid.IntRange(0, 1000).Draw(t, "lb"), C: rapid.IntRange(0, 3).Draw(t, "lc")})
	}
	return ops
}

func vfMakeC03Case(def *conformancev1.TestCase, deviation int, lenient []vfOp) vfC03Case {
	slim := &conformancev1.TestCase{
		Request:                &conformancev1.ClientCompatRequest{StreamType: def.GetRequest().GetStreamType()},
		ExpectedResponse:       def.ExpectedResponse,
		OtherAllowedErrorCodes: def.OtherAllowedErrorCodes,
	}
	data, _ := proto.MarshalOptions{Deterministic: true}.Marshal(slim)
	text := slim.String()
	if len(text) > 1500 {
		text = text[:1500] + "…"
	}
	return vfC03Case{Def: data, DefText: text, Deviation: deviation, Lenient: lenient}
}

func TestVerifC03Generated(t *testing.T) {
	verifkit.Run(t, "C03Generated", verifkit.Spec[vfC03Case]{
		Gen: func(t *rapid.T) vfC03Case {
			def := vfGenDefinition(t)
			dev := -1
			if rapid.IntRange(0, 3).Draw(t, "deviate") != 0 {
				dev = rapid.IntRange(0, 100000).Draw(t, "deviation")
			}
			return vfMakeC03Case(def, dev, vfGenLenient(t))
		},
		Check:    vfC03Check,
		Classify: vfC03Classify,
	})
}

// ---- corpus-sourced expectations ----

var (
	vfCorpusOnce sync.Once
	vfCorpusDefs []*conformancev1.TestCase
	vfCorpusErr  error
)

// vfCorpusDefinitions returns the distinct expected results of the expanded
// embedded corpus (default config, all three modes).
func vfCorpusDefinitions() ([]*conformancev1.TestCase, error) {
	vfCorpusOnce.Do(func() {
		data, err := testsuites.LoadTestSuites()
		if err != nil {
			vfCorpusErr = err
			return
		}
		suites, err := parseTestSuites(data)
		if err != nil {
			vfCorpusErr = err
			return
		}
		cfg, err := parseConfig("", nil)
		if err != nil {
			vfCorpusErr = err
			return
		}
		seen := map[string]bool{}
		for _, mode := range []conformancev1.TestSuite_TestMode{conformancev1.TestSuite_TEST_MODE_UNSPECIFIED, conformancev1.TestSuite_TEST_MODE_CLIENT, conformancev1.TestSuite_TEST_MODE_SERVER} {
			lib, err := newTestCaseLibrary(suites, cfg, mode)
			if err != nil {
				vfCorpusErr = err
				return
			}
			names := make([]string, 0, len(lib.testCases))
			for n := range lib.testCases {
				names = append(names, n)
			}
			sort.Strings(names)
			for _, n := range names {
				tc := lib.testCases[n]
				if tc.ExpectedResponse == nil {
					continue
				}
				c := vfMakeC03Case(tc, -1, nil)
				if seen[string(c.Def)] {
					continue
				}
				seen[string(c.Def)] = true
				vfCorpusDefs = append(vfCorpusDefs, tc)
			}
		}
	})
	return vfCorpusDefs, vfCorpusErr
}

func TestVerifC03Corpus(t *testing.T) {
	defs, err := vfCorpusDefinitions()
	if err != nil || len(defs) == 0 {
		t.Fatalf("cannot expand corpus: %v", err)
	}
	// the random unit leaves the few very large expectations (size-limit suites)
	// to the enumeration unit
	var small []*conformancev1.TestCase
	for _, d := range defs {
		if proto.Size(d.ExpectedResponse) <= 8192 {
			small = append(small, d)
		}
	}
	defs = small
	verifkit.Run(t, "C03Corpus", verifkit.Spec[vfC03Case]{
		Gen: func(t *rapid.T) vfC03Case {
			def := defs[rapid.IntRange(0, len(defs)-1).Draw(t, "def")]
			dev := -1
			if rapid.IntRange(0, 3).Draw(t, "deviate") != 0 {
				dev = rapid.IntRange(0, 100000).Draw(t, "deviation")
			}
			return vfMakeC03Case(def, dev, vfGenLenient(t))
		},
		Check:    vfC03Check,
		Classify: vfC03Classify,
	})
}

// TestVerifC03CorpusEnum: every distinct corpus expectation x identity and
// every applicable deviation at every position (no lenient rewrites).
func TestVerifC03CorpusEnum(t *testing.T) {
	en := verifkit.NewEnum(t, "C03CorpusEnum")
	var rc vfC03Case
	if en.ReplayCase(&rc) {
		if err := verifkit.SafeCall(func() error { return vfC03Check(rc) }); err != nil {
			en.Fail(rc, err)
		}
		en.Done(true)
		return
	}
	defs, err := vfCorpusDefinitions()
	if err != nil || len(defs) == 0 {
		t.Fatalf("cannot expand corpus: %v", err)
	}
	shard, shards := verifkit.Shard()
	complete := true
	total := 0
outer:
	for i, def := range defs {
		if i%shards != shard {
			continue
		}
		n := len(vfDeviations(def))
		for d := -1; d < n; d++ {
			c := vfMakeC03Case(def, d, nil)
			err := verifkit.SafeCall(func() error { return vfC03Check(c) })
			cl, nt := vfC03Classify(c)
			en.Rec.ObserveHash(uint64(i)<<20|uint64(d+1), strings.Join(cl, "+"), nt)
			total++
			if total%5003 == 1 {
				en.Rec.AddSample(map[string]any{"definition": c.DefText, "deviation": d, "classes": cl})
			}
			if err != nil {
				if en.Fail(c, err) {
					complete = false
					break outer
				}
			}
		}
	}
	en.Rec.SetExtra("distinct_corpus_expectations", len(defs))
	en.Done(complete)
}

// TestVerifC03Variants: the permutations that are run against the grpc-go peers are judged by the same expectation
// as the permutation they are derived from: for every corpus case that documents alternative error codes, a result
// carrying alternative k is accepted under each of the three marked names as well, and a code outside the list is not.
func TestVerifC03Variants(t *testing.T) {
	en := verifkit.NewEnum(t, "C03Variants")
	data, err := testsuites.LoadTestSuites()
	if err != nil {
		t.Fatal(err)
	}
	suites, err := parseTestSuites(data)
	if err != nil {
		t.Fatal(err)
	}
	cfg, err := parseConfig("", nil)
	if err != nil {
		t.Fatal(err)
	}
	type row struct {
		Name  string `json:"name"`
		Base  string `json:"base"`
		Codes string `json:"allowedCodes"`
	}
	seenDef := map[string]bool{}
	stop := false
	for _, mode := range []conformancev1.TestSuite_TestMode{conformancev1.TestSuite_TEST_MODE_UNSPECIFIED, conformancev1.TestSuite_TEST_MODE_CLIENT, conformancev1.TestSuite_TEST_MODE_SERVER} {
		lib, err := newTestCaseLibrary(suites, cfg, mode)
		if err != nil {
			t.Fatal(err)
		}
		var all []*conformancev1.TestCase
		names := make([]string, 0, len(lib.testCases))
		for n := range lib.testCases {
			names = append(names, n)
		}
		sort.Strings(names)
		for _, n := range names {
			all = append(all, lib.testCases[n])
		}
		for _, peers := range [][2]bool{{true, false}, {false, true}, {true, true}} {
			for _, v := range lib.filterGRPCImplTestCases(all, peers[0], peers[1]) {
				if stop {
					break
				}
				baseName := v.Request.TestName
				for _, m := range []string{"(grpc impls)/", "(grpc client impl)/", "(grpc server impl)/"} {
					baseName = strings.Replace(baseName, m, "", 1)
				}
				base := lib.testCases[baseName]
				if base == nil || base.ExpectedResponse == nil || base.ExpectedResponse.Error == nil {
					continue
				}
				// one representative per distinct (expectation, allowed codes, kind of peer)
				key := fmt.Sprintf("%v/%v/%v/%x", peers, base.OtherAllowedErrorCodes, base.ExpectedResponse.Error.Code, proto.Size(base.ExpectedResponse))
				if len(base.OtherAllowedErrorCodes) == 0 && seenDef[key] {
					continue
				}
				seenDef[key] = true
				r := row{Name: v.Request.TestName, Base: baseName, Codes: fmt.Sprint(base.OtherAllowedErrorCodes)}
				var viol error
				judge := func(code conformancev1.Code) error {
					actual := proto.Clone(base.ExpectedResponse).(*conformancev1.ClientResponseResult)
					actual.Error.Code = code
					results := newResults(1, &testTrie{}, &testTrie{}, nil)
					results.assert(v.Request.TestName, v, actual)
					results.mu.Lock()
					defer results.mu.Unlock()
					return results.outcomes[v.Request.TestName].actualFailure
				}
				allowed := map[conformancev1.Code]bool{base.ExpectedResponse.Error.Code: true}
				for _, c := range base.OtherAllowedErrorCodes {
					allowed[c] = true
				}
				for code := conformancev1.Code(1); code <= 16 && viol == nil; code++ {
					failure := judge(code)
					switch {
					case allowed[code] && failure != nil:
						viol = verifkit.Violf("variant-lenient-rejected:error-code", "%q (derived from %q, which allows %v besides %v): a result with code %v was rejected: %v", v.Request.TestName, baseName, base.OtherAllowedErrorCodes, base.ExpectedResponse.Error.Code, code, failure)
					case !allowed[code] && failure == nil:
						viol = verifkit.Violf("variant-deviation-missed:error-code", "%q (derived from %q, which allows %v besides %v): a result with code %v was accepted", v.Request.TestName, baseName, base.OtherAllowedErrorCodes, base.ExpectedResponse.Error.Code, code)
					}
				}
				en.Rec.Observe(r, []string{fmt.Sprintf("client-grpc:%v", peers[0]), fmt.Sprintf("server-grpc:%v", peers[1]), fmt.Sprintf("alternatives:%d", len(base.OtherAllowedErrorCodes))}, len(base.OtherAllowedErrorCodes) > 0)
				if viol != nil && en.Fail(r, viol) {
					stop = true
				}
			}
		}
	}
	en.Done(true)
}
