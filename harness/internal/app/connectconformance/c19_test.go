//go:build verif

package connectconformance

import (
	"google.golang.org/protobuf/encoding/protojson"
	"bytes"
	"fmt"
	"testing"

	conformancev1 "connectrpc.com/conformance/internal/gen/proto/go/connectrpc/conformance/v1"
	"connectrpc.com/conformance/internal/verifkit"
	"google.golang.org/protobuf/proto"
	"google.golang.org/protobuf/reflect/protoreflect"
	"google.golang.org/protobuf/types/known/anypb"
	"pgregory.net/rapid"
)

// ---- C19a: expandRequestData pads to exactly limit+offset or rejects ----

const vfServerLimit = 200 * 1024 // documented server receive limit used by the runner

type vfExpReq struct {
	Type     string `json:"type"` // unary, idempotent, client-stream, server-stream, bidi
	Data     []byte `json:"data"`
	RespData []byte `json:"respData"` // makes the fixed overhead vary
	Headers  int    `json:"headers"`
	Expand   bool   `json:"expand"` // has a directive
	HasSize  bool   `json:"hasSize"`
	Offset   int32  `json:"offset"`
	// Bare: the message has nothing but its padding field (no response definition): its smallest size is 0 bytes
	Bare bool `json:"bare,omitempty"`
}

type vfC19Case struct {
	Reqs        []vfExpReq `json:"reqs"`
	ExtraDirect int        `json:"extraDirectives"` // directives beyond the request list
	// Codecs (via a suite file): the suite's relevant codecs; nil = [CODEC_PROTO]. Sizes are computed for the binary
	// encoding, so a suite with size directives that is also relevant to another codec has unreachable sizes there
	Codecs []int32 `json:"codecs,omitempty"`
	// Via: "" calls expandRequestData directly; "suite" / "suite-limit" load a suite file that contains the
	// test case through parseTestSuites (without / with relies_on_message_receive_limit)
	Via string `json:"via"`
}

func vfBuildReq(r vfExpReq) proto.Message {
	var hdrs []*conformancev1.Header
	for i := 0; i < r.Headers; i++ {
		hdrs = append(hdrs, &conformancev1.Header{Name: fmt.Sprintf("x-h%d", i), Value: []string{"v"}})
	}
	unaryDef := &conformancev1.UnaryResponseDefinition{ResponseHeaders: hdrs}
	if len(r.RespData) > 0 {
		unaryDef.Response = &conformancev1.UnaryResponseDefinition_ResponseData{ResponseData: r.RespData}
	}
	streamDef := &conformancev1.StreamResponseDefinition{ResponseHeaders: hdrs}
	if len(r.RespData) > 0 {
		streamDef.ResponseData = [][]byte{r.RespData}
	}
	if r.Bare {
		switch r.Type {
		case "unary":
			return &conformancev1.UnaryRequest{RequestData: r.Data}
		case "idempotent":
			return &conformancev1.IdempotentUnaryRequest{RequestData: r.Data}
		case "client-stream":
			return &conformancev1.ClientStreamRequest{RequestData: r.Data}
		case "server-stream":
			return &conformancev1.ServerStreamRequest{RequestData: r.Data}
		case "bidi":
			return &conformancev1.BidiStreamRequest{RequestData: r.Data}
		}
	}
	switch r.Type {
	case "unimplemented":
		return &conformancev1.UnimplementedRequest{} // no padding field at all: no size is reachable but its own
	case "unary":
		return &conformancev1.UnaryRequest{ResponseDefinition: unaryDef, RequestData: r.Data}
	case "idempotent":
		return &conformancev1.IdempotentUnaryRequest{ResponseDefinition: unaryDef, RequestData: r.Data}
	case "client-stream":
		return &conformancev1.ClientStreamRequest{ResponseDefinition: unaryDef, RequestData: r.Data}
	case "server-stream":
		return &conformancev1.ServerStreamRequest{ResponseDefinition: streamDef, RequestData: r.Data}
	default:
		return &conformancev1.BidiStreamRequest{ResponseDefinition: streamDef, FullDuplex: true, RequestData: r.Data}
	}
}

func vfSetData(m proto.Message, data []byte) {
	fd := m.ProtoReflect().Descriptor().Fields().ByName("request_data")
	if fd == nil {
		return
	}
	if len(data) == 0 {
		m.ProtoReflect().Clear(fd)
		return
	}
	m.ProtoReflect().Set(fd, protoreflect.ValueOfBytes(data))
}

func vfGetData(m proto.Message) []byte {
	fd := m.ProtoReflect().Descriptor().Fields().ByName("request_data")
	if fd == nil {
		return nil
	}
	return m.ProtoReflect().Get(fd).Bytes()
}

// vfReachable: brute force over padding lengths (size is monotone in the
// padding length, with a jump of 2 at varint boundaries).
func vfReachable(orig proto.Message, target int64) bool {
	if orig.ProtoReflect().Descriptor().Fields().ByName("request_data") == nil {
		return false // nothing to pad with: a size directive cannot be honoured (the runner rejects it)
	}
	m := proto.Clone(orig)
	vfSetData(m, nil)
	base := int64(proto.Size(m))
	if target < base {
		return false
	}
	if target == base {
		return true
	}
	for l := target - base - 8; l <= target-base; l++ {
		if l < 1 {
			continue
		}
		vfSetData(m, make([]byte, l))
		if int64(proto.Size(m)) == target {
			return true
		}
	}
	return false
}

func vfC19Check(c vfC19Case) error {
	tc := &conformancev1.TestCase{Request: &conformancev1.ClientCompatRequest{TestName: "verif/c19"}}
	var origs []proto.Message
	for _, r := range c.Reqs {
		m := vfBuildReq(r)
		origs = append(origs, m)
		a, err := anypb.New(m)
		if err != nil {
			return nil
		}
		tc.Request.RequestMessages = append(tc.Request.RequestMessages, a)
		if r.Expand || len(tc.ExpandRequests) > 0 || true {
			es := &conformancev1.TestCase_ExpandedSize{}
			if r.Expand && r.HasSize {
				es.SizeRelativeToLimit = proto.Int32(r.Offset)
			}
			tc.ExpandRequests = append(tc.ExpandRequests, es)
		}
	}
	for i := 0; i < c.ExtraDirect; i++ {
		tc.ExpandRequests = append(tc.ExpandRequests, &conformancev1.TestCase_ExpandedSize{SizeRelativeToLimit: proto.Int32(0)})
	}
	var err error
	if c.Via == "" {
		err = expandRequestData(tc)
	} else {
		codecs := []conformancev1.Codec{conformancev1.Codec_CODEC_PROTO}
		if c.Codecs != nil {
			codecs = nil
			for _, k := range c.Codecs {
				codecs = append(codecs, conformancev1.Codec(k))
			}
		}
		suite := &conformancev1.TestSuite{Name: "Verif C19", RelevantCodecs: codecs,
			ReliesOnMessageReceiveLimit: c.Via == "suite-limit", TestCases: []*conformancev1.TestCase{tc}}
		if suite.ReliesOnMessageReceiveLimit {
			suite.Mode = conformancev1.TestSuite_TEST_MODE_SERVER
		}
		js, jerr := protojson.Marshal(suite)
		if jerr != nil {
			return nil
		}
		var parsed map[string]*conformancev1.TestSuite
		parsed, err = parseTestSuites(map[string][]byte{"verif-c19.yaml": js})
		if err == nil {
			if len(parsed) != 1 || len(parsed["verif-c19.yaml"].GetTestCases()) != 1 {
				return verifkit.Violf("expand-suite-lost", "the suite file did not come back with its one test case")
			}
			tc = parsed["verif-c19.yaml"].TestCases[0]
		}
	}
	if c.Via != "" && c.Codecs != nil && !(len(c.Codecs) == 1 && c.Codecs[0] == 1) {
		sized := false
		for _, r := range c.Reqs {
			sized = sized || (r.Expand && r.HasSize)
		}
		if sized && err == nil {
			return verifkit.Violf("expand-nonproto-accepted", "a suite relevant to codecs %v has size directives (computed for the binary encoding) and was accepted", c.Codecs)
		}
		return nil
	}
	if c.ExtraDirect > 0 {
		if err == nil {
			return verifkit.Violf("expand-too-many-accepted", "%d directives for %d requests were accepted", len(tc.ExpandRequests), len(c.Reqs))
		}
		return nil
	}
	if err != nil {
		// must be justified: some directive's target is unreachable
		for i, r := range c.Reqs {
			if !r.Expand || !r.HasSize {
				continue
			}
			target := int64(vfServerLimit) + int64(r.Offset)
			if target < 0 || !vfReachable(origs[i], target) {
				return nil
			}
		}
		return verifkit.Violf("expand-rejected", "every target size is reachable, yet the suite was rejected: %v (case %+v)", err, vfBrief(c))
	}
	for i, r := range c.Reqs {
		got, uerr := tc.Request.RequestMessages[i].UnmarshalNew()
		if uerr != nil {
			return verifkit.Violf("expand-corrupt", "request %d no longer unmarshals: %v", i, uerr)
		}
		if !r.Expand || !r.HasSize {
			if !proto.Equal(got, origs[i]) {
				return verifkit.Violf("expand-touched-other", "request %d has no size directive but was changed", i)
			}
			continue
		}
		target := int64(vfServerLimit) + int64(r.Offset)
		if int64(proto.Size(got)) != target {
			return verifkit.Violf("expand-wrong-size", "request %d (%s, offset %d): serialized size %d, want exactly %d", i, r.Type, r.Offset, proto.Size(got), target)
		}
		// nothing but the padding field changed
		a, b := proto.Clone(got), proto.Clone(origs[i])
		vfSetData(a, nil)
		vfSetData(b, nil)
		if !proto.Equal(a, b) {
			return verifkit.Violf("expand-changed-other-field", "request %d: fields other than the padding changed", i)
		}
		newData, oldData := vfGetData(got), r.Data
		if len(newData) >= len(oldData) {
			if !bytes.Equal(newData[:len(oldData)], oldData) {
				return verifkit.Violf("expand-data-rewritten", "request %d: the original data is not a prefix of the padded data", i)
			}
		} else if !bytes.Equal(oldData[:len(newData)], newData) {
			return verifkit.Violf("expand-data-rewritten", "request %d: the cut data is not a prefix of the original data", i)
		}
	}
	return nil
}

func vfBrief(c vfC19Case) string {
	var s string
	for _, r := range c.Reqs {
		s += fmt.Sprintf("{%s data=%d resp=%d hdrs=%d expand=%v size=%v offset=%d} ", r.Type, len(r.Data), len(r.RespData), r.Headers, r.Expand, r.HasSize, r.Offset)
	}
	return s
}

var vfReqTypes = []string{"unary", "idempotent", "client-stream", "server-stream", "bidi", "unary", "idempotent", "client-stream", "server-stream", "bidi", "unimplemented"}

func vfGenExpReq(t *rapid.T) vfExpReq {
	r := vfExpReq{Type: rapid.SampledFrom(vfReqTypes).Draw(t, "type"), Headers: rapid.IntRange(0, 3).Draw(t, "headers")}
	r.Data = rapid.SliceOfN(rapid.Byte(), 0, 300).Draw(t, "data")
	r.RespData = rapid.SliceOfN(rapid.Byte(), 0, 40).Draw(t, "respData")
	r.Expand = rapid.IntRange(0, 4).Draw(t, "expand") != 0
	r.HasSize = rapid.IntRange(0, 5).Draw(t, "hasSize") != 0
	r.Bare = rapid.IntRange(0, 4).Draw(t, "bare") == 0
	m := vfBuildReq(r)
	vfSetData(m, nil)
	base := proto.Size(m)
	switch rapid.IntRange(0, 5).Draw(t, "offsetKind") {
	case 0: // window around zero
		r.Offset = int32(rapid.IntRange(-300, 300).Draw(t, "around0"))
	case 1, 2: // around a varint boundary of the padding length
		lb := rapid.SampledFrom([]int{127, 128, 127, 128, 16383, 16384, 16383, 16384, 2097151, 2097152}).Draw(t, "boundary")
		vl := 1
		switch {
		case lb >= 2097152:
			vl = 4
		case lb >= 16384:
			vl = 3
		case lb >= 128:
			vl = 2
		}
		r.Offset = int32(base + 1 + vl + lb - vfServerLimit + rapid.IntRange(-6, 6).Draw(t, "d"))
	case 3: // smallest reachable sizes and below the minimum
		r.Offset = int32(base - vfServerLimit + rapid.IntRange(-60, 8).Draw(t, "nearMin"))
	case 4: // far out
		r.Offset = rapid.SampledFrom([]int32{-204800, -204801, -300000, -1 << 31, 3 << 20}).Draw(t, "far")
	default:
		r.Offset = int32(rapid.IntRange(-5000, 5000).Draw(t, "any"))
	}
	return r
}

func TestVerifC19Expand(t *testing.T) {
	verifkit.Run(t, "C19Expand", verifkit.Spec[vfC19Case]{
		Gen: func(t *rapid.T) vfC19Case {
			var c vfC19Case
			for i, n := 0, rapid.IntRange(1, 3).Draw(t, "nreqs"); i < n; i++ {
				c.Reqs = append(c.Reqs, vfGenExpReq(t))
			}
			if rapid.IntRange(0, 9).Draw(t, "extra") == 0 {
				c.ExtraDirect = rapid.IntRange(1, 2).Draw(t, "nextra")
			}
			c.Via = rapid.SampledFrom([]string{"", "", "suite", "suite-limit"}).Draw(t, "via")
			if c.Via != "" && rapid.IntRange(0, 3).Draw(t, "otherCodecs") == 0 {
				c.Codecs = rapid.SampledFrom([][]int32{{1, 2}, {2, 1}, {2}, {1}}).Draw(t, "codecs")
			}
			return c
		},
		Check: vfC19Check,
		Classify: func(c vfC19Case) ([]string, bool) {
			nt := false
			cl := []string{"via:" + c.Via}
			for _, r := range c.Reqs {
				if !r.Expand || !r.HasSize {
					continue
				}
				m := vfBuildReq(r)
				vfSetData(m, nil)
				base := proto.Size(m)
				target := vfServerLimit + int(r.Offset)
				l := target - base
				for _, lb := range []int{128, 16384, 2097152} {
					if l-lb >= -4 && l-lb <= 8 {
						nt = true
						cl = append(cl, "near-varint-boundary")
					}
				}
				if target < base {
					cl = append(cl, "below-minimum")
					nt = true
				}
				if target == 0 {
					cl = append(cl, "target-zero")
				}
			}
			return cl, nt
		},
	})
}
