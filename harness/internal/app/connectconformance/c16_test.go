//go:build verif

package connectconformance

import (
	"bytes"
	"context"
	"encoding/binary"
	"fmt"
	"net/http"
	"runtime"
	"strings"
	"sync"
	"testing"
	"time"

	conformancev1 "connectrpc.com/conformance/internal/gen/proto/go/connectrpc/conformance/v1"
	"connectrpc.com/conformance/internal/tracer"
	"connectrpc.com/conformance/internal/verifkit"
	"google.golang.org/protobuf/proto"
)

// vfTracingClient completes the HTTP trace of every call it is handed (as the reference client's transport does)
// and then answers with a result that deviates from the expectation, so that the report has to show the trace.
type vfTracingClient struct {
	tr   *tracer.Tracer
	when string // in-send: trace and answer before sendRequest returns; async: both from another goroutine
	wg   sync.WaitGroup
}

func (f *vfTracingClient) sendRequest(req *conformancev1.ClientCompatRequest, whenDone func(string, *conformancev1.ClientCompatResponse, error)) error {
	name := req.TestName
	work := func() {
		defer f.wg.Done()
		hreq, _ := http.NewRequest(http.MethodPost, "http://127.0.0.1:4242/verif", nil)
		var idx int
		_, _ = fmt.Sscanf(name[strings.LastIndex(name, "/"):], "/case-%d", &idx)
		f.tr.Complete(tracer.Trace{TestName: name, Request: hreq, Events: []tracer.Event{&tracer.ResponseBodyData{Len: uint64(1000 + idx)}}, Response: &http.Response{StatusCode: 200, Proto: "HTTP/1.1", ProtoMajor: 1, ProtoMinor: 1, Header: http.Header{"X-Verif-Traced": {name}}}})
		whenDone(name, &conformancev1.ClientCompatResponse{TestName: name, Result: &conformancev1.ClientCompatResponse_Response{
			Response: &conformancev1.ClientResponseResult{Payloads: []*conformancev1.ConformancePayload{{Data: []byte("WRONG")}}}}}, nil)
	}
	f.wg.Add(1)
	if f.when == "in-send" {
		work()
	} else {
		go work()
	}
	return nil
}
func (f *vfTracingClient) closeSend()              {}
func (f *vfTracingClient) waitForResponses() error { return nil }
func (f *vfTracingClient) isRunning() bool         { return true }
func (f *vfTracingClient) stop()                   {}

// TestVerifC16RunnerHandOff: the runner's own use of the trace hand-off (--trace): the batch runner initialises the
// slot of every call, the client completes the call's trace - possibly before the request has even been reported as
// sent - and answers with a deviating result; the report, made right after the batch, must show that call's trace
// under its FAILED entry, for every call of the batch including the last one, on one or many processors.
func TestVerifC16RunnerHandOff(t *testing.T) {
	en := verifkit.NewEnum(t, "C16RunnerHandOff")
	type row struct {
		N     int    `json:"n"`
		When  string `json:"when"`
		Procs int    `json:"procs"`
	}
	var rows []row
	for _, procs := range []int{1, 0} {
		for _, when := range []string{"in-send", "async"} {
			for _, n := range []int{1, 3} {
				rows = append(rows, row{n, when, procs})
			}
		}
	}
	var replay row
	if en.ReplayCase(&replay) {
		rows = []row{replay}
	}
	for _, r := range rows {
		viol := func() error {
			if r.Procs > 0 {
				defer runtime.GOMAXPROCS(runtime.GOMAXPROCS(r.Procs))
			}
			for round := 0; round < 20; round++ {
				var testCases []*conformancev1.TestCase
				for i := 0; i < r.N; i++ {
					testCases = append(testCases, &conformancev1.TestCase{Request: &conformancev1.ClientCompatRequest{TestName: fmt.Sprintf("Suite/verif-c16/round-%d/case-%d", round, i),
						StreamType: conformancev1.StreamType_STREAM_TYPE_UNARY, Protocol: conformancev1.Protocol_PROTOCOL_CONNECT, HttpVersion: conformancev1.HTTPVersion_HTTP_VERSION_1},
						ExpectedResponse: &conformancev1.ClientResponseResult{Payloads: []*conformancev1.ConformancePayload{{Data: []byte("right")}}}})
				}
				data, _ := proto.Marshal(&conformancev1.ServerCompatResponse{Host: "127.0.0.1", Port: 4242})
				var l [4]byte
				binary.BigEndian.PutUint32(l[:], uint32(len(data)))
				proc := &vfFakeProc{done: make(chan struct{})}
				starter := processStarter(func(context.Context, bool) (*process, error) {
					return &process{processController: proc, stdin: &vfFakeStdin{}, stdout: bytes.NewReader(append(l[:], data...)), stderr: strings.NewReader("")}, nil
				})
				tr := &tracer.Tracer{}
				results := newResults(r.N, &testTrie{}, &testTrie{}, tr)
				client := &vfTracingClient{tr: tr, when: r.When}
				logP, errP := &vfC11Printer{}, &vfC11Printer{}
				done := make(chan struct{})
				start := time.Now()
				go func() {
					defer close(done)
					runTestCasesForServer(context.Background(), true, false, serverInstance{protocol: conformancev1.Protocol_PROTOCOL_CONNECT, httpVersion: conformancev1.HTTPVersion_HTTP_VERSION_1},
						testCases, nil, nil, starter, logP, errP, results, client, tr, false)
					client.wg.Wait()
					results.report(logP)
				}()
				select {
				case <-done:
				case <-time.After(60 * time.Second):
					return verifkit.Violf("runner-handoff-hang", "batch and report did not finish within 60s")
				}
				took := time.Since(start)
				logP.mu.Lock()
				out := strings.Join(logP.lines, "\n")
				logP.mu.Unlock()
				for idx, tc := range testCases {
					name := tc.Request.TestName
					i := strings.Index(out, "FAILED: "+name)
					if i < 0 {
						return verifkit.Violf("runner-handoff-verdict", "%q deviated but the report has no FAILED entry for it\n%s", name, out)
					}
					entry := out[i:]
					if j := strings.Index(entry[1:], "FAILED: "); j >= 0 {
						entry = entry[:j+1]
					}
					if !strings.Contains(entry, "---- HTTP Trace ----") || !strings.Contains(entry, fmt.Sprintf("data: %d bytes", 1000+idx)) {
						return verifkit.Violf("runner-handoff-trace-missing", "the client completed the trace of %q (%s) but the report shows none under its FAILED entry (batch of %d, GOMAXPROCS %d, round %d, took %v)\n%s", name, r.When, r.N, r.Procs, round, took, entry)
					}
				}
				// (a waiter that sat out the trace timeout comes back without its trace, which the check above reports;
				// how long a round took is not judged: a busy machine may be slow)
			}
			return nil
		}()
		en.Rec.Observe(r, []string{"when:" + r.When, fmt.Sprintf("procs:%d", r.Procs)}, true)
		if viol != nil && en.Fail(r, viol) {
			break
		}
	}
	en.Done(true)
}
