//go:build verif

package connectconformance

import (
	"fmt"
	"sort"

	conformancev1 "connectrpc.com/conformance/internal/gen/proto/go/connectrpc/conformance/v1"
	"google.golang.org/protobuf/encoding/protojson"
	"google.golang.org/protobuf/proto"
	"pgregory.net/rapid"
)

// ---------------------------------------------------------------- model
//
// Written from docs/configuring_and_running_tests.md, config.proto and the
// statement of C06; shares no code with config.go.

type vfFeat struct {
	versions, protocols, codecs, compressions, streams []int32
	h2c, tls, certs, trailers, halfH1, get, limit      bool
}

// vfTri is a tri-state flag: 0 absent, 1 true, 2 false.
type vfTri int

func (t vfTri) val(def bool) bool {
	switch t {
	case 1:
		return true
	case 2:
		return false
	}
	return def
}

func (t vfTri) ptr() *bool {
	switch t {
	case 1:
		b := true
		return &b
	case 2:
		b := false
		return &b
	}
	return nil
}

type vfCfgEntry struct {
	Version, Protocol, Codec, Compression, Stream int32
	TLS, Certs, Limit                             vfTri
}

type vfCfg struct {
	Versions, Protocols, Codecs, Compressions, Streams []int32
	H2C, TLS, Certs, Trailers, HalfH1, Get, Limit      vfTri
	Include, Exclude                                   []vfCfgEntry
	// NoFeaturesKey: nothing is said about features and the file has no "features" key at all (only include / exclude
	// entries): the defaults apply, the entries count
	NoFeaturesKey bool
}

func vfHas(s []int32, v int32) bool {
	for _, x := range s {
		if x == v {
			return true
		}
	}
	return false
}

// vfResolve applies the documented defaults. contradiction != "" means the
// features are contradictory by the rules named in the statement/docs.
func vfResolve(c vfCfg) (f vfFeat, contradiction string) {
	f = vfFeat{
		versions: c.Versions, protocols: c.Protocols, codecs: c.Codecs, compressions: c.Compressions, streams: c.Streams,
		h2c: c.H2C.val(true), tls: c.TLS.val(true), certs: c.Certs.val(false), trailers: c.Trailers.val(true),
		halfH1: c.HalfH1.val(false), get: c.Get.val(true), limit: c.Limit.val(true),
	}
	if f.certs && !f.tls {
		return f, "client certs without TLS"
	}
	if len(f.versions) == 0 {
		// "If not configured, support is assumed for HTTP 1.1 and HTTP/2" - HTTP/2
		// only as far as it is possible at all (needs TLS or H2C).
		if f.tls || f.h2c {
			f.versions = []int32{1, 2}
		} else {
			f.versions = []int32{1}
		}
	} else if c.H2C == 1 && !vfHas(f.versions, 2) {
		return f, "H2C declared without HTTP/2"
	}
	if vfHas(f.versions, 3) && !f.tls {
		return f, "HTTP/3 without TLS"
	}
	if vfHas(f.versions, 2) && !f.tls && !f.h2c {
		return f, "HTTP/2 without TLS or H2C"
	}
	has2 := vfHas(f.versions, 2)
	if vfHas(f.protocols, 2) && !f.trailers {
		return f, "gRPC without trailers"
	}
	if vfHas(f.protocols, 2) && !has2 {
		return f, "gRPC without HTTP/2"
	}
	if len(f.protocols) == 0 {
		if f.trailers && has2 {
			f.protocols = []int32{1, 2, 3}
		} else {
			f.protocols = []int32{1, 3}
		}
	}
	if len(f.codecs) == 0 {
		f.codecs = []int32{1, 2}
	}
	if len(f.compressions) == 0 {
		f.compressions = []int32{1, 2}
	}
	onlyH1 := !has2 && !vfHas(f.versions, 3)
	if vfHas(f.streams, 5) && onlyH1 {
		return f, "full-duplex with only HTTP/1.1"
	}
	if vfHas(f.streams, 4) && onlyH1 && !f.halfH1 {
		return f, "half-duplex with only HTTP/1.1"
	}
	if len(f.streams) == 0 {
		f.streams = []int32{1, 2, 3}
		if !onlyH1 || f.halfH1 {
			f.streams = append(f.streams, 4)
		}
		if !onlyH1 {
			f.streams = append(f.streams, 5)
		}
	}
	return f, ""
}

// vfPossible is the model-free validity predicate (the seven impossibility
// rules of the statement), relative to the two features it mentions.
func vfPossible(t configCase, h2c, halfH1 bool) string {
	switch {
	case t.Protocol == 2 && t.Version != 2:
		return "gRPC not over HTTP/2"
	case t.Version == 3 && !t.UseTLS:
		return "HTTP/3 without TLS"
	case t.Version == 2 && !t.UseTLS && !h2c:
		return "cleartext HTTP/2 without H2C support"
	case t.UseTLSClientCerts && !t.UseTLS:
		return "client certs without TLS"
	case t.StreamType == 5 && t.Version == 1:
		return "full-duplex over HTTP/1.1"
	case t.StreamType == 4 && t.Version == 1 && !halfH1:
		return "half-duplex over HTTP/1.1 not declared"
	case t.UseConnectGET && t.Protocol != 1:
		return "GET without Connect"
	case t.Codec == 3:
		return "deprecated text codec"
	case t.Version < 1 || t.Version > 3 || t.Protocol < 1 || t.Protocol > 3 || t.Codec < 1 || t.Compression < 1 || t.Compression > 6 || t.StreamType < 1 || t.StreamType > 5:
		return "unspecified axis value"
	}
	return ""
}

func vfBools(allowTrue bool) []bool {
	if allowTrue {
		return []bool{false, true}
	}
	return []bool{false}
}

// vfExpand: all possible tuples over the given axis values.
func vfExpand(f vfFeat, versions, protocols, codecs, comps, streams []int32, tls, certs, limit []bool) map[configCase]struct{} {
	out := map[configCase]struct{}{}
	for _, v := range versions {
		for _, p := range protocols {
			for _, c := range codecs {
				for _, z := range comps {
					for _, s := range streams {
						for _, t := range tls {
							for _, cc := range certs {
								for _, l := range limit {
									for _, g := range vfBools(f.get) {
										tc := configCase{
											Version: conformancev1.HTTPVersion(v), Protocol: conformancev1.Protocol(p),
											Codec: conformancev1.Codec(c), Compression: conformancev1.Compression(z),
											StreamType: conformancev1.StreamType(s), UseTLS: t, UseTLSClientCerts: cc,
											UseConnectGET: g, UseMessageReceiveLimit: l,
										}
										if vfPossible(tc, f.h2c, f.halfH1) == "" {
											out[tc] = struct{}{}
										}
									}
								}
							}
						}
					}
				}
			}
		}
	}
	return out
}

func vfCasesOfFeatures(f vfFeat) map[configCase]struct{} {
	return vfExpand(f, f.versions, f.protocols, f.codecs, f.compressions, f.streams, vfBools(f.tls), vfBools(f.certs), vfBools(f.limit))
}

func vfOr(v int32, all []int32) []int32 {
	if v != 0 {
		return []int32{v}
	}
	return all
}

func vfTriBools(t vfTri, supported bool) []bool {
	switch t {
	case 1:
		return []bool{true}
	case 2:
		return []bool{false}
	}
	return vfBools(supported)
}

// vfEntry: an entry's set fields fix the axis; omitted ones range over the features.
func vfEntry(f vfFeat, e vfCfgEntry) map[configCase]struct{} {
	return vfExpand(f, vfOr(e.Version, f.versions), vfOr(e.Protocol, f.protocols), vfOr(e.Codec, f.codecs),
		vfOr(e.Compression, f.compressions), vfOr(e.Stream, f.streams),
		vfTriBools(e.TLS, f.tls), vfTriBools(e.Certs, f.certs), vfTriBools(e.Limit, f.limit))
}

// ---------------------------------------------------------------- to proto

func vfEnums[T ~int32](vals []int32) []T {
	var out []T
	for _, v := range vals {
		out = append(out, T(v))
	}
	return out
}

func vfEntryProto(e vfCfgEntry) *conformancev1.ConfigCase {
	return &conformancev1.ConfigCase{
		Version: conformancev1.HTTPVersion(e.Version), Protocol: conformancev1.Protocol(e.Protocol),
		Codec: conformancev1.Codec(e.Codec), Compression: conformancev1.Compression(e.Compression),
		StreamType: conformancev1.StreamType(e.Stream), UseTls: e.TLS.ptr(), UseTlsClientCerts: e.Certs.ptr(),
		UseMessageReceiveLimit: e.Limit.ptr(),
	}
}

func vfCfgProto(c vfCfg) *conformancev1.Config {
	cfg := &conformancev1.Config{Features: &conformancev1.Features{
		Versions: vfEnums[conformancev1.HTTPVersion](c.Versions), Protocols: vfEnums[conformancev1.Protocol](c.Protocols),
		Codecs: vfEnums[conformancev1.Codec](c.Codecs), Compressions: vfEnums[conformancev1.Compression](c.Compressions),
		StreamTypes: vfEnums[conformancev1.StreamType](c.Streams),
		SupportsH2C: c.H2C.ptr(), SupportsTls: c.TLS.ptr(), SupportsTlsClientCerts: c.Certs.ptr(), SupportsTrailers: c.Trailers.ptr(),
		SupportsHalfDuplexBidiOverHttp1: c.HalfH1.ptr(), SupportsConnectGet: c.Get.ptr(), SupportsMessageReceiveLimit: c.Limit.ptr(),
	}}
	if c.NoFeaturesKey && proto.Size(cfg.Features) == 0 {
		cfg.Features = nil
	}
	for _, e := range c.Include {
		cfg.IncludeCases = append(cfg.IncludeCases, vfEntryProto(e))
	}
	for _, e := range c.Exclude {
		cfg.ExcludeCases = append(cfg.ExcludeCases, vfEntryProto(e))
	}
	return cfg
}

func vfCfgBytes(c vfCfg) []byte {
	data, err := protojson.Marshal(vfCfgProto(c))
	if err != nil {
		panic(err)
	}
	if string(data) == "{}" {
		data = []byte("features: {}\n")
	}
	return data
}

func vfCaseStr(t configCase) string {
	return fmt.Sprintf("{v%d p%d c%d z%d s%d tls=%v certs=%v get=%v limit=%v cvm=%d}", t.Version, t.Protocol, t.Codec, t.Compression, t.StreamType,
		t.UseTLS, t.UseTLSClientCerts, t.UseConnectGET, t.UseMessageReceiveLimit, t.ConnectVersionMode)
}

func vfSetDiff(a, b map[configCase]struct{}) []string {
	var out []string
	for k := range a {
		if _, ok := b[k]; !ok {
			out = append(out, vfCaseStr(k))
		}
	}
	sort.Strings(out)
	if len(out) > 6 {
		out = append(out[:6], fmt.Sprintf("... (%d in total)", len(out)))
	}
	return out
}

func vfToSet(cases []configCase) (map[configCase]struct{}, bool) {
	set := map[configCase]struct{}{}
	for _, c := range cases {
		set[c] = struct{}{}
	}
	return set, len(set) == len(cases)
}

// ---------------------------------------------------------------- generators

func vfGenTri(t *rapid.T, label string) vfTri {
	switch rapid.IntRange(0, 3).Draw(t, label) {
	case 0:
		return 1
	case 1:
		return 2
	}
	return 0
}

func vfGenSubset(t *rapid.T, label string, max int32, extra ...int32) []int32 {
	if rapid.IntRange(0, 2).Draw(t, label+"-empty") == 0 {
		return nil
	}
	universe := []int32{}
	for i := int32(1); i <= max; i++ {
		universe = append(universe, i)
	}
	universe = append(universe, extra...)
	n := rapid.IntRange(1, len(universe)+1).Draw(t, label+"-n")
	var out []int32
	for i := 0; i < n; i++ {
		out = append(out, rapid.SampledFrom(universe).Draw(t, label))
	}
	return out
}

func vfGenEntry(t *rapid.T, label string) vfCfgEntry {
	opt := func(l string, max int32) int32 {
		if rapid.Bool().Draw(t, label+l+"-set") {
			return rapid.Int32Range(1, max).Draw(t, label+l)
		}
		return 0
	}
	return vfCfgEntry{
		Version: opt("version", 3), Protocol: opt("protocol", 3), Codec: opt("codec", 3), Compression: opt("compression", 6),
		Stream: opt("stream", 5), TLS: vfGenTri(t, label+"tls"), Certs: vfGenTri(t, label+"certs"), Limit: vfGenTri(t, label+"limit"),
	}
}

func vfGenCfg(t *rapid.T) vfCfg {
	c := vfCfg{
		Versions: vfGenSubset(t, "versions", 3), Protocols: vfGenSubset(t, "protocols", 3), Codecs: vfGenSubset(t, "codecs", 2, 3),
		Compressions: vfGenSubset(t, "compressions", 6), Streams: vfGenSubset(t, "streams", 5),
		H2C: vfGenTri(t, "h2c"), TLS: vfGenTri(t, "tls"), Certs: vfGenTri(t, "certs"), Trailers: vfGenTri(t, "trailers"),
		HalfH1: vfGenTri(t, "halfh1"), Get: vfGenTri(t, "get"), Limit: vfGenTri(t, "limit"),
	}
	if rapid.IntRange(0, 9).Draw(t, "noFeaturesKey") == 0 {
		c = vfCfg{NoFeaturesKey: true}
	}
	for i, n := 0, rapid.IntRange(0, 3).Draw(t, "ninclude"); i < n; i++ {
		c.Include = append(c.Include, vfGenEntry(t, "inc"))
	}
	for i, n := 0, rapid.IntRange(0, 3).Draw(t, "nexclude"); i < n; i++ {
		c.Exclude = append(c.Exclude, vfGenEntry(t, "exc"))
	}
	return c
}
