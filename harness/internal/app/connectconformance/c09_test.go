//go:build verif

package connectconformance

import (
	"bytes"
	"context"
	"encoding/binary"
	"fmt"
	"io"
	"strings"
	"sync"
	"testing"
	"time"

	"connectrpc.com/conformance/internal"
	conformancev1 "connectrpc.com/conformance/internal/gen/proto/go/connectrpc/conformance/v1"
	"connectrpc.com/conformance/internal/verifkit"
	"google.golang.org/protobuf/proto"
)

// TestVerifC09ServerResponse: the length-prefixed server response read by the batch runner, at the size limit and in
// any chunking (harness in c11_test.go, borrowed with "with": ["C11"]).
func TestVerifC09ServerResponse(t *testing.T) { vfServerResponseSizes(t, "C09ServerResponse") }

// TestVerifC09ClientStall: the runner's reader of a client's standard output (clientProcessRunner.consumeOutput), with
// an in-process client that answers k requests, then takes the next one and stalls - before writing anything, inside
// the length prefix, or inside the message. The request that is waiting must get its error callback within the
// response period (20 s, counted from the moment the runner began to wait for the next message, so never more than
// 20 s after the request was handed over) and the error must say how much had arrived.
func TestVerifC09ClientStall(t *testing.T) {
	en := verifkit.NewEnum(t, "C09ClientStall")
	type row struct {
		Answered int    `json:"answered"` // requests answered in full before the stall
		StallAt  string `json:"stallAt"`  // nothing, prefix, message
		GapMs    int    `json:"gapMs"`    // pause between the last answer and the next request (the reader is already waiting then)
	}
	var rows []row
	for _, answered := range []int{0, 1, 3} {
		for _, at := range []string{"nothing", "prefix", "message"} {
			gap := 0
			if answered == 1 {
				gap = 300
			}
			rows = append(rows, row{answered, at, gap})
		}
	}
	var replay row
	if en.ReplayCase(&replay) {
		rows = []row{replay}
	}
	frame := func(name string) []byte {
		data, _ := proto.Marshal(&conformancev1.ClientCompatResponse{TestName: name, Result: &conformancev1.ClientCompatResponse_Response{Response: &conformancev1.ClientResponseResult{}}})
		out := make([]byte, 4, 4+len(data))
		binary.BigEndian.PutUint32(out, uint32(len(data)))
		return append(out, data...)
	}
	release := make(chan struct{})
	defer close(release)
	var mu sync.Mutex
	var wg sync.WaitGroup
	for _, r := range rows {
		wg.Add(1)
		go func(r row) {
			defer wg.Done()
			client := func(ctx context.Context, _ []string, in io.ReadCloser, out, _ io.WriteCloser) error {
				for i := 0; ; i++ {
					req := &conformancev1.ClientCompatRequest{}
					if err := internal.ReadDelimitedMessage(in, req, "runner", time.Minute, 1<<20); err != nil {
						return nil
					}
					full := frame(req.TestName)
					if i < r.Answered {
						_, _ = out.Write(full)
						continue
					}
					switch r.StallAt {
					case "prefix":
						_, _ = out.Write(full[:2])
					case "message":
						_, _ = out.Write(full[:4+(len(full)-4)/2])
					}
					select {
					case <-release:
					case <-ctx.Done():
					}
					return nil
				}
			}
			started := time.Now() // (the reader's first wait cannot begin before this)
			runner, err := runClient(context.Background(), runInProcess([]string{"verif-stalling-client"}, client))
			if err != nil {
				return
			}
			defer runner.stop()
			var viol error
			type cb struct {
				err error
				at  time.Time
			}
			for i := 0; i <= r.Answered && viol == nil; i++ {
				if i == r.Answered && r.GapMs > 0 {
					time.Sleep(time.Duration(r.GapMs) * time.Millisecond)
				}
				name := fmt.Sprintf("verif/c09/case-%d", i)
				got := make(chan cb, 4)
				sent := time.Now()
				if err := runner.sendRequest(&conformancev1.ClientCompatRequest{TestName: name}, func(_ string, _ *conformancev1.ClientCompatResponse, err error) {
					got <- cb{err, time.Now()}
				}); err != nil {
					viol = verifkit.Violf("stall-send-refused", "request %d was refused: %v", i, err)
					break
				}
				select {
				case c := <-got:
					waited := c.at.Sub(sent)
					if i < r.Answered {
						if c.err != nil {
							viol = verifkit.Violf("stall-answered-failed", "request %d was answered in full but its callback got %v", i, c.err)
						}
						continue
					}
					size := len(frame(name)) - 4
					want := map[string]string{"nothing": "timed out waiting for result from client", "prefix": "read 2/4 bytes of length prefix",
						"message": fmt.Sprintf("read %d/%d bytes of message", size/2, size)}[r.StallAt]
					switch {
					case c.err == nil:
						viol = verifkit.Violf("stall-no-error", "the client stalled (%s) but the waiting request got a response", r.StallAt)
					case !strings.Contains(c.err.Error(), "timed out") || !strings.Contains(c.err.Error(), want):
						viol = verifkit.Violf("stall-error-text", "stall at %s after %d answers: error %q does not say %q", r.StallAt, r.Answered, c.err, want)
					case r.StallAt == "nothing" && strings.Contains(c.err.Error(), "bytes of"):
						viol = verifkit.Violf("stall-error-text", "nothing arrived but the error names progress: %q", c.err)
					case c.at.Sub(started) < 15*time.Second && r.Answered == 0 && r.GapMs == 0:
						// (the wait began when the client was started; measured from before that, so that a slow
						// machine cannot make a timely error look early)
						viol = verifkit.Violf("stall-early", "timeout error only %v after the client was started (%v after the request)", c.at.Sub(started), waited)
					}
				case <-time.After(45 * time.Second):
					if i < r.Answered {
						return // the machine is too slow to judge
					}
					select {
					case <-got:
						return // it did come, late: a machine too busy to judge by - no verdict
					case <-time.After(3 * time.Minute):
					}
					viol = verifkit.Violf("stall-no-timeout", "the client stalled (%s, after %d answers, request sent %dms after the last answer) and the waiting request had no error callback 45s - nor 3 minutes 45s - after it was handed over; the period is %v", r.StallAt, r.Answered, r.GapMs, clientResponseTimeout)
				}
			}
			mu.Lock()
			defer mu.Unlock()
			en.Rec.Observe(r, []string{"stall:" + r.StallAt, fmt.Sprintf("answered:%d", r.Answered)}, true)
			if viol != nil {
				en.Fail(r, viol)
			}
		}(r)
	}
	wg.Wait()
	en.Done(true)
}

// TestVerifC09ClientResponseSize: the limit the runner applies to a client's answers (16 MiB; the server's start
// response has its own, smaller limit of 1 MiB): an answer of 1 MiB ± 1, of 16 MiB - 1 and of exactly 16 MiB is read
// back as sent and the next answer after it too; one byte more is refused before it is read, naming the size.
func TestVerifC09ClientResponseSize(t *testing.T) {
	en := verifkit.NewEnum(t, "C09ClientResponseSize")
	type row struct {
		Size int `json:"size"`
	}
	rows := []row{{maxServerResponseSize - 1}, {maxServerResponseSize}, {maxServerResponseSize + 1}, {maxClientResponseSize - 1}, {maxClientResponseSize}, {maxClientResponseSize + 1}}
	var replay row
	if en.ReplayCase(&replay) {
		rows = []row{replay}
	}
	// an answer whose encoding has exactly the given size
	build := func(name string, size int) []byte {
		pad := size
		for {
			msg := &conformancev1.ClientCompatResponse{TestName: name, Result: &conformancev1.ClientCompatResponse_Error{Error: &conformancev1.ClientErrorResult{Message: strings.Repeat("x", pad)}}}
			if n := proto.Size(msg); n == size {
				data, _ := proto.Marshal(msg)
				return data
			} else if n > size {
				pad -= n - size
			} else {
				pad += size - n
			}
		}
	}
	for _, r := range rows {
		viol := func() error {
			client := func(ctx context.Context, _ []string, in io.ReadCloser, out, _ io.WriteCloser) error {
				for {
					req := &conformancev1.ClientCompatRequest{}
					if err := internal.ReadDelimitedMessage(in, req, "runner", time.Minute, 1<<20); err != nil {
						return nil
					}
					size := 40
					if strings.HasSuffix(req.TestName, "/big") {
						size = r.Size
					}
					data := build(req.TestName, size)
					var l [4]byte
					binary.BigEndian.PutUint32(l[:], uint32(len(data)))
					if _, err := out.Write(append(l[:], data...)); err != nil {
						return nil
					}
				}
			}
			runner, err := runClient(context.Background(), runInProcess([]string{"verif-big-answers"}, client))
			if err != nil {
				return nil
			}
			defer runner.stop()
			type cb struct {
				resp *conformancev1.ClientCompatResponse
				err  error
			}
			ask := func(name string) (cb, bool) {
				got := make(chan cb, 2)
				if err := runner.sendRequest(&conformancev1.ClientCompatRequest{TestName: name}, func(_ string, resp *conformancev1.ClientCompatResponse, err error) { got <- cb{resp, err} }); err != nil {
					return cb{nil, err}, true
				}
				select {
				case c := <-got:
					return c, true
				case <-time.After(40 * time.Second):
					return cb{}, false
				}
			}
			big, ok := ask("verif/c09/big")
			if !ok {
				return verifkit.Violf("client-limit-hang", "no callback 40s after a request whose answer has %d bytes", r.Size)
			}
			if r.Size <= maxClientResponseSize {
				if big.err != nil || big.resp == nil || proto.Size(big.resp) != r.Size {
					return verifkit.Violf("client-answer-at-limit-refused", "an answer of %d bytes (limit %d) was not handed over as sent: err=%v", r.Size, maxClientResponseSize, big.err)
				}
				next, ok := ask("verif/c09/next")
				if !ok || next.err != nil || next.resp.GetTestName() != "verif/c09/next" {
					return verifkit.Violf("client-answer-after-big-lost", "the answer after one of %d bytes: err=%v (callback %v)", r.Size, next.err, ok)
				}
				return nil
			}
			if big.err == nil || !strings.Contains(big.err.Error(), fmt.Sprint(r.Size)) {
				return verifkit.Violf("client-oversize-accepted", "an answer of %d bytes (limit %d): callback error %v, want a refusal naming the size", r.Size, maxClientResponseSize, big.err)
			}
			return nil
		}()
		en.Rec.Observe(r, []string{fmt.Sprintf("size:%d", r.Size)}, true)
		if viol != nil && en.Fail(r, viol) {
			break
		}
	}
	en.Done(true)
}

// vfStallReader hands out its bytes and then blocks until released (the peer keeps its output open and says no more).
type vfStallReader struct {
	data    []byte
	release chan struct{}
}

func (r *vfStallReader) Read(p []byte) (int, error) {
	if len(r.data) > 0 {
		n := copy(p, r.data)
		r.data = r.data[n:]
		return n, nil
	}
	<-r.release
	return 0, io.EOF
}

// TestVerifC09ServerStall: the batch runner's read of a server's start response when the server stalls - before
// writing anything, 2 bytes into the length prefix, or half-way into the message: every case of the batch becomes a
// setup error that names how much had arrived, and that happens within the period configured for servers (10 s; the
// check allows 5 s after a timer of that length started at the same moment has fired).
func TestVerifC09ServerStall(t *testing.T) {
	en := verifkit.NewEnum(t, "C09ServerStall")
	type row struct {
		StallAt string `json:"stallAt"`
	}
	rows := []row{{"nothing"}, {"prefix"}, {"message"}}
	var replay row
	if en.ReplayCase(&replay) {
		rows = []row{replay}
	}
	var mu sync.Mutex
	var wg sync.WaitGroup
	release := make(chan struct{})
	for _, r := range rows {
		wg.Add(1)
		go func(r row) {
			defer wg.Done()
			data, _ := proto.Marshal(&conformancev1.ServerCompatResponse{Host: "127.0.0.1", Port: 4242, PemCert: bytes.Repeat([]byte("c"), 100)})
			var l [4]byte
			binary.BigEndian.PutUint32(l[:], uint32(len(data)))
			full := append(l[:], data...)
			var out []byte
			want := "timed out waiting for result from server"
			switch r.StallAt {
			case "prefix":
				out, want = full[:2], "read 2/4 bytes of length prefix"
			case "message":
				out, want = full[:4+len(data)/2], fmt.Sprintf("read %d/%d bytes of message", len(data)/2, len(data))
			}
			proc := &vfFakeProc{done: make(chan struct{})}
			starter := processStarter(func(context.Context, bool) (*process, error) {
				return &process{processController: proc, stdin: &vfFakeStdin{}, stdout: &vfStallReader{data: out, release: release}, stderr: strings.NewReader("")}, nil
			})
			tc := &conformancev1.TestCase{Request: &conformancev1.ClientCompatRequest{TestName: "Suite/verif-c09/stall-" + r.StallAt, StreamType: conformancev1.StreamType_STREAM_TYPE_UNARY,
				Protocol: conformancev1.Protocol_PROTOCOL_CONNECT, HttpVersion: conformancev1.HTTPVersion_HTTP_VERSION_1}, ExpectedResponse: &conformancev1.ClientResponseResult{}}
			results := newResults(1, &testTrie{}, &testTrie{}, nil)
			client := &vfFakeClient{c: vfC11Case{N: 1}, proc: proc, expected: map[string]*conformancev1.ClientResponseResult{}}
			done := make(chan struct{})
			reference := time.After(serverResponseTimeout)
			start := time.Now()
			go func() {
				defer close(done)
				runTestCasesForServer(context.Background(), false, false, serverInstance{protocol: conformancev1.Protocol_PROTOCOL_CONNECT, httpVersion: conformancev1.HTTPVersion_HTTP_VERSION_1},
					[]*conformancev1.TestCase{tc}, nil, nil, starter, &vfC11Printer{}, &vfC11Printer{}, results, client, nil, false)
			}()
			var viol error
			select {
			case <-done:
				if time.Since(start) < serverResponseTimeout-2*time.Second {
					viol = verifkit.Violf("server-stall-early", "the batch gave up on a stalled server after %v, the period is %v", time.Since(start), serverResponseTimeout)
				}
			case <-reference:
				select {
				case <-done:
				case <-time.After(5 * time.Second):
					viol = verifkit.Violf("server-stall-no-timeout", "the server stalled (%s) and the batch had not given up 5s after a timer of the configured period (%v) fired", r.StallAt, serverResponseTimeout)
				}
			}
			if viol == nil {
				results.mu.Lock()
				o, ok := results.outcomes[tc.Request.TestName]
				results.mu.Unlock()
				if !ok || !o.setupError || o.actualFailure == nil || !strings.Contains(o.actualFailure.Error(), want) {
					viol = verifkit.Violf("server-stall-outcome", "stall at %s: outcome present=%v setupError=%v failure=%v, want a setup error saying %q", r.StallAt, ok, o.setupError, o.actualFailure, want)
				}
			}
			mu.Lock()
			defer mu.Unlock()
			en.Rec.Observe(r, []string{"stall:" + r.StallAt}, true)
			if viol != nil {
				en.Fail(r, viol)
			}
		}(r)
	}
	wg.Wait()
	close(release)
	en.Done(true)
}
