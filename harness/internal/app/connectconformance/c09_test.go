//go:build verif

package connectconformance

import "testing"

// TestVerifC09ServerResponse: the length-prefixed server response read by the batch runner, at the size limit and in
// any chunking (harness in c11_test.go, borrowed with "with": ["C11"]).
func TestVerifC09ServerResponse(t *testing.T) { vfServerResponseSizes(t, "C09ServerResponse") }
