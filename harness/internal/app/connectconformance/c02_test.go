//go:build verif

package connectconformance

import (
	"encoding/base64"
	"fmt"
	"os"
	"path/filepath"
	"regexp"
	"strings"
	"testing"
	"time"

	"connectrpc.com/conformance/internal/app/connectconformance/testsuites"
	conformancev1 "connectrpc.com/conformance/internal/gen/proto/go/connectrpc/conformance/v1"
	"connectrpc.com/conformance/internal/verifkit"
	"google.golang.org/protobuf/encoding/protojson"
	"google.golang.org/protobuf/proto"
	"google.golang.org/protobuf/types/known/anypb"
	"pgregory.net/rapid"
)

// ---- C02: derived expectations == what the reference peers do, for any well-formed case ----

type vfC02Hdr struct {
	Name  string   `json:"name"`
	Value []string `json:"value"`
}

type vfC02Err struct {
	Code    int32    `json:"code"`
	HasMsg  bool     `json:"hasMsg"`
	Msg     string   `json:"msg"`
	Details []string `json:"details"` // kinds: header, payload, reqinfo
}

type vfC02Test struct {
	Stream      int32      `json:"stream"`
	NumReq      int        `json:"numReq"`
	ReqData     []int      `json:"reqData"` // size of request_data per request
	ReqHeaders  []vfC02Hdr `json:"reqHeaders"`
	RespHeaders []vfC02Hdr `json:"respHeaders"`
	RespTrailer []vfC02Hdr `json:"respTrailers"`
	RespData    []int      `json:"respData"` // sizes of the response data items
	HasDef      bool       `json:"hasDef"`
	Err         *vfC02Err  `json:"err"`
	// LaterDef: messages after the first one of a client or bidi stream carry a response definition of their own
	// (different data, headers and an error); service.proto: "should be ignored in subsequent messages"
	LaterDef bool `json:"laterDef"`
}

type vfC02Case struct {
	Tests       []vfC02Test `json:"tests"`
	Compression string      `json:"compression"`
	H1          bool        `json:"h1"`
	H2          bool        `json:"h2"`
	HalfH1      bool        `json:"halfDuplexOverH1"`
}

func vfC02Bytes(n, salt int) []byte {
	out := make([]byte, n)
	x := uint32(salt*2654435761 + 12345)
	for i := range out {
		x ^= x << 13
		x ^= x >> 17
		x ^= x << 5
		if i%3 == 0 {
			out[i] = byte(x) // incompressible third
		} else {
			out[i] = byte('a' + i%7)
		}
	}
	return out
}

func vfC02Headers(hs []vfC02Hdr) []*conformancev1.Header {
	var out []*conformancev1.Header
	for _, h := range hs {
		out = append(out, &conformancev1.Header{Name: h.Name, Value: h.Value})
	}
	return out
}

func vfC02Error(e *vfC02Err) *conformancev1.Error {
	if e == nil {
		return nil
	}
	out := &conformancev1.Error{Code: conformancev1.Code(e.Code)}
	if e.HasMsg {
		out.Message = proto.String(e.Msg)
	}
	for i, d := range e.Details {
		var m proto.Message
		switch d {
		case "header":
			m = &conformancev1.Header{Name: fmt.Sprintf("detail-%d", i), Value: []string{"v"}}
		case "payload":
			m = &conformancev1.ConformancePayload{Data: []byte("detail payload")}
		default:
			m = &conformancev1.ConformancePayload_RequestInfo{RequestHeaders: []*conformancev1.Header{{Name: "from-detail", Value: []string{"x"}}}}
		}
		a, _ := anypb.New(m)
		out.Details = append(out.Details, a)
	}
	return out
}

func vfC02TestCase(i int, t vfC02Test) *conformancev1.TestCase {
	req := &conformancev1.ClientCompatRequest{TestName: fmt.Sprintf("gen/case-%d", i), StreamType: conformancev1.StreamType(t.Stream), RequestHeaders: vfC02Headers(t.ReqHeaders)}
	errProto := vfC02Error(t.Err)
	var respData [][]byte
	for k, n := range t.RespData {
		respData = append(respData, vfC02Bytes(n, i*31+k))
	}
	for k := 0; k < t.NumReq; k++ {
		data := vfC02Bytes(t.ReqData[k%len(t.ReqData)], i*17+k)
		var msg proto.Message
		first := k == 0 && t.HasDef
		switch conformancev1.StreamType(t.Stream) {
		case conformancev1.StreamType_STREAM_TYPE_UNARY, conformancev1.StreamType_STREAM_TYPE_CLIENT_STREAM:
			var def *conformancev1.UnaryResponseDefinition
			if first {
				def = &conformancev1.UnaryResponseDefinition{ResponseHeaders: vfC02Headers(t.RespHeaders), ResponseTrailers: vfC02Headers(t.RespTrailer)}
				switch {
				case errProto != nil:
					def.Response = &conformancev1.UnaryResponseDefinition_Error{Error: errProto}
				case len(respData) > 0:
					def.Response = &conformancev1.UnaryResponseDefinition_ResponseData{ResponseData: respData[0]}
				}
			}
			if k > 0 && t.LaterDef && t.HasDef {
				def = &conformancev1.UnaryResponseDefinition{ResponseHeaders: []*conformancev1.Header{{Name: "x-decoy", Value: []string{"later"}}}}
				if k%2 == 1 {
					def.Response = &conformancev1.UnaryResponseDefinition_ResponseData{ResponseData: []byte("DECOY")}
				} else {
					def.Response = &conformancev1.UnaryResponseDefinition_Error{Error: &conformancev1.Error{Code: conformancev1.Code_CODE_DATA_LOSS, Message: proto.String("decoy")}}
				}
			}
			if conformancev1.StreamType(t.Stream) == conformancev1.StreamType_STREAM_TYPE_UNARY {
				msg = &conformancev1.UnaryRequest{ResponseDefinition: def, RequestData: data}
			} else {
				msg = &conformancev1.ClientStreamRequest{ResponseDefinition: def, RequestData: data}
			}
		default:
			var def *conformancev1.StreamResponseDefinition
			if first {
				def = &conformancev1.StreamResponseDefinition{ResponseHeaders: vfC02Headers(t.RespHeaders), ResponseTrailers: vfC02Headers(t.RespTrailer), ResponseData: respData, Error: errProto}
			}
			if k > 0 && t.LaterDef && t.HasDef {
				def = &conformancev1.StreamResponseDefinition{ResponseHeaders: []*conformancev1.Header{{Name: "x-decoy", Value: []string{"later"}}},
					ResponseData: [][]byte{[]byte("DECOY")}}
				if k%2 == 0 {
					def.Error = &conformancev1.Error{Code: conformancev1.Code_CODE_DATA_LOSS, Message: proto.String("decoy")}
				}
			}
			if conformancev1.StreamType(t.Stream) == conformancev1.StreamType_STREAM_TYPE_SERVER_STREAM {
				msg = &conformancev1.ServerStreamRequest{ResponseDefinition: def, RequestData: data}
			} else {
				msg = &conformancev1.BidiStreamRequest{ResponseDefinition: def, RequestData: data,
					FullDuplex: conformancev1.StreamType(t.Stream) == conformancev1.StreamType_STREAM_TYPE_FULL_DUPLEX_BIDI_STREAM}
			}
		}
		a, _ := anypb.New(msg)
		req.RequestMessages = append(req.RequestMessages, a)
	}
	return &conformancev1.TestCase{Request: req}
}

var vfFailedLineRe = regexp.MustCompile(`(?m)^FAILED: (.*?):?$`)

func vfC02Check(c vfC02Case) error {
	dir, err := os.MkdirTemp(".", "c02")
	if err != nil {
		return nil
	}
	dir, _ = filepath.Abs(dir)
	defer os.RemoveAll(dir)
	suite := &conformancev1.TestSuite{Name: "Generated"}
	for i, t := range c.Tests {
		suite.TestCases = append(suite.TestCases, vfC02TestCase(i, t))
	}
	suiteJSON, err := protojson.Marshal(suite)
	if err != nil {
		return nil
	}
	suiteFile := filepath.Join(dir, "suite.yaml")
	_ = os.WriteFile(suiteFile, suiteJSON, 0o644)
	var versions []string
	if c.H1 {
		versions = append(versions, "HTTP_VERSION_1")
	}
	if c.H2 || !c.H1 {
		versions = append(versions, "HTTP_VERSION_2")
	}
	comps := "COMPRESSION_IDENTITY"
	if c.Compression != "" && c.Compression != "COMPRESSION_IDENTITY" {
		comps += ", " + c.Compression
	}
	cfg := fmt.Sprintf("features:\n  versions: [%s]\n  codecs: [CODEC_PROTO, CODEC_JSON]\n  compressions: [%s]\n  supportsTls: false\n  supportsHalfDuplexBidiOverHttp1: %v\n  supportsConnectGet: false\n  supportsMessageReceiveLimit: false\n",
		strings.Join(versions, ", "), comps, c.HalfH1 && c.H1)
	// Half-duplex bidi over HTTP/1.1 is a capability of the reference pair only (the shipped
	// gRPC-peer configurations do not declare it), so gRPC-Web - the one protocol the gRPC
	// server peer speaks over HTTP/1.1 - is left out when it is switched on.
	switch {
	case !c.H2 && c.H1 && c.HalfH1:
		cfg += "  supportsH2c: false\n  protocols: [PROTOCOL_CONNECT]\n"
	case !c.H2 && c.H1:
		cfg += "  supportsH2c: false\n  protocols: [PROTOCOL_CONNECT, PROTOCOL_GRPC_WEB]\n"
	case c.H1 && c.HalfH1:
		cfg += "  protocols: [PROTOCOL_CONNECT, PROTOCOL_GRPC]\n"
	}
	cfgFile := filepath.Join(dir, "config.yaml")
	_ = os.WriteFile(cfgFile, []byte(cfg), 0o644)
	logP, errP := &vfSyncPrinter{}, &vfSyncPrinter{}
	type result struct {
		ok  bool
		err error
	}
	ch := make(chan result, 1)
	go func() {
		ok, err := Run(&Flags{ConfigFile: cfgFile, TestFiles: []string{suiteFile}, MaxServers: 4, Parallelism: 8, ServerBind: "127.0.0.1", HTTPTrace: os.Getenv("VERIF_DEBUG") != ""}, logP, errP)
		ch <- result{ok, err}
	}()
	var res result
	select {
	case res = <-ch:
	case <-time.After(5 * time.Minute):
		return nil // inconclusive
	}
	if res.err != nil {
		if strings.Contains(res.err.Error(), "no test cases apply") {
			return nil
		}
		return verifkit.Violf("run-error", "Run failed on a well-formed generated suite: %v\nconfig:\n%s", res.err, cfg)
	}
	out := logP.Full()
	if os.Getenv("VERIF_DEBUG") != "" {
		fmt.Println(out)
	}
	if res.ok {
		if strings.Contains(out, "FAILED:") {
			return verifkit.Violf("failed-but-ok", "Run returned ok but printed FAILED lines:\n%.2000s", out)
		}
		return nil
	}
	// name the disagreeing permutation(s)
	failed := vfFailedLineRe.FindAllStringSubmatch(out, -1)
	var names []string
	shapes := map[string]bool{}
	for _, m := range failed {
		names = append(names, m[1])
		var idx int
		if k := strings.LastIndex(m[1], "gen/case-"); k >= 0 {
			if _, err := fmt.Sscanf(m[1][k:], "gen/case-%d", &idx); err == nil && idx < len(c.Tests) {
				t := c.Tests[idx]
				shapes[fmt.Sprintf("stream=%d reqs=%d resps=%d err=%v", t.Stream, t.NumReq, len(t.RespData), t.Err != nil)] = true
			}
		}
	}
	if len(names) > 6 {
		names = append(names[:6], fmt.Sprintf("... %d in total", len(failed)))
	}
	var shapeList []string
	for s := range shapes {
		shapeList = append(shapeList, s)
	}
	first := out
	if i := strings.Index(out, "FAILED:"); i >= 0 {
		first = out[i:]
	}
	if len(first) > 2500 {
		first = first[:2500] + "…"
	}
	return verifkit.Violf("expectation-disagrees", "%d permutation(s) of a well-formed deterministic suite failed between the reference peers: %v\nshapes: %v\nfirst failure:\n%s\nrunner stderr: %s", len(failed), names, shapeList, first, errP.String())
}

var vfC02HdrNames = []string{"x-custom-header", "X-Mixed-Case", "x-numbers-123", "x-data-bin", "X-Other-Bin", "x-multi"}
var vfC02HdrVals = []string{"v1", "two words", "a,b", "x;y=1", "ALLCAPS", "~!#$&'()*+-./:<=>?@[]^_`{|}", "1"}

func vfGenC02Headers(t *rapid.T, label string) []vfC02Hdr {
	names := rapid.Permutation(vfC02HdrNames).Draw(t, label+"-names")
	var out []vfC02Hdr
	for i, n := 0, rapid.IntRange(0, 3).Draw(t, label+"-n"); i < n; i++ {
		h := vfC02Hdr{Name: names[i]}
		bin := strings.HasSuffix(strings.ToLower(h.Name), "-bin")
		for j, k := 0, rapid.IntRange(1, 3).Draw(t, label+"-nv"); j < k; j++ {
			if bin {
				h.Value = append(h.Value, base64.RawStdEncoding.EncodeToString(rapid.SliceOfN(rapid.Byte(), 0, 9).Draw(t, label+"-bin")))
			} else {
				h.Value = append(h.Value, rapid.SampledFrom(vfC02HdrVals).Draw(t, label+"-v"))
			}
		}
		out = append(out, h)
	}
	return out
}

func vfGenC02Test(t *rapid.T) vfC02Test {
	tc := vfC02Test{Stream: int32(rapid.IntRange(1, 5).Draw(t, "stream")), HasDef: rapid.IntRange(0, 9).Draw(t, "hasDef") != 0}
	tc.LaterDef = rapid.IntRange(0, 2).Draw(t, "laterDef") == 0
	switch tc.Stream {
	case 1, 3:
		tc.NumReq = 1
	default:
		tc.NumReq = rapid.IntRange(0, 4).Draw(t, "numReq")
	}
	for i, n := 0, rapid.IntRange(1, 3).Draw(t, "nsizes"); i < n; i++ {
		// (70 000: echoed back in an error's RequestInfo detail it makes an end-of-stream message larger than 64 KiB)
		tc.ReqData = append(tc.ReqData, rapid.SampledFrom([]int{0, 1, 10, 200, 1500, 3000, 0, 1, 10, 200, 1500, 3000, 70000}).Draw(t, "reqSize"))
	}
	tc.ReqHeaders = vfGenC02Headers(t, "reqh")
	tc.RespHeaders = vfGenC02Headers(t, "resph")
	tc.RespTrailer = vfGenC02Headers(t, "respt")
	maxResp := 4
	if tc.Stream == 1 || tc.Stream == 2 {
		maxResp = 1
	}
	for i, n := 0, rapid.IntRange(0, maxResp).Draw(t, "nresp"); i < n; i++ {
		tc.RespData = append(tc.RespData, rapid.SampledFrom([]int{0, 1, 50, 700, 3000}).Draw(t, "respSize"))
	}
	if rapid.IntRange(0, 2).Draw(t, "hasErr") == 0 {
		e := &vfC02Err{Code: int32(rapid.IntRange(1, 16).Draw(t, "code")), HasMsg: rapid.IntRange(0, 3).Draw(t, "hasMsg") != 0}
		if e.HasMsg {
			e.Msg = rapid.SampledFrom([]string{"", "oops", "100% wrong", "héllo wörld", "line\nbreak", "tab\there", "日本語", "trailing dot.",
				"a+b = c", "q?x=1&y=2#frag", "semi;colon,comma", "back\\slash \"quoted\"", "%41 not an escape", "~tilde^caret|pipe"}).Draw(t, "msg")
		}
		for i, n := 0, rapid.IntRange(0, 3).Draw(t, "ndetails"); i < n; i++ {
			e.Details = append(e.Details, rapid.SampledFrom([]string{"header", "payload", "reqinfo"}).Draw(t, "detail"))
		}
		tc.Err = e
		if tc.Stream == 1 || tc.Stream == 2 {
			tc.RespData = nil // unary/client-stream: either data or an error
		}
	}
	return tc
}

// vfC02Excluded names the input class of the recorded finding of C02
// (known_findings.json); it is excluded by construction and counted, and
// TestVerifC02Known still executes its minimal input on every run. (A second
// class - full-duplex streams with fewer responses than requests and no error -
// was recorded too until its cause was found and repaired, fix 9e063c6; such
// cases are generated like any other now, and TestVerifC02Known runs three of
// them, which must pass.)
func vfC02Excluded(tc vfC02Test) string {
	if tc.Stream != 5 || tc.NumReq == 0 {
		return ""
	}
	if !tc.HasDef {
		tc.RespData, tc.Err = nil, nil // without a response definition there is nothing to send
	}
	if tc.Err != nil && tc.NumReq >= 2 && len(tc.RespData) == 0 {
		// KF1: expectation echoes all requests, the servers raise the error after the first
		return "known:fullduplex-error-no-responses-many-requests"
	}
	return ""
}

// vfC02RunSuite runs one generated suite through Run and returns the names of the failed permutations.
func vfC02RunSuite(c vfC02Case) (failed []string, out string, err error) {
	verr := vfC02Check(c)
	if verr == nil {
		return nil, "", nil
	}
	msg := verr.Error()
	for _, m := range regexp.MustCompile(`FAILED: ([^\n]*?gen/case-\d+)`).FindAllStringSubmatch(msg, -1) {
		failed = append(failed, m[1])
	}
	return failed, msg, verr
}

// TestVerifC02Known executes the minimal inputs of the recorded findings. As long
// as they fail in exactly the recorded way the driver prints KNOWN-FINDING lines;
// a different failure pattern is reported as a new violation.
func TestVerifC02Known(t *testing.T) {
	en := verifkit.NewEnum(t, "C02Known")
	type known struct {
		key  string
		c    vfC02Case
		same func(msg string) bool
	}
	base := vfC02Test{Stream: 5, ReqData: []int{10}, HasDef: true}
	kf1 := base
	kf1.NumReq, kf1.Err = 2, &vfC02Err{Code: 3, HasMsg: true, Msg: "m"}
	kf2 := base
	kf2.NumReq = 1
	// (the same shape with surplus requests after the last response: 3 requests / 1 response, 4 / 2)
	kf2b, kf2c := base, base
	kf2b.NumReq, kf2b.ReqData, kf2b.RespData = 3, []int{10, 5, 7}, []int{4}
	kf2c.NumReq, kf2c.ReqData, kf2c.RespData = 4, []int{10, 5, 7, 1}, []int{4, 9}
	cases := []known{
		{key: "known:fullduplex-error-no-responses-many-requests", c: vfC02Case{Tests: []vfC02Test{kf1}, Compression: "COMPRESSION_IDENTITY", H2: true},
			same: func(msg string) bool { return strings.Contains(msg, "request messages to be described") || strings.Contains(msg, "does not match expected error detail") || strings.Contains(msg, "request #") }},
	}
	// formerly recorded (fixed by 9e063c6): the server ends the call before the client has sent everything; also with
	// response trailers, which the client used to report twice
	kf2d := kf2b
	kf2d.RespTrailer = []vfC02Hdr{{Name: "x-custom-trailer", Value: []string{"bing"}}}
	for _, tc := range []vfC02Test{kf2, kf2b, kf2c, kf2d} {
		c := vfC02Case{Tests: []vfC02Test{tc}, Compression: "COMPRESSION_IDENTITY", H2: true}
		err := verifkit.SafeCall(func() error { return vfC02Check(c) })
		en.Rec.Observe(c, []string{"full-duplex-fewer-responses-than-requests"}, true)
		if err != nil {
			en.Fail(c, err)
		}
	}
	for _, k := range cases {
		err := verifkit.SafeCall(func() error { return vfC02Check(k.c) })
		en.Rec.Observe(k.c, []string{k.key}, true)
		if err == nil {
			continue // no longer fails: nothing to report
		}
		if k.same(err.Error()) {
			en.Fail(k.c, verifkit.Violf(k.key, "%v", err))
		} else {
			en.Fail(k.c, verifkit.Violf("known-finding-changed:"+k.key, "the recorded finding now fails differently: %v", err))
		}
	}
	en.Done(true)
}

func TestVerifC02Agreement(t *testing.T) {
	verifkit.Run(t, "C02Agreement", verifkit.Spec[vfC02Case]{
		Gen: func(t *rapid.T) vfC02Case {
			c := vfC02Case{Compression: rapid.SampledFrom([]string{"COMPRESSION_IDENTITY", "COMPRESSION_GZIP", "COMPRESSION_BR", "COMPRESSION_ZSTD", "COMPRESSION_DEFLATE", "COMPRESSION_SNAPPY"}).Draw(t, "compression")}
			switch rapid.IntRange(0, 3).Draw(t, "versions") {
			case 0:
				c.H1 = true
			case 1:
				c.H2 = true
			default:
				c.H1, c.H2 = true, true
			}
			c.HalfH1 = rapid.Bool().Draw(t, "halfH1")
			for i, n := 0, rapid.IntRange(1, 8).Draw(t, "ntests"); i < n; i++ {
				tc := vfGenC02Test(t)
				if why := vfC02Excluded(tc); why != "" {
					verifkit.Excluded(why)
					continue
				}
				c.Tests = append(c.Tests, tc)
			}
			if len(c.Tests) == 0 {
				c.Tests = []vfC02Test{{Stream: 1, NumReq: 1, ReqData: []int{1}, HasDef: true, RespData: []int{1}}}
			}
			return c
		},
		Check: vfC02Check,
		Classify: func(c vfC02Case) ([]string, bool) {
			nt := false
			var cl []string
			for _, tc := range c.Tests {
				if (tc.Err != nil && len(tc.Err.Details) > 0) || len(tc.RespData) >= 2 || tc.NumReq == 0 || (tc.Stream >= 4 && len(tc.RespData) != tc.NumReq) {
					nt = true
				}
				for _, h := range append(append([]vfC02Hdr{}, tc.ReqHeaders...), tc.RespHeaders...) {
					if len(h.Value) > 1 || strings.HasSuffix(strings.ToLower(h.Name), "-bin") || h.Name != strings.ToLower(h.Name) {
						nt = true
					}
				}
				cl = append(cl, fmt.Sprintf("stream:%d", tc.Stream))
			}
			return cl, nt
		},
	})
}

// ---- crash-freedom of loading and expanding arbitrary parseable suites ----

type vfC02CrashCase struct {
	Suites [][]byte `json:"suites"` // binary TestSuite messages
	Mode   int32    `json:"mode"`
}

func vfC02CrashCheck(c vfC02CrashCase) error {
	data := map[string][]byte{}
	for i, raw := range c.Suites {
		s := &conformancev1.TestSuite{}
		if err := proto.Unmarshal(raw, s); err != nil {
			return nil
		}
		js, err := protojson.Marshal(s)
		if err != nil {
			return nil
		}
		data[fmt.Sprintf("suite-%d.yaml", i)] = js
	}
	suites, err := parseTestSuites(data) // a panic here is reported by the runner as a violation
	if err != nil {
		return nil
	}
	cfg, err := parseConfig("", nil)
	if err != nil {
		return nil
	}
	for _, mode := range []conformancev1.TestSuite_TestMode{0, 1, 2} {
		fresh := map[string]*conformancev1.TestSuite{}
		for k, v := range suites {
			fresh[k] = proto.Clone(v).(*conformancev1.TestSuite)
		}
		lib, err := newTestCaseLibrary(fresh, cfg, mode)
		if err != nil {
			continue
		}
		_ = lib.allPermutations(true, true)
	}
	return nil
}

// vfGenWildSuite: a mostly valid suite in which every "wild" aspect (missing
// name, wrong message type, directives that do not fit, ...) appears with a small
// probability, so that loading usually gets deep into the expansion code.
func vfGenWildSuite(t *rapid.T, idx int) *conformancev1.TestSuite {
	wild := func(label string) bool { return rapid.IntRange(0, 9).Draw(t, "wild-"+label) == 0 }
	s := &conformancev1.TestSuite{Name: fmt.Sprintf("Suite %d", idx), Mode: conformancev1.TestSuite_TestMode(rapid.IntRange(0, 2).Draw(t, "mode"))}
	if wild("name") {
		s.Name = rapid.SampledFrom([]string{"", "Suite 0"}).Draw(t, "name")
	}
	s.ReliesOnTls = rapid.IntRange(0, 3).Draw(t, "tls") == 0
	s.ReliesOnTlsClientCerts = (s.ReliesOnTls && rapid.Bool().Draw(t, "certs")) || wild("certs")
	s.ReliesOnMessageReceiveLimit = rapid.IntRange(0, 3).Draw(t, "limit") == 0
	if rapid.IntRange(0, 4).Draw(t, "get") == 0 {
		s.ReliesOnConnectGet = true
		s.RelevantProtocols = []conformancev1.Protocol{conformancev1.Protocol_PROTOCOL_CONNECT}
		if wild("getprotocols") {
			s.RelevantProtocols = nil
		}
	}
	if wild("cvm") {
		s.ConnectVersionMode = conformancev1.TestSuite_ConnectVersionMode(rapid.IntRange(1, 2).Draw(t, "cvm"))
	}
	if rapid.Bool().Draw(t, "restrictCodecs") {
		s.RelevantCodecs = []conformancev1.Codec{conformancev1.Codec_CODEC_PROTO}
		if wild("codecs") {
			s.RelevantCodecs = append(s.RelevantCodecs, conformancev1.Codec(rapid.IntRange(0, 3).Draw(t, "codec")))
		}
	}
	for i, n := 0, rapid.IntRange(1, 4).Draw(t, "ncases"); i < n; i++ {
		stream := conformancev1.StreamType(rapid.IntRange(1, 5).Draw(t, "stream"))
		tc := &conformancev1.TestCase{Request: &conformancev1.ClientCompatRequest{TestName: fmt.Sprintf("case-%d", i), StreamType: stream}}
		if wild("testname") {
			tc.Request.TestName = rapid.SampledFrom([]string{"", "case-0"}).Draw(t, "testName")
		}
		if wild("stream") {
			tc.Request.StreamType = 0
		}
		if wild("svc") {
			tc.Request.Service = proto.String("some.Service")
		}
		if wild("mth") {
			tc.Request.Method = proto.String("Method")
		}
		nreq := 1
		if stream == 2 || stream >= 4 {
			nreq = rapid.IntRange(0, 3).Draw(t, "nreq")
		}
		if wild("nreq") {
			nreq = rapid.IntRange(0, 3).Draw(t, "wildnreq")
		}
		for j := 0; j < nreq; j++ {
			var m proto.Message
			var raw *conformancev1.RawHTTPResponse
			if (s.Mode == 1 && rapid.IntRange(0, 6).Draw(t, "rawResp") == 0) || wild("rawResp") {
				raw = &conformancev1.RawHTTPResponse{StatusCode: 200}
			}
			var errp *conformancev1.Error
			if rapid.IntRange(0, 2).Draw(t, "err") == 0 {
				errp = &conformancev1.Error{Code: conformancev1.Code(rapid.IntRange(1, 16).Draw(t, "code"))}
				if wild("code") {
					errp.Code = conformancev1.Code(rapid.SampledFrom([]int32{0, 17, 99}).Draw(t, "badcode"))
				}
			}
			var resp [][]byte
			for x, y := 0, rapid.IntRange(0, 4).Draw(t, "nresp"); x < y; x++ {
				resp = append(resp, []byte("r"))
			}
			msgType := map[conformancev1.StreamType]int{1: 0, 2: 1, 3: 2, 4: 3, 5: 3}[stream]
			if wild("msgType") {
				msgType = rapid.IntRange(0, 6).Draw(t, "msgType")
			}
			switch msgType {
			case 0:
				def := &conformancev1.UnaryResponseDefinition{RawResponse: raw}
				if errp != nil {
					def.Response = &conformancev1.UnaryResponseDefinition_Error{Error: errp}
				} else if len(resp) > 0 {
					def.Response = &conformancev1.UnaryResponseDefinition_ResponseData{ResponseData: resp[0]}
				}
				m = &conformancev1.UnaryRequest{ResponseDefinition: def, RequestData: []byte("abc")}
			case 1:
				def := &conformancev1.UnaryResponseDefinition{RawResponse: raw}
				if errp != nil {
					def.Response = &conformancev1.UnaryResponseDefinition_Error{Error: errp}
				}
				m = &conformancev1.ClientStreamRequest{ResponseDefinition: def, RequestData: []byte("abc")}
			case 2:
				m = &conformancev1.ServerStreamRequest{ResponseDefinition: &conformancev1.StreamResponseDefinition{ResponseData: resp, Error: errp, RawResponse: raw}}
			case 3:
				m = &conformancev1.BidiStreamRequest{FullDuplex: stream == 5, ResponseDefinition: &conformancev1.StreamResponseDefinition{ResponseData: resp, Error: errp, RawResponse: raw}}
			case 4:
				m = &conformancev1.IdempotentUnaryRequest{}
			case 5:
				m = &conformancev1.Header{Name: "not a request"}
			default:
				m = &conformancev1.UnimplementedRequest{}
			}
			if j > 0 && rapid.Bool().Draw(t, "bareLater") {
				// later requests usually carry no response definition
				switch mm := m.(type) {
				case *conformancev1.ClientStreamRequest:
					mm.ResponseDefinition = nil
				case *conformancev1.BidiStreamRequest:
					mm.ResponseDefinition = nil
				}
			}
			a, _ := anypb.New(m)
			if wild("badAny") {
				a = &anypb.Any{TypeUrl: "type.googleapis.com/no.such.Type", Value: []byte{1, 2, 3}}
			}
			tc.Request.RequestMessages = append(tc.Request.RequestMessages, a)
		}
		if (s.Mode == 2 && rapid.IntRange(0, 6).Draw(t, "rawReq") == 0) || wild("rawReq") {
			tc.Request.RawRequest = &conformancev1.RawHTTPRequest{Verb: "GET", Uri: "/"}
		}
		if rapid.IntRange(0, 4).Draw(t, "expand") == 0 {
			for j, k := 0, rapid.IntRange(1, 3).Draw(t, "nexpand"); j < k; j++ {
				es := &conformancev1.TestCase_ExpandedSize{}
				if rapid.Bool().Draw(t, "hasSize") {
					es.SizeRelativeToLimit = proto.Int32(rapid.SampledFrom([]int32{0, 1, -1, -204700, -204790, -204800, -300000, 100}).Draw(t, "size"))
				}
				tc.ExpandRequests = append(tc.ExpandRequests, es)
			}
		}
		if tc.Request.RawRequest != nil || rapid.IntRange(0, 5).Draw(t, "explicitExpected") == 0 {
			tc.ExpectedResponse = &conformancev1.ClientResponseResult{}
		}
		for _, a := range tc.Request.RequestMessages {
			_ = a
		}
		if rapid.IntRange(0, 5).Draw(t, "timeout") == 0 {
			tc.Request.TimeoutMs = proto.Uint32(uint32(rapid.IntRange(0, 1000).Draw(t, "timeoutMs")))
		}
		if rapid.IntRange(0, 5).Draw(t, "cancel") == 0 {
			tc.Request.Cancel = &conformancev1.ClientCompatRequest_Cancel{}
		}
		tc.Request.UseGetHttpMethod = s.ReliesOnConnectGet && rapid.Bool().Draw(t, "useGet")
		if rapid.IntRange(0, 39).Draw(t, "wild-norequest") == 0 {
			tc.Request = nil // an empty list entry in the YAML file
		}
		s.TestCases = append(s.TestCases, tc)
	}
	if wild("nocases") {
		s.TestCases = nil
	}
	return s
}

func TestVerifC02Crash(t *testing.T) {
	verifkit.Run(t, "C02Crash", verifkit.Spec[vfC02CrashCase]{
		Gen: func(t *rapid.T) vfC02CrashCase {
			var c vfC02CrashCase
			for i, n := 0, rapid.IntRange(1, 3).Draw(t, "nsuites"); i < n; i++ {
				data, _ := proto.Marshal(vfGenWildSuite(t, i))
				c.Suites = append(c.Suites, data)
			}
			return c
		},
		Check: vfC02CrashCheck,
		Classify: func(c vfC02CrashCase) ([]string, bool) {
			for _, raw := range c.Suites {
				s := &conformancev1.TestSuite{}
				if proto.Unmarshal(raw, s) == nil && len(s.TestCases) > 0 {
					return []string{"has-cases"}, true
				}
			}
			return nil, false
		},
	})
}

// FuzzVerifC02Suite: raw YAML bytes -> parse + expand must not panic.
func FuzzVerifC02Suite(f *testing.F) {
	if data, err := testsuites.LoadTestSuites(); err == nil {
		n := 0
		for _, content := range data {
			if len(content) < 20000 && n < 40 {
				f.Add(content)
				n++
			}
		}
	}
	f.Add([]byte("name: X\ntestCases:\n- request:\n    testName: a\n    streamType: STREAM_TYPE_FULL_DUPLEX_BIDI_STREAM\n    requestMessages:\n    - \"@type\": type.googleapis.com/connectrpc.conformance.v1.BidiStreamRequest\n      fullDuplex: true\n      responseDefinition:\n        responseData: [\"YQ==\", \"Yg==\", \"Yw==\"]\n"))
	f.Add([]byte("name: Y\ntestCases:\n- request:\n    testName: a\n    streamType: STREAM_TYPE_UNARY\n    requestMessages:\n    - \"@type\": type.googleapis.com/connectrpc.conformance.v1.UnaryRequest\n  expandRequests:\n  - sizeRelativeToLimit: -204790\n"))
	cfg, _ := parseConfig("", nil)
	f.Fuzz(func(t *testing.T, data []byte) {
		if len(data) > 1<<16 {
			return
		}
		suites, err := parseTestSuites(map[string][]byte{"fuzz.yaml": data})
		if err != nil {
			return
		}
		for _, mode := range []conformancev1.TestSuite_TestMode{0, 1, 2} {
			fresh := map[string]*conformancev1.TestSuite{}
			for k, v := range suites {
				fresh[k] = proto.Clone(v).(*conformancev1.TestSuite)
			}
			if lib, err := newTestCaseLibrary(fresh, cfg, mode); err == nil {
				_ = lib.allPermutations(true, true)
			}
		}
	})
}
