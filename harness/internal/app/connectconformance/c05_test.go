//go:build verif

package connectconformance

import (
	"encoding/json"
	"fmt"
	"os"
	"path/filepath"
	"runtime"
	"sort"
	"strings"
	"sync/atomic"
	"syscall"
	"testing"
	"time"

	"connectrpc.com/conformance/internal/app/connectconformance/testsuites"
	conformancev1 "connectrpc.com/conformance/internal/gen/proto/go/connectrpc/conformance/v1"
	"connectrpc.com/conformance/internal/verifkit"
	"google.golang.org/protobuf/encoding/protojson"
	"pgregory.net/rapid"
)

// ---- C05: every selected permutation is executed exactly once against a matching server ----

var vfC05Configs = map[string]string{
	"default": "",
	"h1-connect": `features:
  versions: [HTTP_VERSION_1]
  protocols: [PROTOCOL_CONNECT]
  supportsTls: false
  supportsH2c: false
`,
	"h2-grpc": `features:
  versions: [HTTP_VERSION_2]
  protocols: [PROTOCOL_GRPC, PROTOCOL_GRPC_WEB]
  codecs: [CODEC_PROTO]
  supportsTls: false
`,
	"tls-certs": `features:
  versions: [HTTP_VERSION_1, HTTP_VERSION_2]
  protocols: [PROTOCOL_CONNECT, PROTOCOL_GRPC]
  codecs: [CODEC_PROTO]
  compressions: [COMPRESSION_IDENTITY]
  supportsTls: true
  supportsTlsClientCerts: true
`,
	"h3": `features:
  versions: [HTTP_VERSION_1, HTTP_VERSION_3]
  protocols: [PROTOCOL_CONNECT, PROTOCOL_GRPC_WEB]
  codecs: [CODEC_JSON]
  compressions: [COMPRESSION_IDENTITY, COMPRESSION_ZSTD]
  supportsTls: true
`,
	"narrow-streams": `features:
  versions: [HTTP_VERSION_1, HTTP_VERSION_2]
  compressions: [COMPRESSION_IDENTITY]
  streamTypes: [STREAM_TYPE_UNARY, STREAM_TYPE_SERVER_STREAM]
  supportsTls: false
  supportsConnectGet: false
`,
	"include-exclude": `features:
  versions: [HTTP_VERSION_1]
  protocols: [PROTOCOL_CONNECT]
  codecs: [CODEC_PROTO]
  compressions: [COMPRESSION_IDENTITY]
  supportsTls: false
  supportsH2c: false
includeCases:
  - version: HTTP_VERSION_2
    protocol: PROTOCOL_GRPC
    useTls: true
excludeCases:
  - streamType: STREAM_TYPE_CLIENT_STREAM
`,
}

type vfC05Case struct {
	Mode        string    `json:"mode"` // both, client, server
	Config      string    `json:"config"`
	Corpus      bool      `json:"corpus"` // embedded corpus (else generated suites)
	Suites      []vfSuite `json:"suites"`
	Run         []string  `json:"run"`
	Skip        []string  `json:"skip"`
	RunFrom     []int     `json:"runFrom"`  // indexes into the sorted name universe, generalised into patterns
	SkipFrom    []int     `json:"skipFrom"` //
	Generalise  []int     `json:"generalise"`
	MaxServers  uint      `json:"maxServers"`
	Order       string    `json:"order"`
	Procs       int       `json:"procs"`
	ServerFault string    `json:"serverFault"` // script-server fault for one instance tuple ("" = none)
	FaultTuple  int       `json:"faultTuple"`
	// ClientExitAfter > 0 (mode both): the scripted client process exits with ClientExitCode after that many requests
	ClientExitAfter int `json:"clientExitAfter"`
	ClientExitCode  int `json:"clientExitCode"`
	// SlowStop: every scripted server takes 1.2 s to stop after being asked to (no fault: the runner's grace period is 5 s)
	SlowStop bool `json:"slowStop,omitempty"`
	// EmptyHost (mode both): the scripted servers leave the host of their start response empty, which the protocol
	// allows: the requests then carry the documented default, 127.0.0.1
	EmptyHost bool `json:"emptyHost,omitempty"`
}

func vfC05Suites(c vfC05Case, dir string) ([]string, map[string][]byte, error) {
	if c.Corpus {
		data, err := testsuites.LoadTestSuites()
		return nil, data, err
	}
	var files []string
	data := map[string][]byte{}
	for i, s := range c.Suites {
		js, err := protojson.Marshal(vfSuiteProto(s))
		if err != nil {
			return nil, nil, err
		}
		f := filepath.Join(dir, fmt.Sprintf("suite-%d.yaml", i))
		if err := os.WriteFile(f, js, 0o644); err != nil {
			return nil, nil, err
		}
		files = append(files, f)
		data[f] = js
	}
	return files, data, nil
}

// vfGeneralise turns a test name into a pattern by replacing some components with wildcards.
func vfGeneralise(name string, how int) string {
	comps := strings.Split(name, "/")
	switch how % 5 {
	case 0:
		return name
	case 1: // everything below the suite
		return comps[0] + "/**"
	case 2: // one axis component wildcarded
		if len(comps) > 2 {
			comps[1+how/5%(len(comps)-2)] = "*"
		}
		return strings.Join(comps, "/")
	case 3: // any suite, this tail
		return "**/" + comps[len(comps)-1]
	default: // prefix then **
		k := 1 + how/5%len(comps)
		return strings.Join(comps[:k], "/") + "/**"
	}
}

// vfGRPCApplies: what the grpc-go reference peers support (rule table, see C07).
func vfGRPCApplies(r *conformancev1.ClientCompatRequest, clientIsGRPC, serverIsGRPC bool) bool {
	switch {
	case r.Protocol == conformancev1.Protocol_PROTOCOL_CONNECT:
		return false
	case clientIsGRPC && r.Protocol != conformancev1.Protocol_PROTOCOL_GRPC:
		return false
	case r.Protocol == conformancev1.Protocol_PROTOCOL_GRPC && r.HttpVersion != conformancev1.HTTPVersion_HTTP_VERSION_2:
		return false
	case r.Protocol == conformancev1.Protocol_PROTOCOL_GRPC_WEB && r.HttpVersion == conformancev1.HTTPVersion_HTTP_VERSION_3:
		return false
	case r.Codec != conformancev1.Codec_CODEC_PROTO:
		return false
	case r.Compression != conformancev1.Compression_COMPRESSION_IDENTITY && r.Compression != conformancev1.Compression_COMPRESSION_GZIP:
		return false
	case len(r.ServerTlsCert) > 0:
		return false
	case r.RawRequest != nil && clientIsGRPC:
		return false
	case serverIsGRPC && hasRawResponse(r.RequestMessages):
		return false
	}
	return true
}

type vfPerm struct {
	name  string
	tuple string // protocol/version/tls/clientcert
	grpc  bool
}

func vfTuple(r *conformancev1.ClientCompatRequest) string {
	return fmt.Sprintf("%d/%d/%v/%v", r.Protocol, r.HttpVersion, len(r.ServerTlsCert) > 0, r.ClientTlsCreds != nil)
}

func vfC05Check(c vfC05Case) error {
	dir, err := os.MkdirTemp(".", "c05")
	if err != nil {
		return nil
	}
	dir, _ = filepath.Abs(dir)
	defer os.RemoveAll(dir)
	files, suiteData, err := vfC05Suites(c, dir)
	if err != nil {
		return nil
	}
	cfgText := vfC05Configs[c.Config]
	cfgFile := ""
	if cfgText != "" {
		cfgFile = filepath.Join(dir, "config.yaml")
		_ = os.WriteFile(cfgFile, []byte(cfgText), 0o644)
	}
	// ---- the universe and the selection model
	mode := map[string]conformancev1.TestSuite_TestMode{"both": conformancev1.TestSuite_TEST_MODE_UNSPECIFIED, "client": conformancev1.TestSuite_TEST_MODE_CLIENT, "server": conformancev1.TestSuite_TEST_MODE_SERVER}[c.Mode]
	suites, err := parseTestSuites(suiteData)
	if err != nil {
		return nil // not a C05 matter
	}
	cfgCases, err := parseConfig(cfgFile, []byte(cfgText))
	if err != nil {
		return nil
	}
	lib, err := newTestCaseLibrary(suites, cfgCases, mode)
	if err != nil {
		return nil
	}
	var universe []vfPerm
	for name, tc := range lib.testCases {
		universe = append(universe, vfPerm{name: name, tuple: vfTuple(tc.Request)})
		// (where the name spells the TLS axis, the server instance the permutation is filed under has to agree with it)
		if tls := len(tc.Request.ServerTlsCert) > 0; (strings.Contains(name, "/TLS:false/") && tls) || (strings.Contains(name, "/TLS:true/") && !tls) {
			return verifkit.Violf("name-server-mismatch", "permutation %q is filed under a server instance with TLS=%v (client certs %v)", name, tls, tc.Request.ClientTlsCreds != nil)
		}
		simple := lib.testCaseNames[name]
		prefix := strings.TrimSuffix(name, simple)
		if c.Mode == "client" && vfGRPCApplies(tc.Request, false, true) {
			universe = append(universe, vfPerm{name: prefix + "(grpc server impl)/" + simple, tuple: vfTuple(tc.Request), grpc: true})
		}
		if c.Mode == "server" && vfGRPCApplies(tc.Request, true, false) {
			universe = append(universe, vfPerm{name: prefix + "(grpc client impl)/" + simple, tuple: vfTuple(tc.Request), grpc: true})
		}
	}
	sort.Slice(universe, func(i, j int) bool { return universe[i].name < universe[j].name })
	var runPats, skipPats []string
	for i, idx := range c.RunFrom {
		g := 0
		if len(c.Generalise) > 0 {
			g = c.Generalise[i%len(c.Generalise)]
		}
		runPats = append(runPats, vfGeneralise(universe[idx%len(universe)].name, g))
	}
	for i, idx := range c.SkipFrom {
		g := 0
		if len(c.Generalise) > 0 {
			g = c.Generalise[(i+3)%len(c.Generalise)]
		}
		skipPats = append(skipPats, vfGeneralise(universe[idx%len(universe)].name, g))
	}
	selected := map[string]vfPerm{}
	for _, p := range universe {
		if (len(runPats) == 0 || vfRefAny(runPats, p.name)) && !vfRefAny(skipPats, p.name) {
			selected[p.name] = p
		}
	}
	// every pattern must match something (otherwise the runner rightly refuses to start)
	for _, pats := range [][]string{runPats, skipPats} {
		for _, p := range pats {
			ok := false
			for _, u := range universe {
				if vfRefGlobStr(p, u.name) {
					ok = true
					break
				}
			}
			if !ok {
				return nil
			}
		}
	}
	// ---- run
	logFile := filepath.Join(dir, "peers.log")
	clientScript := filepath.Join(dir, "client.json")
	serverScript := filepath.Join(dir, "server.json")
	cs := vfClientScript{ExitAfter: -1, Order: c.Order, Probe: c.Mode == "both", ProbeDial: c.Mode == "client"}
	clientDies := c.Mode == "both" && c.ClientExitAfter > 0
	if clientDies {
		cs.ExitAfter, cs.ExitCode = c.ClientExitAfter, c.ClientExitCode
	}
	csData, _ := json.Marshal(cs)
	_ = os.WriteFile(clientScript, csData, 0o644)
	tuples := map[string]bool{}
	for _, p := range selected {
		tuples[p.tuple] = true
	}
	var tupleList []string
	for t := range tuples {
		tupleList = append(tupleList, t)
	}
	sort.Strings(tupleList)
	ss := vfServerScript{HTTPLog: c.Mode == "server", EmptyHost: c.EmptyHost}
	if c.SlowStop {
		ss.StopDelayMs = 1200
	}
	faultTuple := ""
	if c.ServerFault != "" && len(tupleList) > 0 && c.Mode != "client" {
		faultTuple = tupleList[c.FaultTuple%len(tupleList)]
		parts := strings.Split(faultTuple, "/")
		if c.ServerFault == "no-cert" && parts[2] != "true" {
			faultTuple = "" // a missing certificate only matters under TLS
		} else {
			ss.Fault, ss.FaultFor = c.ServerFault, parts[0]+"/"+parts[1]+"/"+parts[2]
		}
	}
	ssData, _ := json.Marshal(ss)
	_ = os.WriteFile(serverScript, ssData, 0o644)
	// every run binds its in-process servers to a loopback address of its own: a port freed by this run's server and
	// re-used by another process on the machine (other shards run in parallel) is then never mistaken for a live server
	// of this run by the client's "which addresses accept connections" probe
	bind := "127.0.0.1"
	if c.Mode == "client" {
		n := vfBindSeq.Add(1)
		bind = fmt.Sprintf("127.%d.%d.%d", 1+os.Getpid()%200, 1+(os.Getpid()/200)%250, 1+n%250)
	}
	flags := &Flags{ConfigFile: cfgFile, TestFiles: files, RunPatterns: runPats, SkipPatterns: skipPats, MaxServers: c.MaxServers, Parallelism: 4, ServerBind: bind}
	if c.Mode != "server" {
		flags.ClientCommand = vfPeerCommand("script-client", clientScript, logFile)
	}
	if c.Mode != "client" {
		flags.ServerCommand = vfPeerCommand("script-server", serverScript, logFile)
	}
	if c.Procs > 0 {
		defer runtime.GOMAXPROCS(runtime.GOMAXPROCS(c.Procs))
	}
	logP, errP := &vfSyncPrinter{}, &vfSyncPrinter{}
	done := make(chan struct{})
	var runErr error
	go func() {
		defer close(done)
		_, runErr = Run(flags, logP, errP)
	}()
	select {
	case <-done:
	case <-time.After(5 * time.Minute):
		if c.Mode == "both" {
			// both peers are scripted processes that answer at once or exit; the only waits left are the runner's own
			// (20 s for an answer, 5 s grace periods): "the run terminates"
			return verifkit.Violf("run-hang", "Run did not return within 5 minutes (mode both, scripted peers; client exits after %d requests: %v, server fault %q)", c.ClientExitAfter, clientDies, c.ServerFault)
		}
		return nil // inconclusive (not owned delays): no verdict
	}
	if len(selected) == 0 {
		return nil
	}
	if runErr != nil && strings.Contains(runErr.Error(), "unmatched and possibly invalid patterns") {
		// a pattern shadowed by another one that matches the same names is reported as
		// unmatched by the runner (documented gap, C08): the run never started
		return nil
	}
	events := vfReadPeerLog(logFile)
	if c.ServerFault != "" {
		// a server whose start-up failed is told to stop but not awaited by the runner:
		// allow it a grace period to log its stop
		for wait := 0; wait < 80; wait++ {
			starts, stops := 0, 0
			for _, ev := range events {
				switch ev.Event {
				case "server-start":
					starts++
				case "server-stop":
					stops++
				}
			}
			if stops >= starts {
				break
			}
			time.Sleep(100 * time.Millisecond)
			events = vfReadPeerLog(logFile)
		}
	}
	describe := func() string {
		return fmt.Sprintf("mode=%s config=%s corpus=%v run=%q skip=%q maxServers=%d fault=%s@%s runErr=%v\nrunner stderr: %s\nrunner output (tail): %s", c.Mode, c.Config, c.Corpus, runPats, skipPats, c.MaxServers, c.ServerFault, faultTuple, runErr, errP.String(), vfTail(logP.Full(), 2500))
	}
	// ---- the runner's own report: it names and counts selected permutations only, each once
	reported := map[string]int{}
	total := -1
	for _, line := range strings.Split(logP.Full(), "\n") {
		switch {
		case strings.HasPrefix(line, "FAILED: ") && strings.HasSuffix(line, ":"):
			reported[strings.TrimSuffix(strings.TrimPrefix(line, "FAILED: "), ":")]++
		case strings.HasPrefix(line, "FAILED: ") && strings.HasSuffix(line, " was expected to fail but did not"):
			reported[strings.TrimSuffix(strings.TrimPrefix(line, "FAILED: "), " was expected to fail but did not")]++
		case strings.HasPrefix(line, "Total cases: "):
			_, _ = fmt.Sscanf(line, "Total cases: %d", &total)
		}
	}
	for name, n := range reported {
		if _, ok := selected[name]; !ok {
			return verifkit.Violf("unselected-reported", "the report names %q, which is not a selected permutation (for a gRPC peer: not one it supports)\n%s", name, describe())
		}
		if n != 1 {
			return verifkit.Violf("reported-twice", "the report names %q %d times\n%s", name, n, describe())
		}
	}
	if total >= 0 && c.ServerFault == "" && !clientDies && total != len(selected) {
		return verifkit.Violf("total-cases", "the report counts %d cases, %d permutations are selected\n%s", total, len(selected), describe())
	}
	// ---- (4)(5) server lifecycle
	type srv struct {
		ev      vfPeerEvent
		stopped int64
	}
	servers := map[string]*srv{} // by identity
	alive, maxAlive := 0, 0
	for _, ev := range events {
		switch ev.Event {
		case "server-start":
			servers[ev.Identity] = &srv{ev: ev}
			alive++
			if alive > maxAlive {
				maxAlive = alive
			}
		case "server-stop":
			if s := servers[ev.Identity]; s != nil && s.stopped == 0 {
				s.stopped = ev.Seq
				alive--
			}
		}
	}
	if c.Mode != "client" {
		if uint(maxAlive) > c.MaxServers && c.ServerFault == "" {
			return verifkit.Violf("too-many-servers", "%d server processes alive at once, --max-servers is %d\n%s", maxAlive, c.MaxServers, describe())
		}
		for id, s := range servers {
			if s.stopped == 0 {
				return verifkit.Violf("server-not-stopped", "server %q was started but never stopped\n%s", id, describe())
			}
			// After a start fault the runner asks the server to stop but does not wait for it, so the process may
			// outlive Run by the time the signal takes to act; the scripted server exits on SIGTERM at once, and the
			// runner escalates after its graceful-shutdown period. Only a process still there after that is a leak.
			deadline := time.Now().Add(15 * time.Second)
			for syscall.Kill(s.ev.Pid, 0) == nil {
				if time.Now().After(deadline) {
					return verifkit.Violf("child-survives", "server process %d still exists 15s after Run returned\n%s", s.ev.Pid, describe())
				}
				time.Sleep(20 * time.Millisecond)
			}
		}
		// one server instance per selected tuple (and kind of client in server mode)
		started := map[string]int{}
		for _, s := range servers {
			started[fmt.Sprintf("%d/%d/%v/%v", s.ev.Protocol, s.ev.HTTPVersion, s.ev.UseTLS, s.ev.ClientCert)]++
		}
		for t := range tuples {
			if started[t] == 0 && !clientDies { // (once the client is gone the runner does not start further servers)
				return verifkit.Violf("server-missing", "no server was started for tuple %s although selected cases need it\n%s", t, describe())
			}
		}
		for t := range started {
			if !tuples[t] {
				return verifkit.Violf("server-superfluous", "a server was started for tuple %s which no selected case uses\n%s", t, describe())
			}
		}
	}
	if c.Mode == "server" {
		// deliveries happen inside the in-process reference clients; over cleartext HTTP/1.1 the
		// script servers can see each RPC's request headers
		seen := map[string]int{}
		for _, ev := range events {
			if ev.Event != "http-request" {
				continue
			}
			seen[ev.Name]++
			p, ok := selected[ev.Name]
			if !ok {
				return verifkit.Violf("unselected-delivered", "an RPC for %q reached a server but that permutation is not selected\n%s", ev.Name, describe())
			}
			s := servers[ev.Identity]
			if s == nil || fmt.Sprintf("%d/%d/%v/%v", s.ev.Protocol, s.ev.HTTPVersion, s.ev.UseTLS, s.ev.ClientCert) != p.tuple {
				return verifkit.Violf("wrong-server", "the RPC for %q (tuple %s) reached server %q\n%s", ev.Name, p.tuple, ev.Identity, describe())
			}
		}
		for name, p := range selected {
			parts := strings.Split(p.tuple, "/")
			if parts[1] != "1" || parts[2] != "false" || p.grpc || (faultTuple != "" && vfSameServerKind(p.tuple, faultTuple)) {
				continue // only cleartext HTTP/1.1 is observable
			}
			if seen[name] != 1 {
				return verifkit.Violf("server-mode-delivery", "the RPC of selected permutation %q was seen %d times by its server (test name header missing, never issued, or issued twice)\n%s", name, seen[name], describe())
			}
		}
		return nil
	}
	// ---- (1) exactly once
	got := map[string][]vfPeerEvent{}
	for _, ev := range events {
		if ev.Event == "request" {
			got[ev.Name] = append(got[ev.Name], ev)
		}
	}
	for name, evs := range got {
		if _, ok := selected[name]; !ok {
			return verifkit.Violf("unselected-delivered", "%q was handed to the client but is not selected\n%s", name, describe())
		}
		if len(evs) != 1 {
			return verifkit.Violf("delivered-twice", "%q was handed to the client %d times\n%s", name, len(evs), describe())
		}
	}
	for name, p := range selected {
		if faultTuple != "" && vfSameServerKind(p.tuple, faultTuple) && ss.Fault != "die-after-conns" && ss.Fault != "ignore-term" {
			if len(got[name]) != 0 {
				return verifkit.Violf("delivered-without-server", "%q was handed to the client although its server could not be started\n%s", name, describe())
			}
			if !strings.Contains(logP.Full(), "FAILED: "+name) {
				return verifkit.Violf("setup-failure-unreported", "%q could not be set up but no FAILED line names it\n%s", name, describe())
			}
			continue
		}
		if len(got[name]) == 0 {
			if faultTuple != "" && vfSameServerKind(p.tuple, faultTuple) {
				continue // its server died: a setup failure is acceptable
			}
			if clientDies {
				continue // the client was gone: the case cannot have been handed over
			}
			return verifkit.Violf("not-delivered", "selected permutation %q was never handed to the client (%d of %d delivered); the runner says: %s\n%s", name, len(got), len(selected), vfFailedText(logP.Full(), name), describe())
		}
	}
	// ---- (2) matching, live server; request completed with the server's address and test name
	for name, evs := range got {
		ev := evs[0]
		p := selected[name]
		wantHeader := "x-test-case-name=" + name
		found := false
		for _, h := range ev.Headers {
			if h == wantHeader {
				found = true
			}
		}
		if !found {
			return verifkit.Violf("test-name-header", "%q: request headers lack %q: %v\n%s", name, wantHeader, ev.Headers, describe())
		}
		if len(ev.RawHeaders) > 0 {
			found = false
			for _, h := range ev.RawHeaders {
				if h == wantHeader {
					found = true
				}
			}
			if !found {
				return verifkit.Violf("test-name-header", "%q: raw request headers lack %q: %v\n%s", name, wantHeader, ev.RawHeaders, describe())
			}
		}
		if ev.Host == "" || (c.EmptyHost && c.Mode == "both" && ev.Host != "127.0.0.1") {
			return verifkit.Violf("request-host", "%q: the request names the host %q (the server left its host empty: %v; the default is 127.0.0.1)\n%s", name, ev.Host, c.EmptyHost, describe())
		}
		parts := strings.Split(p.tuple, "/")
		if ev.HasCert != (parts[2] == "true") || ev.HasCreds != (parts[3] == "true") {
			return verifkit.Violf("request-credentials", "%q: request has server cert=%v client creds=%v, tuple %s\n%s", name, ev.HasCert, ev.HasCreds, p.tuple, describe())
		}
		if c.Mode == "both" {
			s := servers[ev.Identity]
			if s == nil {
				return verifkit.Violf("no-live-server", "%q: nothing sensible answered on %s:%d when the request was handed over (%q)\n%s", name, ev.Host, ev.Port, ev.Identity, describe())
			}
			st := fmt.Sprintf("%d/%d/%v/%v", s.ev.Protocol, s.ev.HTTPVersion, s.ev.UseTLS, s.ev.ClientCert)
			if st != p.tuple {
				return verifkit.Violf("wrong-server", "%q (tuple %s) was run against a server started for %s\n%s", name, p.tuple, st, describe())
			}
			if s.stopped != 0 && s.stopped < ev.Seq {
				return verifkit.Violf("server-already-stopped", "%q was handed over after its server had been stopped\n%s", name, describe())
			}
			if ev.Port != s.ev.Port {
				return verifkit.Violf("wrong-address", "%q: request port %d, server port %d\n%s", name, ev.Port, s.ev.Port, describe())
			}
			if s.ev.UseTLS && ev.CertEcho != "CERT-OF-"+s.ev.Identity {
				return verifkit.Violf("wrong-certificate", "%q: request carries certificate %q, the server presented %q\n%s", name, ev.CertEcho, "CERT-OF-"+s.ev.Identity, describe())
			}
		} else if c.Mode == "client" && ev.ALPN != "" && !strings.HasPrefix(ev.ALPN, "error: ") &&
			((ev.HTTPVersion == 1 && ev.ALPN == "h2") || (ev.HTTPVersion == 2 && ev.ALPN != "h2")) {
			// the server of an HTTP/1.1 permutation does not speak HTTP/2 to a client that offers both (and the other way round)
			return verifkit.Violf("wrong-http-version-server", "%q is an HTTP version %d permutation but the server at %s:%d, offered h2 and http/1.1 in the TLS handshake, picks %q\n%s", name, ev.HTTPVersion, ev.Host, ev.Port, ev.ALPN, describe())
		} else if c.Mode == "client" && uint(ev.Alive) > c.MaxServers {
			// the servers are the runner's own in-process reference servers: the client dials every address it was ever
			// given; more listening ones than --max-servers means more server instances alive at once
			return verifkit.Violf("too-many-servers-client-mode", "%q: %d server addresses accept connections at once, --max-servers is %d\n%s", name, ev.Alive, c.MaxServers, describe())
		} else if strings.HasPrefix(ev.Identity, "dial-error") && !strings.HasPrefix(p.tuple, "1/3/") && !strings.HasPrefix(p.tuple, "3/3/") && !strings.HasPrefix(p.tuple, "2/3/") {
			return verifkit.Violf("no-live-server", "%q: the server port %d was not reachable when the request was handed over: %s\n%s", name, ev.Port, ev.Identity, describe())
		}
	}
	return nil
}

func vfC05Classify(c vfC05Case) ([]string, bool) {
	cl := []string{"mode:" + c.Mode, "config:" + c.Config}
	if len(c.RunFrom)+len(c.SkipFrom) > 0 {
		cl = append(cl, "filtered")
	}
	if c.ServerFault != "" {
		cl = append(cl, "server-fault:"+c.ServerFault)
	}
	return cl, len(c.RunFrom)+len(c.SkipFrom) > 0 && c.MaxServers < 4
}

func TestVerifC05Dispatch(t *testing.T) {
	configs := make([]string, 0, len(vfC05Configs))
	for k := range vfC05Configs {
		configs = append(configs, k)
	}
	sort.Strings(configs)
	verifkit.Run(t, "C05Dispatch", verifkit.Spec[vfC05Case]{
		Gen: func(t *rapid.T) vfC05Case {
			c := vfC05Case{Mode: rapid.SampledFrom([]string{"both", "both", "client", "server"}).Draw(t, "mode"), Config: rapid.SampledFrom(configs).Draw(t, "config"),
				MaxServers: uint(rapid.IntRange(1, 4).Draw(t, "maxServers")), Order: rapid.SampledFrom([]string{"immediate", "reverse-pairs"}).Draw(t, "order"),
				Procs: rapid.SampledFrom([]int{1, 2, 16}).Draw(t, "procs")}
			if c.Mode == "client" {
				// the servers are in-process reference servers of two kinds (connect-go and grpc-go), visible only through
				// the addresses the client is sent to: answers held back to the end of a batch keep a batch's server alive
				// while the runner moves on, and a small --max-servers makes any overlap exceed the bound
				c.Order = rapid.SampledFrom([]string{"immediate", "reverse-pairs", "at-end", "at-end"}).Draw(t, "clientOrder")
				c.MaxServers = uint(rapid.IntRange(1, 2).Draw(t, "clientMaxServers"))
			}
			c.Corpus = rapid.IntRange(0, 2).Draw(t, "corpus") == 0
			c.EmptyHost = c.Mode == "both" && rapid.IntRange(0, 3).Draw(t, "emptyHost") == 0
			if !c.Corpus {
				modeNum := map[string]int32{"both": 0, "client": 1, "server": 2}[c.Mode]
				c.Suites = vfGenSuites(t, modeNum)
				if c.Mode != "both" {
					c.Suites = vfClearPresets(c.Suites)
				}
				for i := range c.Suites {
					for j := range c.Suites[i].Cases {
						// (scripted peers: a suite file may carry stale TLS material, which the runner replaces)
						c.Suites[i].Cases[j].Preset &= 3
					}
				}
				for i := range c.Suites {
					// raw responses need an explicit expectation and a real server: not here
					for j := range c.Suites[i].Cases {
						c.Suites[i].Cases[j].RawResp = false
						// explicit methods that do not fit the stream type make the reference client refuse the call
						c.Suites[i].Cases[j].Service, c.Suites[i].Cases[j].Method = "", ""
					}
				}
			}
			if c.Mode != "both" {
				// in-process reference peers do real work per case: keep these runs small
				c.Corpus = false
				if len(c.Suites) == 0 {
					c.Suites = vfClearPresets(vfGenSuites(t, map[string]int32{"client": 1, "server": 2}[c.Mode]))
				}
			}
			for i := range c.Suites {
				for j := range c.Suites[i].Cases {
					c.Suites[i].Cases[j].RawResp = false
					c.Suites[i].Cases[j].Service, c.Suites[i].Cases[j].Method = "", ""
				}
			}
			if c.Mode == "server" && len(c.Suites) > 0 && rapid.Bool().Draw(t, "rawRequestSuite") {
				// a server-mode suite with a raw request over every axis
				s := &c.Suites[0]
				s.Mode, s.Protocols, s.Versions, s.TLS, s.Certs, s.Get, s.Limit = 2, nil, nil, false, false, false, false
				s.Cases[0].RawReq = true
			}
			for i, n := 0, rapid.IntRange(0, 3).Draw(t, "nrun"); i < n; i++ {
				c.RunFrom = append(c.RunFrom, rapid.IntRange(0, 100000).Draw(t, "runFrom"))
			}
			for i, n := 0, rapid.IntRange(0, 2).Draw(t, "nskip"); i < n; i++ {
				c.SkipFrom = append(c.SkipFrom, rapid.IntRange(0, 100000).Draw(t, "skipFrom"))
			}
			for i := 0; i < 5; i++ {
				c.Generalise = append(c.Generalise, rapid.IntRange(0, 60).Draw(t, "generalise"))
			}
			if rapid.IntRange(0, 5).Draw(t, "fault") == 0 {
				c.ServerFault = rapid.SampledFrom([]string{"exit-before-answer", "garbage", "empty", "no-cert", "ignore-term"}).Draw(t, "serverFault")
				c.FaultTuple = rapid.IntRange(0, 20).Draw(t, "faultTuple")
			}
			return c
		},
		Check:    vfC05Check,
		Classify: vfC05Classify,
	})
}

func vfTail(s string, n int) string {
	if len(s) > n {
		return "..." + s[len(s)-n:]
	}
	return s
}

// vfFailedText returns what the runner printed about one test case.
func vfFailedText(out, name string) string {
	i := strings.Index(out, "FAILED: "+name+":")
	if i < 0 {
		return "(nothing)"
	}
	rest := out[i:]
	if j := strings.Index(rest[1:], "\nFAILED: "); j >= 0 {
		rest = rest[:j+1]
	}
	if len(rest) > 500 {
		rest = rest[:500]
	}
	return rest
}

// vfSameServerKind: the scripted server misbehaves for every instance of the faulted protocol / HTTP version /
// TLS combination, with or without client certificates (the fault script names those three parts only).
func vfSameServerKind(tuple, faultTuple string) bool {
	a, b := strings.Split(tuple, "/"), strings.Split(faultTuple, "/")
	return len(a) >= 3 && len(b) >= 3 && a[0] == b[0] && a[1] == b[1] && a[2] == b[2]
}

// TestVerifC05ClientKinds: client mode over the embedded corpus, where the runner itself starts in-process
// reference servers of two kinds (connect-go, then grpc-go) one kind after the other. The scripted client holds its
// answers to the end of each batch and dials every server address it has been given: the hand-over between the two
// kinds must respect --max-servers like any other moment. Small fixed table, same oracle as the random unit.
func TestVerifC05ClientKinds(t *testing.T) {
	en := verifkit.NewEnum(t, "C05ClientKinds")
	var replay vfC05Case
	if en.ReplayCase(&replay) {
		if err := verifkit.SafeCall(func() error { return vfC05Check(replay) }); err != nil {
			en.Fail(replay, err)
		}
		en.Done(false)
		return
	}
	var rows []vfC05Case
	for _, maxServers := range []uint{1, 2} {
		for _, order := range []string{"at-end", "immediate"} {
			rows = append(rows, vfC05Case{Mode: "client", Config: "default", Corpus: true, MaxServers: maxServers, Order: order, Procs: 4, Generalise: []int{0, 0, 0, 0, 0}})
		}
	}
	// scripted server processes that misbehave for one kind of instance, among them one that ignores the request to
	// stop: it must be gone when the run is over and must not let the run hang
	for _, k := range []int{1, 7} {
		rows = append(rows, vfC05Case{Mode: "both", Config: "default", Corpus: true, MaxServers: 2, Order: "immediate", Procs: 4,
			Generalise: []int{0, 0, 0, 0, 0}, ClientExitAfter: k, ClientExitCode: k % 2})
	}
	// the client dies while several slow-to-stop servers are up and more are waiting for a slot: when the run returns,
	// every server it started has stopped
	for _, k := range []int{1, 2, 3, 5} {
		rows = append(rows, vfC05Case{Mode: "both", Config: "default", Corpus: true, MaxServers: uint(2 + k%2), Order: "immediate", Procs: 4,
			Generalise: []int{0, 0, 0, 0, 0}, ClientExitAfter: k, ClientExitCode: 1, SlowStop: true})
	}
	for _, fault := range []string{"ignore-term", "exit-before-answer"} {
		for _, mode := range []string{"both", "server"} {
			rows = append(rows, vfC05Case{Mode: mode, Config: "default", Corpus: mode == "both", MaxServers: 1, Order: "immediate", Procs: 4,
				Generalise: []int{0, 0, 0, 0, 0}, ServerFault: fault, FaultTuple: len(rows)})
		}
	}
	// server mode with a raw-request case under every config: the runner's own grpc-go client gets only what it supports
	for _, config := range []string{"default", "h2-grpc"} {
		rows = append(rows, vfC05Case{Mode: "server", Config: config, MaxServers: 2, Order: "immediate", Procs: 4, Generalise: []int{0, 0, 0, 0, 0},
			Suites: []vfSuite{{Name: "Raw Requests", Mode: 2, Cases: []vfSuiteTC{{Name: "raw/one", Stream: 1, RawReq: true}, {Name: "unary/success", Stream: 1}}}}})
	}
	// TLS with and without client certificates in one run (two kinds of TLS server instance, visited in the order of a Go
	// map): every instance is started in its own mode with its own credentials. Repeated, since the order varies.
	for i := 0; i < 10; i++ {
		rows = append(rows, vfC05Case{Mode: "both", Config: "tls-certs", MaxServers: uint(1 + i%4), Order: "immediate", Procs: 4, Generalise: []int{0, 0, 0, 0, 0}, EmptyHost: i%2 == 1,
			Suites: []vfSuite{{Name: "Basic", Cases: []vfSuiteTC{{Name: "unary/success", Stream: 1}}}, {Name: "TLS Client Certs", TLS: true, Certs: true, Cases: []vfSuiteTC{{Name: "a", Stream: 1}}}}})
	}
	shard, shards := verifkit.Shard()
	for i, c := range rows {
		if i%shards != shard {
			continue
		}
		if !c.Corpus && len(c.Suites) == 0 {
			c.Suites = []vfSuite{{Name: "Basic", Mode: 2, Cases: []vfSuiteTC{{Name: "unary/success", Stream: 1}, {Name: "server-stream/success", Stream: 3}}}}
		}
		err := verifkit.SafeCall(func() error { return vfC05Check(c) })
		cl, _ := vfC05Classify(c)
		en.Rec.Observe(c, append(cl, "order:"+c.Order, fmt.Sprintf("maxServers:%d", c.MaxServers), "fault:"+c.ServerFault), true)
		if err != nil {
			en.Fail(c, err)
		}
	}
	en.Done(true)
}

var vfBindSeq atomic.Int64

// TestVerifC05StartFailures: server mode with a server command that cannot be started at all (no such executable),
// more server instances than --max-servers: the run terminates, does not succeed, and every selected permutation is
// accounted for as not passed (the starter fails before there is any process whose end could free the slot).
func TestVerifC05StartFailures(t *testing.T) {
	en := verifkit.NewEnum(t, "C05StartFailures")
	type row struct {
		MaxServers uint `json:"maxServers"`
	}
	rows := []row{{1}, {2}, {4}}
	var replay row
	if en.ReplayCase(&replay) {
		rows = []row{replay}
	}
	for _, r := range rows {
		viol := func() error {
			logP, errP := &vfSyncPrinter{}, &vfSyncPrinter{}
			flags := &Flags{ServerCommand: []string{"/nonexistent/verif-no-such-server"}, MaxServers: r.MaxServers, Parallelism: 4, RunPatterns: []string{"Basic/**"}}
			type result struct {
				ok  bool
				err error
			}
			done := make(chan result, 1)
			go func() {
				ok, err := Run(flags, logP, errP)
				done <- result{ok, err}
			}()
			select {
			case res := <-done:
				out := logP.Full()
				if res.err == nil && res.ok {
					return verifkit.Violf("start-failures-succeed", "no server could be started, yet the run succeeded\n%s", vfTail(out, 1500))
				}
				if res.err == nil && !strings.Contains(out, " 0 passed") && !strings.Contains(out, "\n0 passed") {
					return verifkit.Violf("start-failures-passed", "no server could be started, yet cases are reported as passed\n%s", vfTail(out, 1500))
				}
				return nil
			case <-time.After(3 * time.Minute):
				// nothing here is slow: no process ever starts, the reference client is in-process
				return verifkit.Violf("run-hang-start-failures", "Run did not return within 3 minutes although every server start fails at once (--max-servers %d, several server instances)", r.MaxServers)
			}
		}()
		en.Rec.Observe(r, []string{fmt.Sprintf("maxServers:%d", r.MaxServers)}, true)
		if viol != nil && en.Fail(r, viol) {
			break
		}
	}
	en.Done(true)
}
