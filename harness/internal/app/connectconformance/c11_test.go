//go:build verif

package connectconformance

import (
	"bytes"
	"context"
	"encoding/binary"
	"encoding/json"
	"errors"
	"fmt"
	"io"
	"os"
	"path/filepath"
	"sort"
	"strings"
	"sync"
	"syscall"
	"testing"
	"time"

	"connectrpc.com/conformance/internal"
	conformancev1 "connectrpc.com/conformance/internal/gen/proto/go/connectrpc/conformance/v1"
	"connectrpc.com/conformance/internal/verifkit"
	"google.golang.org/protobuf/proto"
	"pgregory.net/rapid"
)

// ---- C11: one outcome per case of a server batch, whatever goes wrong ----

type vfC11Case struct {
	N           int      `json:"n"` // batch size
	UseTLS      bool     `json:"useTLS"`
	ServerFault string   `json:"serverFault"` // none, start-error, stdin-write, stdin-close, stdout-empty, stdout-truncated, stdout-oversize, stdout-garbage, no-cert, die
	FaultAt     int      `json:"faultAt"`     // truncation offset / number of sends before the server dies
	ClientFault string   `json:"clientFault"` // none, send-error, callback-error
	ClientAt    int      `json:"clientAt"`    // index of the failing send / of the case whose callback carries an error
	Delivery    string   `json:"delivery"`    // sync, async, reverse
	Mismatch    []int    `json:"mismatch"`    // cases whose response deviates from the expectation
	ClientErr   []int    `json:"clientErr"`   // cases for which the client reports an error result
	RefServer   bool     `json:"refServer"`
	Stderr      []string `json:"stderr"` // raw stderr lines of a reference server (%d in a line is replaced by a batch index)
	NoFinalEOL  bool     `json:"noFinalEOL"`
	// SlowLog: every request and answer is logged (-vv) and the printer takes a few milliseconds for an
	// "answer received" line, so the evaluation of an answer is still going on when the next thing happens
	SlowLog bool `json:"slowLog,omitempty"`
}

func vfC11Name(i int) string { return fmt.Sprintf("Suite/verif-c11/case-%d", i) }

type vfFakeProc struct {
	mu       sync.Mutex
	aborted  int
	done     chan struct{}
	doneOnce sync.Once
	hooks    []func(error)
	exitErr  error // what the process ended with (nil: it exited with status 0)
}

func (p *vfFakeProc) result() error {
	select {
	case <-p.done:
	case <-time.After(5 * time.Second):
	}
	return nil
}
func (p *vfFakeProc) abort() {
	p.mu.Lock()
	p.aborted++
	p.mu.Unlock()
	p.die()
}
func (p *vfFakeProc) whenDone(f func(error)) {
	p.mu.Lock()
	p.hooks = append(p.hooks, f)
	p.mu.Unlock()
}
func (p *vfFakeProc) die() {
	p.doneOnce.Do(func() {
		close(p.done)
		p.mu.Lock()
		hooks := append([]func(error){}, p.hooks...)
		p.mu.Unlock()
		for _, h := range hooks {
			h(p.exitErr)
		}
	})
}

// vfDieAfterReader lets the fake server process die as soon as its start response has been read completely.
type vfDieAfterReader struct {
	r    io.Reader
	left int
	proc *vfFakeProc
}

func (d *vfDieAfterReader) Read(p []byte) (int, error) {
	n, err := d.r.Read(p)
	d.left -= n
	if d.left <= 0 {
		d.proc.die()
	}
	return n, err
}

type vfFakeStdin struct {
	buf      bytes.Buffer
	writeErr error
	closeErr error
	closed   int
}

func (s *vfFakeStdin) Write(p []byte) (int, error) {
	if s.writeErr != nil {
		return 0, s.writeErr
	}
	return s.buf.Write(p)
}
func (s *vfFakeStdin) Close() error { s.closed++; return s.closeErr }

type vfFakeClient struct {
	c        vfC11Case
	proc     *vfFakeProc
	mu       sync.Mutex
	sends    []string
	accepted []string
	pending  []func()
	wg       sync.WaitGroup
	expected map[string]*conformancev1.ClientResponseResult
	feedback map[string][]string // per test name: wire feedback the client attaches to its (matching) result
}

func (f *vfFakeClient) sendRequest(req *conformancev1.ClientCompatRequest, whenDone func(string, *conformancev1.ClientCompatResponse, error)) error {
	f.mu.Lock()
	idx := len(f.sends)
	f.sends = append(f.sends, req.TestName)
	f.mu.Unlock()
	if f.c.ClientFault == "send-error" && idx == f.c.ClientAt%f.c.N {
		f.flush() // a failing client still completes (drains) what it accepted earlier
		return errors.New("verif: client pipe broken")
	}
	f.mu.Lock()
	f.accepted = append(f.accepted, req.TestName)
	f.mu.Unlock()
	name := req.TestName
	var caseIdx int
	_, _ = fmt.Sscanf(name, "Suite/verif-c11/case-%d", &caseIdx)
	deliver := func() {
		defer f.wg.Done()
		if f.c.ClientFault == "callback-error" && caseIdx == f.c.ClientAt%f.c.N {
			whenDone(name, nil, &failedToGetResultError{errNoOutcome})
			return
		}
		resp := &conformancev1.ClientCompatResponse{TestName: name}
		switch {
		case vfContainsInt(f.c.ClientErr, caseIdx):
			resp.Result = &conformancev1.ClientCompatResponse_Error{Error: &conformancev1.ClientErrorResult{Message: "client could not run it"}}
		case vfContainsInt(f.c.Mismatch, caseIdx):
			resp.Result = &conformancev1.ClientCompatResponse_Response{Response: &conformancev1.ClientResponseResult{Payloads: []*conformancev1.ConformancePayload{{Data: []byte("WRONG")}}}}
		default:
			result := proto.Clone(f.expected[name]).(*conformancev1.ClientResponseResult)
			result.Feedback = append(result.Feedback, f.feedback[name]...)
			resp.Result = &conformancev1.ClientCompatResponse_Response{Response: result}
		}
		whenDone(name, resp, nil)
	}
	f.wg.Add(1)
	switch f.c.Delivery {
	case "sync":
		deliver()
	case "async":
		go deliver()
	case "late":
		// the answer is still outstanding when the send loop has moved on (or has stopped)
		go func() {
			time.Sleep(25 * time.Millisecond)
			deliver()
		}()
	default: // reverse: delivered after the last send of the batch (or when the fake is flushed)
		f.mu.Lock()
		f.pending = append(f.pending, deliver)
		flush := len(f.sends) == f.c.N
		f.mu.Unlock()
		if flush {
			f.flush()
		}
	}
	if f.c.ServerFault == "die" && idx+1 == f.c.FaultAt%(f.c.N+1) && f.proc != nil {
		f.proc.die()
		f.flush()
	}
	return nil
}

func (f *vfFakeClient) flush() {
	f.mu.Lock()
	pending := f.pending
	f.pending = nil
	f.mu.Unlock()
	for i := len(pending) - 1; i >= 0; i-- {
		go pending[i]()
	}
}
func (f *vfFakeClient) closeSend()              {}
func (f *vfFakeClient) waitForResponses() error { return nil }
func (f *vfFakeClient) isRunning() bool         { return true }
func (f *vfFakeClient) stop()                   {}

func vfContainsInt(l []int, v int) bool {
	for _, x := range l {
		if x == v {
			return true
		}
	}
	return false
}

type vfC11Printer struct {
	mu      sync.Mutex
	lines   []string
	slowOn  string // lines containing this take slowFor
	slowFor time.Duration
}

func (p *vfC11Printer) Printf(msg string, args ...any) {
	if p.slowOn != "" && strings.Contains(msg, p.slowOn) {
		time.Sleep(p.slowFor)
	}
	p.mu.Lock()
	defer p.mu.Unlock()
	p.lines = append(p.lines, fmt.Sprintf(msg, args...))
}
func (p *vfC11Printer) PrefixPrintf(prefix, msg string, args ...any) {
	p.mu.Lock()
	defer p.mu.Unlock()
	p.lines = append(p.lines, prefix+": "+fmt.Sprintf(msg, args...))
}

func vfC11StderrLines(c vfC11Case) []string {
	var out []string
	for i, l := range c.Stderr {
		out = append(out, strings.ReplaceAll(l, "%d", fmt.Sprint(i%c.N)))
	}
	return out
}

func vfC11Check(c vfC11Case) error {
	var testCases []*conformancev1.TestCase
	expected := map[string]*conformancev1.ClientResponseResult{}
	for i := 0; i < c.N; i++ {
		exp := &conformancev1.ClientResponseResult{Payloads: []*conformancev1.ConformancePayload{{Data: []byte(fmt.Sprintf("payload-%d", i))}}}
		tc := &conformancev1.TestCase{Request: &conformancev1.ClientCompatRequest{TestName: vfC11Name(i), StreamType: conformancev1.StreamType_STREAM_TYPE_UNARY,
			Protocol: conformancev1.Protocol_PROTOCOL_CONNECT, HttpVersion: conformancev1.HTTPVersion_HTTP_VERSION_1}, ExpectedResponse: exp}
		expected[tc.Request.TestName] = exp
		testCases = append(testCases, tc)
	}
	proc := &vfFakeProc{done: make(chan struct{})}
	stdin := &vfFakeStdin{}
	client := &vfFakeClient{c: c, proc: proc, expected: expected}
	resp := &conformancev1.ServerCompatResponse{Host: "127.0.0.1", Port: 4242}
	if c.UseTLS && c.ServerFault != "no-cert" {
		resp.PemCert = []byte("CERT")
	}
	data, _ := proto.Marshal(resp)
	var l [4]byte
	binary.BigEndian.PutUint32(l[:], uint32(len(data)))
	stdout := append(l[:], data...)
	switch c.ServerFault {
	case "stdin-write":
		stdin.writeErr = errors.New("verif: cannot write to server")
	case "stdin-close":
		stdin.closeErr = errors.New("verif: cannot close server stdin")
	case "stdout-empty":
		stdout = nil
	case "stdout-truncated":
		stdout = stdout[:c.FaultAt%len(stdout)]
	case "stdout-oversize":
		// (also lengths with the top bit set: 2 GiB and the largest one)
		binary.BigEndian.PutUint32(stdout, []uint32{2 * 1024 * 1024, 0xFFFFFFFF, 0x80000000, 0x7FFFFFFF}[c.FaultAt%4])
	case "stdout-garbage":
		stdout = append([]byte{0, 0, 0, 4}, 0xff, 0xff, 0xff, 0xff)
		if c.FaultAt%2 == 1 {
			// a log line with a byte-order mark where the answer should be
			stdout = append([]byte{0xEF, 0xBB, 0xBF}, []byte("2024/01/01 starting server\n")...)
		}
	}
	stderrText := strings.Join(vfC11StderrLines(c), "\n")
	if len(c.Stderr) > 0 && !c.NoFinalEOL {
		stderrText += "\n"
	}
	started := 0
	starter := processStarter(func(ctx context.Context, pipeStderr bool) (*process, error) {
		started++
		if c.ServerFault == "start-error" {
			return nil, errors.New("verif: no such server")
		}
		var out io.Reader = bytes.NewReader(stdout)
		if c.ServerFault == "die" && c.FaultAt%(c.N+1) == 0 {
			// the server answers the start request and dies before the first case is sent
			out = &vfDieAfterReader{r: out, left: len(stdout), proc: proc}
		}
		return &process{processController: proc, stdin: stdin, stdout: out, stderr: strings.NewReader(stderrText)}, nil
	})
	results := newResults(c.N, &testTrie{}, &testTrie{}, nil)
	logP, errP := &vfC11Printer{}, &vfC11Printer{}
	if c.SlowLog {
		logP.slowOn, logP.slowFor = "Received response", 8*time.Millisecond
	}
	meta := serverInstance{protocol: conformancev1.Protocol_PROTOCOL_CONNECT, httpVersion: conformancev1.HTTPVersion_HTTP_VERSION_1, useTLS: c.UseTLS}
	var creds *conformancev1.TLSCreds
	if c.UseTLS {
		creds = &conformancev1.TLSCreds{Cert: []byte("C"), Key: []byte("K")}
	}
	done := make(chan struct{})
	go func() {
		defer close(done)
		runTestCasesForServer(context.Background(), false, c.RefServer, meta, testCases, creds, nil, starter, logP, errP, results, client, nil, c.SlowLog)
	}()
	select {
	case <-done:
	case <-time.After(60 * time.Second):
		return verifkit.Violf("batch-hang", "runTestCasesForServer did not return within 60s")
	}
	// what the batch has recorded when it returns is final (unless the server died: see below)
	atReturn := map[string]string{}
	if c.ServerFault != "die" {
		results.mu.Lock()
		for name, o := range results.outcomes {
			atReturn[name] = fmt.Sprintf("setupError=%v failure=%v", o.setupError, o.actualFailure)
		}
		results.mu.Unlock()
	}
	// when the batch function returns, every case already has its outcome (unless the server died: then the
	// answers still outstanding are collected by the runner's later bookkeeping)
	if c.ServerFault != "die" {
		results.mu.Lock()
		var missingAtReturn []string
		for i := 0; i < c.N; i++ {
			if _, ok := results.outcomes[vfC11Name(i)]; !ok {
				missingAtReturn = append(missingAtReturn, vfC11Name(i))
			}
		}
		results.mu.Unlock()
		if len(missingAtReturn) > 0 {
			return verifkit.Violf("outcome-missing-at-return", "the batch returned while %v had no outcome yet (server fault %s@%d, client fault %s@%d, delivery %s)", missingAtReturn, c.ServerFault, c.FaultAt, c.ClientFault, c.ClientAt, c.Delivery)
		}
	}
	// a contract-respecting client eventually delivers every accepted request
	client.flush()
	delivered := make(chan struct{})
	go func() { client.wg.Wait(); close(delivered) }()
	select {
	case <-delivered:
	case <-time.After(30 * time.Second):
		return verifkit.Violf("harness-callbacks", "fake client callbacks did not finish")
	}
	results.mu.Lock()
	defer results.mu.Unlock()
	for name, was := range atReturn {
		o := results.outcomes[name]
		if now := fmt.Sprintf("setupError=%v failure=%v", o.setupError, o.actualFailure); now != was {
			return verifkit.Violf("outcome-changed-after-return", "%q: the batch returned with %s, later it became %s (client fault %s@%d, delivery %s, slow log %v)", name, was, now, c.ClientFault, c.ClientAt, c.Delivery, c.SlowLog)
		}
	}
	var missing, extra []string
	for i := 0; i < c.N; i++ {
		if _, ok := results.outcomes[vfC11Name(i)]; !ok {
			missing = append(missing, vfC11Name(i))
		}
	}
	for name := range results.outcomes {
		if _, ok := expected[name]; !ok {
			extra = append(extra, name)
		}
	}
	sort.Strings(missing)
	if len(missing) > 0 {
		return verifkit.Violf("outcome-missing", "cases without any outcome after the batch: %v (server fault %s@%d, client fault %s@%d, delivery %s)", missing, c.ServerFault, c.FaultAt, c.ClientFault, c.ClientAt, c.Delivery)
	}
	if len(extra) > 0 {
		return verifkit.Violf("outcome-extra", "outcomes for names outside the batch: %v", extra)
	}
	startFault := map[string]bool{"start-error": true, "stdin-write": true, "stdin-close": true, "stdout-empty": true, "stdout-truncated": true, "stdout-oversize": true, "stdout-garbage": true}
	if c.ServerFault == "no-cert" && c.UseTLS {
		startFault["no-cert"] = true
	}
	sent := map[string]bool{}
	for _, n := range client.accepted {
		sent[n] = true
	}
	if startFault[c.ServerFault] {
		if len(client.sends) != 0 {
			return verifkit.Violf("sent-despite-start-fault", "server fault %s but %d requests were handed to the client", c.ServerFault, len(client.sends))
		}
		for i := 0; i < c.N; i++ {
			o := results.outcomes[vfC11Name(i)]
			if !o.setupError || o.actualFailure == nil {
				return verifkit.Violf("start-fault-not-setup-error", "server fault %s: case %d recorded as setupError=%v failure=%v", c.ServerFault, i, o.setupError, o.actualFailure)
			}
		}
	} else {
		if c.ServerFault == "die" {
			// the server is gone (and the runner has been told so) once k requests have been handed over:
			// every later case is affected and must be a setup error, never a pass or an ordinary failure
			for i := c.FaultAt % (c.N + 1); i < c.N; i++ {
				if o := results.outcomes[vfC11Name(i)]; o.actualFailure == nil || !o.setupError {
					return verifkit.Violf("after-death-not-setup-error", "server died after %d of %d requests but case %d is recorded as setupError=%v failure=%v (handed to the client: %v)", c.FaultAt%(c.N+1), c.N, i, o.setupError, o.actualFailure, sent[vfC11Name(i)])
				}
			}
		}
		for i := 0; i < c.N; i++ {
			o := results.outcomes[vfC11Name(i)]
			name := vfC11Name(i)
			switch {
			case !sent[name]:
				// never reached the client (server died / client pipe broke before): a setup error, never a pass
				if o.actualFailure == nil || !o.setupError {
					return verifkit.Violf("unsent-not-setup-error", "case %d was not run (sent=%v) but is recorded as setupError=%v failure=%v", i, sent[name], o.setupError, o.actualFailure)
				}
			case c.ClientFault == "callback-error" && i == c.ClientAt%c.N:
				if o.actualFailure == nil || !o.setupError {
					return verifkit.Violf("no-result-not-setup-error", "case %d got no result from the client but is recorded as setupError=%v failure=%v", i, o.setupError, o.actualFailure)
				}
			case vfContainsInt(c.ClientErr, i) || vfContainsInt(c.Mismatch, i):
				if o.actualFailure == nil || o.setupError {
					return verifkit.Violf("answered-verdict", "case %d was answered with a deviating result but is recorded as setupError=%v failure=%v", i, o.setupError, o.actualFailure)
				}
			default:
				if o.actualFailure != nil || o.setupError {
					return verifkit.Violf("answered-verdict", "case %d was answered correctly but is recorded as setupError=%v failure=%v", i, o.setupError, o.actualFailure)
				}
			}
		}
	}
	if c.ServerFault != "start-error" {
		if started != 1 {
			return verifkit.Violf("server-starts", "server started %d times", started)
		}
		proc.mu.Lock()
		aborted := proc.aborted
		proc.mu.Unlock()
		if aborted < 1 {
			return verifkit.Violf("server-not-stopped", "the server process was never asked to stop (fault %s)", c.ServerFault)
		}
	}
	if !startFault[c.ServerFault] || c.ServerFault == "stdout-empty" || c.ServerFault == "stdout-truncated" || c.ServerFault == "stdout-oversize" || c.ServerFault == "stdout-garbage" || c.ServerFault == "no-cert" {
		if c.ServerFault != "start-error" && c.ServerFault != "stdin-write" && stdin.closed < 1 {
			return verifkit.Violf("stdin-not-closed", "server stdin was not closed after the request (fault %s)", c.ServerFault)
		}
	}
	// side-band attribution (only on the path that runs to the normal end)
	if c.RefServer && !startFault[c.ServerFault] && c.ServerFault != "die" && c.ClientFault != "send-error" {
		wantSideband := map[string][]string{} // every feedback line of a case, in order
		var wantForwarded []string
		for _, line := range vfC11StderrLines(c) {
			str := strings.TrimSpace(line)
			if str == "" {
				continue
			}
			parts := strings.SplitN(str, ": ", 2)
			if len(parts) == 2 {
				if _, ok := expected[parts[0]]; ok {
					wantSideband[parts[0]] = append(wantSideband[parts[0]], parts[1])
					continue
				}
			}
			wantForwarded = append(wantForwarded, line)
		}
		for name, msgs := range wantSideband {
			// how several lines for one case are combined is the runner's business; none may get lost
			rest := results.serverSideband[name]
			for _, msg := range msgs {
				i := strings.Index(rest, msg)
				if i < 0 {
					return verifkit.Violf("sideband-attribution", "feedback for %q: recorded %q, which lacks (or misorders) the line %q of %q (stderr %q)", name, results.serverSideband[name], msg, msgs, vfC11StderrLines(c))
				}
				rest = rest[i+len(msg):]
			}
		}
		for name := range results.serverSideband {
			if _, ok := wantSideband[name]; !ok {
				return verifkit.Violf("sideband-attribution", "feedback recorded for %q which no stderr line names (stderr %q)", name, vfC11StderrLines(c))
			}
		}
		errP.mu.Lock()
		var gotForwarded []string
		for _, l := range errP.lines {
			if strings.HasPrefix(l, "referenceserver: ") {
				gotForwarded = append(gotForwarded, strings.TrimRight(strings.TrimPrefix(l, "referenceserver: "), "\n"))
			}
		}
		errP.mu.Unlock()
		if fmt.Sprintf("%q", gotForwarded) != fmt.Sprintf("%q", wantForwarded) {
			return verifkit.Violf("stderr-passthrough", "forwarded stderr lines %q, want %q", gotForwarded, wantForwarded)
		}
	}
	// The report merges the recorded feedback into the outcomes: a case that could not be set up or got no
	// result stays a setup error whether or not the server printed a line about it, a failed case stays failed,
	// and no case is added or dropped.
	type verdict struct{ setup, failed bool }
	before := map[string]verdict{}
	for name, o := range results.outcomes {
		before[name] = verdict{o.setupError, o.actualFailure != nil}
	}
	results.mu.Unlock()
	results.report(&vfC11Printer{})
	results.mu.Lock() // (released by the deferred Unlock above)
	if len(results.outcomes) != len(before) {
		return verifkit.Violf("report-changes-outcomes", "%d outcomes before the report, %d after it", len(before), len(results.outcomes))
	}
	for name, b := range before {
		o, ok := results.outcomes[name]
		if !ok || o.setupError != b.setup || (b.failed && o.actualFailure == nil) {
			return verifkit.Violf("report-changes-outcomes", "%q: setupError=%v failed=%v before the report; present=%v setupError=%v failure=%v after it (feedback %q)", name, b.setup, b.failed, ok, o.setupError, o.actualFailure, results.serverSideband[name])
		}
	}
	return nil
}

var vfStderrTemplates = []string{
	"Suite/verif-c11/case-%d: expected HTTP version 1; instead got 2",
	"Suite/verif-c11/case-%d: first: second: third",
	"  Suite/verif-c11/case-%d: padded feedback  ",
	"Suite/verif-c11/case-99: names a case outside the batch",
	"Suite/verif-c11/case-%d:no space after colon",
	"Suite/verif-c11/case-%d",
	"plain log line without separator",
	// log lines with percent signs (an escaped path, a percentage, something that looks like a format verb)
	"2024/01/01 12:00:00 GET /connectrpc.conformance.v1.ConformanceService/Unary%20Call 404",
	"load at 100% after 3 requests; %s %v %!",
	"2024/01/01 12:00:00 http: TLS handshake error: EOF",
	"",
	"   ",
	"Suite/verif-c11/case: prefix of a name: msg",
	// a line longer than any line buffer (a dumped header value, a stack trace on one line)
	"long log line " + strings.Repeat("0123456789abcdef", 4400),
	// feedback whose message has colons of its own
	"Suite/verif-c11/case-%d: invalid value for \"grpc-timeout\" header: \"5x\": unknown unit",
}

func vfGenC11(t *rapid.T) vfC11Case {
	c := vfC11Case{N: rapid.IntRange(1, 8).Draw(t, "n"), UseTLS: rapid.IntRange(0, 3).Draw(t, "tls") == 0}
	c.ServerFault = rapid.SampledFrom([]string{"none", "none", "none", "start-error", "stdin-write", "stdin-close", "stdout-empty", "stdout-truncated", "stdout-oversize", "stdout-garbage", "no-cert", "die", "die"}).Draw(t, "serverFault")
	c.FaultAt = rapid.IntRange(0, 40).Draw(t, "faultAt")
	c.ClientFault = rapid.SampledFrom([]string{"none", "none", "send-error", "callback-error"}).Draw(t, "clientFault")
	c.ClientAt = rapid.IntRange(0, 8).Draw(t, "clientAt")
	c.Delivery = rapid.SampledFrom([]string{"sync", "async", "reverse", "late"}).Draw(t, "delivery")
	for i := 0; i < c.N; i++ {
		switch rapid.IntRange(0, 5).Draw(t, "verdict") {
		case 0:
			c.Mismatch = append(c.Mismatch, i)
		case 1:
			c.ClientErr = append(c.ClientErr, i)
		}
	}
	c.SlowLog = rapid.IntRange(0, 3).Draw(t, "slowLog") == 0
	c.RefServer = rapid.Bool().Draw(t, "refServer")
	if c.RefServer {
		for i, n := 0, rapid.IntRange(0, 6).Draw(t, "nstderr"); i < n; i++ {
			c.Stderr = append(c.Stderr, rapid.SampledFrom(vfStderrTemplates).Draw(t, "stderr"))
		}
		c.NoFinalEOL = rapid.Bool().Draw(t, "noFinalEOL")
	}
	return c
}

func vfC11Classify(c vfC11Case) ([]string, bool) {
	cl := []string{"server:" + c.ServerFault, "client:" + c.ClientFault}
	nt := false
	if c.ServerFault == "die" {
		k := c.FaultAt % (c.N + 1)
		if k > 0 && k < c.N {
			nt = true
		}
	}
	if c.ClientFault == "send-error" {
		k := c.ClientAt % c.N
		if k > 0 && k < c.N {
			nt = true
		}
	}
	if c.ServerFault != "none" && c.ClientFault != "none" {
		nt = true
	}
	return cl, nt
}

func TestVerifC11Batch(t *testing.T) {
	verifkit.Run(t, "C11Batch", verifkit.Spec[vfC11Case]{Gen: vfGenC11, Check: vfC11Check, Classify: vfC11Classify})
}

// TestVerifC11NeverAnswers: a server that never writes its response must be
// given up on after the runner's fixed response timeout (thorough tier only).
func TestVerifC11NeverAnswers(t *testing.T) {
	en := verifkit.NewEnum(t, "C11NeverAnswers")
	var wg sync.WaitGroup
	var mu sync.Mutex
	for n := 1; n <= 4; n++ {
		wg.Add(1)
		go func(n int) {
			defer wg.Done()
			var testCases []*conformancev1.TestCase
			for i := 0; i < n; i++ {
				testCases = append(testCases, &conformancev1.TestCase{Request: &conformancev1.ClientCompatRequest{TestName: vfC11Name(i)}, ExpectedResponse: &conformancev1.ClientResponseResult{}})
			}
			proc := &vfFakeProc{done: make(chan struct{})}
			pr, pw := io.Pipe()
			defer pw.Close()
			starter := processStarter(func(ctx context.Context, _ bool) (*process, error) {
				return &process{processController: proc, stdin: &vfFakeStdin{}, stdout: pr, stderr: strings.NewReader("")}, nil
			})
			results := newResults(n, &testTrie{}, &testTrie{}, nil)
			client := &vfFakeClient{c: vfC11Case{N: n, Delivery: "sync"}, expected: map[string]*conformancev1.ClientResponseResult{}}
			start := time.Now()
			done := make(chan struct{})
			go func() {
				defer close(done)
				runTestCasesForServer(context.Background(), false, false, serverInstance{}, testCases, nil, nil, starter, &vfC11Printer{}, &vfC11Printer{}, results, client, nil, false)
			}()
			c := map[string]any{"batch": n, "fault": "server never answers"}
			var viol error
			select {
			case <-done:
			case <-time.After(60 * time.Second):
				viol = verifkit.Violf("never-answers-hang", "batch did not end within 60s although the server never answered")
			}
			if viol == nil {
				results.mu.Lock()
				for i := 0; i < n; i++ {
					o, ok := results.outcomes[vfC11Name(i)]
					if !ok || !o.setupError || o.actualFailure == nil {
						viol = verifkit.Violf("never-answers-outcome", "case %d: outcome present=%v setupError=%v failure=%v", i, ok, o.setupError, o.actualFailure)
					}
				}
				results.mu.Unlock()
				if time.Since(start) < serverResponseTimeout-time.Second {
					viol = verifkit.Violf("never-answers-early", "gave up after %v, before the response timeout", time.Since(start))
				}
			}
			mu.Lock()
			en.Rec.Observe(c, []string{"never-answers"}, true)
			if viol != nil {
				en.Fail(c, viol)
			}
			mu.Unlock()
		}(n)
	}
	wg.Wait()
	en.Done(true)
}

// TestVerifC11InProcess: the server runs in-process (as the reference servers do in client mode) through the real
// runInProcess controller; after answering the start request it reacts to being stopped promptly, slowly, or not
// at all. The batch must end in bounded time (the runner's graceful-shutdown period) with every case's own outcome.
func TestVerifC11InProcess(t *testing.T) {
	en := verifkit.NewEnum(t, "C11InProcess")
	type variant struct {
		Name  string
		Delay time.Duration // how long after cancellation the server function returns (<0: never)
	}
	variants := []variant{{"stops-at-once", 0}, {"stops-after-1s", time.Second}, {"wedged", -1}}
	var wg sync.WaitGroup
	var mu sync.Mutex
	for _, v := range variants {
		for n := 1; n <= 3; n += 2 {
			wg.Add(1)
			go func(v variant, n int) {
				defer wg.Done()
				release := make(chan struct{})
				defer close(release)
				var testCases []*conformancev1.TestCase
				expected := map[string]*conformancev1.ClientResponseResult{}
				for i := 0; i < n; i++ {
					exp := &conformancev1.ClientResponseResult{Payloads: []*conformancev1.ConformancePayload{{Data: []byte(fmt.Sprintf("payload-%d", i))}}}
					testCases = append(testCases, &conformancev1.TestCase{Request: &conformancev1.ClientCompatRequest{TestName: vfC11Name(i)}, ExpectedResponse: exp})
					expected[vfC11Name(i)] = exp
				}
				server := func(ctx context.Context, _ []string, in io.ReadCloser, out, _ io.WriteCloser) error {
					req := &conformancev1.ServerCompatRequest{}
					if err := internal.ReadDelimitedMessage(in, req, "runner", 10*time.Second, 1<<20); err != nil {
						return err
					}
					if err := internal.WriteDelimitedMessage(out, &conformancev1.ServerCompatResponse{Host: "127.0.0.1", Port: 1}); err != nil {
						return err
					}
					<-ctx.Done()
					switch {
					case v.Delay < 0:
						select {
						case <-release:
						case <-time.After(30 * time.Second):
						}
					case v.Delay > 0:
						time.Sleep(v.Delay)
					}
					return nil
				}
				results := newResults(n, &testTrie{}, &testTrie{}, nil)
				client := &vfFakeClient{c: vfC11Case{N: n, Delivery: "sync"}, expected: expected}
				start := time.Now()
				done := make(chan struct{})
				go func() {
					defer close(done)
					runTestCasesForServer(context.Background(), false, false, serverInstance{}, testCases, nil, nil, runInProcess([]string{"verif-server"}, server), &vfC11Printer{}, &vfC11Printer{}, results, client, nil, false)
				}()
				c := map[string]any{"batch": n, "server": v.Name}
				var viol error
				bound := 2*gracefulShutdownPeriod + 5*time.Second
				select {
				case <-done:
				case <-time.After(bound):
					viol = verifkit.Violf("in-process-server-hang", "batch of %d against an in-process server that %s did not end within %v", n, v.Name, bound)
				}
				if viol == nil {
					results.mu.Lock()
					for i := 0; i < n; i++ {
						o, ok := results.outcomes[vfC11Name(i)]
						if !ok || o.setupError || o.actualFailure != nil {
							viol = verifkit.Violf("in-process-outcome", "case %d was answered correctly but: outcome present=%v setupError=%v failure=%v (server %s, took %v)", i, ok, o.setupError, o.actualFailure, v.Name, time.Since(start))
						}
					}
					results.mu.Unlock()
				}
				mu.Lock()
				en.Rec.Observe(c, []string{v.Name}, v.Delay != 0)
				if viol != nil {
					en.Fail(c, viol)
				}
				mu.Unlock()
			}(v, n)
		}
	}
	// an in-process *reference* server (stderr piped to the runner) whose implementation returns an error - before it
	// answers the start request, or later, once it has been asked to stop: the one line that says why reaches the
	// error printer like any other stderr output, and every case still has exactly one outcome
	for _, when := range []string{"before-answer", "at-stop"} {
		wg.Add(1)
		go func(when string) {
			defer wg.Done()
			n := 2
			var testCases []*conformancev1.TestCase
			expected := map[string]*conformancev1.ClientResponseResult{}
			for i := 0; i < n; i++ {
				exp := &conformancev1.ClientResponseResult{Payloads: []*conformancev1.ConformancePayload{{Data: []byte(fmt.Sprintf("payload-%d", i))}}}
				testCases = append(testCases, &conformancev1.TestCase{Request: &conformancev1.ClientCompatRequest{TestName: vfC11Name(i)}, ExpectedResponse: exp})
				expected[vfC11Name(i)] = exp
			}
			const why = "verif: listen tcp 127.0.0.1:4242: bind: address already in use"
			server := func(ctx context.Context, _ []string, in io.ReadCloser, out, _ io.WriteCloser) error {
				req := &conformancev1.ServerCompatRequest{}
				if err := internal.ReadDelimitedMessage(in, req, "runner", 10*time.Second, 1<<20); err != nil {
					return err
				}
				if when == "before-answer" {
					return errors.New(why)
				}
				if err := internal.WriteDelimitedMessage(out, &conformancev1.ServerCompatResponse{Host: "127.0.0.1", Port: 1}); err != nil {
					return err
				}
				<-ctx.Done()
				return errors.New(why)
			}
			results := newResults(n, &testTrie{}, &testTrie{}, nil)
			client := &vfFakeClient{c: vfC11Case{N: n, Delivery: "sync"}, expected: expected}
			errP := &vfC11Printer{}
			done := make(chan struct{})
			go func() {
				defer close(done)
				runTestCasesForServer(context.Background(), false, true, serverInstance{}, testCases, nil, nil, runInProcess([]string{"verif-failing-server"}, server), &vfC11Printer{}, errP, results, client, nil, false)
			}()
			c := map[string]any{"batch": n, "server": "in-process reference server that fails " + when}
			var viol error
			select {
			case <-done:
			case <-time.After(2*gracefulShutdownPeriod + 15*time.Second):
				viol = verifkit.Violf("in-process-server-hang", "batch against an in-process server that fails %s did not end", when)
			}
			if viol == nil {
				results.mu.Lock()
				if len(results.outcomes) != n {
					viol = verifkit.Violf("in-process-outcome", "server fails %s: %d outcomes for %d cases", when, len(results.outcomes), n)
				}
				results.mu.Unlock()
			}
			if viol == nil {
				errP.mu.Lock()
				found := false
				for _, l := range errP.lines {
					if strings.Contains(l, why) {
						found = true
					}
				}
				lines := append([]string{}, errP.lines...)
				errP.mu.Unlock()
				if !found {
					viol = verifkit.Violf("in-process-error-lost", "the in-process reference server failed (%s) with %q; that line never reached the error printer, which got %q", when, why, lines)
				}
			}
			mu.Lock()
			en.Rec.Observe(c, []string{"fails-" + when}, true)
			if viol != nil {
				en.Fail(c, viol)
			}
			mu.Unlock()
		}(when)
	}
	// the same with a real OS process as the server (the --server command path): it answers the start request and then
	// ignores the request to stop; the runner has to get rid of it and the batch has to end
	wg.Add(1)
	go func() {
		defer wg.Done()
		dir, err := os.MkdirTemp(".", "c11proc")
		if err != nil {
			return
		}
		dir, _ = filepath.Abs(dir)
		defer os.RemoveAll(dir)
		scriptFile, logFile := filepath.Join(dir, "server.json"), filepath.Join(dir, "peer.log")
		data, _ := json.Marshal(vfServerScript{Fault: "ignore-term"})
		_ = os.WriteFile(scriptFile, data, 0o644)
		n := 2
		var testCases []*conformancev1.TestCase
		expected := map[string]*conformancev1.ClientResponseResult{}
		for i := 0; i < n; i++ {
			exp := &conformancev1.ClientResponseResult{Payloads: []*conformancev1.ConformancePayload{{Data: []byte(fmt.Sprintf("payload-%d", i))}}}
			testCases = append(testCases, &conformancev1.TestCase{Request: &conformancev1.ClientCompatRequest{TestName: vfC11Name(i)}, ExpectedResponse: exp})
			expected[vfC11Name(i)] = exp
		}
		results := newResults(n, &testTrie{}, &testTrie{}, nil)
		client := &vfFakeClient{c: vfC11Case{N: n, Delivery: "sync"}, expected: expected}
		done := make(chan struct{})
		start := time.Now()
		go func() {
			defer close(done)
			runTestCasesForServer(context.Background(), false, false, serverInstance{}, testCases, nil, nil, runCommand(vfPeerCommand("script-server", scriptFile, logFile)), &vfC11Printer{}, &vfC11Printer{}, results, client, nil, false)
		}()
		c := map[string]any{"batch": n, "server": "os-process-ignores-sigterm"}
		var viol error
		bound := 3*gracefulShutdownPeriod + 10*time.Second
		select {
		case <-done:
		case <-time.After(bound):
			viol = verifkit.Violf("os-process-server-hang", "batch against a server process that ignores SIGTERM did not end within %v", bound)
		}
		if viol == nil {
			results.mu.Lock()
			for i := 0; i < n; i++ {
				o, ok := results.outcomes[vfC11Name(i)]
				if !ok || o.setupError || o.actualFailure != nil {
					viol = verifkit.Violf("os-process-outcome", "case %d was answered correctly but: outcome present=%v setupError=%v failure=%v (took %v)", i, ok, o.setupError, o.actualFailure, time.Since(start))
				}
			}
			results.mu.Unlock()
			// the server was asked to stop and, not reacting, has been killed
			for _, ev := range vfReadPeerLog(logFile) {
				if ev.Event != "server-start" {
					continue
				}
				deadline := time.Now().Add(10 * time.Second)
				for syscall.Kill(ev.Pid, 0) == nil {
					if time.Now().After(deadline) {
						viol = verifkit.Violf("os-process-server-survives", "server process %d is still alive 10s after the batch function returned", ev.Pid)
						_ = syscall.Kill(ev.Pid, syscall.SIGKILL)
						break
					}
					time.Sleep(20 * time.Millisecond)
				}
			}
		}
		mu.Lock()
		en.Rec.Observe(c, []string{"os-process-ignores-sigterm"}, true)
		if viol != nil {
			en.Fail(c, viol)
		}
		mu.Unlock()
	}()
	// an in-process server whose start response is the empty message (every field at its default: a frame of zero
	// bytes), after which it waits to be stopped: whatever the verdict, the batch ends in bounded time with one outcome
	// per case (such a response names no port: the cases cannot be run)
	wg.Add(1)
	go func() {
		defer wg.Done()
		n := 2
		var testCases []*conformancev1.TestCase
		expected := map[string]*conformancev1.ClientResponseResult{}
		for i := 0; i < n; i++ {
			exp := &conformancev1.ClientResponseResult{Payloads: []*conformancev1.ConformancePayload{{Data: []byte(fmt.Sprintf("payload-%d", i))}}}
			testCases = append(testCases, &conformancev1.TestCase{Request: &conformancev1.ClientCompatRequest{TestName: vfC11Name(i)}, ExpectedResponse: exp})
			expected[vfC11Name(i)] = exp
		}
		server := func(ctx context.Context, _ []string, in io.ReadCloser, out, _ io.WriteCloser) error {
			req := &conformancev1.ServerCompatRequest{}
			if err := internal.ReadDelimitedMessage(in, req, "runner", 10*time.Second, 1<<20); err != nil {
				return err
			}
			if _, err := out.Write([]byte{0, 0, 0, 0}); err != nil {
				return err
			}
			<-ctx.Done()
			return nil
		}
		results := newResults(n, &testTrie{}, &testTrie{}, nil)
		client := &vfFakeClient{c: vfC11Case{N: n, Delivery: "sync"}, expected: expected}
		done := make(chan struct{})
		go func() {
			defer close(done)
			runTestCasesForServer(context.Background(), false, false, serverInstance{}, testCases, nil, nil, runInProcess([]string{"verif-server"}, server), &vfC11Printer{}, &vfC11Printer{}, results, client, nil, false)
		}()
		c := map[string]any{"batch": n, "server": "answers-with-the-empty-message"}
		var viol error
		bound := serverResponseTimeout + 2*gracefulShutdownPeriod + 10*time.Second
		select {
		case <-done:
			results.mu.Lock()
			for i := 0; i < n; i++ {
				if _, ok := results.outcomes[vfC11Name(i)]; !ok {
					viol = verifkit.Violf("empty-response-outcome", "case %d has no outcome", i)
				}
			}
			results.mu.Unlock()
		case <-time.After(bound):
			viol = verifkit.Violf("empty-response-hang", "the server answered the start request with a zero-length message and then waited to be stopped: the batch did not end within %v", bound)
		}
		mu.Lock()
		en.Rec.Observe(c, []string{"empty-start-response"}, true)
		if viol != nil {
			en.Fail(c, viol)
		}
		mu.Unlock()
	}()
	// an in-process reference server that writes to its stderr BEFORE it answers the start request (a warning, or the
	// reason why it cannot start): the line is passed through and the batch goes on / fails at once - the server is not
	// left blocked on a stderr pipe that nobody reads yet
	for _, fails := range []bool{false, true} {
		wg.Add(1)
		go func(fails bool) {
			defer wg.Done()
			n := 2
			var testCases []*conformancev1.TestCase
			expected := map[string]*conformancev1.ClientResponseResult{}
			for i := 0; i < n; i++ {
				exp := &conformancev1.ClientResponseResult{Payloads: []*conformancev1.ConformancePayload{{Data: []byte(fmt.Sprintf("payload-%d", i))}}}
				testCases = append(testCases, &conformancev1.TestCase{Request: &conformancev1.ClientCompatRequest{TestName: vfC11Name(i)}, ExpectedResponse: exp})
				expected[vfC11Name(i)] = exp
			}
			server := func(ctx context.Context, _ []string, in io.ReadCloser, out, errW io.WriteCloser) error {
				req := &conformancev1.ServerCompatRequest{}
				if err := internal.ReadDelimitedMessage(in, req, "runner", 10*time.Second, 1<<20); err != nil {
					return err
				}
				_, _ = fmt.Fprintf(errW, "early stderr line: listen tcp 127.0.0.1:1: bind: address already in use\n")
				if fails {
					return errors.New("cannot start")
				}
				if err := internal.WriteDelimitedMessage(out, &conformancev1.ServerCompatResponse{Host: "127.0.0.1", Port: 1}); err != nil {
					return err
				}
				<-ctx.Done()
				return nil
			}
			results := newResults(n, &testTrie{}, &testTrie{}, nil)
			client := &vfFakeClient{c: vfC11Case{N: n, Delivery: "sync"}, expected: expected}
			errP := &vfC11Printer{}
			start := time.Now()
			done := make(chan struct{})
			go func() {
				defer close(done)
				runTestCasesForServer(context.Background(), false, true, serverInstance{}, testCases, nil, nil, runInProcess([]string{"verif-server"}, server), &vfC11Printer{}, errP, results, client, nil, false)
			}()
			c := map[string]any{"batch": n, "server": "writes-stderr-before-answering", "fails-to-start": fails}
			var viol error
			select {
			case <-done:
			case <-time.After(60 * time.Second):
				viol = verifkit.Violf("early-stderr-hang", "batch against a reference server that writes to stderr before answering did not end within 60s")
			}
			if viol == nil {
				took := time.Since(start)
				results.mu.Lock()
				for i := 0; i < n && viol == nil; i++ {
					o, ok := results.outcomes[vfC11Name(i)]
					switch {
					case !ok:
						viol = verifkit.Violf("early-stderr-outcome", "case %d has no outcome", i)
					case fails && !o.setupError:
						viol = verifkit.Violf("early-stderr-outcome", "the server failed to start but case %d is not a setup error", i)
					case !fails && (o.setupError || o.actualFailure != nil):
						viol = verifkit.Violf("early-stderr-server-blocked", "the server wrote a line to stderr and then answered the start request, but case %d: setupError=%v failure=%v (batch took %v)", i, o.setupError, o.actualFailure, took)
					}
				}
				results.mu.Unlock()
				errP.mu.Lock()
				forwarded := strings.Join(errP.lines, "\n")
				errP.mu.Unlock()
				if viol == nil && !strings.Contains(forwarded, "early stderr line") {
					viol = verifkit.Violf("early-stderr-lost", "the server's stderr line written before its answer was not passed through (fails to start: %v, batch took %v); forwarded: %q", fails, took, forwarded)
				}
				if viol == nil && took > 8*time.Second {
					viol = verifkit.Violf("early-stderr-server-blocked", "the batch took %v: the runner sat out its start-up timeout although the server had answered / given up at once", took)
				}
			}
			mu.Lock()
			en.Rec.Observe(c, []string{"early-stderr", fmt.Sprintf("fails:%v", fails)}, true)
			if viol != nil {
				en.Fail(c, viol)
			}
			mu.Unlock()
		}(fails)
	}
	wg.Wait()
	en.Done(true)
}

// TestVerifC11OSPeers: the batch against peers that are real OS processes started through runCommand (the --client /
// --server command path, os/exec pipes) and that go away while the runner still has something to write to them:
// a client that exits after k requests while the next, large request is on its way into the pipe, and a server
// command that exits before reading its start request. The batch ends in bounded time with one outcome per case.
func TestVerifC11OSPeers(t *testing.T) {
	en := verifkit.NewEnum(t, "C11OSPeers")
	type row struct {
		Kind      string `json:"kind"` // client-exits-mid-write, server-exits-at-once
		N         int    `json:"n"`
		ExitAfter int    `json:"exitAfter"`
		ExitCode  int    `json:"exitCode"`
		ReqSize   int    `json:"requestBytes"`
		ServerCmd string `json:"serverCommand"`
	}
	var rows []row
	for _, k := range []int{1, 2} {
		for _, code := range []int{0, 1} {
			for _, size := range []int{300 << 10, 70 << 10} {
				rows = append(rows, row{Kind: "client-exits-mid-write", N: 4, ExitAfter: k, ExitCode: code, ReqSize: size})
			}
		}
	}
	// "missing answers": the client's output ends after k answers while it goes on reading its input
	for _, k := range []int{1, 3} {
		rows = append(rows, row{Kind: "client-output-ends", N: 6, ExitAfter: k})
	}
	for _, cmd := range []string{"exit 3", "exit 0", "sleep 0.3; exit 0", "exec 0<&-; sleep 0.3; exit 1"} {
		rows = append(rows, row{Kind: "server-exits-at-once", N: 3, ServerCmd: cmd})
	}
	dir, err := os.MkdirTemp(".", "c11os")
	if err != nil {
		t.Fatal(err)
	}
	dir, _ = filepath.Abs(dir)
	defer os.RemoveAll(dir)
	for ri, r := range rows {
		var testCases []*conformancev1.TestCase
		expected := map[string]*conformancev1.ClientResponseResult{}
		script := vfClientScript{ExitAfter: r.ExitAfter, ExitCode: r.ExitCode, Expected: map[string][]byte{}, Order: "immediate"}
		for i := 0; i < r.N; i++ {
			exp := &conformancev1.ClientResponseResult{Payloads: []*conformancev1.ConformancePayload{{Data: []byte(fmt.Sprintf("payload-%d", i))}}}
			req := &conformancev1.ClientCompatRequest{TestName: vfC11Name(i)}
			if r.ReqSize > 0 {
				req.RequestHeaders = []*conformancev1.Header{{Name: "x-padding", Value: []string{strings.Repeat("p", r.ReqSize)}}}
			}
			testCases = append(testCases, &conformancev1.TestCase{Request: req, ExpectedResponse: exp})
			expected[vfC11Name(i)] = exp
			script.Expected[vfC11Name(i)], _ = proto.Marshal(exp)
		}
		results := newResults(r.N, &testTrie{}, &testTrie{}, nil)
		ctx, cancel := context.WithCancel(context.Background())
		var client clientRunner
		var serverStart processStarter
		if r.Kind == "client-output-ends" {
			// an in-process client (the way the runner starts the reference clients): answers k requests, closes its
			// output and keeps reading its input to the end (an OS process cannot show this: its output only ends for
			// the runner when it exits)
			k := r.ExitAfter
			cr, err := runClient(ctx, runInProcess([]string{"verif-client"}, func(_ context.Context, _ []string, in io.ReadCloser, out, _ io.WriteCloser) error {
				for answered := 0; ; {
					req := &conformancev1.ClientCompatRequest{}
					if err := internal.ReadDelimitedMessage(in, req, "runner", 30*time.Second, 16<<20); err != nil {
						return nil
					}
					if answered >= k {
						continue
					}
					_ = internal.WriteDelimitedMessage(out, &conformancev1.ClientCompatResponse{TestName: req.TestName,
						Result: &conformancev1.ClientCompatResponse_Response{Response: proto.Clone(expected[req.TestName]).(*conformancev1.ClientResponseResult)}})
					if answered++; answered == k {
						_ = out.Close()
						// the next request is on its way into the (unbuffered) input pipe while the runner notices the
						// end of the output; only then does the client go on reading
						time.Sleep(300 * time.Millisecond)
					}
				}
			}))
			if err != nil {
				cancel()
				continue
			}
			client = cr
		}
		if r.Kind == "client-exits-mid-write" {
			scriptFile, logFile := filepath.Join(dir, fmt.Sprintf("client-%d.json", ri)), filepath.Join(dir, fmt.Sprintf("peer-%d.log", ri))
			data, _ := json.Marshal(script)
			_ = os.WriteFile(scriptFile, data, 0o644)
			cr, err := runClient(ctx, runCommand(vfPeerCommand("script-client", scriptFile, logFile)))
			if err != nil {
				cancel()
				continue // environment
			}
			client = cr
		}
		if r.Kind != "server-exits-at-once" {
			serverStart = runInProcess([]string{"verif-server"}, func(ctx context.Context, _ []string, in io.ReadCloser, out, _ io.WriteCloser) error {
				req := &conformancev1.ServerCompatRequest{}
				if err := internal.ReadDelimitedMessage(in, req, "runner", 10*time.Second, 1<<20); err != nil {
					return err
				}
				if err := internal.WriteDelimitedMessage(out, &conformancev1.ServerCompatResponse{Host: "127.0.0.1", Port: 1}); err != nil {
					return err
				}
				<-ctx.Done()
				return nil
			})
		} else {
			client = &vfFakeClient{c: vfC11Case{N: r.N, Delivery: "sync"}, expected: expected}
			serverStart = runCommand([]string{"sh", "-c", r.ServerCmd})
		}
		done := make(chan struct{})
		start := time.Now()
		go func() {
			defer close(done)
			runTestCasesForServer(ctx, false, false, serverInstance{}, testCases, nil, nil, serverStart, &vfC11Printer{}, &vfC11Printer{}, results, client, nil, false)
		}()
		var viol error
		bound := 2*gracefulShutdownPeriod + 40*time.Second
		select {
		case <-done:
		case <-time.After(bound):
			viol = verifkit.Violf("os-peer-hang:"+r.Kind, "the batch did not end within %v (%+v)", bound, r)
		}
		if viol == nil {
			if cr := client; r.Kind != "server-exits-at-once" {
				// the batch is over: the runner would now close the client's input and wait for it
				waited := make(chan struct{})
				go func() { defer close(waited); cr.closeSend(); _ = cr.waitForResponses() }()
				select {
				case <-waited:
				case <-time.After(bound):
					viol = verifkit.Violf("os-peer-hang:"+r.Kind, "waiting for the client's answers after the batch did not end within %v (%+v)", bound, r)
				}
			}
		}
		if viol == nil {
			results.mu.Lock()
			for i := 0; i < r.N; i++ {
				o, ok := results.outcomes[vfC11Name(i)]
				switch {
				case !ok:
					viol = verifkit.Violf("os-peer-outcome-missing:"+r.Kind, "case %d has no outcome (%+v, took %v)", i, r, time.Since(start))
				case r.Kind == "server-exits-at-once" && !o.setupError:
					viol = verifkit.Violf("os-peer-not-setup-error", "the server command exited without answering but case %d is not a setup error: failure=%v (%+v)", i, o.actualFailure, r)
				case r.Kind == "client-output-ends" && i < r.ExitAfter && (o.actualFailure != nil || o.setupError):
					viol = verifkit.Violf("os-peer-answered-lost", "case %d was answered by the client before its output ended but: setupError=%v failure=%v (%+v)", i, o.setupError, o.actualFailure, r)
				case r.Kind == "client-output-ends" && i >= r.ExitAfter && o.actualFailure == nil && !o.setupError:
					viol = verifkit.Violf("os-peer-phantom-pass", "case %d was never answered (the client's output had ended) but is recorded as passed (%+v)", i, r)
				case r.Kind == "client-exits-mid-write" && i < r.ExitAfter && (o.actualFailure != nil || o.setupError):
					viol = verifkit.Violf("os-peer-answered-lost", "case %d was answered by the client before it exited but: setupError=%v failure=%v (%+v)", i, o.setupError, o.actualFailure, r)
				case r.Kind == "client-exits-mid-write" && i > r.ExitAfter && o.actualFailure == nil && !o.setupError:
					viol = verifkit.Violf("os-peer-phantom-pass", "case %d was never answered (the client had exited) but is recorded as passed (%+v)", i, r)
				}
			}
			results.mu.Unlock()
		}
		cancel()
		if r.Kind != "server-exits-at-once" && viol == nil {
			client.stop()
		}
		t.Logf("%+v took %v", r, time.Since(start))
		en.Rec.Observe(r, []string{r.Kind}, true)
		if viol != nil && en.Fail(r, viol) {
			break
		}
	}
	en.Done(true)
}

// vfPrinterUnit: the reference server's feedback lines are produced by the real printer (internal.NewPrinter +
// PrefixPrintf, as referenceServerChecks does) for test names and messages with characters that mean something to
// fmt or to the line parser, and consumed by the real side-band reader of runTestCasesForServer: the line is
// attributed to the named case (and only to it), every other case keeps its pass. withReport additionally runs
// report(): no success, the case is named FAILED with the message.
func vfPrinterUnit(t *testing.T, unit string, withReport bool) {
	en := verifkit.NewEnum(t, unit)
	type row struct {
		Name string `json:"name"`
		Msg  string `json:"message"`
	}
	names := []string{"Suite/plain/case", "Suite/100% coverage/case", "Suite/%d items/%s", "Suite/tab\tname/case", "Suite/ünïcode ✓/case", "Suite/trailing percent%", "S/HTTPVersion:1/Protocol:PROTOCOL_CONNECT/a b"}
	msgs := []string{"expected HTTP version 1; instead got 2", "value 100% wrong", "invalid value for \"grpc-timeout\" header: \"5x\": unknown unit", "stray %d verb and %!s(MISSING)"}
	for _, name := range names {
		for _, msg := range msgs {
			r := row{name, msg}
			batch := []string{"Suite/plain/first", name, "Suite/plain/last"}
			var testCases []*conformancev1.TestCase
			expected := map[string]*conformancev1.ClientResponseResult{}
			for i, n := range batch {
				exp := &conformancev1.ClientResponseResult{Payloads: []*conformancev1.ConformancePayload{{Data: []byte(fmt.Sprintf("payload-%d", i))}}}
				testCases = append(testCases, &conformancev1.TestCase{Request: &conformancev1.ClientCompatRequest{TestName: n}, ExpectedResponse: exp})
				expected[n] = exp
			}
			var stderr bytes.Buffer
			p := internal.NewPrinter(&stderr)
			p.Printf("starting up: %d%% done", 100)
			p.PrefixPrintf(name, "%s", msg) // (the server's checks format their arguments into the message like this)
			p.PrefixPrintf(name, "second finding: %v", 2)
			p.Printf("plain log line")
			resp, _ := proto.Marshal(&conformancev1.ServerCompatResponse{Host: "127.0.0.1", Port: 1})
			var frame bytes.Buffer
			var l [4]byte
			binary.BigEndian.PutUint32(l[:], uint32(len(resp)))
			frame.Write(l[:])
			frame.Write(resp)
			proc := &vfFakeProc{done: make(chan struct{})}
			starter := processStarter(func(ctx context.Context, _ bool) (*process, error) {
				return &process{processController: proc, stdin: &vfFakeStdin{}, stdout: bytes.NewReader(frame.Bytes()), stderr: bytes.NewReader(stderr.Bytes())}, nil
			})
			results := newResults(len(batch), &testTrie{}, &testTrie{}, nil)
			client := &vfFakeClient{c: vfC11Case{N: len(batch), Delivery: "sync"}, expected: expected}
			errP := &vfC11Printer{}
			done := make(chan struct{})
			go func() {
				defer close(done)
				runTestCasesForServer(context.Background(), false, true, serverInstance{}, testCases, nil, nil, starter, &vfC11Printer{}, errP, results, client, nil, false)
			}()
			var viol error
			select {
			case <-done:
			case <-time.After(30 * time.Second):
				viol = verifkit.Violf("printer-hang", "batch did not end: %+v", r)
			}
			if viol == nil {
				printer := &vfC11Printer{}
				ok := results.report(printer)
				out := strings.Join(printer.lines, "\n")
				results.mu.Lock()
				target := results.outcomes[name]
				var others []string
				for _, n := range []string{batch[0], batch[2]} {
					if o, present := results.outcomes[n]; !present || o.actualFailure != nil || o.setupError {
						others = append(others, n)
					}
				}
				results.mu.Unlock()
				switch {
				case target.actualFailure == nil:
					viol = verifkit.Violf("printer-feedback-lost", "the reference server reported %q for %q through its printer but the case has no failure (stderr %q)", msg, name, stderr.String())
				case !strings.Contains(target.actualFailure.Error(), msg) || !strings.Contains(target.actualFailure.Error(), "second finding: 2"):
					viol = verifkit.Violf("printer-feedback-garbled", "the failure recorded for %q is %q, the server reported %q and a second finding (stderr %q)", name, target.actualFailure.Error(), msg, stderr.String())
				case len(others) > 0:
					viol = verifkit.Violf("printer-misattributed", "cases %q have no feedback but did not pass (stderr %q)", others, stderr.String())
				case withReport && ok:
					viol = verifkit.Violf("printer-verdict", "report() = true although %q drew feedback\noutput:\n%s", name, out)
				case withReport && !strings.Contains(out, "FAILED: "+name+":"):
					viol = verifkit.Violf("printer-unnamed", "%q drew feedback but no FAILED line names it\noutput:\n%s", name, out)
				}
			}
			en.Rec.Observe(r, []string{fmt.Sprintf("percent-in-name:%v", strings.Contains(name, "%")), fmt.Sprintf("percent-in-message:%v", strings.Contains(msg, "%"))}, strings.Contains(name+msg, "%") || strings.Contains(msg, ": "))
			if viol != nil && en.Fail(r, viol) {
				en.Done(true)
				return
			}
		}
	}
	en.Done(true)
}

func TestVerifC11Printer(t *testing.T) { vfPrinterUnit(t, "C11Printer", false) }

// vfChunkReader hands out the data in reads of at most n bytes.
type vfChunkReader struct {
	data []byte
	n    int
}

func (c *vfChunkReader) Read(p []byte) (int, error) {
	if len(c.data) == 0 {
		return 0, io.EOF
	}
	k := c.n
	if k > len(p) {
		k = len(p)
	}
	if k > len(c.data) {
		k = len(c.data)
	}
	copy(p, c.data[:k])
	c.data = c.data[k:]
	return k, nil
}

// vfServerResponseSizes: the server's start response through the real batch runner at sizes around the largest
// accepted one (1 MiB), delivered in reads of several sizes: a complete response of up to the limit starts the batch
// (every case gets its own verdict), one byte more is the "oversized response" start failure (every case a setup error).
func vfServerResponseSizes(t *testing.T, unit string) {
	en := verifkit.NewEnum(t, unit)
	type row struct {
		Size  int `json:"size"`
		Chunk int `json:"chunk"`
	}
	sized := func(size int) []byte {
		resp := &conformancev1.ServerCompatResponse{Host: "127.0.0.1", Port: 1}
		for l := size - 24; l <= size; l++ {
			if l < 0 {
				continue
			}
			resp.PemCert = bytes.Repeat([]byte{'c'}, l)
			if proto.Size(resp) == size {
				data, _ := proto.Marshal(resp)
				return data
			}
		}
		return nil
	}
	const n = 2
	for _, size := range []int{20, 4096, maxServerResponseSize / 2, maxServerResponseSize - 5, maxServerResponseSize - 4, maxServerResponseSize - 3, maxServerResponseSize - 1, maxServerResponseSize, maxServerResponseSize + 1} {
		body := sized(size)
		if body == nil {
			continue
		}
		for _, chunk := range []int{1 << 30, 4, 5, 4093, 65536} {
			r := row{size, chunk}
			var l [4]byte
			binary.BigEndian.PutUint32(l[:], uint32(len(body)))
			stream := append(append([]byte{}, l[:]...), body...)
			var testCases []*conformancev1.TestCase
			expected := map[string]*conformancev1.ClientResponseResult{}
			for i := 0; i < n; i++ {
				exp := &conformancev1.ClientResponseResult{Payloads: []*conformancev1.ConformancePayload{{Data: []byte(fmt.Sprintf("payload-%d", i))}}}
				testCases = append(testCases, &conformancev1.TestCase{Request: &conformancev1.ClientCompatRequest{TestName: vfC11Name(i)}, ExpectedResponse: exp})
				expected[vfC11Name(i)] = exp
			}
			proc := &vfFakeProc{done: make(chan struct{})}
			starter := processStarter(func(ctx context.Context, _ bool) (*process, error) {
				return &process{processController: proc, stdin: &vfFakeStdin{}, stdout: &vfChunkReader{data: stream, n: chunk}, stderr: strings.NewReader("")}, nil
			})
			results := newResults(n, &testTrie{}, &testTrie{}, nil)
			client := &vfFakeClient{c: vfC11Case{N: n, Delivery: "sync"}, expected: expected}
			done := make(chan struct{})
			go func() {
				defer close(done)
				runTestCasesForServer(context.Background(), false, false, serverInstance{}, testCases, nil, nil, starter, &vfC11Printer{}, &vfC11Printer{}, results, client, nil, false)
			}()
			var viol error
			select {
			case <-done:
			case <-time.After(60 * time.Second):
				viol = verifkit.Violf("response-size-hang", "batch did not end: %+v", r)
			}
			if viol == nil {
				results.mu.Lock()
				for i := 0; i < n && viol == nil; i++ {
					o, ok := results.outcomes[vfC11Name(i)]
					switch {
					case !ok:
						viol = verifkit.Violf("response-size-outcome-missing", "case %d has no outcome (%+v)", i, r)
					case size <= maxServerResponseSize && (o.setupError || o.actualFailure != nil):
						viol = verifkit.Violf("response-at-limit-rejected", "a complete server response of %d bytes (limit %d), read in chunks of %d, did not start the batch: case %d setupError=%v failure=%v", size, maxServerResponseSize, chunk, i, o.setupError, o.actualFailure)
					case size > maxServerResponseSize && !o.setupError:
						viol = verifkit.Violf("response-oversize-accepted", "a server response of %d bytes (limit %d) was accepted: case %d is not a setup error", size, maxServerResponseSize, i)
					}
				}
				results.mu.Unlock()
			}
			en.Rec.Observe(r, []string{fmt.Sprintf("size-limit%+d", size-maxServerResponseSize), fmt.Sprintf("chunk:%d", chunk)}, size >= maxServerResponseSize-5)
			if viol != nil && en.Fail(r, viol) {
				en.Done(true)
				return
			}
		}
	}
	en.Done(true)
}

func TestVerifC11ResponseSize(t *testing.T) { vfServerResponseSizes(t, "C11ResponseSize") }
