//go:build verif

package connectconformance

import (
	"bytes"
	"context"
	"encoding/binary"
	"encoding/json"
	"errors"
	"fmt"
	"io"
	"os"
	"path/filepath"
	"runtime"
	"sort"
	"strings"
	"sync"
	"testing"
	"time"

	"connectrpc.com/conformance/internal"
	conformancev1 "connectrpc.com/conformance/internal/gen/proto/go/connectrpc/conformance/v1"
	"connectrpc.com/conformance/internal/verifkit"
	"google.golang.org/protobuf/proto"
	"pgregory.net/rapid"
)

// ---- C10: the client multiplexer answers every request exactly once ----

type vfAnswer struct {
	Kind string `json:"kind"` // valid, duplicate, unknown, oversize, garbage
	Name int    `json:"name"`
}

type vfC10Case struct {
	Names     int        `json:"names"`
	Sends     [][]int    `json:"sends"`   // per sender goroutine: the name indexes it sends (a name may appear twice overall: duplicate send)
	Yields    []int      `json:"yields"`  // scheduler yields before each send / write (cyclic)
	Answers   []vfAnswer `json:"answers"` // what the client intends to write, in order
	Cut       int        `json:"cut"`     // client stops after this many output bytes (-1: writes everything)
	ExitErr   bool       `json:"exitErr"` // client process returns an error instead of nil
	ReadStdin bool       `json:"readStdin"`
	Procs     int        `json:"procs"`
	// SlowExit: the client process lingers after its last write / after being aborted until the harness has
	// looked at the runner's state (a process that is slow to die)
	SlowExit bool `json:"slowExit"`
	// PostClose: one more request (a fresh name) is offered right after closeSend, before the responses are awaited
	PostClose bool `json:"postClose"`
}

func vfC10Name(i int) string { return fmt.Sprintf("verif/c10/case-%d", i) }

func vfFrame(payload []byte) []byte {
	var l [4]byte
	binary.BigEndian.PutUint32(l[:], uint32(len(payload)))
	return append(l[:], payload...)
}

var (
	vfBigAnswerMu sync.Mutex
	vfBigAnswers  = map[string][]byte{}
)

// vfSizedAnswer: a valid answer for the name whose encoding has exactly size bytes (a second, padding payload).
func vfSizedAnswer(name, size int) []byte {
	key := fmt.Sprintf("%d/%d", name, size)
	vfBigAnswerMu.Lock()
	defer vfBigAnswerMu.Unlock()
	if b, ok := vfBigAnswers[key]; ok {
		return b
	}
	pad := &conformancev1.ConformancePayload{}
	resp := &conformancev1.ClientCompatResponse{TestName: vfC10Name(name),
		Result: &conformancev1.ClientCompatResponse_Response{Response: &conformancev1.ClientResponseResult{
			Payloads: []*conformancev1.ConformancePayload{{Data: []byte(fmt.Sprintf("answer-for-%d", name))}, pad}}}}
	for l := size - 80; l <= size; l++ {
		pad.Data = make([]byte, l)
		if proto.Size(resp) == size {
			data, _ := proto.Marshal(resp)
			vfBigAnswers[key] = vfFrame(data)
			return vfBigAnswers[key]
		}
	}
	panic("verif: size not reachable")
}

func vfAnswerBytes(a vfAnswer) []byte {
	switch a.Kind {
	case "valid-at-limit": // the largest answer the runner accepts
		return vfSizedAnswer(a.Name, maxClientResponseSize)
	case "oversize-by-one":
		return vfSizedAnswer(a.Name, maxClientResponseSize+1)
	case "valid", "duplicate":
		data, _ := proto.Marshal(&conformancev1.ClientCompatResponse{TestName: vfC10Name(a.Name),
			Result: &conformancev1.ClientCompatResponse_Response{Response: &conformancev1.ClientResponseResult{
				Payloads: []*conformancev1.ConformancePayload{{Data: []byte(fmt.Sprintf("answer-for-%d", a.Name))}}}}})
		return vfFrame(data)
	case "unknown":
		data, _ := proto.Marshal(&conformancev1.ClientCompatResponse{TestName: "verif/c10/never-sent"})
		return vfFrame(data)
	case "oversize":
		var l [4]byte
		binary.BigEndian.PutUint32(l[:], 17*1024*1024)
		return append(l[:], []byte("xx")...)
	case "oversize-max": // the largest prefix there is (and what a stray UTF-8 text or a BOM looks like to the reader)
		return []byte{0xff, 0xff, 0xff, 0xff, 'x', 'x'}
	case "oversize-2g":
		return []byte{0x80, 0x00, 0x00, 0x00, 'x', 'x'}
	default: // garbage: a frame whose payload is not a ClientCompatResponse
		return vfFrame([]byte{0xff, 0xff, 0xff, 0xff, 0x0f, 0x01})
	}
}

type vfC10History struct {
	mu        sync.Mutex
	sendErr   map[int][]error      // per name: result of each sendRequest attempt (in attempt order per sender)
	callbacks map[string][]vfC10CB // per attempt id
	attempts  map[string]int       // attempt id -> name
	sendRes   map[string]error     // attempt id -> sendRequest result
	order     []string
}

type vfC10CB struct {
	name string
	resp *conformancev1.ClientCompatResponse
	err  error
}

func vfC10Run(c vfC10Case) (hist *vfC10History, facts map[string]string, viol error) {
	if c.Procs > 0 {
		defer runtime.GOMAXPROCS(runtime.GOMAXPROCS(c.Procs))
	}
	hist = &vfC10History{callbacks: map[string][]vfC10CB{}, attempts: map[string]int{}, sendRes: map[string]error{}}
	facts = map[string]string{}
	yield := func(k int) {
		if len(c.Yields) == 0 {
			return
		}
		for i := 0; i < c.Yields[k%len(c.Yields)]; i++ {
			runtime.Gosched()
		}
	}
	clientReturned := make(chan struct{})
	release := make(chan struct{})
	var clientBody func(ctx context.Context, _ []string, in io.ReadCloser, out, _ io.WriteCloser) error
	clientFunc := func(ctx context.Context, args []string, in io.ReadCloser, out, errOut io.WriteCloser) error {
		defer close(clientReturned)
		err := clientBody(ctx, args, in, out, errOut)
		if c.SlowExit {
			// the output stream ends here, the process itself takes its time; its stdin keeps accepting data
			// meanwhile (like the pipe buffer of a real process), otherwise a blocked sender would hold the
			// send lock that the reader's shutdown needs and the sampling point below would never be reached
			_ = out.Close()
			if !c.ReadStdin {
				go func() { _, _ = io.Copy(io.Discard, in) }()
			}
			select {
			case <-release:
			case <-time.After(20 * time.Second):
			}
		}
		return err
	}
	clientBody = func(ctx context.Context, _ []string, in io.ReadCloser, out, _ io.WriteCloser) error {
		received := map[int]chan struct{}{}
		for i := 0; i < c.Names; i++ {
			received[i] = make(chan struct{})
		}
		stdinDone := make(chan struct{})
		if c.ReadStdin {
			go func() {
				defer close(stdinDone)
				seen := map[int]bool{}
				for {
					req := &conformancev1.ClientCompatRequest{}
					if err := internal.ReadDelimitedMessage(in, req, "runner", time.Minute, 1<<20); err != nil {
						return
					}
					var idx int
					if _, err := fmt.Sscanf(req.TestName, "verif/c10/case-%d", &idx); err == nil && !seen[idx] && idx < c.Names {
						seen[idx] = true
						close(received[idx])
					}
				}
			}()
		}
		// a client that honours its context: a write that cannot complete is abandoned on cancellation
		ctxWrite := func(data []byte) error {
			res := make(chan error, 1)
			go func() {
				_, err := out.Write(data)
				res <- err
			}()
			select {
			case err := <-res:
				return err
			case <-ctx.Done():
				return ctx.Err()
			}
		}
		written := 0
		for k, a := range c.Answers {
			if c.ReadStdin && (a.Kind == "valid" || a.Kind == "duplicate") {
				// a real client answers a request only after it received it
				select {
				case <-received[a.Name]:
				case <-stdinDone:
					select {
					case <-received[a.Name]:
					default:
						goto finish // the request never came: nothing more to answer
					}
				case <-ctx.Done():
					return ctx.Err()
				}
			}
			yield(100 + k)
			data := vfAnswerBytes(a)
			if c.Cut >= 0 && written+len(data) > c.Cut {
				if err := ctxWrite(data[:c.Cut-written]); err != nil {
					return err
				}
				if c.ExitErr {
					return errors.New("verif: client crashed")
				}
				return nil
			}
			if err := ctxWrite(data); err != nil {
				return err
			}
			written += len(data)
		}
	finish:
		if c.Cut >= 0 && c.Cut <= written {
			if c.ExitErr {
				return errors.New("verif: client crashed")
			}
			return nil
		}
		if c.ReadStdin {
			// a well-behaved client exits when its stdin is closed
			select {
			case <-stdinDone:
			case <-ctx.Done():
			}
		}
		if c.ExitErr {
			return errors.New("verif: client crashed")
		}
		return nil
	}

	done := make(chan struct{})
	var runner clientRunner
	var waitErr error
	var lateSendErr error
	go func() {
		defer close(done)
		var err error
		runner, err = runClient(context.Background(), runInProcess([]string{"verif-client"}, clientFunc))
		if err != nil {
			viol = verifkit.Violf("runclient-error", "runClient failed: %v", err)
			return
		}
		var wg sync.WaitGroup
		for si, names := range c.Sends {
			wg.Add(1)
			go func(si int, names []int) {
				defer wg.Done()
				for k, n := range names {
					yield(si*17 + k)
					id := fmt.Sprintf("s%d.%d", si, k)
					hist.mu.Lock()
					hist.attempts[id] = n
					hist.order = append(hist.order, id)
					hist.mu.Unlock()
					err := runner.sendRequest(&conformancev1.ClientCompatRequest{TestName: vfC10Name(n)}, func(name string, resp *conformancev1.ClientCompatResponse, err error) {
						hist.mu.Lock()
						hist.callbacks[id] = append(hist.callbacks[id], vfC10CB{name, resp, err})
						hist.mu.Unlock()
					})
					hist.mu.Lock()
					hist.sendRes[id] = err
					hist.mu.Unlock()
				}
			}(si, names)
		}
		wg.Wait()
		runner.closeSend()
		if c.PostClose {
			// a request offered after the send side was closed is refused - and then its callback must stay silent
			id := "postclose"
			hist.mu.Lock()
			hist.attempts[id] = c.Names
			hist.order = append(hist.order, id)
			hist.mu.Unlock()
			err := runner.sendRequest(&conformancev1.ClientCompatRequest{TestName: vfC10Name(c.Names)}, func(name string, resp *conformancev1.ClientCompatResponse, err error) {
				hist.mu.Lock()
				hist.callbacks[id] = append(hist.callbacks[id], vfC10CB{name, resp, err})
				hist.mu.Unlock()
			})
			hist.mu.Lock()
			hist.sendRes[id] = err
			hist.mu.Unlock()
		}
		// once the output reader is done: if it stopped because of a bad answer, the runner must say so at
		// once, also while the process is still lingering (waitForResponses itself waits for the process)
		sampled := make(chan struct{})
		if cr, ok := runner.(*clientProcessRunner); ok && c.SlowExit {
			go func() {
				defer close(sampled)
				select {
				case <-cr.done:
				case <-time.After(20 * time.Second):
				}
				running := runner.isRunning()
				hist.mu.Lock()
				facts["isRunningAfterWait"] = fmt.Sprint(running)
				hist.mu.Unlock()
				close(release)
			}()
		} else {
			close(release)
			close(sampled)
		}
		waitErr = runner.waitForResponses()
		<-sampled
		// after completion a further send must be refused
		lateSendErr = runner.sendRequest(&conformancev1.ClientCompatRequest{TestName: "verif/c10/late"}, func(string, *conformancev1.ClientCompatResponse, error) {
			hist.mu.Lock()
			hist.callbacks["late"] = append(hist.callbacks["late"], vfC10CB{})
			hist.mu.Unlock()
		})
		// the runner must report the client as no longer running once the process function returned
		select {
		case <-clientReturned:
		case <-time.After(20 * time.Second):
			facts["client-never-returned"] = "true"
		}
		deadline := time.Now().Add(2 * time.Second)
		for runner.isRunning() && time.Now().Before(deadline) {
			time.Sleep(time.Millisecond)
		}
		facts["isRunning"] = fmt.Sprint(runner.isRunning())
		runner.stop()
	}()
	select {
	case <-done:
	case <-time.After(60 * time.Second):
		buf := make([]byte, 1<<18)
		n := runtime.Stack(buf, true)
		return hist, facts, verifkit.Violf("deadlock", "the case did not complete within 60s (the harness owns every delay); goroutines:\n%s", buf[:n])
	}
	if viol != nil {
		return hist, facts, viol
	}
	facts["waitErr"] = fmt.Sprint(waitErr)
	facts["lateSendErr"] = fmt.Sprint(lateSendErr)
	return hist, facts, nil
}

// vfC10Model: which names the client answered successfully before the first
// fatal event, and whether a fatal event happened.
func vfC10Model(c vfC10Case) (answered map[int]bool, fatal string) {
	answered = map[int]bool{}
	written := 0
	for _, a := range c.Answers {
		data := vfAnswerBytes(a)
		if c.Cut >= 0 && written+len(data) > c.Cut {
			if c.Cut-written > 0 {
				return answered, "truncated"
			}
			return answered, ""
		}
		written += len(data)
		switch a.Kind {
		case "valid", "valid-at-limit":
			if answered[a.Name] {
				return answered, "duplicate"
			}
			answered[a.Name] = true
		case "duplicate":
			if answered[a.Name] {
				return answered, "duplicate"
			}
			answered[a.Name] = true
		default:
			return answered, a.Kind
		}
	}
	return answered, ""
}

func vfC10Check(c vfC10Case) error {
	hist, facts, viol := vfC10Run(c)
	if viol != nil {
		return viol
	}
	hist.mu.Lock()
	defer hist.mu.Unlock()
	describe := func() string {
		var sb strings.Builder
		ids := append([]string{}, hist.order...)
		sort.Strings(ids)
		for _, id := range ids {
			fmt.Fprintf(&sb, "  %s name=%d send=%v callbacks=%d", id, hist.attempts[id], hist.sendRes[id], len(hist.callbacks[id]))
			for _, cb := range hist.callbacks[id] {
				fmt.Fprintf(&sb, " [resp=%v err=%v]", cb.resp != nil, cb.err)
			}
			sb.WriteString("\n")
		}
		return fmt.Sprintf("history:\n%sfacts: %v", sb.String(), facts)
	}
	// With ReadStdin the client only answers requests it received, so the model's
	// "answered" set is an upper bound: a name is really answered only if its
	// request was sent successfully.
	answeredModel, fatal := vfC10Model(c)
	successByName := map[int]int{}
	sentTimes := map[int]int{}
	for _, name := range hist.attempts {
		sentTimes[name]++
	}
	for id, name := range hist.attempts {
		cbs := hist.callbacks[id]
		sendErr := hist.sendRes[id]
		if sendErr != nil {
			if len(cbs) != 0 {
				return verifkit.Violf("callback-after-send-error", "sendRequest for name %d returned %v but its callback fired %d time(s)\n%s", name, sendErr, len(cbs), describe())
			}
			continue
		}
		if len(cbs) != 1 {
			return verifkit.Violf("callback-count", "sendRequest for name %d returned nil but its callback fired %d time(s), want exactly 1\n%s", name, len(cbs), describe())
		}
		cb := cbs[0]
		if cb.err == nil {
			successByName[name]++
			if cb.resp == nil || cb.resp.TestName != vfC10Name(name) || cb.name != vfC10Name(name) {
				return verifkit.Violf("wrong-response", "callback for name %d received the response of %q\n%s", name, cb.resp.GetTestName(), describe())
			}
			if got := string(cb.resp.GetResponse().GetPayloads()[0].GetData()); got != fmt.Sprintf("answer-for-%d", name) {
				return verifkit.Violf("wrong-response", "callback for name %d received payload %q\n%s", name, got, describe())
			}
			if !answeredModel[name] {
				return verifkit.Violf("phantom-success", "name %d completed successfully although the client never wrote a complete answer for it\n%s", name, describe())
			}
		} else if !c.ReadStdin && answeredModel[name] && fatal == "" && c.Cut < 0 {
			// the client wrote a complete answer (without even reading stdin) and nothing went wrong
			// - but the answer may have arrived before the request was registered, which is a
			// legitimate "unrecognized test case" failure; not asserted.
			_ = name
		}
	}
	for name, n := range successByName {
		// (a name handed over twice may legitimately be answered twice: once per request)
		if n > 1 && sentTimes[name] < 2 {
			return verifkit.Violf("double-success", "name %d completed successfully %d times\n%s", name, n, describe())
		}
	}
	// answered-before-fault names whose request was sent must have succeeded (deterministic only when the client reads stdin)
	if c.ReadStdin {
		for id, name := range hist.attempts {
			if hist.sendRes[id] != nil || !answeredModel[name] {
				continue
			}
			cbs := hist.callbacks[id]
			if len(cbs) == 1 && cbs[0].err != nil && successByName[name] == 0 {
				return verifkit.Violf("lost-answer", "the client answered name %d completely before any fault, but the callback got error %v\n%s", name, cbs[0].err, describe())
			}
		}
	}
	if len(hist.callbacks["late"]) != 0 || facts["lateSendErr"] == "<nil>" {
		return verifkit.Violf("send-after-completion", "a send after the client finished was accepted (result %s, callback fired %d)\n%s", facts["lateSendErr"], len(hist.callbacks["late"]), describe())
	}
	if facts["client-never-returned"] == "true" {
		return verifkit.Violf("client-not-stopped", "the client process function was never made to return\n%s", describe())
	}
	if hist.sendRes["postclose"] == nil && c.PostClose {
		return verifkit.Violf("send-after-close-accepted", "a request offered after closeSend was accepted\n%s", describe())
	}
	if c.SlowExit && (fatal == "duplicate" || fatal == "unknown" || strings.HasPrefix(fatal, "oversize") || fatal == "garbage" || fatal == "truncated") &&
		facts["waitErr"] != "<nil>" && facts["isRunningAfterWait"] == "true" {
		return verifkit.Violf("still-running-after-fault", "the reader gave up on the client (%s: %s) but isRunning() is still true while the process lingers\n%s", fatal, facts["waitErr"], describe())
	}
	if facts["isRunning"] == "true" {
		return verifkit.Violf("still-running", "isRunning() stays true although the client process has returned (fatal=%q)\n%s", fatal, describe())
	}
	if fatal != "" && facts["waitErr"] == "<nil>" {
		return verifkit.Violf("fault-not-reported", "client fault %q but waitForResponses returned nil\n%s", fatal, describe())
	}
	return nil
}

func vfC10Classify(c vfC10Case) ([]string, bool) {
	answered, fatal := vfC10Model(c)
	total := 0
	for _, s := range c.Sends {
		total += len(s)
	}
	cl := []string{"fatal:" + fatal, fmt.Sprintf("senders:%d", len(c.Sends))}
	nt := false
	if len(c.Sends) >= 2 && c.Cut >= 0 && len(answered) >= 1 && len(answered) < total {
		nt = true
	}
	if (fatal == "duplicate" || fatal == "unknown") && len(answered) >= 1 {
		nt = true
	}
	return cl, nt
}

func vfGenC10(t *rapid.T) vfC10Case {
	c := vfC10Case{Names: rapid.IntRange(1, 8).Draw(t, "names"), Cut: -1, ReadStdin: rapid.IntRange(0, 5).Draw(t, "readStdin") != 0,
		ExitErr: rapid.IntRange(0, 3).Draw(t, "exitErr") == 0, Procs: rapid.SampledFrom([]int{1, 4, 16}).Draw(t, "procs")}
	nsenders := rapid.IntRange(1, 4).Draw(t, "senders")
	c.Sends = make([][]int, nsenders)
	order := rapid.Permutation(func() []int {
		var l []int
		for i := 0; i < c.Names; i++ {
			l = append(l, i)
		}
		return l
	}()).Draw(t, "sendOrder")
	for _, n := range order {
		s := rapid.IntRange(0, nsenders-1).Draw(t, "sender")
		c.Sends[s] = append(c.Sends[s], n)
	}
	for i := 0; i < 8; i++ {
		c.Yields = append(c.Yields, rapid.IntRange(0, 4).Draw(t, "yield"))
	}
	ansOrder := rapid.Permutation(order).Draw(t, "answerOrder")
	nans := rapid.IntRange(0, len(ansOrder)).Draw(t, "nanswers")
	for _, n := range ansOrder[:nans] {
		c.Answers = append(c.Answers, vfAnswer{Kind: "valid", Name: n})
	}
	c.SlowExit = rapid.IntRange(0, 2).Draw(t, "slowExit") == 0
	c.PostClose = rapid.IntRange(0, 2).Draw(t, "postClose") == 0
	if rapid.IntRange(0, 1).Draw(t, "inject") == 0 {
		kind := rapid.SampledFrom([]string{"duplicate", "unknown", "oversize", "garbage", "oversize-max", "oversize-2g"}).Draw(t, "injectKind")
		pos := rapid.IntRange(0, len(c.Answers)).Draw(t, "injectPos")
		a := vfAnswer{Kind: kind}
		if kind == "duplicate" {
			if pos == 0 {
				kind = "unknown"
				a.Kind = kind
			} else {
				a.Name = c.Answers[rapid.IntRange(0, pos-1).Draw(t, "dupOf")].Name
			}
		}
		c.Answers = append(c.Answers[:pos], append([]vfAnswer{a}, c.Answers[pos:]...)...)
	}
	total := 0
	for _, a := range c.Answers {
		total += len(vfAnswerBytes(a))
	}
	if rapid.IntRange(0, 1).Draw(t, "cut") == 0 {
		c.Cut = rapid.IntRange(0, total).Draw(t, "cutAt")
	}
	return c
}

func TestVerifC10Multiplexer(t *testing.T) {
	verifkit.Run(t, "C10Multiplexer", verifkit.Spec[vfC10Case]{Gen: vfGenC10, Check: vfC10Check, Classify: vfC10Classify})
}

// TestVerifC10DuplicateSend: a second request with the name of a pending one is
// refused at send and its callback never fires (names are unique in the runner;
// this is the guard behind that).
func TestVerifC10DuplicateSend(t *testing.T) {
	en := verifkit.NewEnum(t, "C10DuplicateSend")
	for n := 1; n <= 4; n++ {
		release := make(chan struct{})
		client := func(ctx context.Context, _ []string, in io.ReadCloser, out, _ io.WriteCloser) error {
			go func() { _, _ = io.Copy(io.Discard, in) }()
			select {
			case <-release:
			case <-ctx.Done():
			}
			return nil
		}
		runner, err := runClient(context.Background(), runInProcess([]string{"verif-client"}, client))
		if err != nil {
			t.Fatal(err)
		}
		fired := map[string]int{}
		var mu sync.Mutex
		c := map[string]any{"pending": n}
		var viol error
		for i := 0; i < n; i++ {
			id := fmt.Sprintf("first-%d", i)
			if err := runner.sendRequest(&conformancev1.ClientCompatRequest{TestName: vfC10Name(i)}, func(string, *conformancev1.ClientCompatResponse, error) {
				mu.Lock()
				fired[id]++
				mu.Unlock()
			}); err != nil {
				viol = verifkit.Violf("send-refused", "first send of name %d refused: %v", i, err)
			}
		}
		for i := 0; i < n; i++ {
			id := fmt.Sprintf("second-%d", i)
			err := runner.sendRequest(&conformancev1.ClientCompatRequest{TestName: vfC10Name(i)}, func(string, *conformancev1.ClientCompatResponse, error) {
				mu.Lock()
				fired[id]++
				mu.Unlock()
			})
			if err == nil || !errors.Is(err, errDuplicate) {
				viol = verifkit.Violf("duplicate-send-accepted", "second send of pending name %d returned %v", i, err)
			}
		}
		close(release)
		runner.closeSend()
		_ = runner.waitForResponses()
		runner.stop()
		mu.Lock()
		for i := 0; i < n; i++ {
			if fired[fmt.Sprintf("first-%d", i)] != 1 || fired[fmt.Sprintf("second-%d", i)] != 0 {
				viol = verifkit.Violf("duplicate-send-callbacks", "name %d: first callback fired %d times (want 1), refused duplicate %d times (want 0)", i, fired[fmt.Sprintf("first-%d", i)], fired[fmt.Sprintf("second-%d", i)])
			}
		}
		mu.Unlock()
		en.Rec.Observe(c, []string{"duplicate-send"}, true)
		if viol != nil {
			en.Fail(c, viol)
		}
	}
	en.Done(true)
}

var _ = bytes.Equal

// TestVerifC10AtLimit: an answer of exactly the largest accepted size is an answer like any other; one byte more is
// the "oversized message" failure. Same oracle as the random unit.
func TestVerifC10AtLimit(t *testing.T) {
	en := verifkit.NewEnum(t, "C10AtLimit")
	var rc vfC10Case
	if en.ReplayCase(&rc) {
		if err := verifkit.SafeCall(func() error { return vfC10Check(rc) }); err != nil {
			en.Fail(rc, err)
		}
		en.Done(false)
		return
	}
	rows := []vfC10Case{
		{Names: 1, Sends: [][]int{{0}}, Answers: []vfAnswer{{Kind: "valid-at-limit", Name: 0}}},
		{Names: 3, Sends: [][]int{{0, 1, 2}}, Answers: []vfAnswer{{Kind: "valid", Name: 0}, {Kind: "valid-at-limit", Name: 1}, {Kind: "valid", Name: 2}}},
		{Names: 3, Sends: [][]int{{0, 1}, {2}}, Answers: []vfAnswer{{Kind: "valid-at-limit", Name: 2}, {Kind: "valid-at-limit", Name: 0}, {Kind: "valid", Name: 1}}},
		{Names: 3, Sends: [][]int{{0, 1, 2}}, Answers: []vfAnswer{{Kind: "valid", Name: 0}, {Kind: "oversize-by-one", Name: 1}, {Kind: "valid", Name: 2}}},
	}
	for _, c := range rows {
		c.Cut, c.ReadStdin, c.Procs, c.Yields = -1, true, 4, []int{0}
		err := verifkit.SafeCall(func() error { return vfC10Check(c) })
		_, fatal := vfC10Model(c)
		en.Rec.Observe(c, []string{"fatal:" + fatal, fmt.Sprintf("answers:%d", len(c.Answers))}, true)
		if err != nil && en.Fail(c, err) {
			break
		}
	}
	en.Done(true)
}

// ---- C10 with a real OS process as the client (the --client command path: runCommand, os/exec pipes) ----

type vfC10ProcCase struct {
	N         int `json:"n"`         // requests the runner wants to send, one after the other
	ExitAfter int `json:"exitAfter"` // the client exits after this many requests (-1: runs to the end of its input)
	ExitCode  int `json:"exitCode"`
	// BigRequests: every request is larger than an OS pipe buffer, so a send can be in the middle of its write when the client goes away
	BigRequests bool `json:"bigRequests,omitempty"`
	Garbage   int `json:"garbage"` // the n-th answer is garbage (0: never)
}

func vfC10ProcCheck(c vfC10ProcCase) error {
	dir, err := os.MkdirTemp(".", "c10proc")
	if err != nil {
		return nil
	}
	dir, _ = filepath.Abs(dir)
	defer os.RemoveAll(dir)
	script := vfClientScript{Expected: map[string][]byte{}, Actions: map[string]string{}, ExitAfter: c.ExitAfter, ExitCode: c.ExitCode, Garbage: c.Garbage, Order: "immediate"}
	for i := 0; i < c.N; i++ {
		data, _ := proto.Marshal(&conformancev1.ClientResponseResult{Payloads: []*conformancev1.ConformancePayload{{Data: []byte(fmt.Sprintf("answer-for-%d", i))}}})
		script.Expected[vfC10Name(i)] = data
	}
	scriptFile, logFile := filepath.Join(dir, "script.json"), filepath.Join(dir, "peer.log")
	data, _ := json.Marshal(script)
	_ = os.WriteFile(scriptFile, data, 0o644)
	type attempt struct {
		sendErr   error
		callbacks []vfC10CB
	}
	attempts := make([]*attempt, c.N)
	var mu sync.Mutex
	var waitErr error
	var stillRunning bool
	done := make(chan struct{})
	var harnessErr error
	go func() {
		defer close(done)
		runner, err := runClient(context.Background(), runCommand(vfPeerCommand("script-client", scriptFile, logFile)))
		if err != nil {
			harnessErr = err
			return
		}
		for i := 0; i < c.N; i++ {
			a := &attempt{}
			mu.Lock()
			attempts[i] = a
			mu.Unlock()
			req := &conformancev1.ClientCompatRequest{TestName: vfC10Name(i)}
			if c.BigRequests {
				req.RequestHeaders = []*conformancev1.Header{{Name: "x-padding", Value: []string{strings.Repeat("p", 300<<10)}}}
			}
			err := runner.sendRequest(req, func(name string, resp *conformancev1.ClientCompatResponse, err error) {
				mu.Lock()
				a.callbacks = append(a.callbacks, vfC10CB{name, resp, err})
				mu.Unlock()
			})
			mu.Lock()
			a.sendErr = err
			mu.Unlock()
			// the real runner does not write faster than a client can exit
			time.Sleep(15 * time.Millisecond)
		}
		runner.closeSend()
		waitErr = runner.waitForResponses()
		deadline := time.Now().Add(2 * time.Second)
		for runner.isRunning() && time.Now().Before(deadline) {
			time.Sleep(5 * time.Millisecond)
		}
		stillRunning = runner.isRunning()
		runner.stop()
	}()
	describe := func() string {
		mu.Lock()
		defer mu.Unlock()
		var sb strings.Builder
		for i, a := range attempts {
			if a == nil {
				fmt.Fprintf(&sb, "  request %d: not offered yet\n", i)
				continue
			}
			fmt.Fprintf(&sb, "  request %d: send=%v callbacks=%d", i, a.sendErr, len(a.callbacks))
			for _, cb := range a.callbacks {
				fmt.Fprintf(&sb, " [resp=%v err=%v]", cb.resp != nil, cb.err)
			}
			sb.WriteString("\n")
		}
		return sb.String()
	}
	// the slowest legitimate path is the runner's own 20 s wait for an answer that never comes plus the
	// graceful-shutdown escalation of a process that has to be killed
	select {
	case <-done:
	case <-time.After(50 * time.Second):
		return verifkit.Violf("process-client-deadlock", "sending to / waiting for a client process that %s did not finish within 50s\n%s", vfC10ProcFate(c), describe())
	}
	if harnessErr != nil {
		return nil
	}
	answered := c.N
	if c.ExitAfter >= 0 && c.ExitAfter < answered {
		answered = c.ExitAfter
	}
	fatal := c.Garbage > 0 && c.Garbage <= answered
	if fatal {
		answered = c.Garbage - 1
	}
	for i, a := range attempts {
		if a.sendErr != nil {
			if len(a.callbacks) != 0 {
				return verifkit.Violf("process-callback-after-send-error", "request %d: send failed (%v) but its callback fired %d time(s)\n%s", i, a.sendErr, len(a.callbacks), describe())
			}
			if i < answered {
				return verifkit.Violf("process-send-refused-early", "request %d was refused (%v) although the client was still going to answer %d requests\n%s", i, a.sendErr, answered, describe())
			}
			continue
		}
		if len(a.callbacks) != 1 {
			return verifkit.Violf("process-callback-count", "request %d was accepted but its callback fired %d time(s), want exactly 1 (client %s)\n%s", i, len(a.callbacks), vfC10ProcFate(c), describe())
		}
		cb := a.callbacks[0]
		switch {
		case i < answered:
			if cb.err != nil || cb.resp.GetTestName() != vfC10Name(i) || string(cb.resp.GetResponse().GetPayloads()[0].GetData()) != fmt.Sprintf("answer-for-%d", i) {
				return verifkit.Violf("process-lost-answer", "request %d was answered by the client but the callback got resp=%v err=%v\n%s", i, cb.resp, cb.err, describe())
			}
		default:
			if cb.err == nil {
				return verifkit.Violf("process-phantom-success", "request %d was never answered (client %s) but completed successfully\n%s", i, vfC10ProcFate(c), describe())
			}
		}
	}
	if stillRunning {
		return verifkit.Violf("process-still-running", "isRunning() is still true after the client process (%s) is gone\n%s", vfC10ProcFate(c), describe())
	}
	if (fatal || c.ExitCode != 0) && waitErr == nil {
		return verifkit.Violf("process-fault-not-reported", "client %s but waitForResponses returned nil\n%s", vfC10ProcFate(c), describe())
	}
	return nil
}

func vfC10ProcFate(c vfC10ProcCase) string {
	s := "runs to the end of its input"
	if c.ExitAfter >= 0 {
		s = fmt.Sprintf("exits with status %d after %d of %d requests", c.ExitCode, c.ExitAfter, c.N)
	}
	if c.Garbage > 0 {
		s += fmt.Sprintf(", answer %d is garbage", c.Garbage)
	}
	return s
}

func TestVerifC10Process(t *testing.T) {
	en := verifkit.NewEnum(t, "C10Process")
	var replay vfC10ProcCase
	if en.ReplayCase(&replay) {
		if err := verifkit.SafeCall(func() error { return vfC10ProcCheck(replay) }); err != nil {
			en.Fail(replay, err)
		}
		en.Done(false)
		return
	}
	var rows []vfC10ProcCase
	for _, n := range []int{1, 4} {
		rows = append(rows, vfC10ProcCase{N: n, ExitAfter: -1})
		for k := 0; k <= n; k++ {
			for _, code := range []int{0, 1} {
				rows = append(rows, vfC10ProcCase{N: n, ExitAfter: k, ExitCode: code})
			}
		}
		for g := 1; g <= n; g += 2 {
			rows = append(rows, vfC10ProcCase{N: n, ExitAfter: -1, Garbage: g})
		}
	}
	for _, k := range []int{0, 1, 3} {
		rows = append(rows, vfC10ProcCase{N: 4, ExitAfter: k, ExitCode: k % 2, BigRequests: true})
	}
	shard, shards := verifkit.Shard()
	var mu sync.Mutex
	var wg sync.WaitGroup
	sem := make(chan struct{}, 6)
	for i, c := range rows {
		if i%shards != shard {
			continue
		}
		wg.Add(1)
		sem <- struct{}{}
		go func(c vfC10ProcCase) {
			defer wg.Done()
			defer func() { <-sem }()
			err := verifkit.SafeCall(func() error { return vfC10ProcCheck(c) })
			mu.Lock()
			defer mu.Unlock()
			en.Rec.Observe(c, []string{fmt.Sprintf("exits-early:%v", c.ExitAfter >= 0 && c.ExitAfter < c.N), fmt.Sprintf("garbage:%v", c.Garbage > 0)}, c.ExitAfter >= 0 && c.ExitAfter < c.N || c.Garbage > 0)
			if err != nil {
				en.Fail(c, err)
			}
		}(c)
	}
	wg.Wait()
	en.Done(true)
}

// TestVerifC10Wedged: an in-process client writes a bad answer (unknown name, duplicate, garbage, oversize) and then
// never returns: it ignores the cancellation of its context and the closing of its input. The pending request still
// gets exactly one callback with an error, further sends are refused, the runner reports the client as not running,
// and both waiting for completion and stopping return in bounded time (the runner gives up on the process).
func TestVerifC10Wedged(t *testing.T) {
	en := verifkit.NewEnum(t, "C10Wedged")
	type row struct {
		Fault string `json:"fault"`
	}
	release := make(chan struct{})
	defer close(release)
	var mu sync.Mutex
	var wg sync.WaitGroup
	for _, fault := range []string{"unknown", "duplicate", "garbage", "oversize"} {
		wg.Add(1)
		go func(fault string) {
			defer wg.Done()
			r := row{fault}
			client := func(ctx context.Context, _ []string, in io.ReadCloser, out, _ io.WriteCloser) error {
				// (first take both requests, so that they are pending when the bad answer arrives)
				for i := 0; i < 2; i++ {
					req := &conformancev1.ClientCompatRequest{}
					if err := internal.ReadDelimitedMessage(in, req, "runner", 20*time.Second, 1<<20); err != nil {
						break
					}
				}
				go func() { _, _ = io.Copy(io.Discard, in) }()
				switch fault {
				case "duplicate":
					_, _ = out.Write(vfAnswerBytes(vfAnswer{Kind: "valid", Name: 0}))
					_, _ = out.Write(vfAnswerBytes(vfAnswer{Kind: "valid", Name: 0}))
				default:
					_, _ = out.Write(vfAnswerBytes(vfAnswer{Kind: fault}))
				}
				<-release // wedged: neither ctx nor stdin make it return
				return nil
			}
			runner, err := runClient(context.Background(), runInProcess([]string{"verif-wedged-client"}, client))
			if err != nil {
				return
			}
			var cbMu sync.Mutex
			fired := map[int][]error{}
			sendErrs := map[int]error{}
			for i := 0; i < 2; i++ {
				i := i
				sendErrs[i] = runner.sendRequest(&conformancev1.ClientCompatRequest{TestName: vfC10Name(i)}, func(_ string, _ *conformancev1.ClientCompatResponse, err error) {
					cbMu.Lock()
					fired[i] = append(fired[i], err)
					cbMu.Unlock()
				})
			}
			var viol error
			bound := 25 * time.Second
			waited := make(chan error, 1)
			start := time.Now()
			go func() { runner.closeSend(); waited <- runner.waitForResponses() }()
			select {
			case werr := <-waited:
				if werr == nil {
					viol = verifkit.Violf("wedged-fault-not-reported", "client fault %q but waitForResponses returned nil", fault)
				}
			case <-time.After(bound):
				viol = verifkit.Violf("wedged-wait-hang", "waitForResponses did not return within %v after the client wrote a bad answer (%s) and then never returned", bound, fault)
			}
			if viol == nil {
				cbMu.Lock()
				// request 1 was never answered: exactly one callback, with an error
				if sendErrs[0] != nil || sendErrs[1] != nil {
					viol = verifkit.Violf("wedged-send-refused", "sends before any answer were refused: %v", sendErrs)
				} else if len(fired[1]) != 1 || fired[1][0] == nil {
					viol = verifkit.Violf("wedged-callback", "the unanswered request got callbacks %v, want exactly one with an error (fault %s)", fired[1], fault)
				}
				if len(fired[0]) != 1 {
					viol = verifkit.Violf("wedged-callback", "request 0 got %d callbacks, want exactly one (fault %s)", len(fired[0]), fault)
				}
				cbMu.Unlock()
			}
			if viol == nil && runner.isRunning() {
				viol = verifkit.Violf("wedged-still-running", "the runner gave up on the client (%s) after %v but still reports it as running", fault, time.Since(start))
			}
			if viol == nil {
				if err := runner.sendRequest(&conformancev1.ClientCompatRequest{TestName: "verif/c10/late"}, func(string, *conformancev1.ClientCompatResponse, error) {}); err == nil {
					viol = verifkit.Violf("wedged-send-accepted", "a send after the client failed (%s) was accepted", fault)
				}
			}
			if viol == nil {
				stopped := make(chan struct{})
				go func() { defer close(stopped); runner.stop() }()
				select {
				case <-stopped:
				case <-time.After(bound):
					viol = verifkit.Violf("wedged-stop-hang", "stop() did not return within %v (%s)", bound, fault)
				}
			}
			mu.Lock()
			defer mu.Unlock()
			en.Rec.Observe(r, []string{"fault:" + fault}, true)
			if viol != nil {
				en.Fail(r, viol)
			}
		}(fault)
	}
	wg.Wait()
	en.Done(true)
}

// TestVerifC10Resend: a test name that was answered is handed to the same client process again (the runner refuses
// a name only while it is still pending): the second request gets its own, second answer - exactly one callback with
// the response, the client stays in good standing, later requests go on normally.
func TestVerifC10Resend(t *testing.T) {
	en := verifkit.NewEnum(t, "C10Resend")
	type row struct {
		Rounds int `json:"rounds"` // how many times the same name is sent, each after the previous answer arrived
	}
	for _, rounds := range []int{2, 3} {
		r := row{rounds}
		client := func(ctx context.Context, _ []string, in io.ReadCloser, out, _ io.WriteCloser) error {
			for {
				req := &conformancev1.ClientCompatRequest{}
				if err := internal.ReadDelimitedMessage(in, req, "runner", 20*time.Second, 1<<20); err != nil {
					return nil
				}
				var idx int
				_, _ = fmt.Sscanf(req.TestName, "verif/c10/case-%d", &idx)
				if _, err := out.Write(vfAnswerBytes(vfAnswer{Kind: "valid", Name: idx})); err != nil {
					return nil
				}
			}
		}
		runner, err := runClient(context.Background(), runInProcess([]string{"verif-client"}, client))
		if err != nil {
			t.Fatal(err)
		}
		var viol error
		send := func(name int, what string) {
			if viol != nil {
				return
			}
			got := make(chan error, 4)
			if err := runner.sendRequest(&conformancev1.ClientCompatRequest{TestName: vfC10Name(name)}, func(_ string, resp *conformancev1.ClientCompatResponse, err error) {
				if err == nil && (resp == nil || resp.TestName != vfC10Name(name)) {
					err = fmt.Errorf("response for %q", resp.GetTestName())
				}
				got <- err
			}); err != nil {
				viol = verifkit.Violf("resend-refused", "%s: sendRequest returned %v", what, err)
				return
			}
			select {
			case err := <-got:
				if err != nil {
					viol = verifkit.Violf("resend-answer-lost", "%s: the client answered it, the callback got: %v", what, err)
				}
			case <-time.After(20 * time.Second):
				viol = verifkit.Violf("resend-no-callback", "%s: no callback within 20s", what)
			}
			select {
			case err := <-got:
				viol = verifkit.Violf("resend-callback-twice", "%s: a second callback fired (%v)", what, err)
			case <-time.After(20 * time.Millisecond):
			}
		}
		for i := 0; i < rounds; i++ {
			send(0, fmt.Sprintf("request %d for the same test name", i+1))
		}
		send(1, "a request for another test name afterwards")
		if viol == nil && !runner.isRunning() {
			viol = verifkit.Violf("resend-client-dropped", "the client answered every request but the runner reports it as no longer running")
		}
		runner.closeSend()
		if err := runner.waitForResponses(); err != nil && viol == nil {
			viol = verifkit.Violf("resend-wait-error", "waitForResponses: %v", err)
		}
		runner.stop()
		en.Rec.Observe(r, []string{fmt.Sprintf("rounds:%d", rounds)}, true)
		if viol != nil && en.Fail(r, viol) {
			break
		}
	}
	en.Done(true)
}
