//go:build verif

package connectconformance

import (
	"bufio"
	"bytes"
	"context"
	"crypto/tls"
	"crypto/x509"
	"encoding/json"
	"fmt"
	"io"
	"net"
	"net/http"
	"net/http/httputil"
	"net/url"
	"os"
	"os/signal"
	"sort"
	"strings"
	"sync"
	"syscall"
	"time"

	"connectrpc.com/conformance/internal"
	"connectrpc.com/conformance/internal/app/referenceserver"
	conformancev1 "connectrpc.com/conformance/internal/gen/proto/go/connectrpc/conformance/v1"
	"google.golang.org/protobuf/proto"
)

// Scripted peers: the test binary re-executes itself as a conformance client
// or server under test (VERIF_PEER=<role>), observing and/or misbehaving as a
// JSON script says. Peer mode is entered from init(), before the test
// framework starts.

func init() {
	switch os.Getenv("VERIF_PEER") {
	case "script-client":
		os.Exit(vfPeerClientMain())
	case "script-server":
		os.Exit(vfPeerServerMain())
	case "trailer-server":
		os.Exit(vfPeerTrailerServerMain())
	}
}

// vfPeerTrailerServerMain: a server under test that answers every RPC correctly - it is the repository's own
// conformance server (not in reference mode) - behind a reverse proxy that appends an HTTP trailer to each response:
// results match the expectations, but a client that looks at the wire has something to report.
func vfPeerTrailerServerMain() int {
	time.AfterFunc(3*time.Minute, func() { os.Exit(4) }) // never linger
	var req conformancev1.ServerCompatRequest
	if err := internal.ReadDelimitedMessage(os.Stdin, &req, "runner", 10*time.Second, 1<<20); err != nil {
		return 3
	}
	inR, inW := io.Pipe()
	outR, outW := io.Pipe()
	go func() {
		_ = referenceserver.Run(context.Background(), []string{"server", "-port", "0", "-bind", "127.0.0.1"}, inR, outW, os.Stderr)
	}()
	go func() { _ = internal.WriteDelimitedMessage(inW, &req) }()
	var backend conformancev1.ServerCompatResponse
	if err := internal.ReadDelimitedMessage(outR, &backend, "backend", 10*time.Second, 1<<20); err != nil {
		return 3
	}
	target, err := url.Parse(fmt.Sprintf("http://%s:%d", backend.Host, backend.Port))
	if err != nil {
		return 3
	}
	proxy := httputil.NewSingleHostReverseProxy(target)
	proxy.ModifyResponse = func(resp *http.Response) error {
		resp.Header.Del("Content-Length")
		resp.ContentLength = -1
		if resp.Trailer == nil {
			resp.Trailer = http.Header{}
		}
		resp.Trailer.Set("X-Verif-Extra-Trailer", "1")
		return nil
	}
	lis, err := net.Listen("tcp", "127.0.0.1:0")
	if err != nil {
		return 4
	}
	go func() { _ = http.Serve(lis, proxy) }()
	if err := internal.WriteDelimitedMessage(os.Stdout, &conformancev1.ServerCompatResponse{Host: "127.0.0.1", Port: uint32(lis.Addr().(*net.TCPAddr).Port)}); err != nil {
		return 3
	}
	sig := make(chan os.Signal, 1)
	signal.Notify(sig, syscall.SIGTERM, syscall.SIGINT)
	<-sig
	return 0
}

// vfPeerCommand returns the command line that runs this test binary as a peer.
func vfPeerCommand(role, script, logFile string) []string {
	self, err := os.Executable()
	if err != nil {
		self = os.Args[0]
	}
	return []string{"/usr/bin/env", "VERIF_PEER=" + role, "VERIF_PEER_SCRIPT=" + script, "VERIF_PEER_LOG=" + logFile, self}
}

type vfClientScript struct {
	Expected  map[string][]byte `json:"expected"`  // test name -> binary ClientResponseResult that matches the expectation
	Actions   map[string]string `json:"actions"`   // test name -> match (default) | deviate | error | none | feedback
	ExitAfter int               `json:"exitAfter"` // exit after this many requests were received and handled (-1: run to EOF)
	ExitCode  int               `json:"exitCode"`
	ExitDelay int               `json:"exitDelayMs"` // sleep before exiting
	Garbage   int               `json:"garbage"`     // write garbage instead of the n-th answer (1-based, 0: never)
	Duplicate int               `json:"duplicate"`   // write the n-th answer twice (1-based, 0: never)
	Order     string            `json:"order"`       // immediate | reverse-pairs | at-end
	Probe     bool              `json:"probe"`       // connect to host:port and record the identity line a script-server sends
	ProbeDial bool              `json:"probeDial"`   // only check that host:port accepts TCP connections
	// CloseStdoutAfter > 0: after that many answers the client closes its output and answers nothing any more, but keeps
	// reading (and discarding) requests until its input ends, then exits with ExitCode
	CloseStdoutAfter int `json:"closeStdoutAfter,omitempty"`
}

type vfPeerEvent struct {
	Event       string   `json:"event"` // request, answer, server-start, server-stop, conn, client-exit
	Pid         int      `json:"pid"`
	Seq         int64    `json:"seq"` // nanoseconds since the epoch at the time of the event
	Name        string   `json:"name,omitempty"`
	Protocol    int32    `json:"protocol,omitempty"`
	HTTPVersion int32    `json:"httpVersion,omitempty"`
	Codec       int32    `json:"codec,omitempty"`
	Compression int32    `json:"compression,omitempty"`
	Host        string   `json:"host,omitempty"`
	Port        uint32   `json:"port,omitempty"`
	HasCert     bool     `json:"hasCert,omitempty"`
	HasCreds    bool     `json:"hasCreds,omitempty"`
	UseTLS      bool     `json:"useTls,omitempty"`
	ClientCert  bool     `json:"clientCert,omitempty"`
	Headers     []string `json:"headers,omitempty"` // "name=value"
	RawHeaders  []string `json:"rawHeaders,omitempty"`
	Identity    string   `json:"identity,omitempty"`
	ALPN        string   `json:"alpn,omitempty"` // ProbeDial under TLS: what the server picks when offered h2 and http/1.1 ("none": nothing negotiated, "error: ..." no handshake)
	Alive       int      `json:"alive,omitempty"` // ProbeDial: how many of the server addresses seen so far accept connections right now
	CertEcho    string   `json:"certEcho,omitempty"`
	Limit       uint32   `json:"limit,omitempty"`
}

var vfPeerLogMu sync.Mutex

func vfPeerLog(ev vfPeerEvent) {
	path := os.Getenv("VERIF_PEER_LOG")
	if path == "" {
		return
	}
	ev.Pid = os.Getpid()
	ev.Seq = time.Now().UnixNano()
	data, _ := json.Marshal(ev)
	vfPeerLogMu.Lock()
	defer vfPeerLogMu.Unlock()
	f, err := os.OpenFile(path, os.O_APPEND|os.O_CREATE|os.O_WRONLY, 0o644)
	if err != nil {
		return
	}
	_, _ = f.Write(append(data, '\n'))
	_ = f.Close()
}

// vfReadPeerLog parses the JSONL log in event order.
func vfReadPeerLog(path string) []vfPeerEvent {
	data, err := os.ReadFile(path)
	if err != nil {
		return nil
	}
	var out []vfPeerEvent
	for _, line := range bytes.Split(data, []byte{'\n'}) {
		if len(bytes.TrimSpace(line)) == 0 {
			continue
		}
		var ev vfPeerEvent
		if json.Unmarshal(line, &ev) == nil {
			out = append(out, ev)
		}
	}
	sort.SliceStable(out, func(i, j int) bool { return out[i].Seq < out[j].Seq })
	return out
}

func vfLoadScript(v any) {
	data, err := os.ReadFile(os.Getenv("VERIF_PEER_SCRIPT"))
	if err == nil {
		_ = json.Unmarshal(data, v)
	}
}

func vfProbeIdentity(host string, port uint32) string {
	conn, err := net.DialTimeout("tcp", net.JoinHostPort(host, fmt.Sprint(port)), 5*time.Second)
	if err != nil {
		return "dial-error: " + err.Error()
	}
	defer conn.Close()
	_ = conn.SetDeadline(time.Now().Add(5 * time.Second))
	line, err := bufio.NewReader(conn).ReadString('\n')
	if err != nil && line == "" {
		return "read-error: " + err.Error()
	}
	return strings.TrimSpace(line)
}

// vfProbeALPN makes a TLS handshake the way a stock HTTP client would (offering h2 and http/1.1, trusting the
// certificate from the request, presenting the client credentials if any) and reports what the server picked.
func vfProbeALPN(addr string, req *conformancev1.ClientCompatRequest) string {
	pool := x509.NewCertPool()
	if !pool.AppendCertsFromPEM(req.ServerTlsCert) {
		return "error: server certificate in the request is not PEM"
	}
	// (what is probed is the protocol choice, not the certificate: each run's servers listen on a loopback address of their own)
	conf := &tls.Config{RootCAs: pool, NextProtos: []string{"h2", "http/1.1"}, MinVersion: tls.VersionTLS12, InsecureSkipVerify: true} //nolint:gosec
	if host, _, err := net.SplitHostPort(addr); err == nil {
		conf.ServerName = host
	}
	if creds := req.ClientTlsCreds; creds != nil {
		if pair, err := tls.X509KeyPair(creds.Cert, creds.Key); err == nil {
			conf.Certificates = []tls.Certificate{pair}
		}
	}
	conn, err := tls.DialWithDialer(&net.Dialer{Timeout: 5 * time.Second}, "tcp", addr, conf)
	if err != nil {
		return "error: " + err.Error()
	}
	defer conn.Close()
	if p := conn.ConnectionState().NegotiatedProtocol; p != "" {
		return p
	}
	return "none"
}

func vfPeerClientMain() int {
	script := vfClientScript{ExitAfter: -1}
	vfLoadScript(&script)
	out := bufio.NewWriter(os.Stdout)
	var outMu sync.Mutex      // (answers held back by "feedback-hold" are written by a timer goroutine)
	var delayed sync.WaitGroup // ... and the client does not exit before they are out
	defer delayed.Wait()
	var held [][]byte
	flushHeld := func() {
		outMu.Lock()
		defer outMu.Unlock()
		for i := len(held) - 1; i >= 0; i-- {
			_, _ = out.Write(held[i])
		}
		held = nil
		_ = out.Flush()
	}
	received, answers := 0, 0
	seenAddrs := map[string]bool{}
	// requests are read by a goroutine so that held answers can be flushed when
	// the runner goes quiet (it waits for all answers of a batch before sending more)
	reqs := make(chan *conformancev1.ClientCompatRequest)
	go func() {
		defer close(reqs)
		for {
			req := &conformancev1.ClientCompatRequest{}
			if err := internal.ReadDelimitedMessage(os.Stdin, req, "runner", time.Hour, 64<<20); err != nil {
				return
			}
			reqs <- req
		}
	}()
	for {
		if script.ExitAfter >= 0 && received >= script.ExitAfter {
			flushHeld()
			time.Sleep(time.Duration(script.ExitDelay) * time.Millisecond)
			vfPeerLog(vfPeerEvent{Event: "client-exit"})
			return script.ExitCode
		}
		var req *conformancev1.ClientCompatRequest
		var ok bool
		select {
		case req, ok = <-reqs:
		case <-time.After(40 * time.Millisecond):
			flushHeld()
			req, ok = <-reqs
		}
		if !ok {
			break
		}
		received++
		ev := vfPeerEvent{Event: "request", Name: req.TestName, Protocol: int32(req.Protocol), HTTPVersion: int32(req.HttpVersion), Codec: int32(req.Codec),
			Compression: int32(req.Compression), Host: req.Host, Port: req.Port, HasCert: len(req.ServerTlsCert) > 0, HasCreds: req.ClientTlsCreds != nil,
			CertEcho: string(req.ServerTlsCert), Limit: req.MessageReceiveLimit}
		for _, h := range req.RequestHeaders {
			for _, v := range h.Value {
				ev.Headers = append(ev.Headers, strings.ToLower(h.Name)+"="+v)
			}
		}
		if req.RawRequest != nil {
			for _, h := range req.RawRequest.Headers {
				for _, v := range h.Value {
					ev.RawHeaders = append(ev.RawHeaders, strings.ToLower(h.Name)+"="+v)
				}
			}
			if len(ev.RawHeaders) == 0 {
				ev.RawHeaders = []string{"(none)"}
			}
		}
		if script.Probe {
			ev.Identity = vfProbeIdentity(req.Host, req.Port)
		} else if script.ProbeDial {
			addr := net.JoinHostPort(req.Host, fmt.Sprint(req.Port))
			if conn, err := net.DialTimeout("tcp", addr, 5*time.Second); err != nil {
				ev.Identity = "dial-error: " + err.Error()
			} else {
				_ = conn.Close()
				ev.Identity = "dial-ok"
				ev.Alive = 1
				if len(req.ServerTlsCert) > 0 && req.HttpVersion != conformancev1.HTTPVersion_HTTP_VERSION_3 {
					ev.ALPN = vfProbeALPN(addr, req)
				}
			}
			// every other server address this client was ever sent to: still (or again) listening?
			for other := range seenAddrs {
				if other == addr {
					continue
				}
				if conn, err := net.DialTimeout("tcp", other, time.Second); err == nil {
					_ = conn.Close()
					ev.Alive++
				}
			}
			seenAddrs[addr] = true
		}
		vfPeerLog(ev)
		action := script.Actions[req.TestName]
		resp := &conformancev1.ClientCompatResponse{TestName: req.TestName}
		switch action {
		case "none":
			continue
		case "error":
			resp.Result = &conformancev1.ClientCompatResponse_Error{Error: &conformancev1.ClientErrorResult{Message: "scripted client error"}}
		case "error-empty":
			// the error arm of the response with nothing (readable) in it is still "the client could not run the case"
			resp.Result = &conformancev1.ClientCompatResponse_Error{Error: &conformancev1.ClientErrorResult{Message: []string{"", "\n", "  \r\n"}[answers%3]}}
		case "deviate":
			resp.Result = &conformancev1.ClientCompatResponse_Response{Response: &conformancev1.ClientResponseResult{
				Payloads: []*conformancev1.ConformancePayload{{Data: []byte("scripted deviation")}}}}
		default:
			result := &conformancev1.ClientResponseResult{}
			_ = proto.Unmarshal(script.Expected[req.TestName], result)
			resp.Result = &conformancev1.ClientCompatResponse_Response{Response: result}
			if action == "feedback" || action == "feedback-hold" {
				// provoke real feedback from a reference server: a request whose expectation headers are wrong
				hreq, _ := http.NewRequest(http.MethodPost, fmt.Sprintf("http://%s:%d/connectrpc.conformance.v1.ConformanceService/Unary", req.Host, req.Port), bytes.NewReader(nil))
				hreq.Header.Set("Content-Type", "application/proto")
				hreq.Header.Set("X-Test-Case-Name", req.TestName)
				hreq.Header.Set("X-Expect-Http-Version", "3")
				hreq.Header.Set("X-Expect-Protocol", "1")
				hreq.Header.Set("X-Expect-Codec", "1")
				hreq.Header.Set("X-Expect-Compression", "1")
				hreq.Header.Set("X-Expect-Tls", "false")
				hreq.Header.Set("X-Expect-Http-Method", "POST")
				if hresp, err := (&http.Client{Timeout: 10 * time.Second}).Do(hreq); err == nil {
					_, _ = io.Copy(io.Discard, hresp.Body)
					_ = hresp.Body.Close()
				}
			}
		}
		if script.CloseStdoutAfter > 0 && answers >= script.CloseStdoutAfter {
			continue // output is closed: the request is read and dropped
		}
		answers++
		var frame bytes.Buffer
		if script.Garbage == answers {
			frame.Write([]byte{0, 0, 0, 5, 0xff, 0xff, 0xff, 0xff, 0x0f})
		} else {
			_ = internal.WriteDelimitedMessage(&frame, resp)
			if script.Duplicate == answers {
				_ = internal.WriteDelimitedMessage(&frame, resp)
			}
		}
		if action == "feedback-hold" {
			// the feedback is out (the server has seen the request); the matching answer follows 1.5 s later, while the
			// client goes on answering everything else
			data := append([]byte{}, frame.Bytes()...)
			delayed.Add(1)
			time.AfterFunc(1500*time.Millisecond, func() {
				defer delayed.Done()
				outMu.Lock()
				defer outMu.Unlock()
				_, _ = out.Write(data)
				_ = out.Flush()
			})
			continue
		}
		switch script.Order {
		case "at-end":
			held = append(held, frame.Bytes())
		case "reverse-pairs":
			held = append(held, frame.Bytes())
			if len(held) == 2 {
				flushHeld()
			}
		default:
			outMu.Lock()
			_, _ = out.Write(frame.Bytes())
			_ = out.Flush()
			outMu.Unlock()
		}
		if script.CloseStdoutAfter > 0 && answers >= script.CloseStdoutAfter {
			flushHeld()
			_ = os.Stdout.Close()
			vfPeerLog(vfPeerEvent{Event: "client-stdout-closed"})
		}
	}
	flushHeld()
	vfPeerLog(vfPeerEvent{Event: "client-exit"})
	return script.ExitCode
}

type vfServerScript struct {
	Fault    string `json:"fault"`    // "", exit-before-answer, garbage, empty, oversize, no-cert, die-after-conns, ignore-term
	FaultFor string `json:"faultFor"` // only for instances whose "<protocol>/<version>/<tls>" matches ("" = all)
	After    int    `json:"after"`
	HTTPLog  bool   `json:"httpLog"` // parse an HTTP/1.1 request on each connection and log its test name
	// StopDelayMs: a well-behaved but slow server - it takes that long (well inside the runner's graceful-shutdown
	// period) to log its stop and exit after having been asked to
	StopDelayMs int `json:"stopDelayMs"`
	// EmptyHost: the server leaves the host of its start response empty (server_compat.proto: "leave the host field
	// empty or explicitly set to 127.0.0.1")
	EmptyHost bool `json:"emptyHost,omitempty"`
}

func vfPeerServerMain() int {
	var script vfServerScript
	vfLoadScript(&script)
	req := &conformancev1.ServerCompatRequest{}
	if err := internal.ReadDelimitedMessage(os.Stdin, req, "runner", time.Minute, 16<<20); err != nil {
		return 3
	}
	key := fmt.Sprintf("%d/%d/%v", req.Protocol, req.HttpVersion, req.UseTls)
	fault := script.Fault
	if script.FaultFor != "" && script.FaultFor != key {
		fault = ""
	}
	identity := fmt.Sprintf("server pid=%d protocol=%d version=%d tls=%v clientcert=%v", os.Getpid(), req.Protocol, req.HttpVersion, req.UseTls, len(req.ClientTlsCert) > 0)
	lis, err := net.Listen("tcp", "127.0.0.1:0")
	if err != nil {
		return 4
	}
	port := uint32(lis.Addr().(*net.TCPAddr).Port)
	vfPeerLog(vfPeerEvent{Event: "server-start", Protocol: int32(req.Protocol), HTTPVersion: int32(req.HttpVersion), UseTLS: req.UseTls,
		ClientCert: len(req.ClientTlsCert) > 0, Port: port, Identity: identity, Limit: req.MessageReceiveLimit})
	sig := make(chan os.Signal, 1)
	signal.Notify(sig, syscall.SIGTERM, syscall.SIGINT)
	conns := 0
	var mu sync.Mutex
	go func() {
		for {
			conn, err := lis.Accept()
			if err != nil {
				return
			}
			mu.Lock()
			conns++
			n := conns
			mu.Unlock()
			if script.HTTPLog {
				go func(conn net.Conn) {
					defer conn.Close()
					_ = conn.SetDeadline(time.Now().Add(2 * time.Second))
					hreq, err := http.ReadRequest(bufio.NewReader(conn))
					if err == nil && hreq.Method != "PRI" {
						vfPeerLog(vfPeerEvent{Event: "http-request", Port: port, Identity: identity, Name: hreq.Header.Get("X-Test-Case-Name"), Host: hreq.Method + " " + hreq.URL.Path})
					}
					_, _ = conn.Write([]byte("HTTP/1.1 503 Service Unavailable\r\nContent-Length: 0\r\nConnection: close\r\n\r\n"))
				}(conn)
			} else {
				_, _ = conn.Write([]byte(identity + "\n"))
				_ = conn.Close()
			}
			vfPeerLog(vfPeerEvent{Event: "conn", Port: port, Identity: identity})
			if fault == "die-after-conns" && n >= script.After {
				vfPeerLog(vfPeerEvent{Event: "server-stop", Port: port, Identity: identity, Name: "died"})
				os.Exit(7)
			}
		}
	}()
	switch fault {
	case "exit-before-answer":
		vfPeerLog(vfPeerEvent{Event: "server-stop", Port: port, Identity: identity, Name: "exit-before-answer"})
		return 5
	case "garbage":
		_, _ = os.Stdout.Write([]byte{0, 0, 0, 3, 0xff, 0xff, 0xff})
	case "empty":
		_ = os.Stdout.Close()
	case "oversize":
		_, _ = os.Stdout.Write([]byte{0x7f, 0xff, 0xff, 0xff, 1, 2, 3})
	default:
		resp := &conformancev1.ServerCompatResponse{Host: "127.0.0.1", Port: port}
		if script.EmptyHost {
			resp.Host = ""
		}
		if req.UseTls && fault != "no-cert" {
			resp.PemCert = []byte("CERT-OF-" + identity)
		}
		_ = internal.WriteDelimitedMessage(os.Stdout, resp)
	}
	<-sig
	if fault == "ignore-term" {
		// a server that does not react to being asked to stop (a wrapper script, a hung shutdown hook): it is the runner's
		// job to get rid of it; it ends by itself only much later
		vfPeerLog(vfPeerEvent{Event: "server-stop", Port: port, Identity: identity, Name: "sigterm-ignored"})
		deadline := time.After(120 * time.Second)
		for {
			select {
			case <-sig:
			case <-deadline:
				return 9
			}
		}
	}
	if script.StopDelayMs > 0 {
		// servers started at odd positions of the run stop quickly, the others slowly: two servers that are up at the
		// same time and are asked to stop at the same moment are not gone at the same moment
		nth := 0
		for _, ev := range vfReadPeerLog(os.Getenv("VERIF_PEER_LOG")) {
			if ev.Event == "server-start" {
				nth++
				if ev.Identity == identity {
					break
				}
			}
		}
		delay := time.Duration(script.StopDelayMs) * time.Millisecond
		if nth%2 == 1 {
			delay /= 6
		}
		time.Sleep(delay)
	}
	vfPeerLog(vfPeerEvent{Event: "server-stop", Port: port, Identity: identity, Name: "sigterm"})
	_ = lis.Close()
	return 0
}

type vfSyncPrinter struct {
	mu    sync.Mutex
	lines []string
}

func (p *vfSyncPrinter) Printf(msg string, args ...any) {
	p.mu.Lock()
	defer p.mu.Unlock()
	p.lines = append(p.lines, fmt.Sprintf(msg, args...))
}
func (p *vfSyncPrinter) PrefixPrintf(prefix, msg string, args ...any) {
	p.mu.Lock()
	defer p.mu.Unlock()
	p.lines = append(p.lines, prefix+": "+fmt.Sprintf(msg, args...))
}
func (p *vfSyncPrinter) String() string {
	p.mu.Lock()
	defer p.mu.Unlock()
	s := strings.Join(p.lines, "\n")
	if len(s) > 3000 {
		s = s[:3000] + "…"
	}
	return s
}

// Full returns everything printed (String() truncates for messages).
func (p *vfSyncPrinter) Full() string {
	p.mu.Lock()
	defer p.mu.Unlock()
	return strings.Join(p.lines, "\n")
}
