//go:build verif

package connectconformance

import (
	"fmt"
	"strings"
	"testing"

	"connectrpc.com/conformance/internal/verifkit"
	"pgregory.net/rapid"
)

// vfC06Check is the oracle.
func vfC06Check(c vfCfg) error {
	data := vfCfgBytes(c)
	got, err := parseConfig("verif.yaml", data)
	f, contradiction := vfResolve(c)
	if contradiction != "" {
		if err == nil {
			return verifkit.Violf("contradiction-accepted", "features are contradictory (%s) but parseConfig returned %d cases; config=%s", contradiction, len(got), data)
		}
		return nil
	}
	want := vfCasesOfFeatures(f)
	emptyInc, emptyExc := map[int]bool{}, map[int]bool{}
	for i, e := range c.Include {
		set := vfEntry(f, e)
		if len(set) == 0 {
			emptyInc[i+1] = true
		}
		for k := range set {
			want[k] = struct{}{}
		}
	}
	for i, e := range c.Exclude {
		set := vfEntry(f, e)
		if len(set) == 0 {
			emptyExc[i+1] = true
		}
		for k := range set {
			delete(want, k)
		}
	}
	if err != nil {
		msg := err.Error()
		var n int
		switch {
		case strings.Contains(msg, "include case #"):
			_, _ = fmt.Sscanf(msg[strings.Index(msg, "include case #"):], "include case #%d", &n)
			if emptyInc[n] {
				return nil // an unsatisfiable entry may be rejected
			}
			return verifkit.Violf("entry-rejected", "include entry #%d is satisfiable (%d cases by the spec) but was rejected: %v; config=%s", n, len(vfEntry(f, c.Include[n-1])), err, data)
		case strings.Contains(msg, "exclude case #"):
			_, _ = fmt.Sscanf(msg[strings.Index(msg, "exclude case #"):], "exclude case #%d", &n)
			if emptyExc[n] {
				return nil
			}
			return verifkit.Violf("entry-rejected", "exclude entry #%d is satisfiable (%d cases by the spec) but was rejected: %v; config=%s", n, len(vfEntry(f, c.Exclude[n-1])), err, data)
		case strings.Contains(msg, "zero cases"):
			if len(want) == 0 {
				return nil
			}
			return verifkit.Violf("empty-mismatch", "parseConfig says zero cases, the spec gives %d; config=%s", len(want), data)
		default:
			return verifkit.Violf("consistent-rejected", "features are consistent by the documented rules but were rejected: %v; config=%s", err, data)
		}
	}
	// an entry that names an impossible combination outright (whatever the features say) makes the configuration
	// contradictory: it is rejected, not skipped
	for kind, entries := range map[string][]vfCfgEntry{"include": c.Include, "exclude": c.Exclude} {
		for i, e := range entries {
			if why := vfEntryContradiction(e, f); why != "" {
				return verifkit.Violf("contradictory-entry-accepted", "%s entry #%d is contradictory (%s) but the configuration was accepted with %d cases; config=%s", kind, i+1, why, len(got), data)
			}
		}
	}
	gotSet, unique := vfToSet(got)
	if !unique {
		return verifkit.Violf("duplicates", "parseConfig returned duplicate cases; config=%s", data)
	}
	// model-free validity of every returned case
	for k := range gotSet {
		if why := vfPossible(k, f.h2c, f.halfH1); why != "" {
			return verifkit.Violf("impossible-case", "returned case %s is impossible: %s; config=%s", vfCaseStr(k), why, data)
		}
		if k.ConnectVersionMode != 0 {
			return verifkit.Violf("impossible-case", "returned case %s has a connect version mode; config=%s", vfCaseStr(k), data)
		}
	}
	if len(want) == 0 {
		return verifkit.Violf("empty-accepted", "the spec gives the empty set but parseConfig returned %d cases, e.g. %v; config=%s", len(got), vfSetDiff(gotSet, want), data)
	}
	if missing := vfSetDiff(want, gotSet); len(missing) > 0 {
		return verifkit.Violf("set-missing", "cases required by the spec are missing: %v; config=%s", missing, data)
	}
	if extra := vfSetDiff(gotSet, want); len(extra) > 0 {
		return verifkit.Violf("set-extra", "cases not in the spec's set were returned: %v; config=%s", extra, data)
	}
	return nil
}

// vfC06Meta: metamorphic relations that need no model.
func vfC06Meta(c vfCfg, perm vfCfg, extraExclude vfCfgEntry) error {
	base, err := parseConfig("verif.yaml", vfCfgBytes(c))
	permuted, perr := parseConfig("verif.yaml", vfCfgBytes(perm))
	if (err == nil) != (perr == nil) {
		return verifkit.Violf("meta-order", "reordering/duplicating list elements changed acceptance: %v vs %v; config=%s permuted=%s", err, perr, vfCfgBytes(c), vfCfgBytes(perm))
	}
	if err != nil {
		return nil
	}
	bs, _ := vfToSet(base)
	ps, _ := vfToSet(permuted)
	if d := append(vfSetDiff(bs, ps), vfSetDiff(ps, bs)...); len(d) > 0 {
		return verifkit.Violf("meta-order", "reordering/duplicating list elements changed the set by %v; config=%s permuted=%s", d, vfCfgBytes(c), vfCfgBytes(perm))
	}
	more := c
	more.Exclude = append(append([]vfCfgEntry{}, c.Exclude...), extraExclude)
	ms, merr := parseConfig("verif.yaml", vfCfgBytes(more))
	if merr == nil {
		mset, _ := vfToSet(ms)
		if d := vfSetDiff(mset, bs); len(d) > 0 {
			return verifkit.Violf("meta-exclude-adds", "adding an exclude entry added cases %v; config=%s", d, vfCfgBytes(more))
		}
	}
	return nil
}

func vfEntryHasOmitted(e vfCfgEntry) bool {
	return e.Version == 0 || e.Protocol == 0 || e.Codec == 0 || e.Compression == 0 || e.Stream == 0 || e.TLS == 0 || e.Certs == 0 || e.Limit == 0
}

func vfC06Classify(c vfCfg) ([]string, bool) {
	_, contradiction := vfResolve(c)
	var cl []string
	if contradiction != "" {
		return []string{"contradictory-features"}, false
	}
	_, err := parseConfig("verif.yaml", vfCfgBytes(c))
	if err != nil {
		cl = append(cl, "error-result")
	} else {
		cl = append(cl, "set-result")
	}
	entries := len(c.Include)+len(c.Exclude) > 0
	omitted := false
	for _, e := range append(append([]vfCfgEntry{}, c.Include...), c.Exclude...) {
		if vfEntryHasOmitted(e) {
			omitted = true
		}
	}
	flags := 0
	for _, tr := range []vfTri{c.H2C, c.TLS, c.Certs, c.Trailers, c.HalfH1, c.Get, c.Limit} {
		if tr != 0 {
			flags++
		}
	}
	if entries {
		cl = append(cl, "with-entries")
	}
	if flags >= 2 {
		cl = append(cl, "flags>=2")
	}
	return cl, err == nil && ((entries && omitted) || flags >= 2)
}

func TestVerifC06Random(t *testing.T) {
	verifkit.Run(t, "C06Random", verifkit.Spec[vfCfg]{Gen: vfGenCfg, Check: vfC06Check, Classify: vfC06Classify})
}

type vfC06MetaCase struct {
	Cfg   vfCfg      `json:"cfg"`
	Perm  vfCfg      `json:"perm"`
	Extra vfCfgEntry `json:"extra"`
}

func vfPermute(t *rapid.T, label string, s []int32) []int32 {
	if len(s) == 0 {
		return s
	}
	out := rapid.Permutation(s).Draw(t, label)
	if rapid.Bool().Draw(t, label+"-dup") {
		out = append(out, rapid.SampledFrom(s).Draw(t, label+"-dupval"))
	}
	return out
}

func TestVerifC06Meta(t *testing.T) {
	verifkit.Run(t, "C06Meta", verifkit.Spec[vfC06MetaCase]{
		Gen: func(t *rapid.T) vfC06MetaCase {
			c := vfGenCfg(t)
			p := c
			p.Versions = vfPermute(t, "pv", c.Versions)
			p.Protocols = vfPermute(t, "pp", c.Protocols)
			p.Codecs = vfPermute(t, "pc", c.Codecs)
			p.Compressions = vfPermute(t, "pz", c.Compressions)
			p.Streams = vfPermute(t, "ps", c.Streams)
			if len(c.Include) > 1 {
				p.Include = rapid.Permutation(c.Include).Draw(t, "pinc")
			}
			if len(c.Exclude) > 1 {
				p.Exclude = rapid.Permutation(c.Exclude).Draw(t, "pexc")
			}
			return vfC06MetaCase{Cfg: c, Perm: p, Extra: vfGenEntry(t, "extra")}
		},
		Check: func(c vfC06MetaCase) error { return vfC06Meta(c.Cfg, c.Perm, c.Extra) },
		Classify: func(c vfC06MetaCase) ([]string, bool) {
			cl, nt := vfC06Classify(c.Cfg)
			return cl, nt
		},
	})
}

// TestVerifC06Enum walks versions x protocols x stream types x all 3^7 flag
// assignments (sharded); codecs/compressions are fixed small sets.
func TestVerifC06Enum(t *testing.T) {
	en := verifkit.NewEnum(t, "C06Enum")
	var rc vfCfg
	if en.ReplayCase(&rc) {
		if err := verifkit.SafeCall(func() error { return vfC06Check(rc) }); err != nil {
			en.Fail(rc, err)
		}
		en.Done(true)
		return
	}
	shard, shards := verifkit.Shard()
	stride := verifkit.EnvInt("VERIF_C06_STRIDE", 1) // quick tier: every n-th element
	subsets := func(n int) [][]int32 {
		var out [][]int32
		for mask := 0; mask < 1<<n; mask++ {
			var s []int32
			for i := 0; i < n; i++ {
				if mask&(1<<i) != 0 {
					s = append(s, int32(i+1))
				}
			}
			out = append(out, s)
		}
		return out
	}
	idx := 0
	complete := true
	seed := verifkit.EnvInt("VERIF_SEED_EFFECTIVE", 1)
outer:
	for _, vs := range subsets(3) {
		for _, ps := range subsets(3) {
			for _, ss := range subsets(5) {
				for flags := 0; flags < 2187; flags++ {
					idx++
					if idx%shards != shard || (idx/shards)%stride != seed%stride {
						continue
					}
					tr := make([]vfTri, 7)
					x := flags
					for i := range tr {
						tr[i] = vfTri(x % 3)
						x /= 3
					}
					c := vfCfg{Versions: vs, Protocols: ps, Streams: ss, Codecs: []int32{1}, Compressions: []int32{1 + int32(idx%6)},
						H2C: tr[0], TLS: tr[1], Certs: tr[2], Trailers: tr[3], HalfH1: tr[4], Get: tr[5], Limit: tr[6]}
					err := verifkit.SafeCall(func() error { return vfC06Check(c) })
					_, contradiction := vfResolve(c)
					class := "consistent"
					if contradiction != "" {
						class = "contradictory"
					}
					en.Rec.ObserveHash(uint64(idx), class, contradiction == "" && flags != 0)
					if idx%400009 == 7 {
						en.Rec.AddSample(c)
					}
					if err != nil {
						if en.Fail(c, err) {
							complete = false
							break outer
						}
					}
				}
			}
		}
	}
	en.Rec.SetExtra("space", 8*8*32*2187)
	en.Rec.SetExtra("stride", stride)
	en.Done(complete && stride == 1)
}

// vfEntryContradiction: the entry itself names a combination that the documented rules exclude.
func vfEntryContradiction(e vfCfgEntry, f vfFeat) string {
	tlsOff := e.TLS == 2 // explicitly false
	switch {
	case e.Version == 3 && tlsOff:
		return "HTTP/3 without TLS"
	case e.Protocol == 2 && (e.Version == 1 || e.Version == 3):
		return "gRPC over an HTTP version other than 2"
	case e.Stream == 5 && e.Version == 1:
		return "full-duplex over HTTP/1.1"
	case e.Stream == 4 && e.Version == 1 && !f.halfH1:
		return "half-duplex over HTTP/1.1 without the feature"
	case e.Certs == 1 && tlsOff:
		return "client certificates without TLS"
	case e.Version == 2 && tlsOff && !f.h2c:
		return "cleartext HTTP/2 without H2C support"
	}
	return ""
}
