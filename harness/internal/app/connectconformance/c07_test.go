//go:build verif

package connectconformance

import (
	"os"
	"path/filepath"
	"fmt"
	"sort"
	"strings"
	"sync"
	"testing"

	conformancev1 "connectrpc.com/conformance/internal/gen/proto/go/connectrpc/conformance/v1"
	"connectrpc.com/conformance/internal/verifkit"
	"google.golang.org/protobuf/proto"
	"pgregory.net/rapid"
)

// ---- C07: suite expansion vs the iff of the statement ----

type vfC07Case struct {
	Subset []int     `json:"subset"` // if set: only these config cases (indexes modulo the number of cases) are used
	Suites []vfSuite `json:"suites"`
	Cfg    vfCfg     `json:"cfg"`
	Mode   int32     `json:"mode"`
}

func vfIn(list []int32, v int32) bool {
	if len(list) == 0 {
		return true
	}
	for _, x := range list {
		if x == v {
			return true
		}
	}
	return false
}

// vfPermutationExists is the iff of the statement.
func vfPermutationExists(s vfSuite, tc vfSuiteTC, cfg configCase, mode int32) bool {
	return (s.Mode == 0 || s.Mode == mode) &&
		vfIn(s.Protocols, int32(cfg.Protocol)) && vfIn(s.Versions, int32(cfg.Version)) &&
		vfIn(s.Codecs, int32(cfg.Codec)) && vfIn(s.Compressions, int32(cfg.Compression)) &&
		(!s.TLS || cfg.UseTLS) &&
		cfg.UseTLSClientCerts == s.Certs && cfg.UseConnectGET == s.Get && cfg.UseMessageReceiveLimit == s.Limit &&
		cfg.ConnectVersionMode == 0 &&
		int32(cfg.StreamType) == tc.Stream
}

// vfFullName is the documented name format: an axis is spelled out iff the suite leaves it open.
func vfFullName(s vfSuite, tc vfSuiteTC, cfg configCase) string {
	parts := []string{s.Name}
	if len(s.Versions) != 1 {
		parts = append(parts, fmt.Sprintf("HTTPVersion:%d", int32(cfg.Version)))
	}
	if len(s.Protocols) != 1 {
		parts = append(parts, "Protocol:"+cfg.Protocol.String())
	}
	if len(s.Codecs) != 1 {
		parts = append(parts, "Codec:"+cfg.Codec.String())
	}
	if len(s.Compressions) != 1 {
		parts = append(parts, "Compression:"+cfg.Compression.String())
	}
	if !s.TLS {
		parts = append(parts, fmt.Sprintf("TLS:%v", cfg.UseTLS))
	}
	return strings.Join(append(parts, tc.Name), "/")
}

var vfDefaultMethods = map[int32]string{1: "Unary", 2: "ClientStream", 3: "ServerStream", 4: "BidiStream", 5: "BidiStream"}

type vfWantPerm struct {
	suite vfSuite
	tc    vfSuiteTC
	cfg   configCase
}

func vfC07Check(c vfC07Case) error {
	cfgCases, err := parseConfig("verif.yaml", vfCfgBytes(c.Cfg))
	if err != nil {
		return nil // config rejected: nothing to expand (C06 decides whether that is right)
	}
	if len(c.Subset) > 0 && len(cfgCases) > 0 {
		// the property is about any set of config cases, also a single one
		seen := map[int]bool{}
		var sub []configCase
		for _, i := range c.Subset {
			if j := i % len(cfgCases); !seen[j] {
				seen[j] = true
				sub = append(sub, cfgCases[j])
			}
		}
		cfgCases = sub
	}
	suites := map[string]*conformancev1.TestSuite{}
	for i, s := range c.Suites {
		suites[fmt.Sprintf("suite%d.yaml", i)] = vfSuiteProto(s)
	}
	mode := conformancev1.TestSuite_TestMode(c.Mode)
	want := map[string]vfWantPerm{}
	for _, s := range c.Suites {
		for _, tc := range s.Cases {
			for _, cfg := range cfgCases {
				if vfPermutationExists(s, tc, cfg, c.Mode) {
					name := vfFullName(s, tc, cfg)
					if _, dup := want[name]; dup {
						return verifkit.Violf("harness-name-collision", "model produced the same name twice: %s", name)
					}
					want[name] = vfWantPerm{s, tc, cfg}
				}
			}
		}
	}
	var libs []*testCaseLibrary
	var fresh map[string]*conformancev1.TestSuite
	for round := 0; round < 3; round++ {
		// fresh suite messages for the first two rounds (expansion fills in defaults in place); the third round expands
		// the very suite objects of the second once more: a parsed suite can be expanded again with the same result
		if round < 2 {
			fresh = map[string]*conformancev1.TestSuite{}
			for k, v := range suites {
				fresh[k] = proto.Clone(v).(*conformancev1.TestSuite)
			}
			if round == 0 {
				// (built anew rather than cloned: a clone turns an empty list into an absent one)
				for i, s := range c.Suites {
					fresh[fmt.Sprintf("suite%d.yaml", i)] = vfSuiteProto(s)
				}
			}
		}
		lib, err := newTestCaseLibrary(fresh, cfgCases, mode)
		if err != nil {
			if len(want) == 0 && strings.Contains(err.Error(), "no test cases apply") {
				return nil
			}
			if vfAnyPreset(c.Suites) {
				return nil // a suite that fills runner-owned request fields may be rejected (proto docs: "must not be present")
			}
			return verifkit.Violf("expansion-rejected", "well-formed suites were rejected: %v (model expects %d permutations)", err, len(want))
		}
		libs = append(libs, lib)
	}
	lib := libs[0]
	if len(want) == 0 {
		return verifkit.Violf("empty-accepted", "no permutation exists by the statement but the library has %d", len(lib.testCases))
	}
	for name := range want {
		if _, ok := lib.testCases[name]; !ok {
			return verifkit.Violf("permutation-missing", "permutation %q must exist but is missing (library has %d, model %d)", name, len(lib.testCases), len(want))
		}
	}
	for name := range lib.testCases {
		if _, ok := want[name]; !ok {
			return verifkit.Violf("permutation-extra", "permutation %q exists but must not (or is misnamed)", name)
		}
	}
	for name, w := range want {
		tc := lib.testCases[name]
		r := tc.Request
		if r.TestName != name {
			return verifkit.Violf("request-name", "permutation %q carries test name %q", name, r.TestName)
		}
		if r.HttpVersion != w.cfg.Version || r.Protocol != w.cfg.Protocol || r.Codec != w.cfg.Codec || r.Compression != w.cfg.Compression {
			return verifkit.Violf("request-markers", "permutation %q: request has %v/%v/%v/%v, config case %s", name, r.HttpVersion, r.Protocol, r.Codec, r.Compression, vfCaseStr(w.cfg))
		}
		if (len(r.ServerTlsCert) > 0) != w.cfg.UseTLS || (r.ClientTlsCreds != nil) != w.cfg.UseTLSClientCerts {
			return verifkit.Violf("request-tls", "permutation %q: TLS markers (cert %v, client creds %v) do not match config case %s", name, len(r.ServerTlsCert) > 0, r.ClientTlsCreds != nil, vfCaseStr(w.cfg))
		}
		if int32(r.StreamType) != w.tc.Stream {
			return verifkit.Violf("request-stream", "permutation %q: stream type %v", name, r.StreamType)
		}
		wantService, wantMethod := w.tc.Service, w.tc.Method
		if wantService == "" && wantMethod == "" {
			wantService, wantMethod = "connectrpc.conformance.v1.ConformanceService", vfDefaultMethods[w.tc.Stream]
		}
		if r.GetService() != wantService || r.GetMethod() != wantMethod {
			return verifkit.Violf("request-method", "permutation %q: service/method %q/%q, want %q/%q", name, r.GetService(), r.GetMethod(), wantService, wantMethod)
		}
		if lib.testCaseNames[name] != w.tc.Name {
			return verifkit.Violf("simple-name", "permutation %q: recorded simple name %q, want %q", name, lib.testCaseNames[name], w.tc.Name)
		}
		if tc.ExpectedResponse == nil {
			return verifkit.Violf("no-expectation", "permutation %q has no expected response", name)
		}
	}
	// grouping: a partition keyed by the request's own tuple
	seen := map[string]int{}
	for inst, cases := range lib.casesByServer {
		for _, tc := range cases {
			r := tc.Request
			seen[r.TestName]++
			if inst.protocol != r.Protocol || inst.httpVersion != r.HttpVersion || inst.useTLS != (len(r.ServerTlsCert) > 0) || inst.useTLSClientCerts != (r.ClientTlsCreds != nil) {
				return verifkit.Violf("grouping", "permutation %q grouped under server instance %+v", r.TestName, inst)
			}
		}
	}
	for name := range want {
		if seen[name] != 1 {
			return verifkit.Violf("grouping", "permutation %q appears in %d server groups, want exactly 1", name, seen[name])
		}
	}
	if len(seen) != len(want) {
		return verifkit.Violf("grouping", "groups hold %d permutations, want %d", len(seen), len(want))
	}
	// repeated expansion gives the identical mapping
	for i, other := range libs[1:] {
		if len(other.testCases) != len(lib.testCases) {
			return verifkit.Violf("unstable", "expansion %d yields %d permutations, the first %d", i+2, len(other.testCases), len(lib.testCases))
		}
		for name, tc := range lib.testCases {
			o, ok := other.testCases[name]
			if !ok || !proto.Equal(tc, o) {
				return verifkit.Violf("unstable", "permutation %q differs between repeated expansions", name)
			}
		}
	}
	// the same parsed suites expanded by several goroutines at once, each for a config case of its own (the pinned
	// TestNewTestCaseLibrary shares its parsed suites between parallel subtests in the same way): every library carries
	// its own case's markers
	if len(cfgCases) >= 2 {
		shared := map[string]*conformancev1.TestSuite{}
		for k, v := range suites {
			shared[k] = proto.Clone(v).(*conformancev1.TestSuite)
		}
		picks := []configCase{cfgCases[0], cfgCases[len(cfgCases)-1], cfgCases[len(cfgCases)/2]}
		for round := 0; round < 8; round++ {
			errs := make([]error, len(picks))
			var wg sync.WaitGroup
			start := make(chan struct{})
			for g, pick := range picks {
				wg.Add(1)
				go func(g int, pick configCase) {
					defer wg.Done()
					<-start
					l, err := newTestCaseLibrary(shared, []configCase{pick}, mode)
					if err != nil {
						return // nothing applies to this single case: fine
					}
					for name, tc := range l.testCases {
						r := tc.Request
						if r.HttpVersion != pick.Version || r.Protocol != pick.Protocol || r.Codec != pick.Codec || r.Compression != pick.Compression ||
							(len(r.ServerTlsCert) > 0) != pick.UseTLS || (r.ClientTlsCreds != nil) != pick.UseTLSClientCerts {
							errs[g] = verifkit.Violf("concurrent-request-markers", "expansions of the same parsed suites running at the same time: permutation %q of the library for config case %s carries %v/%v/%v/%v tls=%v", name, vfCaseStr(pick), r.HttpVersion, r.Protocol, r.Codec, r.Compression, len(r.ServerTlsCert) > 0)
							return
						}
					}
					for inst, cases := range l.casesByServer {
						if len(cases) > 0 && (inst.protocol != pick.Protocol || inst.httpVersion != pick.Version || inst.useTLS != pick.UseTLS) {
							errs[g] = verifkit.Violf("concurrent-grouping", "expansions running at the same time: the library for config case %s has a server group %+v", vfCaseStr(pick), inst)
							return
						}
					}
				}(g, pick)
			}
			close(start)
			wg.Wait()
			for _, e := range errs {
				if e != nil {
					return e
				}
			}
		}
	}
	// gRPC peers: applicability and marked names
	all := lib.allPermutations(false, false)
	if len(all) != len(want) {
		return verifkit.Violf("all-permutations", "allPermutations(false,false) has %d entries, want %d", len(all), len(want))
	}
	for _, peers := range [][2]bool{{true, false}, {false, true}} {
		got := map[string]bool{}
		for _, tc := range lib.allPermutations(peers[0], peers[1]) {
			if got[tc.Request.TestName] {
				return verifkit.Violf("all-permutations-dup", "allPermutations(%v,%v) lists %q twice", peers[0], peers[1], tc.Request.TestName)
			}
			got[tc.Request.TestName] = true
		}
		wantAll := map[string]bool{}
		marker := "(grpc client impl)"
		if peers[1] {
			marker = "(grpc server impl)"
		}
		for name, w := range want {
			wantAll[name] = true
			if vfGRPCPeerApplies(w, peers[0], peers[1]) {
				prefix := strings.TrimSuffix(name, w.tc.Name)
				wantAll[prefix+marker+"/"+w.tc.Name] = true
			}
		}
		for n := range wantAll {
			if !got[n] {
				return verifkit.Violf("grpc-peer-missing", "allPermutations(client=%v,server=%v) lacks %q", peers[0], peers[1], n)
			}
		}
		for n := range got {
			if !wantAll[n] {
				return verifkit.Violf("grpc-peer-extra", "allPermutations(client=%v,server=%v) has %q which the gRPC peer does not support", peers[0], peers[1], n)
			}
		}
	}
	return nil
}

// vfGRPCPeerApplies: rule table of what the grpc-go reference peers support.
func vfGRPCPeerApplies(w vfWantPerm, clientIsGRPC, serverIsGRPC bool) bool {
	p, v := int32(w.cfg.Protocol), int32(w.cfg.Version)
	switch {
	case p == 1:
		return false // neither speaks Connect
	case clientIsGRPC && p != 2:
		return false // the client only speaks gRPC
	case p == 2 && v != 2:
		return false // gRPC needs HTTP/2
	case p == 3 && v != 1 && v != 2:
		return false // gRPC-Web over HTTP/1.1 or HTTP/2
	case w.cfg.Codec != 1:
		return false
	case w.cfg.Compression != 1 && w.cfg.Compression != 2:
		return false
	case w.cfg.UseTLS:
		return false
	case w.tc.RawReq && clientIsGRPC:
		return false
	case w.tc.RawResp && serverIsGRPC:
		return false
	}
	return true
}

func vfC07Classify(c vfC07Case) ([]string, bool) {
	var cl []string
	modeRestricted, flag, one, many := false, false, false, false
	for _, s := range c.Suites {
		if s.Mode != 0 {
			modeRestricted = true
		}
		if s.TLS || s.Certs || s.Get || s.Limit {
			flag = true
		}
		for _, l := range [][]int32{s.Protocols, s.Versions, s.Codecs, s.Compressions} {
			if len(l) == 1 {
				one = true
			}
			if len(l) >= 2 {
				many = true
			}
		}
	}
	if modeRestricted {
		cl = append(cl, "mode-restricted")
	}
	if flag {
		cl = append(cl, "relies-on-flag")
	}
	return cl, len(c.Suites) >= 2 && modeRestricted && flag && one && many
}

func TestVerifC07Expansion(t *testing.T) {
	verifkit.Run(t, "C07Expansion", verifkit.Spec[vfC07Case]{
		Gen: func(t *rapid.T) vfC07Case {
			mode := int32(rapid.IntRange(0, 2).Draw(t, "runMode"))
			c := vfC07Case{Mode: mode, Suites: vfGenSuites(t, mode)}
			// a config likely to be valid: mostly defaults with some variation
			switch rapid.IntRange(0, 3).Draw(t, "cfgKind") {
			case 0:
				c.Cfg = vfCfg{}
			case 1:
				c.Cfg = vfCfg{Versions: []int32{1, 2, 3}, Compressions: []int32{1, 2, 3, 4, 5, 6}, Certs: 1, HalfH1: 1}
			case 2:
				c.Cfg = vfCfg{Versions: []int32{1}, Protocols: []int32{1, 3}, TLS: vfGenTri(t, "cfgtls"), Get: vfGenTri(t, "cfgget"), Limit: vfGenTri(t, "cfglimit")}
			default:
				c.Cfg = vfGenCfg(t)
			}
			if rapid.IntRange(0, 3).Draw(t, "subset") == 0 {
				for i, n := 0, rapid.IntRange(1, 3).Draw(t, "nsubset"); i < n; i++ {
					c.Subset = append(c.Subset, rapid.IntRange(0, 5000).Draw(t, "subsetIdx"))
				}
			}
			return c
		},
		Check:    vfC07Check,
		Classify: vfC07Classify,
	})
}

var _ = sort.Strings

func vfAnyPreset(suites []vfSuite) bool {
	for _, s := range suites {
		for _, tc := range s.Cases {
			if tc.Preset != 0 {
				return true
			}
		}
	}
	return false
}

// TestVerifC07RunMode: "the suite's mode admits the run mode", with the run mode as the runner derives it from the
// commands it is given: only a client command = client under test, only a server command = server under test, both =
// neither reference peer is used and only mode-less suites apply. run() is driven up to the point where it would
// start a (non-existent) peer command; one --run pattern per suite makes it say which suites have no permutation.
func TestVerifC07RunMode(t *testing.T) {
	en := verifkit.NewEnum(t, "C07RunMode")
	type row struct {
		Client bool  `json:"clientCommand"`
		Server bool  `json:"serverCommand"`
		Modes  []int `json:"suiteModes"`
	}
	cfg := []configCase{{Version: conformancev1.HTTPVersion_HTTP_VERSION_1, Protocol: conformancev1.Protocol_PROTOCOL_CONNECT,
		Codec: conformancev1.Codec_CODEC_PROTO, Compression: conformancev1.Compression_COMPRESSION_IDENTITY, StreamType: conformancev1.StreamType_STREAM_TYPE_UNARY}}
	suiteNames := map[int]string{0: "Any Mode", 1: "Client Only", 2: "Server Only"}
	for _, modes := range [][]int{{0, 1, 2}, {1, 2}, {0, 1}, {0, 2}, {2, 1, 0}} {
		for _, cmds := range [][2]bool{{true, false}, {false, true}, {true, true}} {
			r := row{Client: cmds[0], Server: cmds[1], Modes: modes}
			suites := map[string]*conformancev1.TestSuite{}
			var patterns []string
			for _, m := range modes {
				suites[fmt.Sprintf("dir-%d/suite.yaml", m)] = &conformancev1.TestSuite{Name: suiteNames[m], Mode: conformancev1.TestSuite_TestMode(m),
					TestCases: []*conformancev1.TestCase{{Request: &conformancev1.ClientCompatRequest{TestName: "one", StreamType: conformancev1.StreamType_STREAM_TYPE_UNARY}}}}
				patterns = append(patterns, suiteNames[m]+"/**")
			}
			flags := &Flags{MaxServers: 1, Parallelism: 1}
			runMode := 0
			if cmds[0] {
				flags.ClientCommand = []string{"/nonexistent/verif-no-such-client"}
				runMode = 1
			}
			if cmds[1] {
				flags.ServerCommand = []string{"/nonexistent/verif-no-such-server"}
				runMode = 2
			}
			if cmds[0] && cmds[1] {
				runMode = 0
			}
			var wantUnmatched []string
			for _, m := range modes {
				if m != 0 && m != runMode {
					wantUnmatched = append(wantUnmatched, suiteNames[m]+"/**")
				}
			}
			sort.Strings(wantUnmatched)
			_, err := run(cfg, &testTrie{}, &testTrie{}, parsePatterns(patterns), nil, suites, vfNullPrinter{}, vfNullPrinter{}, flags)
			var gotUnmatched []string
			if err != nil && strings.Contains(err.Error(), "unmatched and possibly invalid patterns:") {
				gotUnmatched = strings.Split(strings.SplitN(err.Error(), "patterns:\n", 2)[1], "\n")
				sort.Strings(gotUnmatched)
			}
			var viol error
			switch {
			case len(wantUnmatched) == len(modes):
				// no suite applies at all
				if err == nil || !strings.Contains(err.Error(), "no test cases apply") {
					viol = verifkit.Violf("run-mode-suites", "client command %v, server command %v, suite modes %v: no suite applies but run() said: %v", cmds[0], cmds[1], modes, err)
				}
			case err == nil && len(wantUnmatched) > 0:
				// (a server command that cannot be started is recorded per case, not returned: every pattern matched)
				viol = verifkit.Violf("run-mode-suites", "client command %v, server command %v: every suite pattern matched, want no permutation for %q", cmds[0], cmds[1], wantUnmatched)
			case err == nil:
			case strings.Join(gotUnmatched, "|") != strings.Join(wantUnmatched, "|"):
				viol = verifkit.Violf("run-mode-suites", "client command %v, server command %v: suites without any permutation %q, want %q (a suite applies iff it has no mode or the mode of the run); run() said: %v", cmds[0], cmds[1], gotUnmatched, wantUnmatched, err)
			}
			en.Rec.Observe(r, []string{fmt.Sprintf("client-command:%v", cmds[0]), fmt.Sprintf("server-command:%v", cmds[1])}, true)
			if viol != nil && en.Fail(r, viol) {
				en.Done(true)
				return
			}
		}
	}
	en.Done(true)
}

// TestVerifC07Files: suites given with --test-file are all expanded, whatever their paths look like: two files with
// the same base name in different directories, a relative and an absolute path, a file listed twice. The exported Run
// is driven up to the point where it would start a (non-existent) client command; one --run pattern per suite makes
// it say which suites contributed no permutation.
func TestVerifC07Files(t *testing.T) {
	en := verifkit.NewEnum(t, "C07Files")
	dir, err := os.MkdirTemp(".", "c07files")
	if err != nil {
		t.Fatal(err)
	}
	defer os.RemoveAll(dir)
	abs, _ := filepath.Abs(dir)
	write := func(rel, suite string) string {
		p := filepath.Join(dir, rel)
		_ = os.MkdirAll(filepath.Dir(p), 0o755)
		yaml := fmt.Sprintf("name: %s\nrelevantProtocols: [PROTOCOL_CONNECT]\nrelevantHttpVersions: [HTTP_VERSION_1]\nrelevantCodecs: [CODEC_PROTO]\nrelevantCompressions: [COMPRESSION_IDENTITY]\ntestCases:\n  - request:\n      testName: one\n      streamType: STREAM_TYPE_UNARY\n      requestMessages:\n        - \"@type\": type.googleapis.com/connectrpc.conformance.v1.UnaryRequest\n          responseDefinition:\n            responseData: \"dGVzdA==\"\n", suite)
		_ = os.WriteFile(p, []byte(yaml), 0o644)
		return p
	}
	type row struct {
		Files  []string `json:"files"`
		Suites []string `json:"suites"`
	}
	rows := []row{
		{Files: []string{write("client/basic.yaml", "First Basic"), write("server/basic.yaml", "Second Basic")}, Suites: []string{"First Basic", "Second Basic"}},
		{Files: []string{write("a/x/suite.yaml", "Deep One"), write("a/suite.yaml", "Deep Two"), write("suite.yaml", "Deep Three")}, Suites: []string{"Deep One", "Deep Two", "Deep Three"}},
		{Files: []string{write("rel.yaml", "Relative Path"), filepath.Join(abs, "rel2.yaml")}, Suites: []string{"Relative Path", "Absolute Path"}},
	}
	write("rel2.yaml", "Absolute Path")
	cfgFile := filepath.Join(dir, "config.yaml")
	_ = os.WriteFile(cfgFile, []byte("features:\n  versions: [HTTP_VERSION_1]\n  protocols: [PROTOCOL_CONNECT]\n  codecs: [CODEC_PROTO]\n  compressions: [COMPRESSION_IDENTITY]\n  supportsTls: false\n"), 0o644)
	for _, r := range rows {
		var pats []string
		for _, s := range r.Suites {
			pats = append(pats, s+"/**")
		}
		flags := &Flags{ConfigFile: cfgFile, TestFiles: r.Files, RunPatterns: pats, MaxServers: 1, Parallelism: 1, ClientCommand: []string{"/nonexistent/verif-no-such-client"}}
		_, err := Run(flags, vfNullPrinter{}, vfNullPrinter{})
		var viol error
		switch {
		case err == nil:
			viol = verifkit.Violf("files-no-error", "Run with a non-existent client command returned no error (%+v)", r)
		case strings.Contains(err.Error(), "unmatched and possibly invalid patterns:"):
			viol = verifkit.Violf("files-suite-missing", "suites given with --test-file %q: no permutation for %q", r.Files, strings.Split(strings.SplitN(err.Error(), "patterns:\n", 2)[1], "\n"))
		case !strings.Contains(err.Error(), "verif-no-such-client") && !strings.Contains(err.Error(), "client"):
			viol = verifkit.Violf("files-rejected", "suite files %q were not loaded: %v", r.Files, err)
		}
		en.Rec.Observe(r, []string{fmt.Sprintf("files:%d", len(r.Files))}, true)
		if viol != nil && en.Fail(r, viol) {
			break
		}
	}
	en.Done(true)
}

// TestVerifC07NameCollision: "its full name is unique" when two suites' names nest: suite "Acme" with test
// "trailers/in-body" and suite "Acme/trailers" with test "in-body" spell the same full name for the same config case
// (every axis pinned by both suites). The library must not silently keep one of them: it reports the clash, and the
// answer does not depend on the order the suites are visited in. Without the clash both permutations exist.
func TestVerifC07NameCollision(t *testing.T) {
	en := verifkit.NewEnum(t, "C07NameCollision")
	type row struct {
		Outer, OuterTest, Inner, InnerTest string
		Collide                            bool
	}
	rows := []row{
		{"Acme", "trailers/in-body", "Acme/trailers", "in-body", true},
		{"Acme", "a/b/c", "Acme/a/b", "c", true},
		{"Acme", "trailers/in-body", "Acme/trailers", "in-header", false},
		{"Acme", "x", "Acme/trailers", "x", false},
	}
	cfg := []configCase{{Version: conformancev1.HTTPVersion_HTTP_VERSION_1, Protocol: conformancev1.Protocol_PROTOCOL_CONNECT,
		Codec: conformancev1.Codec_CODEC_PROTO, Compression: conformancev1.Compression_COMPRESSION_IDENTITY, StreamType: conformancev1.StreamType_STREAM_TYPE_UNARY, UseTLS: true}}
	mk := func(name, test string) *conformancev1.TestSuite {
		return &conformancev1.TestSuite{Name: name, ReliesOnTls: true, // (every axis pinned: the full name is suite name + test name)
			RelevantProtocols: []conformancev1.Protocol{conformancev1.Protocol_PROTOCOL_CONNECT}, RelevantHttpVersions: []conformancev1.HTTPVersion{conformancev1.HTTPVersion_HTTP_VERSION_1},
			RelevantCodecs: []conformancev1.Codec{conformancev1.Codec_CODEC_PROTO}, RelevantCompressions: []conformancev1.Compression{conformancev1.Compression_COMPRESSION_IDENTITY},
			TestCases: []*conformancev1.TestCase{{Request: &conformancev1.ClientCompatRequest{TestName: test, StreamType: conformancev1.StreamType_STREAM_TYPE_UNARY}}}}
	}
	for _, r := range rows {
		var viol error
		// (repeated: Go visits the suite map in a different order each time)
		for rep := 0; rep < 40 && viol == nil; rep++ {
			suites := map[string]*conformancev1.TestSuite{"outer.yaml": mk(r.Outer, r.OuterTest), "inner.yaml": mk(r.Inner, r.InnerTest)}
			lib, err := newTestCaseLibrary(suites, cfg, conformancev1.TestSuite_TEST_MODE_UNSPECIFIED)
			switch {
			case r.Collide && err == nil:
				viol = verifkit.Violf("name-collision-accepted", "suites %q (test %q) and %q (test %q) spell the same full name, but the library was built with %d permutation(s) %v: one definition was silently dropped", r.Outer, r.OuterTest, r.Inner, r.InnerTest, len(lib.testCases), vfKeys(lib.testCases))
			case !r.Collide && err != nil:
				viol = verifkit.Violf("name-collision-spurious", "suites %q (test %q) and %q (test %q) do not clash but: %v", r.Outer, r.OuterTest, r.Inner, r.InnerTest, err)
			case !r.Collide && len(lib.testCases) != 2:
				viol = verifkit.Violf("permutation-missing", "suites %q / %q: %d permutations %v, want 2", r.Outer, r.Inner, len(lib.testCases), vfKeys(lib.testCases))
			}
		}
		en.Rec.Observe(r, []string{fmt.Sprintf("collide:%v", r.Collide)}, true)
		if viol != nil && en.Fail(r, viol) {
			break
		}
	}
	// two suite files with the same suite name of which only one applies to the run mode: whatever the library makes of
	// it (the pinned tree refuses the pair), it makes the same of it every time - the answer cannot depend on the
	// order in which Go hands out the suite map
	for _, modes := range [][3]conformancev1.TestSuite_TestMode{
		{conformancev1.TestSuite_TEST_MODE_CLIENT, conformancev1.TestSuite_TEST_MODE_SERVER, conformancev1.TestSuite_TEST_MODE_CLIENT},
		{conformancev1.TestSuite_TEST_MODE_CLIENT, conformancev1.TestSuite_TEST_MODE_SERVER, conformancev1.TestSuite_TEST_MODE_SERVER},
		{conformancev1.TestSuite_TEST_MODE_UNSPECIFIED, conformancev1.TestSuite_TEST_MODE_SERVER, conformancev1.TestSuite_TEST_MODE_CLIENT},
	} {
		var first string
		var viol error
		for rep := 0; rep < 120 && viol == nil; rep++ {
			a, b := mk("Dup", "x"), mk("Dup", "y")
			a.Mode, b.Mode = modes[0], modes[1]
			lib, err := newTestCaseLibrary(map[string]*conformancev1.TestSuite{"a.yaml": a, "b.yaml": b}, cfg, modes[2])
			got := "error"
			if err == nil {
				got = fmt.Sprint(vfKeys(lib.testCases))
			}
			if rep == 0 {
				first = got
			} else if got != first {
				viol = verifkit.Violf("same-name-unstable", "two suites named \"Dup\" (modes %v and %v), run mode %v: repetition 0 gave %s, repetition %d gave %s", modes[0], modes[1], modes[2], first, rep, got)
			}
		}
		r := map[string]any{"suiteModes": []string{modes[0].String(), modes[1].String()}, "runMode": modes[2].String()}
		en.Rec.Observe(r, []string{"same-name-different-mode"}, true)
		if viol != nil && en.Fail(r, viol) {
			break
		}
	}
	en.Done(true)
}

func vfKeys(m map[string]*conformancev1.TestCase) []string {
	var out []string
	for k := range m {
		out = append(out, k)
	}
	sort.Strings(out)
	return out
}
