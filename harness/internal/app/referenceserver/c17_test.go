//go:build verif

package referenceserver

import (
	"bytes"
	"context"
	"crypto/tls"
	"encoding/binary"
	"fmt"
	"io"
	"net"
	"net/http"
	"net/http/httptest"
	"sort"
	"strings"
	"sync"
	"sync/atomic"
	"testing"
	"time"

	conformancev1 "connectrpc.com/conformance/internal/gen/proto/go/connectrpc/conformance/v1"
	"connectrpc.com/conformance/internal/verifkit"
	"golang.org/x/net/http2"
	"google.golang.org/protobuf/proto"
	"pgregory.net/rapid"
)

// ---- raw response specs (JSON friendly) ----

type vfHdr struct {
	Name  string   `json:"name"`
	Value []string `json:"value"`
}

type vfRawItem struct {
	Flags       uint32 `json:"flags"`
	HasLength   bool   `json:"hasLength"`
	Length      uint32 `json:"length"`
	Kind        string `json:"kind"` // binary, text
	Data        []byte `json:"data"`
	Compression int32  `json:"compression"`
}

type vfRawResp struct {
	Status   uint32      `json:"status"`
	Headers  []vfHdr     `json:"headers"`
	Trailers []vfHdr     `json:"trailers"`
	Body     string      `json:"body"` // none, unary, stream
	Unary    vfRawItem   `json:"unary"`
	Stream   []vfRawItem `json:"stream"`
}

var vfCompNames = map[int32]string{0: "identity", 1: "identity", 2: "gzip", 3: "br", 4: "zstd", 5: "deflate", 6: "snappy"}

func vfContents(it vfRawItem) *conformancev1.MessageContents {
	mc := &conformancev1.MessageContents{Compression: conformancev1.Compression(it.Compression)}
	if it.Kind == "text" {
		mc.Data = &conformancev1.MessageContents_Text{Text: string(it.Data)}
	} else {
		mc.Data = &conformancev1.MessageContents_Binary{Binary: it.Data}
	}
	return mc
}

func vfHeadersProto(hs []vfHdr) []*conformancev1.Header {
	var out []*conformancev1.Header
	for _, h := range hs {
		out = append(out, &conformancev1.Header{Name: h.Name, Value: h.Value})
	}
	return out
}

func (r vfRawResp) proto() *conformancev1.RawHTTPResponse {
	out := &conformancev1.RawHTTPResponse{StatusCode: r.Status, Headers: vfHeadersProto(r.Headers), Trailers: vfHeadersProto(r.Trailers)}
	switch r.Body {
	case "unary":
		out.Body = &conformancev1.RawHTTPResponse_Unary{Unary: vfContents(r.Unary)}
	case "stream":
		sc := &conformancev1.StreamContents{}
		for _, it := range r.Stream {
			si := &conformancev1.StreamContents_StreamItem{Flags: it.Flags, Payload: vfContents(it)}
			if it.HasLength {
				si.Length = proto.Uint32(it.Length)
			}
			sc.Items = append(sc.Items, si)
		}
		out.Body = &conformancev1.RawHTTPResponse_Stream{Stream: sc}
	}
	return out
}

// vfCheckBody verifies observed body bytes against the spec with an
// independent envelope parser and independent decompressors.
func vfCheckBody(r vfRawResp, body []byte) error {
	switch r.Body {
	case "none":
		if len(body) != 0 {
			return verifkit.Violf("raw-body", "no body specified but %d bytes were sent: %q", len(body), truncate(body))
		}
	case "unary":
		dec, err := verifkit.IndepDecode(vfCompNames[r.Unary.Compression], body)
		if err != nil {
			return verifkit.Violf("raw-body", "unary body is not decodable as %s: %v (%q)", vfCompNames[r.Unary.Compression], err, truncate(body))
		}
		if !bytes.Equal(dec, r.Unary.Data) {
			return verifkit.Violf("raw-body", "unary body decodes to %q, want %q", truncate(dec), truncate(r.Unary.Data))
		}
	case "stream":
		rest := body
		for i, it := range r.Stream {
			if len(rest) < 5 {
				return verifkit.Violf("raw-body", "stream item %d: body ends after %d bytes", i, len(body)-len(rest))
			}
			if uint32(rest[0]) != it.Flags {
				return verifkit.Violf("raw-body", "stream item %d: flags %d, want %d", i, rest[0], it.Flags)
			}
			declared := binary.BigEndian.Uint32(rest[1:5])
			rest = rest[5:]
			var payload []byte
			switch {
			case !it.HasLength:
				if uint64(declared) > uint64(len(rest)) {
					return verifkit.Violf("raw-body", "stream item %d: computed length %d exceeds the remaining %d bytes", i, declared, len(rest))
				}
				payload, rest = rest[:declared], rest[declared:]
			case it.Compression <= 1:
				if declared != it.Length {
					return verifkit.Violf("raw-body", "stream item %d: declared length %d, want explicit %d", i, declared, it.Length)
				}
				if len(rest) < len(it.Data) {
					return verifkit.Violf("raw-body", "stream item %d: payload truncated", i)
				}
				payload, rest = rest[:len(it.Data)], rest[len(it.Data):]
			default: // explicit length + compression: generated only as the last item
				if declared != it.Length {
					return verifkit.Violf("raw-body", "stream item %d: declared length %d, want explicit %d", i, declared, it.Length)
				}
				payload, rest = rest, nil
			}
			dec, err := verifkit.IndepDecode(vfCompNames[it.Compression], payload)
			if err != nil || !bytes.Equal(dec, it.Data) {
				return verifkit.Violf("raw-body", "stream item %d: payload decodes to %q (err %v), want %q", i, truncate(dec), err, truncate(it.Data))
			}
		}
		if len(rest) != 0 {
			return verifkit.Violf("raw-body", "%d extra bytes after the last stream item: %q", len(rest), truncate(rest))
		}
	}
	return nil
}

func truncate(b []byte) []byte {
	if len(b) > 60 {
		return b[:60]
	}
	return b
}

// vfWantHeaders: per canonical name, the concatenation of the values in order.
func vfWantHeaders(hs []vfHdr) map[string][]string {
	out := map[string][]string{}
	for _, h := range hs {
		if len(h.Value) == 0 {
			continue
		}
		k := http.CanonicalHeaderKey(h.Name)
		out[k] = append(out[k], h.Value...)
	}
	return out
}

func vfCheckHeaders(what string, want map[string][]string, got http.Header) error {
	for k, vals := range want {
		if fmt.Sprintf("%q", got[k]) != fmt.Sprintf("%q", vals) {
			return verifkit.Violf("raw-"+what, "%s %q: got %q, want %q (all: %v)", what, k, got[k], vals, got)
		}
	}
	return nil
}

// ---- C17b: arbitration between handler output and raw response (state machine) ----

type vfArbOp struct {
	Op   string `json:"op"` // header, write, writeheader, flush, setraw
	Arg  string `json:"arg"`
	Code int    `json:"code"`
}

type vfArbCase struct {
	Ops      []vfArbOp `json:"ops"`
	Raw      vfRawResp `json:"raw"`
	Snapshot bool      `json:"snapshot"` // an outer middleware has set a header before
	// Gate = k > 0: while handler op k-1 (a write, writeheader or flush) is inside the underlying ResponseWriter,
	// another goroutine tries to record the raw response. The handler's response has started by then.
	Gate int `json:"gate,omitempty"`
}

// vfGateWriter calls hook from inside the next Write, WriteHeader or Flush of the underlying writer once armed.
type vfGateWriter struct {
	*httptest.ResponseRecorder
	armed bool
	hook  func()
}

func (g *vfGateWriter) gate() {
	if g.armed {
		g.armed = false
		g.hook()
	}
}
func (g *vfGateWriter) Write(b []byte) (int, error) { g.gate(); return g.ResponseRecorder.Write(b) }
func (g *vfGateWriter) WriteHeader(code int)        { g.gate(); g.ResponseRecorder.WriteHeader(code) }
func (g *vfGateWriter) Flush()                      { g.gate(); g.ResponseRecorder.Flush() }

func vfRunArb(c vfArbCase, wrapped bool) (*httptest.ResponseRecorder, []string, error) {
	var log []string
	var gate *vfGateWriter
	handler := http.Handler(http.HandlerFunc(func(w http.ResponseWriter, r *http.Request) {
		var concurrent chan struct{}
		var line string
		defer func() {
			if concurrent != nil {
				<-concurrent
				log = append(log, line)
			}
		}()
		for i, op := range c.Ops {
			if gate != nil && i == c.Gate-1 {
				gate.armed = true
				gate.hook = func() {
					// we are inside the underlying writer, called by the handler's goroutine
					concurrent = make(chan struct{})
					go func() {
						defer close(concurrent)
						err := setRawResponse(r.Context(), c.Raw.proto())
						line = fmt.Sprintf("setraw=%v", err != nil)
					}()
					select {
					case <-concurrent:
					case <-time.After(300 * time.Millisecond): // setRawResponse waits for the write to return: let it
					}
				}
			}
			switch op.Op {
			case "header":
				w.Header().Set("X-Handler-"+op.Arg, "handler-value")
			case "vary-add": // the handler adds to a header that an outer middleware had set before it ran
				w.Header().Add("Vary", "Accept-Encoding")
			case "vary-set":
				w.Header().Set("Vary", "X-Handler-Choice")
			case "write":
				n, err := w.Write([]byte("HANDLER-BODY-" + op.Arg))
				log = append(log, fmt.Sprintf("write=%d,%v", n, err))
			case "writeheader":
				w.WriteHeader(op.Code)
			case "flush":
				if f, ok := w.(http.Flusher); ok {
					f.Flush()
				}
			case "setraw":
				if wrapped {
					err := setRawResponse(r.Context(), c.Raw.proto())
					log = append(log, fmt.Sprintf("setraw=%v", err != nil))
				}
			}
		}
	}))
	if wrapped {
		handler = rawResponder(handler)
	}
	rec := httptest.NewRecorder()
	if c.Snapshot {
		rec.Header().Set("Vary", "Origin")
	}
	var w http.ResponseWriter = rec
	if wrapped && c.Gate > 0 {
		gate = &vfGateWriter{ResponseRecorder: rec}
		w = gate
	}
	req := httptest.NewRequest(http.MethodPost, "/x", nil)
	var err error
	func() {
		defer func() {
			if p := recover(); p != nil {
				err = fmt.Errorf("panic: %v", p)
			}
		}()
		handler.ServeHTTP(w, req)
	}()
	return rec, log, err
}

func vfArbCheck(c vfArbCase) error {
	// the model: which absorbing state is reached first?
	state := "none"
	for _, op := range c.Ops {
		if state != "none" {
			break
		}
		switch op.Op {
		case "write", "writeheader", "flush":
			state = "handler"
		case "setraw":
			state = "raw"
		}
	}
	rec, log, err := vfRunArb(c, true)
	if err != nil {
		return verifkit.Violf("arb-panic", "%v", err)
	}
	res := rec.Result()
	body, _ := io.ReadAll(res.Body)
	if state != "raw" {
		// handler mode (or nothing at all): identical to the unwrapped handler
		plain, _, _ := vfRunArb(c, false)
		pres := plain.Result()
		pbody, _ := io.ReadAll(pres.Body)
		if res.StatusCode != pres.StatusCode || !bytes.Equal(body, pbody) || fmt.Sprint(res.Header) != fmt.Sprint(pres.Header) || rec.Flushed != plain.Flushed {
			return verifkit.Violf("arb-handler-altered", "handler output changed by the raw responder: got %d %v %q, want %d %v %q (ops %v)", res.StatusCode, res.Header, body, pres.StatusCode, pres.Header, pbody, c.Ops)
		}
		for _, l := range log {
			if l == "setraw=false" && state == "handler" {
				return verifkit.Violf("arb-raw-accepted-late", "setRawResponse succeeded after the handler started its response (ops %v)", c.Ops)
			}
		}
		return nil
	}
	// raw mode: exactly the definition, nothing of the handler
	for _, l := range log {
		if l == "setraw=true" {
			return verifkit.Violf("arb-raw-refused", "setRawResponse failed although nothing had been written (ops %v)", c.Ops)
		}
		if strings.HasPrefix(l, "write=") && !strings.HasSuffix(l, "<nil>") {
			return verifkit.Violf("arb-write-error", "handler Write reported %s in raw mode", l)
		}
	}
	wantStatus := int(c.Raw.Status)
	if wantStatus == 0 {
		wantStatus = 200
	}
	if res.StatusCode != wantStatus {
		return verifkit.Violf("raw-status", "status %d, want %d (ops %v)", res.StatusCode, wantStatus, c.Ops)
	}
	if bytes.Contains(body, []byte("HANDLER-BODY")) {
		return verifkit.Violf("raw-handler-leak", "handler body bytes reached the response: %q", truncate(body))
	}
	for k := range res.Header {
		if strings.HasPrefix(k, "X-Handler-") {
			return verifkit.Violf("raw-handler-leak", "handler-set header %q reached the response", k)
		}
	}
	if c.Snapshot && fmt.Sprint(res.Header.Values("Vary")) != "[Origin]" {
		return verifkit.Violf("raw-snapshot-lost", "header set by outer middleware must come through as it was before the handler ran (Vary: Origin), got %q (ops %v)", res.Header.Values("Vary"), c.Ops)
	}
	if !c.Snapshot && len(res.Header.Values("Vary")) != 0 {
		return verifkit.Violf("raw-handler-leak", "handler-set header Vary %q reached the response (ops %v)", res.Header.Values("Vary"), c.Ops)
	}
	if err := vfCheckHeaders("header", vfWantHeaders(c.Raw.Headers), res.Header); err != nil {
		return err
	}
	if err := vfCheckHeaders("trailer", vfWantHeaders(c.Raw.Trailers), res.Trailer); err != nil {
		return err
	}
	return vfCheckBody(c.Raw, body)
}

// ---- generators ----

var vfHdrNamePool = []string{"content-type", "grpc-status", "grpc-message", "x-custom", "X-Other", "x-multi", "connect-content-encoding", "grpc-encoding"}
var vfTrailerNamePool = []string{"grpc-status-t", "x-trailer", "X-Trailer-2", "grpc-message-t"}
var vfHdrValuePool = []string{"application/proto", "application/grpc", "0", "13", "a b", "v1", "v2", "x;y=z", "gzip", "oops%20"}

func vfGenHdrs(t *rapid.T, label string, pool []string, max int) []vfHdr {
	var out []vfHdr
	for i, n := 0, rapid.IntRange(0, max).Draw(t, label+"-n"); i < n; i++ {
		h := vfHdr{Name: rapid.SampledFrom(pool).Draw(t, label+"-name")}
		for j, k := 0, rapid.IntRange(1, 3).Draw(t, label+"-nv"); j < k; j++ {
			h.Value = append(h.Value, rapid.SampledFrom(vfHdrValuePool).Draw(t, label+"-v"))
		}
		out = append(out, h)
	}
	return out
}

func vfGenItem(t *rapid.T, label string, allowExplicitCompressed bool) vfRawItem {
	it := vfRawItem{Flags: uint32(rapid.IntRange(0, 255).Draw(t, label+"-flags")), Kind: rapid.SampledFrom([]string{"binary", "text"}).Draw(t, label+"-kind")}
	if it.Kind == "text" {
		it.Data = []byte(rapid.StringN(0, 30, -1).Draw(t, label+"-text"))
	} else {
		it.Data = rapid.SliceOfN(rapid.Byte(), 0, 50).Draw(t, label+"-data")
	}
	if rapid.IntRange(0, 6).Draw(t, label+"-big") == 0 {
		it.Data = bytes.Repeat([]byte("0123456789"), rapid.IntRange(200, 3000).Draw(t, label+"-rep"))
	}
	it.Compression = int32(rapid.IntRange(0, 6).Draw(t, label+"-comp"))
	if rapid.IntRange(0, 2).Draw(t, label+"-haslen") == 0 && (it.Compression <= 1 || allowExplicitCompressed) {
		it.HasLength = true
		it.Length = uint32(rapid.SampledFrom([]int{0, 1, len(it.Data), len(it.Data) + 7, 1 << 20}).Draw(t, label+"-len"))
	}
	return it
}

func vfGenRawResp(t *rapid.T, e2e bool) vfRawResp {
	r := vfRawResp{}
	r.Status = uint32(rapid.SampledFrom([]int{0, 200, 200, 201, 299, 400, 404, 415, 429, 500, 503, 599, 600, 800, 999}).Draw(t, "status"))
	r.Headers = vfGenHdrs(t, "hdr", vfHdrNamePool, 4)
	r.Trailers = vfGenHdrs(t, "trl", vfTrailerNamePool, 3)
	r.Body = rapid.SampledFrom([]string{"none", "unary", "stream", "stream"}).Draw(t, "body")
	switch r.Body {
	case "unary":
		r.Unary = vfGenItem(t, "unary", false)
		r.Unary.HasLength = false
	case "stream":
		n := rapid.IntRange(0, 5).Draw(t, "nitems")
		for i := 0; i < n; i++ {
			r.Stream = append(r.Stream, vfGenItem(t, "item", i == n-1))
		}
	}
	return r
}

func TestVerifC17Arbiter(t *testing.T) {
	verifkit.Run(t, "C17Arbiter", verifkit.Spec[vfArbCase]{
		Gen: func(t *rapid.T) vfArbCase {
			c := vfArbCase{Raw: vfGenRawResp(t, false), Snapshot: rapid.Bool().Draw(t, "snapshot")}
			hasRaw := false
			for i, n := 0, rapid.IntRange(1, 7).Draw(t, "nops"); i < n; i++ {
				op := vfArbOp{Op: rapid.SampledFrom([]string{"header", "vary-add", "vary-set", "write", "writeheader", "flush", "setraw", "setraw"}).Draw(t, "op"),
					Arg: fmt.Sprint(i), Code: rapid.SampledFrom([]int{200, 201, 400, 500}).Draw(t, "code")}
				if op.Op == "setraw" {
					if hasRaw {
						continue // the handler sets a raw response at most once
					}
					hasRaw = true
				}
				c.Ops = append(c.Ops, op)
			}
			if rapid.IntRange(0, 2).Draw(t, "gated") == 0 {
				var writers []int
				for i, op := range c.Ops {
					if op.Op == "write" || op.Op == "writeheader" || op.Op == "flush" {
						writers = append(writers, i)
					}
				}
				if len(writers) > 0 {
					// the raw response is recorded from another goroutine while one of the handler's writes is in flight
					c.Gate = 1 + rapid.SampledFrom(writers).Draw(t, "gate")
					var ops []vfArbOp
					for i, op := range c.Ops {
						if op.Op == "setraw" {
							if i < c.Gate-1 {
								c.Gate--
							}
							continue
						}
						ops = append(ops, op)
					}
					c.Ops = ops
				}
			}
			return c
		},
		Check: vfArbCheck,
		Classify: func(c vfArbCase) ([]string, bool) {
			hasWrite, hasRaw := false, false
			first := ""
			for _, op := range c.Ops {
				if op.Op == "write" || op.Op == "writeheader" || op.Op == "flush" {
					hasWrite = true
					if first == "" {
						first = "handler-first"
					}
				}
				if op.Op == "setraw" {
					hasRaw = true
					if first == "" {
						first = "raw-first"
					}
				}
			}
			if c.Gate > 0 {
				return []string{"raw-during-" + c.Ops[c.Gate-1].Op}, true
			}
			return []string{first}, hasWrite && hasRaw
		},
	})
}

// ---- C17c: end to end over real HTTP/1.1 and h2c ----

type vfE2ECase struct {
	H2     bool      `json:"h2"`
	Method string    `json:"method"` // unary, client-stream, server-stream, bidi
	Raw    vfRawResp `json:"raw"`
	// Tail (client-stream, bidi): what follows the first request message, which prescribes the raw response: "" a
	// well-formed second message; garbage: an envelope whose payload is not a message; truncated: an envelope that
	// announces more bytes than are sent; compressed: an envelope flagged compressed although no encoding was agreed
	Tail string `json:"tail,omitempty"`
}

func vfBrokenTail(kind string, wellFormed []byte) []byte {
	switch kind {
	case "garbage":
		return []byte{0, 0, 0, 0, 3, 0xff, 0xff, 0xff}
	case "truncated":
		return []byte{0, 0, 0, 0, 10, 'a', 'b', 'c'}
	case "compressed":
		return []byte{1, 0, 0, 0, 3, 'a', 'b', 'c'}
	}
	return wellFormed
}

var (
	vfSrvOnce sync.Once
	vfSrvs    [2]*vfRefServer
	vfSrvErr  error
	vfClients [2]*http.Client
	vfTestSeq atomic.Int64
)

func vfEnsureServers() error {
	vfSrvOnce.Do(func() {
		for i, v := range []conformancev1.HTTPVersion{conformancev1.HTTPVersion_HTTP_VERSION_1, conformancev1.HTTPVersion_HTTP_VERSION_2} {
			s, err := vfStartRefServer(v)
			if err != nil {
				vfSrvErr = err
				return
			}
			vfSrvs[i] = s
		}
		vfClients[0] = &http.Client{Transport: &http.Transport{DisableCompression: true}}
		vfClients[1] = &http.Client{Transport: &http2.Transport{AllowHTTP: true, DisableCompression: true,
			DialTLSContext: func(ctx context.Context, network, addr string, _ *tls.Config) (net.Conn, error) {
				return (&net.Dialer{}).DialContext(ctx, network, addr)
			}}}
	})
	return vfSrvErr
}

func vfEnvelope(msg proto.Message) []byte {
	data, _ := proto.Marshal(msg)
	var p [5]byte
	binary.BigEndian.PutUint32(p[1:], uint32(len(data)))
	return append(p[:], data...)
}

func vfE2ECheck(c vfE2ECase) error {
	if err := vfEnsureServers(); err != nil {
		return nil // cannot start servers: not a verdict (reported as inconclusive by the unit)
	}
	idx := 0
	if c.H2 {
		idx = 1
	}
	raw := c.Raw.proto()
	var path, ct string
	var body []byte
	switch c.Method {
	case "unary":
		path, ct = "Unary", "application/proto"
		body, _ = proto.Marshal(&conformancev1.UnaryRequest{ResponseDefinition: &conformancev1.UnaryResponseDefinition{RawResponse: raw}, RequestData: []byte("req")})
	case "client-stream":
		path, ct = "ClientStream", "application/connect+proto"
		body = append(vfEnvelope(&conformancev1.ClientStreamRequest{ResponseDefinition: &conformancev1.UnaryResponseDefinition{RawResponse: raw}}),
			vfBrokenTail(c.Tail, vfEnvelope(&conformancev1.ClientStreamRequest{RequestData: []byte("second")}))...)
	case "server-stream":
		path, ct = "ServerStream", "application/connect+proto"
		body = vfEnvelope(&conformancev1.ServerStreamRequest{ResponseDefinition: &conformancev1.StreamResponseDefinition{RawResponse: raw, ResponseData: [][]byte{[]byte("handler-data")}}})
	default:
		path, ct = "BidiStream", "application/connect+proto"
		body = vfEnvelope(&conformancev1.BidiStreamRequest{ResponseDefinition: &conformancev1.StreamResponseDefinition{RawResponse: raw, ResponseData: [][]byte{[]byte("handler-data")}}})
		if c.Tail != "" {
			body = append(body, vfBrokenTail(c.Tail, nil)...)
		}
	}
	url := fmt.Sprintf("http://%s/connectrpc.conformance.v1.ConformanceService/%s", vfSrvs[idx].addr, path)
	req, _ := http.NewRequest(http.MethodPost, url, bytes.NewReader(body))
	req.Header.Set("Content-Type", ct)
	req.Header.Set("X-Test-Case-Name", fmt.Sprintf("verif/c17/%d", vfTestSeq.Add(1)))
	ctx, cancel := context.WithTimeout(context.Background(), 20*time.Second)
	defer cancel()
	resp, err := vfClients[idx].Do(req.WithContext(ctx))
	if err != nil {
		return verifkit.Violf("raw-e2e-transport", "plain HTTP client failed: %v (raw response %v)", err, raw)
	}
	got, rerr := io.ReadAll(resp.Body)
	_ = resp.Body.Close()
	wantStatus := int(c.Raw.Status)
	if wantStatus == 0 {
		wantStatus = 200
	}
	if resp.StatusCode != wantStatus {
		return verifkit.Violf("raw-status", "%s over h2=%v: status %d, want %d", c.Method, c.H2, resp.StatusCode, wantStatus)
	}
	if rerr != nil {
		return verifkit.Violf("raw-e2e-transport", "reading the body failed: %v", rerr)
	}
	if err := vfCheckHeaders("header", vfWantHeaders(c.Raw.Headers), resp.Header); err != nil {
		return err
	}
	if err := vfCheckHeaders("trailer", vfWantHeaders(c.Raw.Trailers), resp.Trailer); err != nil {
		return err
	}
	// nothing the handler would have produced
	want := vfWantHeaders(c.Raw.Headers)
	for k := range resp.Header {
		if _, listed := want[k]; listed {
			continue
		}
		switch k {
		case "Content-Length", "Transfer-Encoding", "Content-Type", "Vary", "Trailer", "Date", "Connection",
			"Access-Control-Allow-Origin", "Access-Control-Allow-Credentials", "Access-Control-Expose-Headers":
			// added by net/http or the CORS middleware, not by the RPC handler
			if k == "Content-Type" && strings.Contains(resp.Header.Get(k), "connect") {
				return verifkit.Violf("raw-handler-leak", "handler content type %q reached the wire", resp.Header.Get(k))
			}
		default:
			return verifkit.Violf("raw-handler-leak", "header %q: %q was not specified (handler or library output leaked)", k, resp.Header[k])
		}
	}
	if bytes.Contains(got, []byte("handler-data")) || bytes.Contains(got, []byte("use raw response instead")) {
		return verifkit.Violf("raw-handler-leak", "handler body reached the wire: %q", truncate(got))
	}
	return vfCheckBody(c.Raw, got)
}

func TestVerifC17E2E(t *testing.T) {
	if err := vfEnsureServers(); err != nil {
		t.Fatalf("cannot start reference servers: %v", err)
	}
	defer func() {
		for _, s := range vfSrvs {
			if s != nil {
				s.stop()
			}
		}
	}()
	verifkit.Run(t, "C17E2E", verifkit.Spec[vfE2ECase]{
		Gen: func(t *rapid.T) vfE2ECase {
			return vfE2ECase{H2: rapid.Bool().Draw(t, "h2"), Method: rapid.SampledFrom([]string{"unary", "unary", "client-stream", "server-stream", "bidi"}).Draw(t, "method"),
				Raw: vfGenRawResp(t, true), Tail: rapid.SampledFrom([]string{"", "", "", "garbage", "truncated", "compressed"}).Draw(t, "tail")}
		},
		Check: vfE2ECheck,
		Classify: func(c vfE2ECase) ([]string, bool) {
			nt := len(c.Raw.Trailers) > 0
			for _, it := range c.Raw.Stream {
				if (it.HasLength && int(it.Length) != len(it.Data)) || it.Compression >= 2 {
					nt = nt || len(c.Raw.Stream) >= 2
				}
			}
			proto := "h1"
			if c.H2 {
				proto = "h2c"
			}
			cl := []string{proto, c.Method, "body:" + c.Raw.Body}
			if c.Tail != "" && (c.Method == "client-stream" || c.Method == "bidi") {
				cl = append(cl, "broken-tail:"+c.Tail)
			}
			return cl, nt
		},
	})
}

var _ = sort.Strings
