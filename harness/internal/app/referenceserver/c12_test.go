//go:build verif

package referenceserver

import (
	"bytes"
	"context"
	"crypto/tls"
	"crypto/x509"
	"crypto/x509/pkix"
	"encoding/base64"
	"encoding/binary"
	"fmt"
	"github.com/quic-go/quic-go/http3"
	"io"
	"math"
	"math/big"
	"net"
	"net/http"
	"net/http/httptest"
	"net/url"
	"sort"
	"strconv"
	"strings"
	"sync"
	"sync/atomic"
	"testing"
	"time"

	"connectrpc.com/conformance/internal"
	conformancev1 "connectrpc.com/conformance/internal/gen/proto/go/connectrpc/conformance/v1"
	"connectrpc.com/conformance/internal/tracer"
	"connectrpc.com/conformance/internal/verifkit"
	"golang.org/x/net/http2"
	"google.golang.org/protobuf/proto"
	"pgregory.net/rapid"
)

// ---- C12a: expected x actual matrix through referenceServerChecks ----

type vfSetup struct {
	Version     int  `json:"version"`     // 1..3
	Get         bool `json:"get"`         // HTTP method GET (Connect unary only)
	Protocol    int  `json:"protocol"`    // 1 connect, 2 grpc, 3 grpc-web
	Codec       int  `json:"codec"`       // 1 proto, 2 json
	Compression int  `json:"compression"` // 1..6
	TLS         bool `json:"tls"`
	Cert        bool `json:"cert"`
	StreamCT    bool `json:"streamContentType"` // Connect: streaming content type
	ImplicitID  bool `json:"implicitIdentity"`  // identity expressed by omitting the encoding header
	BareCT      bool `json:"bareContentType"`   // gRPC: "application/grpc" without +proto
}

var vfIANA = map[int]string{1: "identity", 2: "gzip", 3: "br", 4: "zstd", 5: "deflate", 6: "snappy"}
var vfCodecName = map[int]string{1: "proto", 2: "json"}

type vfRecPrinter struct {
	mu    sync.Mutex
	lines []string
}

func (p *vfRecPrinter) Printf(msg string, args ...any) {
	p.mu.Lock()
	defer p.mu.Unlock()
	p.lines = append(p.lines, fmt.Sprintf(msg, args...))
}
func (p *vfRecPrinter) PrefixPrintf(prefix, msg string, args ...any) {
	p.mu.Lock()
	defer p.mu.Unlock()
	p.lines = append(p.lines, prefix+": "+fmt.Sprintf(msg, args...))
}

// vfSynthRequest builds the request a well-behaved client of the ACTUAL setup
// would send, carrying the EXPECTED setup in the runner's x-expect-* headers.
func vfSynthRequest(expected, actual vfSetup, testName string) *http.Request {
	method := http.MethodPost
	target := "/connectrpc.conformance.v1.ConformanceService/Unary"
	if actual.Get {
		method = http.MethodGet
		q := url.Values{}
		q.Set("encoding", vfCodecName[actual.Codec])
		q.Set("message", "")
		q.Set("connect", "v1")
		if actual.Compression != 1 || !actual.ImplicitID {
			q.Set("compression", vfIANA[actual.Compression])
		}
		target += "?" + q.Encode()
	}
	var body io.Reader = http.NoBody
	if !actual.Get {
		body = bytes.NewReader([]byte{})
	}
	req := httptest.NewRequest(method, target, body)
	req.ProtoMajor, req.ProtoMinor = actual.Version, 0
	if actual.Version == 1 {
		req.ProtoMinor = 1
	}
	req.Proto = fmt.Sprintf("HTTP/%d.%d", req.ProtoMajor, req.ProtoMinor)
	if !actual.Get {
		var ct, encHeader string
		switch actual.Protocol {
		case 1:
			if actual.StreamCT {
				ct, encHeader = "application/connect+"+vfCodecName[actual.Codec], "Connect-Content-Encoding"
			} else {
				ct, encHeader = "application/"+vfCodecName[actual.Codec], "Content-Encoding"
			}
		case 2:
			ct, encHeader = "application/grpc+"+vfCodecName[actual.Codec], "Grpc-Encoding"
			if actual.BareCT && actual.Codec == 1 {
				ct = "application/grpc"
			}
			req.Header.Set("Te", "trailers")
		default:
			ct, encHeader = "application/grpc-web+"+vfCodecName[actual.Codec], "Grpc-Encoding"
			if actual.BareCT && actual.Codec == 1 {
				ct = "application/grpc-web"
			}
		}
		req.Header.Set("Content-Type", ct)
		if actual.Compression != 1 || !actual.ImplicitID {
			req.Header.Set(encHeader, vfIANA[actual.Compression])
		}
	}
	if actual.TLS {
		req.TLS = &tls.ConnectionState{}
		if actual.Cert {
			req.TLS.PeerCertificates = []*x509.Certificate{{Subject: pkix.Name{CommonName: internal.ClientCertName}}}
		}
	} else {
		req.TLS = nil
	}
	if testName != "" {
		req.Header.Set("X-Test-Case-Name", testName)
	}
	// the runner's expectation headers (server_runner.go)
	expMethod := http.MethodPost
	if expected.Get {
		expMethod = http.MethodGet
	}
	req.Header.Set("X-Expect-Http-Version", strconv.Itoa(expected.Version))
	req.Header.Set("X-Expect-Http-Method", expMethod)
	req.Header.Set("X-Expect-Protocol", strconv.Itoa(expected.Protocol))
	req.Header.Set("X-Expect-Codec", strconv.Itoa(expected.Codec))
	req.Header.Set("X-Expect-Compression", strconv.Itoa(expected.Compression))
	req.Header.Set("X-Expect-Tls", strconv.FormatBool(expected.TLS))
	if expected.Cert {
		req.Header.Set("X-Expect-Client-Cert", internal.ClientCertName)
	}
	return req
}

var vfAspectKeywords = map[string]string{
	"version":     "expected HTTP version",
	"method":      "expected HTTP method",
	"protocol":    "expected protocol",
	"codec":       "expected codec",
	"compression": "expected compression",
	"tls":         "request but instead was",
	"cert":        "expecting client cert",
}

func vfMismatches(e, a vfSetup) map[string]bool {
	m := map[string]bool{}
	if e.Version != a.Version {
		m["version"] = true
	}
	if e.Get != a.Get {
		m["method"] = true
	}
	if e.Protocol != a.Protocol {
		m["protocol"] = true
	}
	if e.Codec != a.Codec {
		m["codec"] = true
	}
	if e.Compression != a.Compression {
		m["compression"] = true
	}
	if e.TLS != a.TLS {
		m["tls"] = true
	} else if e.TLS && e.Cert != a.Cert {
		m["cert"] = true
	}
	return m
}

type vfC12Case struct {
	Expected vfSetup `json:"expected"`
	Actual   vfSetup `json:"actual"`
	Repeat   bool    `json:"repeat"`
	Trailers bool    `json:"trailers"`
	NoName   bool    `json:"noName"`
}

func vfC12Check(c vfC12Case) error {
	printer := &vfRecPrinter{}
	reached := 0
	inner := http.HandlerFunc(func(w http.ResponseWriter, r *http.Request) {
		reached++
		w.WriteHeader(200)
	})
	handler := referenceServerChecks(inner, printer)
	name := "verif/c12"
	if c.NoName {
		name = ""
	}
	rounds := 1
	if c.Repeat {
		rounds = 2
	}
	var lastLines []string
	for i := 0; i < rounds; i++ {
		printer.lines = nil
		req := vfSynthRequest(c.Expected, c.Actual, name)
		if c.Trailers {
			req.Trailer = http.Header{"X-Verif-Trailer": {"t"}}
		}
		rec := httptest.NewRecorder()
		handler.ServeHTTP(rec, req)
		lastLines = append([]string{}, printer.lines...)
		if c.NoName {
			if reached != 0 {
				return verifkit.Violf("noname-reached-handler", "request without a test name reached the RPC handler")
			}
			if rec.Code == 200 && !strings.Contains(rec.Body.String(), "invalid_argument") && rec.Header().Get("Grpc-Status") == "" {
				return verifkit.Violf("noname-not-rejected", "request without a test name got status %d body %q", rec.Code, rec.Body.String())
			}
			return nil
		}
	}
	if reached != rounds {
		return verifkit.Violf("handler-not-reached", "inner handler reached %d times, want %d", reached, rounds)
	}
	want := vfMismatches(c.Expected, c.Actual)
	got := map[string]bool{}
	var other []string
	sawRepeat, sawTrailers := false, false
	for _, l := range lastLines {
		if !strings.HasPrefix(l, "verif/c12: ") {
			return verifkit.Violf("feedback-unnamed", "feedback line does not name the test case: %q", l)
		}
		classified := false
		for aspect, kw := range vfAspectKeywords {
			if strings.Contains(l, kw) {
				got[aspect] = true
				classified = true
			}
		}
		if strings.Contains(l, "another request") {
			sawRepeat, classified = true, true
		}
		if strings.Contains(l, "HTTP trailers") {
			sawTrailers, classified = true, true
		}
		if !classified {
			other = append(other, l)
		}
	}
	for aspect := range want {
		if !got[aspect] {
			return verifkit.Violf("mismatch-not-flagged:"+aspect, "expected %+v actual %+v: %s differs but no feedback names it; lines: %q", c.Expected, c.Actual, aspect, lastLines)
		}
	}
	for aspect := range got {
		if !want[aspect] {
			return verifkit.Violf("match-flagged:"+aspect, "expected %+v actual %+v: %s matches but feedback was reported: %q", c.Expected, c.Actual, aspect, lastLines)
		}
	}
	if len(want) == 0 && len(other) > 0 {
		return verifkit.Violf("match-flagged:other", "everything matches but feedback was reported: %q", other)
	}
	if c.Repeat != sawRepeat {
		return verifkit.Violf("repeat-feedback", "repeat=%v but repeated-request feedback=%v: %q", c.Repeat, sawRepeat, lastLines)
	}
	if c.Trailers != sawTrailers {
		return verifkit.Violf("trailer-feedback", "request trailers=%v but trailer feedback=%v: %q", c.Trailers, sawTrailers, lastLines)
	}
	return nil
}

func vfAllSetups() []vfSetup {
	var out []vfSetup
	for v := 1; v <= 3; v++ {
		for _, tl := range [][2]bool{{false, false}, {true, false}, {true, true}} {
			for p := 1; p <= 3; p++ {
				for c := 1; c <= 2; c++ {
					for z := 1; z <= 6; z++ {
						methods := []bool{false}
						if p == 1 {
							methods = []bool{false, true}
						}
						for _, get := range methods {
							out = append(out, vfSetup{Version: v, Get: get, Protocol: p, Codec: c, Compression: z, TLS: tl[0], Cert: tl[1]})
						}
					}
				}
			}
		}
	}
	return out
}

func TestVerifC12Matrix(t *testing.T) {
	en := verifkit.NewEnum(t, "C12Matrix")
	var rc vfC12Case
	if en.ReplayCase(&rc) {
		if err := verifkit.SafeCall(func() error { return vfC12Check(rc) }); err != nil {
			en.Fail(rc, err)
		}
		en.Done(true)
		return
	}
	setups := vfAllSetups()
	shard, shards := verifkit.Shard()
	stride := verifkit.EnvInt("VERIF_C12_STRIDE", 1)
	seed := verifkit.EnvInt("VERIF_SEED_EFFECTIVE", 1)
	idx := 0
	complete := true
outer:
	for i, e := range setups {
		for j, a := range setups {
			idx++
			if idx%shards != shard || (idx/shards)%stride != seed%stride {
				continue
			}
			// wire-level variants of the same actual setup
			a.StreamCT = idx%3 == 0
			a.ImplicitID = idx%2 == 0
			a.BareCT = idx%5 == 0
			c := vfC12Case{Expected: e, Actual: a}
			err := verifkit.SafeCall(func() error { return vfC12Check(c) })
			n := len(vfMismatches(e, a))
			en.Rec.ObserveHash(uint64(i)<<20|uint64(j), fmt.Sprintf("mismatching-aspects:%d", n), n == 1 || n == 2)
			if idx%40009 == 11 {
				en.Rec.AddSample(c)
			}
			if err != nil && en.Fail(c, err) {
				complete = false
				break outer
			}
		}
	}
	en.Rec.SetExtra("setups_per_side", len(setups))
	en.Rec.SetExtra("stride", stride)
	en.Done(complete && stride == 1)
}

func TestVerifC12Extras(t *testing.T) {
	setups := vfAllSetups()
	verifkit.Run(t, "C12Extras", verifkit.Spec[vfC12Case]{
		Gen: func(t *rapid.T) vfC12Case {
			e := rapid.SampledFrom(setups).Draw(t, "expected")
			a := e
			if rapid.Bool().Draw(t, "differ") {
				a = rapid.SampledFrom(setups).Draw(t, "actual")
			}
			a.StreamCT, a.ImplicitID, a.BareCT = rapid.Bool().Draw(t, "streamCT"), rapid.Bool().Draw(t, "implicit"), rapid.Bool().Draw(t, "bare")
			return vfC12Case{Expected: e, Actual: a, Repeat: rapid.Bool().Draw(t, "repeat"), Trailers: rapid.Bool().Draw(t, "trailers"), NoName: rapid.IntRange(0, 9).Draw(t, "noName") == 0}
		},
		Check: vfC12Check,
		Classify: func(c vfC12Case) ([]string, bool) {
			var cl []string
			if c.Repeat {
				cl = append(cl, "repeat")
			}
			if c.Trailers {
				cl = append(cl, "trailers")
			}
			if c.NoName {
				cl = append(cl, "no-name")
			}
			return cl, c.Repeat || c.Trailers || c.NoName
		},
	})
}

// ---- C12c: timeout headers ----

type vfTimeoutCase struct {
	Protocol int    `json:"protocol"`
	Value    string `json:"value"`
}

// vfTimeoutGrammar: Connect "1*10DIGIT" milliseconds; gRPC "1*8DIGIT unit".
func vfTimeoutGrammar(protocol int, val string) (dur time.Duration, ok bool) {
	digits := val
	unit := byte('m')
	maxDigits := 10
	if protocol != 1 {
		if len(val) < 2 {
			return 0, false
		}
		unit = val[len(val)-1]
		digits = val[:len(val)-1]
		maxDigits = 8
		if !strings.ContainsRune("HMSmun", rune(unit)) {
			return 0, false
		}
	}
	if len(digits) < 1 || len(digits) > maxDigits {
		return 0, false
	}
	for i := 0; i < len(digits); i++ {
		if digits[i] < '0' || digits[i] > '9' {
			return 0, false
		}
	}
	n := new(big.Int)
	n.SetString(digits, 10)
	mult := map[byte]int64{'H': int64(time.Hour), 'M': int64(time.Minute), 'S': int64(time.Second), 'm': int64(time.Millisecond), 'u': int64(time.Microsecond), 'n': 1}[unit]
	n.Mul(n, big.NewInt(mult))
	if !n.IsInt64() {
		return time.Duration(math.MaxInt64), true
	}
	return time.Duration(n.Int64()), true
}

func vfTimeoutCheck(c vfTimeoutCase) error {
	printer := &vfRecPrinter{}
	var gotTimeout time.Duration
	var hasTimeout bool
	var seenHeader string
	var info *conformancev1.ConformancePayload_RequestInfo
	headerName := connectTimeoutHeader
	if c.Protocol != 1 {
		headerName = grpcTimeoutHeader
	}
	inner := http.HandlerFunc(func(w http.ResponseWriter, r *http.Request) {
		gotTimeout, hasTimeout = timeoutFromContext(r.Context())
		seenHeader = strings.Join(r.Header.Values(headerName), "|")
		if _, ok := r.Header[http.CanonicalHeaderKey(headerName)]; ok {
			seenHeader = "present:" + seenHeader
		}
		info = createRequestInfo(r.Context(), r.Header, nil, nil)
	})
	setup := vfSetup{Version: 2, Protocol: c.Protocol, Codec: 1, Compression: 1}
	req := vfSynthRequest(setup, setup, "verif/c12t")
	req.Header[http.CanonicalHeaderKey(headerName)] = []string{c.Value}
	referenceServerChecks(inner, printer).ServeHTTP(httptest.NewRecorder(), req)
	want, grammatical := vfTimeoutGrammar(c.Protocol, c.Value)
	var complaint string
	for _, l := range printer.lines {
		if strings.Contains(l, headerName) {
			complaint = l
		}
	}
	if seenHeader != "" {
		return verifkit.Violf("timeout-header-not-removed", "%s: %q reached the RPC handler (%s): the server would enforce it", headerName, c.Value, seenHeader)
	}
	if !grammatical {
		if complaint == "" {
			return verifkit.Violf("timeout-accepted-ungrammatical", "%s: %q does not follow the protocol grammar but drew no feedback (timeout recorded: %v %v)", headerName, c.Value, hasTimeout, gotTimeout)
		}
		if hasTimeout {
			return verifkit.Violf("timeout-used-ungrammatical", "%s: %q is invalid but a timeout of %v was recorded", headerName, c.Value, gotTimeout)
		}
		return nil
	}
	if complaint != "" {
		return verifkit.Violf("timeout-rejected-grammatical", "%s: %q follows the grammar but drew feedback: %s", headerName, c.Value, complaint)
	}
	if !hasTimeout || gotTimeout != want {
		return verifkit.Violf("timeout-wrong-duration", "%s: %q: recorded %v (present %v), want exactly %v", headerName, c.Value, gotTimeout, hasTimeout, want)
	}
	if info == nil || info.TimeoutMs == nil || info.GetTimeoutMs() != want.Milliseconds() {
		return verifkit.Violf("timeout-wrong-echo", "%s: %q: echoed timeout_ms %v, want %d", headerName, c.Value, info.GetTimeoutMs(), want.Milliseconds())
	}
	return nil
}

func vfTimeoutClassify(c vfTimeoutCase) ([]string, bool) {
	_, ok := vfTimeoutGrammar(c.Protocol, c.Value)
	cl := []string{fmt.Sprintf("grammatical:%v", ok)}
	digits := 0
	for _, ch := range c.Value {
		if ch >= '0' && ch <= '9' {
			digits++
		}
	}
	boundary := digits >= 7 && digits <= 12
	odd := strings.ContainsAny(c.Value, "+- ") || (len(c.Value) > 1 && c.Value[0] == '0')
	return cl, boundary || odd
}

func TestVerifC12TimeoutEnum(t *testing.T) {
	en := verifkit.NewEnum(t, "C12TimeoutEnum")
	var rc vfTimeoutCase
	if en.ReplayCase(&rc) {
		if err := verifkit.SafeCall(func() error { return vfTimeoutCheck(rc) }); err != nil {
			en.Fail(rc, err)
		}
		en.Done(true)
		return
	}
	alphabet := []string{"0", "1", "9", "+", "-", " ", "H", "M", "S", "m", "u", "n", "x"}
	var values []string
	var rec func(prefix string, depth int)
	rec = func(prefix string, depth int) {
		if depth > 0 {
			values = append(values, prefix)
		}
		if depth == 3 {
			return
		}
		for _, a := range alphabet {
			rec(prefix+a, depth+1)
		}
	}
	rec("", 0)
	values = append(values, "")
	// digit-count boundaries x every unit (and no unit)
	for n := 7; n <= 12; n++ {
		for _, digits := range []string{strings.Repeat("9", n), "1" + strings.Repeat("0", n-1), strings.Repeat("0", n-1) + "5", strings.Repeat("0", n)} {
			for _, unit := range []string{"", "H", "M", "S", "m", "u", "n"} {
				values = append(values, digits+unit)
			}
		}
	}
	for _, extra := range []string{"+5", "-0", "+5S", "-0m", "5 ", " 5", "5S ", "0x10", "1e3", "１２", "5s", "5h", "99999999H", "100000000n", "9223372036854775807n", "9223372036854775808"} {
		values = append(values, extra)
	}
	complete := true
	n := 0
outer:
	for _, v := range values {
		for p := 1; p <= 3; p++ {
			c := vfTimeoutCase{Protocol: p, Value: v}
			err := verifkit.SafeCall(func() error { return vfTimeoutCheck(c) })
			cl, nt := vfTimeoutClassify(c)
			en.Rec.Observe(c, cl, nt)
			n++
			if err != nil && en.Fail(c, err) {
				complete = false
				break outer
			}
		}
	}
	en.Rec.SetExtra("values", len(values))
	en.Done(complete)
}

func TestVerifC12TimeoutRandom(t *testing.T) {
	verifkit.Run(t, "C12TimeoutRandom", verifkit.Spec[vfTimeoutCase]{
		Gen: func(t *rapid.T) vfTimeoutCase {
			p := rapid.IntRange(1, 3).Draw(t, "protocol")
			var v string
			switch rapid.IntRange(0, 3).Draw(t, "kind") {
			case 0:
				v = rapid.StringMatching(`[0-9]{1,12}[HMSmun]?`).Draw(t, "numeric")
			case 1:
				v = rapid.StringMatching(`[-+ ]?[0-9]{0,11}[ HMSmunx]?`).Draw(t, "sloppy")
			case 2:
				v = rapid.StringOfN(rapid.RuneFrom([]rune("0123456789+- HMSmunx.e")), 0, 12, -1).Draw(t, "alphabet")
			default:
				v = rapid.StringN(0, 12, 12).Draw(t, "any")
			}
			return vfTimeoutCase{Protocol: p, Value: v}
		},
		Check:    vfTimeoutCheck,
		Classify: vfTimeoutClassify,
	})
}

// ---- C12b: black box against a real reference server ----

type vfBBCase struct {
	H2       bool    `json:"h2"`
	Expected vfSetup `json:"expected"`
	Actual   vfSetup `json:"actual"` // only fields a plain client controls: Get, Codec, Compression header
	Timeout  string  `json:"timeout"`
	// Bidi: the request is a (half-duplex) call of the BidiStream procedure with a streaming content type;
	// over HTTP/1.1 the server has to special-case it for the RPC library, which must not disturb the checks
	Bidi bool `json:"bidi"`
	// Traced: the server was started with an HTTP tracer (every request body is wrapped by the tracing middleware)
	Traced bool `json:"traced,omitempty"`
	// Trailers: the (POST) request carries an HTTP trailer, which no protocol of the suite allows in a request
	Trailers bool `json:"trailers,omitempty"`
}

var (
	vfBBOnce sync.Once
	vfBBSrv  [4]*vfRefServer
	vfBBCli  [2]*http.Client
	vfBBErr  error
	vfBBSeq  atomic.Int64
)

func vfBBEnsure() error {
	vfBBOnce.Do(func() {
		for i, v := range []conformancev1.HTTPVersion{conformancev1.HTTPVersion_HTTP_VERSION_1, conformancev1.HTTPVersion_HTTP_VERSION_2} {
			vfBBSrv[i], vfBBErr = vfStartRefServer(v)
			if vfBBErr != nil {
				return
			}
			vfBBSrv[2+i], vfBBErr = vfStartRefServerTraced(&conformancev1.ServerCompatRequest{Protocol: conformancev1.Protocol_PROTOCOL_CONNECT, HttpVersion: v}, &tracer.Tracer{})
			if vfBBErr != nil {
				return
			}
		}
		vfBBCli[0] = &http.Client{Transport: &http.Transport{DisableCompression: true}}
		vfBBCli[1] = &http.Client{Transport: &http2.Transport{AllowHTTP: true, DisableCompression: true,
			DialTLSContext: func(ctx context.Context, network, addr string, _ *tls.Config) (net.Conn, error) {
				return (&net.Dialer{}).DialContext(ctx, network, addr)
			}}}
	})
	return vfBBErr
}

func vfBBCheck(c vfBBCase) error {
	if err := vfBBEnsure(); err != nil {
		return nil
	}
	idx, version := 0, 1
	if c.H2 {
		idx, version = 1, 2
	}
	srv := vfBBSrv[idx]
	if c.Traced {
		srv = vfBBSrv[2+idx]
	}
	name := fmt.Sprintf("verif/c12bb/%d", vfBBSeq.Add(1))
	actual := vfSetup{Version: version, Protocol: 1, Codec: c.Actual.Codec, Compression: 1, Get: c.Actual.Get, ImplicitID: c.Actual.ImplicitID}
	msg := &conformancev1.UnaryRequest{RequestData: []byte("bb")}
	path := "/connectrpc.conformance.v1.ConformanceService/Unary"
	var body []byte
	if actual.Codec == 2 {
		body = []byte(`{"requestData":"YmI="}`)
	} else {
		body, _ = proto.Marshal(msg)
	}
	var req *http.Request
	if c.Bidi {
		actual.Get, actual.StreamCT = false, true
		path = "/connectrpc.conformance.v1.ConformanceService/BidiStream"
		if actual.Codec == 2 {
			body = []byte(`{"requestData":"YmI="}`)
		} else {
			body, _ = proto.Marshal(&conformancev1.BidiStreamRequest{RequestData: []byte("bb")})
		}
		env := make([]byte, 5, 5+len(body))
		binary.BigEndian.PutUint32(env[1:], uint32(len(body)))
		req, _ = http.NewRequest(http.MethodPost, "http://"+srv.addr+path, bytes.NewReader(append(env, body...)))
		req.Header.Set("Content-Type", "application/connect+"+vfCodecName[actual.Codec])
		if !actual.ImplicitID {
			req.Header.Set("Connect-Content-Encoding", "identity")
		}
	} else if actual.Get {
		path = "/connectrpc.conformance.v1.ConformanceService/IdempotentUnary"
		q := url.Values{}
		q.Set("encoding", vfCodecName[actual.Codec])
		q.Set("connect", "v1")
		if actual.Codec == 2 {
			q.Set("message", string(body))
		} else {
			q.Set("message", base64.RawURLEncoding.EncodeToString(body))
			q.Set("base64", "1")
		}
		if !actual.ImplicitID {
			q.Set("compression", "identity")
		}
		req, _ = http.NewRequest(http.MethodGet, "http://"+srv.addr+path+"?"+q.Encode(), nil)
	} else {
		req, _ = http.NewRequest(http.MethodPost, "http://"+srv.addr+path, bytes.NewReader(body))
		req.Header.Set("Content-Type", "application/"+vfCodecName[actual.Codec])
		if !actual.ImplicitID {
			req.Header.Set("Content-Encoding", "identity")
		}
	}
	synth := vfSynthRequest(c.Expected, actual, name)
	for k, v := range synth.Header {
		if strings.HasPrefix(k, "X-Expect-") || k == "X-Test-Case-Name" {
			req.Header[k] = v
		}
	}
	if c.Timeout != "" {
		req.Header.Set(connectTimeoutHeader, c.Timeout)
	}
	sendsTrailers := c.Trailers && req.Method == http.MethodPost
	if sendsTrailers {
		req.ContentLength = -1 // (chunked / no content-length, so that a trailer can follow the body)
		req.Trailer = http.Header{"X-Verif-Trailer": {"t"}}
	}
	ctx, cancel := context.WithTimeout(context.Background(), 20*time.Second)
	defer cancel()
	resp, err := vfBBCli[idx].Do(req.WithContext(ctx))
	if err != nil {
		return verifkit.Violf("bb-transport", "plain client failed: %v", err)
	}
	respBody, _ := io.ReadAll(resp.Body)
	_ = resp.Body.Close()
	// marker request: its (certain) feedback line flushes everything before it
	marker := fmt.Sprintf("verif/c12bb-marker/%d", vfBBSeq.Add(1))
	mreq, _ := http.NewRequest(http.MethodPost, "http://"+srv.addr+"/connectrpc.conformance.v1.ConformanceService/Unary", bytes.NewReader(nil))
	mreq.Header.Set("Content-Type", "application/proto")
	mreq.Header.Set("X-Test-Case-Name", marker)
	if mresp, err := vfBBCli[idx].Do(mreq.WithContext(ctx)); err == nil {
		_, _ = io.Copy(io.Discard, mresp.Body)
		_ = mresp.Body.Close()
	}
	if !srv.waitForLine(marker+": ", 10*time.Second) {
		return nil // cannot synchronise with the server's stderr: no verdict
	}
	lines := srv.feedbackFor(name)
	want := vfMismatches(c.Expected, actual)
	got := map[string]bool{}
	var other []string
	for _, l := range lines {
		classified := false
		for aspect, kw := range vfAspectKeywords {
			if strings.Contains(l, kw) {
				got[aspect], classified = true, true
			}
		}
		if strings.Contains(l, connectTimeoutHeader) {
			got["timeout"], classified = true, true
		}
		if strings.Contains(l, "HTTP trailers") {
			got["request-trailers"], classified = true, true
		}
		if !classified {
			other = append(other, l)
		}
	}
	dur, grammatical := vfTimeoutGrammar(1, c.Timeout)
	if c.Timeout != "" && !grammatical && c.Expected.Protocol == 1 {
		want["timeout"] = true
	}
	if sendsTrailers {
		want["request-trailers"] = true
	}
	for aspect := range want {
		if !got[aspect] {
			return verifkit.Violf("bb-mismatch-not-flagged:"+aspect, "expected %+v actual %+v timeout %q: %s deviates but the server's stderr has no such feedback: %q", c.Expected, actual, c.Timeout, aspect, lines)
		}
	}
	for aspect := range got {
		if !want[aspect] {
			return verifkit.Violf("bb-match-flagged:"+aspect, "expected %+v actual %+v timeout %q: unexpected %s feedback: %q", c.Expected, actual, c.Timeout, aspect, lines)
		}
	}
	if len(want) == 0 && len(other) > 0 {
		return verifkit.Violf("bb-match-flagged:other", "everything matches but the server reported: %q", other)
	}
	// echoed timeout
	if resp.StatusCode == 200 && c.Expected.Protocol == 1 && !c.Bidi {
		out := &conformancev1.UnaryResponse{}
		var uerr error
		if actual.Codec == 2 {
			uerr = internal.StrictJSONCodec{}.Unmarshal(respBody, out)
		} else {
			uerr = proto.Unmarshal(respBody, out)
		}
		if uerr != nil {
			return verifkit.Violf("bb-response", "cannot parse the response: %v (%q)", uerr, respBody)
		}
		ri := out.GetPayload().GetRequestInfo()
		switch {
		case c.Timeout != "" && grammatical:
			if ri.TimeoutMs == nil || ri.GetTimeoutMs() != dur.Milliseconds() {
				return verifkit.Violf("bb-timeout-echo", "Connect-Timeout-Ms %q: echoed %v, want %d", c.Timeout, ri.TimeoutMs, dur.Milliseconds())
			}
		default:
			if ri.TimeoutMs != nil {
				return verifkit.Violf("bb-timeout-echo", "Connect-Timeout-Ms %q: echoed %d although no valid timeout was sent", c.Timeout, ri.GetTimeoutMs())
			}
		}
		for _, h := range ri.GetRequestHeaders() {
			if strings.EqualFold(h.Name, connectTimeoutHeader) {
				return verifkit.Violf("bb-timeout-not-removed", "the handler saw the timeout header: %v", h)
			}
		}
	}
	return nil
}

func TestVerifC12BlackBox(t *testing.T) {
	if err := vfBBEnsure(); err != nil {
		t.Fatalf("cannot start reference servers: %v", err)
	}
	defer func() {
		for _, s := range vfBBSrv {
			if s != nil {
				s.stop()
			}
		}
	}()
	setups := vfAllSetups()
	verifkit.Run(t, "C12BlackBox", verifkit.Spec[vfBBCase]{
		Gen: func(t *rapid.T) vfBBCase {
			c := vfBBCase{H2: rapid.Bool().Draw(t, "h2"), Traced: rapid.IntRange(0, 3).Draw(t, "traced") == 0, Trailers: rapid.IntRange(0, 3).Draw(t, "reqTrailers") == 0}
			c.Actual = vfSetup{Codec: rapid.IntRange(1, 2).Draw(t, "codec"), Get: rapid.Bool().Draw(t, "get"), ImplicitID: rapid.Bool().Draw(t, "implicit")}
			c.Bidi = rapid.IntRange(0, 3).Draw(t, "bidi") == 0
			if c.Bidi {
				c.Actual.Get = false
			}
			version := 1
			if c.H2 {
				version = 2
			}
			if rapid.Bool().Draw(t, "matching") {
				c.Expected = vfSetup{Version: version, Protocol: 1, Codec: c.Actual.Codec, Compression: 1, Get: c.Actual.Get, StreamCT: c.Bidi}
			} else {
				c.Expected = rapid.SampledFrom(setups).Draw(t, "expected")
			}
			switch rapid.IntRange(0, 3).Draw(t, "timeout") {
			case 0:
				c.Timeout = rapid.StringMatching(`[0-9]{1,10}`).Draw(t, "validTimeout")
			case 1:
				c.Timeout = rapid.SampledFrom([]string{"+5", "-0", "00000000005", "5m", "12345678901", "1 2", "x"}).Draw(t, "badTimeout")
			}
			return c
		},
		Check: vfBBCheck,
		Classify: func(c vfBBCase) ([]string, bool) {
			version := 1
			if c.H2 {
				version = 2
			}
			actual := vfSetup{Version: version, Protocol: 1, Codec: c.Actual.Codec, Compression: 1, Get: c.Actual.Get && !c.Bidi, StreamCT: c.Bidi}
			n := len(vfMismatches(c.Expected, actual))
			cl := []string{fmt.Sprintf("mismatching-aspects:%d", n)}
			if c.Bidi {
				cl = append(cl, fmt.Sprintf("bidi-over-http%d", version))
			}
			if c.Traced {
				cl = append(cl, "traced-server")
			}
			if c.Trailers {
				cl = append(cl, "request-trailers")
			}
			return cl, n == 1 || n == 2 || c.Timeout != "" || c.Bidi
		},
	})
}

// TestVerifC12Concurrent: deviating requests of different test cases are checked at the same time, the feedback goes
// through the real stderr printer (internal.NewPrinter) into one stream, as in the reference server process. Every
// line of that stream must be "<test name>: <message>" for the request that caused it, and every request gets exactly
// the lines for its own deviating aspects.
func TestVerifC12Concurrent(t *testing.T) {
	setups := vfAllSetups()
	type ccase struct {
		Workers  int   `json:"workers"`
		PerWork  int   `json:"requestsPerWorker"`
		Expected []int `json:"expected"` // indexes into the setup table
		Actual   []int `json:"actual"`
	}
	verifkit.Run(t, "C12Concurrent", verifkit.Spec[ccase]{
		Gen: func(t *rapid.T) ccase {
			c := ccase{Workers: rapid.IntRange(2, 8).Draw(t, "workers"), PerWork: rapid.IntRange(5, 40).Draw(t, "perWorker")}
			for i := 0; i < 6; i++ {
				c.Expected = append(c.Expected, rapid.IntRange(0, len(setups)-1).Draw(t, "expected"))
				c.Actual = append(c.Actual, rapid.IntRange(0, len(setups)-1).Draw(t, "actual"))
			}
			return c
		},
		Check: func(c ccase) error {
			var buf vfLockedBuffer
			printer := internal.NewPrinter(&buf)
			handler := referenceServerChecks(http.HandlerFunc(func(w http.ResponseWriter, r *http.Request) { w.WriteHeader(200) }), printer)
			want := map[string]int{}
			var wantMu sync.Mutex
			var wg sync.WaitGroup
			start := make(chan struct{})
			for w := 0; w < c.Workers; w++ {
				wg.Add(1)
				go func(w int) {
					defer wg.Done()
					<-start
					for k := 0; k < c.PerWork; k++ {
						e, a := setups[c.Expected[(w+k)%len(c.Expected)]], setups[c.Actual[(w*3+k)%len(c.Actual)]]
						name := fmt.Sprintf("verif/c12c/%d-%d", w, k)
						n := len(vfMismatches(e, a))
						wantMu.Lock()
						want[name] = n
						wantMu.Unlock()
						handler.ServeHTTP(httptest.NewRecorder(), vfSynthRequest(e, a, name))
					}
				}(w)
			}
			close(start)
			wg.Wait()
			got := map[string]int{}
			for _, line := range strings.Split(strings.TrimRight(buf.String(), "\n"), "\n") {
				if line == "" {
					continue
				}
				parts := strings.SplitN(line, ": ", 2)
				if len(parts) != 2 {
					return verifkit.Violf("concurrent-line-garbled", "stderr line does not have the form \"<test name>: <message>\": %q", line)
				}
				if _, ok := want[parts[0]]; !ok {
					return verifkit.Violf("concurrent-line-garbled", "stderr line names no request that was sent: %q", line)
				}
				if strings.Contains(parts[1], "verif/c12c/") {
					return verifkit.Violf("concurrent-line-garbled", "the message part of a stderr line contains another test's name: %q", line)
				}
				got[parts[0]]++
			}
			for name, n := range want {
				if got[name] != n {
					return verifkit.Violf("concurrent-feedback-count", "request %q deviates in %d aspects but %d feedback lines name it (%d workers)", name, n, got[name], c.Workers)
				}
			}
			return nil
		},
		Classify: func(c ccase) ([]string, bool) {
			return []string{fmt.Sprintf("workers:%d", c.Workers)}, c.Workers >= 2
		},
	})
}

type vfLockedBuffer struct {
	mu  sync.Mutex
	buf bytes.Buffer
}

func (b *vfLockedBuffer) Write(p []byte) (int, error) {
	b.mu.Lock()
	defer b.mu.Unlock()
	return b.buf.Write(p)
}

func (b *vfLockedBuffer) String() string {
	b.mu.Lock()
	defer b.mu.Unlock()
	return b.buf.String()
}

// TestVerifC12TLS: the TLS / client-certificate aspect over all three HTTP versions with real handshakes: reference
// servers started under TLS with and without a required client certificate, plain HTTP clients (net/http for
// HTTP/1.1 and HTTP/2, quic-go for HTTP/3) that present the client certificate or none. Matching expectation headers
// draw no feedback; expecting plain text, or another (or no) client certificate than the one used, draws feedback
// naming the test case.
func TestVerifC12TLS(t *testing.T) {
	en := verifkit.NewEnum(t, "C12TLS")
	type row struct {
		Version    int    `json:"httpVersion"`
		ClientCert bool   `json:"clientCert"`
		Expect     string `json:"expect"` // match, plaintext, other-cert
	}
	srvCert, srvKey, err := internal.NewServerCert()
	if err != nil {
		t.Fatal(err)
	}
	cliCert, cliKey, err := internal.NewClientCert()
	if err != nil {
		t.Fatal(err)
	}
	seq := 0
	for _, version := range []int{1, 2, 3} {
		for _, withCert := range []bool{false, true} {
			req := &conformancev1.ServerCompatRequest{Protocol: conformancev1.Protocol_PROTOCOL_CONNECT, HttpVersion: conformancev1.HTTPVersion(version), UseTls: true,
				ServerCreds: &conformancev1.TLSCreds{Cert: srvCert, Key: srvKey}}
			var cc, ck []byte
			if withCert {
				req.ClientTlsCert = cliCert
				cc, ck = cliCert, cliKey
			}
			srv, err := vfStartRefServerWith(req)
			if err != nil {
				continue // environment (no UDP, ...)
			}
			tlsConf, err := internal.NewClientTLSConfig(srv.cert, cc, ck)
			if err != nil {
				srv.stop()
				t.Fatal(err)
			}
			var rt http.RoundTripper
			var closer func()
			switch version {
			case 1:
				tr := &http.Transport{TLSClientConfig: tlsConf, TLSNextProto: map[string]func(string, *tls.Conn) http.RoundTripper{}, DisableCompression: true}
				rt, closer = tr, tr.CloseIdleConnections
			case 2:
				tr := &http2.Transport{TLSClientConfig: tlsConf, DisableCompression: true}
				rt, closer = tr, tr.CloseIdleConnections
			default:
				tr := &http3.Transport{TLSClientConfig: tlsConf, DisableCompression: true}
				rt, closer = tr, func() { _ = tr.Close() }
			}
			client := &http.Client{Transport: rt, Timeout: 20 * time.Second}
			for _, expect := range []string{"match", "plaintext", "other-cert"} {
				seq++
				r := row{version, withCert, expect}
				name := fmt.Sprintf("verif/c12tls/%d", seq)
				body, _ := proto.Marshal(&conformancev1.UnaryRequest{ResponseDefinition: &conformancev1.UnaryResponseDefinition{Response: &conformancev1.UnaryResponseDefinition_ResponseData{ResponseData: []byte("ok")}}})
				hreq, _ := http.NewRequest(http.MethodPost, "https://"+srv.addr+"/connectrpc.conformance.v1.ConformanceService/Unary", bytes.NewReader(body))
				hreq.Header.Set("Content-Type", "application/proto")
				hreq.Header.Set("Connect-Protocol-Version", "1")
				hreq.Header.Set("X-Test-Case-Name", name)
				hreq.Header.Set("X-Expect-Http-Version", fmt.Sprint(version))
				hreq.Header.Set("X-Expect-Http-Method", "POST")
				hreq.Header.Set("X-Expect-Protocol", "1")
				hreq.Header.Set("X-Expect-Codec", "1")
				hreq.Header.Set("X-Expect-Compression", "1")
				hreq.Header.Set("X-Expect-Tls", fmt.Sprint(expect != "plaintext"))
				wantCert := ""
				if withCert {
					wantCert = internal.ClientCertName
				}
				if expect == "other-cert" {
					if withCert {
						wantCert = "" // the runner thinks no certificate is in use
					} else {
						wantCert = internal.ClientCertName
					}
				}
				if wantCert != "" {
					hreq.Header.Set("X-Expect-Client-Cert", wantCert)
				}
				var viol error
				hresp, err := client.Do(hreq)
				if err != nil {
					// once more (a handshake can time out on a busy machine)
					hreq.Body = io.NopCloser(bytes.NewReader(body))
					hresp, err = client.Do(hreq)
				}
				if err != nil && version == 3 {
					en.Rec.Exclude("http3-request-failed")
					continue // QUIC over loopback did not work out here: no verdict
				}
				if err != nil {
					viol = verifkit.Violf("tls-request-failed", "HTTP/%d request under TLS (client certificate: %v) failed twice: %v", version, withCert, err)
				} else {
					_, _ = io.Copy(io.Discard, hresp.Body)
					_ = hresp.Body.Close()
					srv.waitForLine(name+": ", 300*time.Millisecond)
					fb := srv.feedbackFor(name)
					switch {
					case expect == "match" && len(fb) > 0:
						viol = verifkit.Violf("tls-match-flagged", "HTTP/%d under TLS, client certificate %v, every expectation matches, but the server reported %q", version, withCert, fb)
					case expect == "plaintext" && !vfAnyContains(fb, "expecting plain-text request"):
						viol = verifkit.Violf("tls-mismatch-missed:plaintext", "HTTP/%d: the runner expected plain text, the request came under TLS, feedback %q", version, fb)
					case expect == "other-cert" && !vfAnyContains(fb, "expecting client cert"):
						viol = verifkit.Violf("tls-mismatch-missed:client-cert", "HTTP/%d: expected client certificate %q, used %v, feedback %q", version, wantCert, withCert, fb)
					}
				}
				en.Rec.Observe(r, []string{fmt.Sprintf("http%d", version), fmt.Sprintf("client-cert:%v", withCert), "expect:" + expect}, true)
				if viol != nil && en.Fail(r, viol) {
					closer()
					srv.stop()
					en.Done(true)
					return
				}
			}
			closer()
			srv.stop()
		}
	}
	en.Done(true)
}

func vfAnyContains(lines []string, sub string) bool {
	for _, l := range lines {
		if strings.Contains(l, sub) {
			return true
		}
	}
	return false
}

// TestVerifC12Shutdown: the server is told to stop (as the runner does once the client has answered the last case)
// while a request is still being uploaded. The request is finished during the graceful period and carries an HTTP
// trailer: the feedback about it - printed when the handler returns - must still reach the server's stderr before
// that ends, just like the feedback printed on arrival. Over HTTP/1.1 (plain and TLS) and HTTP/2 under TLS: cleartext
// HTTP/2 connections are taken over by the h2c handler and are outside net/http's graceful shutdown, so nothing is
// claimed for them.
func TestVerifC12Shutdown(t *testing.T) {
	en := verifkit.NewEnum(t, "C12Shutdown")
	type row struct {
		H2        bool   `json:"h2"`
		TLS       bool   `json:"tls"`
		Procedure string `json:"procedure"` // ClientStream, BidiStream, Unary
		HoldMs    int    `json:"holdMs"`    // how long after the stop signal the upload ends
	}
	var rows []row
	for _, tr := range [][2]bool{{false, false}, {false, true}, {true, true}} {
		for _, p := range []string{"ClientStream", "BidiStream", "Unary"} {
			for _, hold := range []int{0, 400} {
				rows = append(rows, row{tr[0], tr[1], p, hold})
			}
		}
	}
	srvCert, srvKey, err := internal.NewServerCert()
	if err != nil {
		t.Fatal(err)
	}
	var replay row
	if en.ReplayCase(&replay) {
		rows = []row{replay}
	}
	for _, r := range rows {
		viol := func() error {
			version, httpVersion := 1, conformancev1.HTTPVersion_HTTP_VERSION_1
			if r.H2 {
				version, httpVersion = 2, conformancev1.HTTPVersion_HTTP_VERSION_2
			}
			sreq := &conformancev1.ServerCompatRequest{Protocol: conformancev1.Protocol_PROTOCOL_CONNECT, HttpVersion: httpVersion}
			scheme := "http://"
			if r.TLS {
				sreq.UseTls, sreq.ServerCreds = true, &conformancev1.TLSCreds{Cert: srvCert, Key: srvKey}
				scheme = "https://"
			}
			srv, err := vfStartRefServerWith(sreq)
			if err != nil {
				return nil
			}
			stopped := false
			defer func() {
				if !stopped {
					srv.stop()
				}
			}()
			var tlsConf *tls.Config
			if r.TLS {
				if tlsConf, err = internal.NewClientTLSConfig(srv.cert, nil, nil); err != nil {
					return nil
				}
			}
			var client *http.Client
			if r.H2 {
				tr := &http2.Transport{TLSClientConfig: tlsConf, DisableCompression: true}
				defer tr.CloseIdleConnections()
				client = &http.Client{Transport: tr}
			} else {
				tr := &http.Transport{TLSClientConfig: tlsConf, TLSNextProto: map[string]func(string, *tls.Conn) http.RoundTripper{}, DisableCompression: true}
				defer tr.CloseIdleConnections()
				client = &http.Client{Transport: tr}
			}
			name := fmt.Sprintf("verif/c12shutdown/%d", vfBBSeq.Add(1))
			stream := r.Procedure != "Unary"
			actual := vfSetup{Version: version, Protocol: 1, Codec: 1, Compression: 1, StreamCT: stream, TLS: r.TLS}
			expected := actual
			expected.Codec = 2 // (a deviation the server reports when the request arrives: the barrier)
			pr, pw := io.Pipe()
			req, _ := http.NewRequest(http.MethodPost, scheme+srv.addr+"/connectrpc.conformance.v1.ConformanceService/"+r.Procedure, pr)
			if stream {
				req.Header.Set("Content-Type", "application/connect+proto")
			} else {
				req.Header.Set("Content-Type", "application/proto")
			}
			for k, v := range vfSynthRequest(expected, actual, name).Header {
				if strings.HasPrefix(k, "X-Expect-") || k == "X-Test-Case-Name" {
					req.Header[k] = v
				}
			}
			req.ContentLength = -1
			req.Trailer = http.Header{"X-Verif-Trailer": {"t"}}
			ctx, cancel := context.WithTimeout(context.Background(), 30*time.Second)
			defer cancel()
			answered := make(chan struct{})
			go func() {
				defer close(answered)
				resp, err := client.Do(req.WithContext(ctx))
				if err == nil {
					_, _ = io.Copy(io.Discard, resp.Body)
					_ = resp.Body.Close()
				}
			}()
			if !srv.waitForLine(name+": ", 10*time.Second) {
				_ = pw.Close()
				return nil // cannot tell that the request arrived: no verdict
			}
			srv.cancel() // the stop signal
			time.Sleep(time.Duration(r.HoldMs) * time.Millisecond)
			var body []byte
			switch r.Procedure {
			case "ClientStream":
				body, _ = proto.Marshal(&conformancev1.ClientStreamRequest{RequestData: []byte("x")})
			case "BidiStream":
				body, _ = proto.Marshal(&conformancev1.BidiStreamRequest{RequestData: []byte("x")})
			default:
				body, _ = proto.Marshal(&conformancev1.UnaryRequest{RequestData: []byte("x")})
			}
			if stream {
				env := make([]byte, 5, 5+len(body))
				binary.BigEndian.PutUint32(env[1:], uint32(len(body)))
				body = append(env, body...)
			}
			_, _ = pw.Write(body)
			_ = pw.Close()
			select {
			case <-srv.done:
				stopped = true
			case <-time.After(20 * time.Second):
				return verifkit.Violf("shutdown-hang", "the server had not stopped 20s after the stop signal although the upload ended %dms after it", r.HoldMs)
			}
			select {
			case <-answered:
			case <-time.After(5 * time.Second):
			}
			time.Sleep(50 * time.Millisecond) // (the stderr reader of the harness)
			lines := srv.feedbackFor(name)
			for _, l := range lines {
				if strings.Contains(l, "HTTP trailers") {
					return nil
				}
			}
			return verifkit.Violf("shutdown-feedback-lost", "%s over HTTP/%d (TLS %v), upload finished %dms after the stop signal with a trailer: the server's stderr ended without the trailer feedback, it has only %q", r.Procedure, version, r.TLS, r.HoldMs, lines)
		}()
		en.Rec.Observe(r, []string{fmt.Sprintf("h2:%v", r.H2), fmt.Sprintf("tls:%v", r.TLS), "procedure:" + r.Procedure}, true)
		if viol != nil && en.Fail(r, viol) {
			break
		}
	}
	en.Done(true)
}

// TestVerifC12MethodProtocol: the protocol aspect is judged by what the request says it is (its content type), for
// either HTTP method: every content type (none, Connect unary / streaming, gRPC, gRPC-Web, with and without codec
// suffix) × GET and POST × every expected protocol → a line "expected protocol ..." exactly when the expected
// protocol is not the request's (a GET without any of the gRPC content types is a Connect request). Other aspects
// (method, codec, ...) produce their own lines, which are not judged here.
func TestVerifC12MethodProtocol(t *testing.T) {
	en := verifkit.NewEnum(t, "C12MethodProtocol")
	type row struct {
		Method      string `json:"method"`
		ContentType string `json:"contentType"`
		Expected    int    `json:"expectedProtocol"`
	}
	cts := map[string]int{"": 0, "application/proto": 1, "application/json": 1, "application/connect+proto": 1, "application/grpc": 2, "application/grpc+proto": 2, "application/grpc+json": 2,
		"application/grpc-web": 3, "application/grpc-web+proto": 3, "application/grpc-web+json": 3}
	var names []string
	for ct := range cts {
		names = append(names, ct)
	}
	sort.Strings(names)
	for _, method := range []string{http.MethodGet, http.MethodPost} {
		for _, ct := range names {
			for expected := 1; expected <= 3; expected++ {
				r := row{method, ct, expected}
				actual := cts[ct]
				if actual == 0 {
					if method != http.MethodGet {
						continue // a POST without content type has no protocol at all (reported as such): not judged
					}
					actual = 1
				}
				target := "/connectrpc.conformance.v1.ConformanceService/Unary"
				if method == http.MethodGet {
					target += "?encoding=proto&connect=v1&message="
				}
				req := httptest.NewRequest(method, target, bytes.NewReader(nil))
				if ct != "" {
					req.Header.Set("Content-Type", ct)
				}
				req.Header.Set("X-Test-Case-Name", "verif/c12mp")
				req.Header.Set("X-Expect-Http-Version", "1")
				req.Header.Set("X-Expect-Http-Method", method)
				req.Header.Set("X-Expect-Protocol", strconv.Itoa(expected))
				req.Header.Set("X-Expect-Codec", "1")
				req.Header.Set("X-Expect-Compression", "1")
				req.Header.Set("X-Expect-Tls", "false")
				printer := &vfRecPrinter{}
				referenceServerChecks(http.HandlerFunc(func(w http.ResponseWriter, _ *http.Request) { w.WriteHeader(200) }), printer).ServeHTTP(httptest.NewRecorder(), req)
				flagged := false
				for _, l := range printer.lines {
					if strings.Contains(l, "expected protocol") {
						flagged = true
					}
				}
				var viol error
				if want := expected != actual; flagged != want {
					viol = verifkit.Violf(map[bool]string{true: "mismatch-not-flagged:protocol", false: "match-flagged:protocol"}[want], "%s request with content type %q (protocol %d), expected protocol %d: protocol feedback %v, want %v; lines %q", method, ct, actual, expected, flagged, want, printer.lines)
				}
				en.Rec.Observe(r, []string{"method:" + method, fmt.Sprintf("protocol:%d", actual)}, method == http.MethodGet && actual != 1)
				if viol != nil && en.Fail(r, viol) {
					en.Done(true)
					return
				}
			}
		}
	}
	en.Done(true)
}
