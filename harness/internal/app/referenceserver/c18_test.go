//go:build verif

package referenceserver

import (
	"encoding/base64"
	"errors"
	"fmt"
	"strings"
	"testing"

	conformancev1 "connectrpc.com/conformance/internal/gen/proto/go/connectrpc/conformance/v1"
	"connectrpc.com/conformance/internal/verifkit"
	"connectrpc.com/connect"
	"google.golang.org/genproto/googleapis/rpc/status"
	"google.golang.org/protobuf/proto"
	"pgregory.net/rapid"
)

// ---- C18: Connect error -> gRPC status form as the reference server renders it itself (raw gRPC / gRPC-Web error
// responses with custom headers): grpc-status, grpc-message, grpc-status-details-bin ----

type vfC18StatusCase struct {
	Code    int      `json:"code"`
	Msg     string   `json:"msg"`
	Details []string `json:"details"` // each: the name of a Header message used as detail
	// Trailers: the response trailers of the test case, rendered with the status into a gRPC-Web trailer block
	Trailers []vfC18Hdr `json:"trailers,omitempty"`
}

type vfC18Hdr struct {
	Name  string   `json:"name"`
	Value []string `json:"value"`
}

func vfC18PercentDecode(s string) (string, bool) {
	var out []byte
	for i := 0; i < len(s); i++ {
		c := s[i]
		if c < 0x20 || c > 0x7e {
			return "", false // not printable ASCII
		}
		if c != '%' {
			out = append(out, c)
			continue
		}
		if i+2 >= len(s) {
			return "", false
		}
		var v byte
		for _, h := range []byte{s[i+1], s[i+2]} {
			switch {
			case h >= '0' && h <= '9':
				v = v<<4 | (h - '0')
			case h >= 'A' && h <= 'F':
				v = v<<4 | (h - 'A' + 10)
			case h >= 'a' && h <= 'f':
				v = v<<4 | (h - 'a' + 10)
			default:
				return "", false
			}
		}
		out = append(out, v)
		i += 2
	}
	return string(out), true
}

func TestVerifC18StatusTrailers(t *testing.T) {
	verifkit.Run(t, "C18StatusTrailers", verifkit.Spec[vfC18StatusCase]{
		Gen: func(t *rapid.T) vfC18StatusCase {
			c := vfC18StatusCase{Code: rapid.IntRange(1, 16).Draw(t, "code")}
			switch rapid.IntRange(0, 3).Draw(t, "msgKind") {
			case 0:
				c.Msg = rapid.SampledFrom([]string{"", "plain", "100% wrong", "a+b = c", "tab\there", "line\nbreak", "ünïcode ✓", "%41", "del\x7f", " padded "}).Draw(t, "msgSample")
			default:
				c.Msg = rapid.StringOfN(rapid.RuneFrom([]rune("ab %+/=\t\n\r\x7f~éǅ✓\"\\")), 0, 12, -1).Draw(t, "msg")
			}
			for i, n := 0, rapid.IntRange(0, 3).Draw(t, "details"); i < n; i++ {
				c.Details = append(c.Details, rapid.SampledFrom([]string{"x-a", "detail with % and +", ""}).Draw(t, "detail"))
			}
			for i, n := 0, rapid.IntRange(0, 4).Draw(t, "trailers"); i < n; i++ {
				h := vfC18Hdr{Name: rapid.SampledFrom([]string{"x-repeated", "X-Repeated", "x-other", "x-data-bin", "X-Data-Bin"}).Draw(t, "trailerName")}
				for j, k := 0, rapid.IntRange(0, 3).Draw(t, "trailerValues"); j < k; j++ {
					h.Value = append(h.Value, rapid.SampledFrom([]string{"first", "second", "AAEC", "AwQF", "v 3"}).Draw(t, "trailerValue"))
				}
				c.Trailers = append(c.Trailers, h)
			}
			return c
		},
		Check: func(c vfC18StatusCase) error {
			cerr := connect.NewError(connect.Code(c.Code), errors.New(c.Msg))
			var wantDetails [][]byte
			for _, d := range c.Details {
				msg := &conformancev1.Header{Name: d, Value: []string{"v"}}
				det, err := connect.NewErrorDetail(msg)
				if err != nil {
					return nil
				}
				cerr.AddDetail(det)
				data, _ := proto.Marshal(msg)
				wantDetails = append(wantDetails, data)
			}
			// the gRPC-Web trailer block: the status fields first, then every given trailer value, per lower-case key in order
			var protoTrailers []*conformancev1.Header
			wantBlock := map[string][]string{}
			for _, h := range c.Trailers {
				protoTrailers = append(protoTrailers, &conformancev1.Header{Name: h.Name, Value: append([]string{}, h.Value...)})
				wantBlock[strings.ToLower(h.Name)] = append(wantBlock[strings.ToLower(h.Name)], h.Value...)
			}
			gotBlock := map[string][]string{}
			for _, line := range strings.Split(grpcWebStatusEndStream(cerr, protoTrailers), "\r\n") {
				if line == "" {
					continue
				}
				k, v, ok := strings.Cut(line, ": ")
				if !ok {
					return verifkit.Violf("status-trailers:web-block", "line %q of the gRPC-Web trailer block has no \": \"", line)
				}
				gotBlock[k] = append(gotBlock[k], v)
			}
			for k, vals := range wantBlock {
				if len(vals) > 0 && fmt.Sprintf("%q", gotBlock[k]) != fmt.Sprintf("%q", vals) {
					return verifkit.Violf("status-trailers:web-block", "gRPC-Web trailer block: key %q has values %q, the response trailers %v give %q", k, gotBlock[k], c.Trailers, vals)
				}
			}
			got := map[string][]string{}
			for _, h := range grpcStatusTrailers(cerr) {
				got[h.Name] = append(got[h.Name], h.Value...)
			}
			if len(got["grpc-status"]) != 1 || got["grpc-status"][0] != fmt.Sprint(c.Code) {
				return verifkit.Violf("status-trailers:code", "grpc-status %q for code %d", got["grpc-status"], c.Code)
			}
			if len(got["grpc-message"]) != 1 {
				return verifkit.Violf("status-trailers:message", "grpc-message %q for message %q", got["grpc-message"], c.Msg)
			}
			if dec, ok := vfC18PercentDecode(got["grpc-message"][0]); !ok || dec != c.Msg {
				return verifkit.Violf("status-trailers:message", "grpc-message %q does not percent-decode to the message %q (decodes to %q, printable and well-formed: %v)", got["grpc-message"][0], c.Msg, dec, ok)
			}
			if len(c.Details) == 0 {
				if len(got["grpc-status-details-bin"]) != 0 {
					return verifkit.Violf("status-trailers:details", "no details but grpc-status-details-bin %q", got["grpc-status-details-bin"])
				}
				return nil
			}
			if len(got["grpc-status-details-bin"]) != 1 {
				return verifkit.Violf("status-trailers:details", "%d details but grpc-status-details-bin %q", len(c.Details), got["grpc-status-details-bin"])
			}
			raw, err := base64.RawStdEncoding.DecodeString(got["grpc-status-details-bin"][0])
			if err != nil {
				return verifkit.Violf("status-trailers:details", "grpc-status-details-bin is not unpadded base64: %v", err)
			}
			st := &status.Status{}
			if err := proto.Unmarshal(raw, st); err != nil {
				return verifkit.Violf("status-trailers:details", "grpc-status-details-bin is not a google.rpc.Status: %v", err)
			}
			if int(st.Code) != c.Code || st.Message != c.Msg {
				return verifkit.Violf("status-trailers:status-proto", "the status message carries code %d message %q, the error has code %d message %q", st.Code, st.Message, c.Code, c.Msg)
			}
			if len(st.Details) != len(wantDetails) {
				return verifkit.Violf("status-trailers:details", "%d details in the status message, want %d", len(st.Details), len(wantDetails))
			}
			for i, d := range st.Details {
				if string(d.Value) != string(wantDetails[i]) || d.TypeUrl != "type.googleapis.com/connectrpc.conformance.v1.Header" {
					return verifkit.Violf("status-trailers:details", "detail %d: type %q bytes %x, want Header %x", i, d.TypeUrl, d.Value, wantDetails[i])
				}
			}
			return nil
		},
		Classify: func(c vfC18StatusCase) ([]string, bool) {
			esc := false
			for i := 0; i < len(c.Msg); i++ {
				if b := c.Msg[i]; b < 0x20 || b > 0x7e || b == '%' {
					esc = true
				}
			}
			var cl []string
			if esc {
				cl = append(cl, "message-needs-escaping")
			}
			if len(c.Details) > 0 {
				cl = append(cl, "details")
			}
			return cl, esc || len(c.Details) > 0
		},
	})
}
