//go:build verif

package referenceserver

import (
	"bytes"
	"encoding/binary"
	"fmt"
	"io"
	"net/http"
	"strings"
	"testing"
	"time"

	conformancev1 "connectrpc.com/conformance/internal/gen/proto/go/connectrpc/conformance/v1"
	"connectrpc.com/conformance/internal/verifkit"
	"google.golang.org/protobuf/proto"
)

// ---- C20 (reference server part): a plain HTTP client sends the request compressed by the independent encoder of a
// name and accepts only that name: the reference server understands the request (same algorithm for the name) and
// its response, announced under that name, decodes with the independent decoder to the expected message ----

func TestVerifC20ServerWire(t *testing.T) {
	en := verifkit.NewEnum(t, "C20ServerWire")
	srv, err := vfStartRefServer(conformancev1.HTTPVersion_HTTP_VERSION_1)
	if err != nil {
		t.Fatalf("cannot start reference server: %v", err)
	}
	defer srv.stop()
	type row struct {
		Name   string `json:"encoding"`
		Stream bool   `json:"stream"` // Connect server-stream (enveloped) instead of Connect unary
	}
	client := &http.Client{Timeout: 20 * time.Second, Transport: &http.Transport{DisableCompression: true}}
	seq := 0
	for _, name := range verifkit.EncodingNames[1:] {
		for _, stream := range []bool{false, true} {
			seq++
			r := row{name, stream}
			test := fmt.Sprintf("verif/c20server/%d", seq)
			respData := []byte(strings.Repeat("response payload ", 50) + fmt.Sprint(seq))
			var reqMsg proto.Message
			method, ct := "Unary", "application/proto"
			if stream {
				method, ct = "ServerStream", "application/connect+proto"
				reqMsg = &conformancev1.ServerStreamRequest{ResponseDefinition: &conformancev1.StreamResponseDefinition{ResponseData: [][]byte{respData}}, RequestData: bytes.Repeat([]byte("q"), 500)}
			} else {
				reqMsg = &conformancev1.UnaryRequest{ResponseDefinition: &conformancev1.UnaryResponseDefinition{Response: &conformancev1.UnaryResponseDefinition_ResponseData{ResponseData: respData}}, RequestData: bytes.Repeat([]byte("q"), 500)}
			}
			plain, _ := proto.Marshal(reqMsg)
			body := verifkit.IndepEncode(name, plain)
			if stream {
				var p [5]byte
				p[0] = 1
				binary.BigEndian.PutUint32(p[1:], uint32(len(body)))
				body = append(p[:], body...)
			}
			hreq, _ := http.NewRequest(http.MethodPost, "http://"+srv.addr+"/connectrpc.conformance.v1.ConformanceService/"+method, bytes.NewReader(body))
			hreq.Header.Set("Content-Type", ct)
			hreq.Header.Set("Connect-Protocol-Version", "1")
			hreq.Header.Set("X-Test-Case-Name", test)
			// the runner's number for this encoding: the server's own check must take the name for the same thing
			hreq.Header.Set("X-Expect-Compression", fmt.Sprint(int32(vfC20Enum[name])))
			if stream {
				hreq.Header.Set("Connect-Content-Encoding", name)
				hreq.Header.Set("Connect-Accept-Encoding", name)
			} else {
				hreq.Header.Set("Content-Encoding", name)
				hreq.Header.Set("Accept-Encoding", name)
			}
			var viol error
			hresp, err := client.Do(hreq)
			if err != nil {
				continue // environment
			}
			raw, _ := io.ReadAll(hresp.Body)
			_ = hresp.Body.Close()
			gotEnc := hresp.Header.Get("Content-Encoding")
			if stream {
				gotEnc = hresp.Header.Get("Connect-Content-Encoding")
			}
			var payload []byte
			switch {
			case hresp.StatusCode != 200:
				viol = verifkit.Violf("server-wire-request-rejected", "a request compressed with the independent %s encoder was answered %d %s (%+v)", name, hresp.StatusCode, vfC20Trunc(raw), r)
			case gotEnc != name:
				viol = verifkit.Violf("server-wire-name", "only %q was accepted but the response announces %q (%+v)", name, gotEnc, r)
			case stream:
				if len(raw) < 5 || raw[0]&1 == 0 || int(binary.BigEndian.Uint32(raw[1:5])) > len(raw)-5 {
					viol = verifkit.Violf("server-wire-envelope", "the first response envelope is not a compressed message: % x (%+v)", vfC20Trunc(raw), r)
				} else {
					payload = raw[5 : 5+binary.BigEndian.Uint32(raw[1:5])]
				}
			default:
				payload = raw
			}
			if viol == nil {
				dec, err := verifkit.IndepDecode(name, payload)
				var got []byte
				if err == nil {
					if stream {
						m := &conformancev1.ServerStreamResponse{}
						err = proto.Unmarshal(dec, m)
						got = m.GetPayload().GetData()
					} else {
						m := &conformancev1.UnaryResponse{}
						err = proto.Unmarshal(dec, m)
						got = m.GetPayload().GetData()
					}
				}
				if err != nil || !bytes.Equal(got, respData) {
					viol = verifkit.Violf("server-wire-algorithm", "the response announced as %q does not decode (independent %s decoder) to the expected message: err=%v (%+v)", gotEnc, name, err, r)
				}
			}
			if viol == nil {
				time.Sleep(20 * time.Millisecond) // (the harness's reader of the server's stderr)
				for _, l := range srv.feedbackFor(test) {
					if strings.Contains(l, "compression") {
						viol = verifkit.Violf("server-wire-feedback", "the request announced %q, used that algorithm and the runner expected %v, yet the server reports: %q (%+v)", name, vfC20Enum[name], l, r)
					}
				}
			}
			en.Rec.Observe(r, []string{name, fmt.Sprintf("stream:%v", stream)}, true)
			if viol != nil && en.Fail(r, viol) {
				en.Done(true)
				return
			}
		}
	}
	en.Done(true)
}

// vfC20Enum: the protocol's number of each encoding name (proto/connectrpc/conformance/v1/config.proto).
var vfC20Enum = map[string]conformancev1.Compression{
	"identity": conformancev1.Compression_COMPRESSION_IDENTITY, "gzip": conformancev1.Compression_COMPRESSION_GZIP, "br": conformancev1.Compression_COMPRESSION_BR,
	"zstd": conformancev1.Compression_COMPRESSION_ZSTD, "deflate": conformancev1.Compression_COMPRESSION_DEFLATE, "snappy": conformancev1.Compression_COMPRESSION_SNAPPY,
}

func vfC20Trunc(b []byte) []byte {
	if len(b) > 120 {
		return b[:120]
	}
	return b
}
