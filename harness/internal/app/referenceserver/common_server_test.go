//go:build verif

package referenceserver

import (
	"bufio"
	"context"
	"encoding/binary"
	"fmt"
	"io"
	"strings"
	"sync"
	"time"

	conformancev1 "connectrpc.com/conformance/internal/gen/proto/go/connectrpc/conformance/v1"
	"connectrpc.com/conformance/internal/tracer"
	"google.golang.org/protobuf/proto"
)

// vfRefServer is a reference server started in-process through the exported
// RunInReferenceMode; its stderr lines (peer feedback) are captured.
type vfRefServer struct {
	addr   string
	cert   []byte
	cancel context.CancelFunc
	done   chan error

	mu    sync.Mutex
	lines []string
}

func vfStartRefServer(version conformancev1.HTTPVersion) (*vfRefServer, error) {
	return vfStartRefServerWith(&conformancev1.ServerCompatRequest{Protocol: conformancev1.Protocol_PROTOCOL_CONNECT, HttpVersion: version})
}

func vfStartRefServerWith(req *conformancev1.ServerCompatRequest) (*vfRefServer, error) {
	return vfStartRefServerTraced(req, nil)
}

// vfStartRefServerTraced: with a tracer the server wraps every request in the HTTP tracing middleware (connectconformance --trace).
func vfStartRefServerTraced(req *conformancev1.ServerCompatRequest, trace *tracer.Tracer) (*vfRefServer, error) {
	ctx, cancel := context.WithCancel(context.Background())
	inR, inW := io.Pipe()
	outR, outW := io.Pipe()
	errR, errW := io.Pipe()
	s := &vfRefServer{cancel: cancel, done: make(chan error, 1)}
	go func() {
		sc := bufio.NewScanner(errR)
		sc.Buffer(make([]byte, 1<<20), 1<<20)
		for sc.Scan() {
			s.mu.Lock()
			s.lines = append(s.lines, sc.Text())
			s.mu.Unlock()
		}
	}()
	go func() {
		err := RunInReferenceMode(ctx, []string{"reference-server", "-port", "0", "-bind", "127.0.0.1"}, inR, outW, errW, trace)
		_ = outW.Close()
		_ = errW.Close()
		s.done <- err
	}()
	go func() {
		data, _ := proto.Marshal(req)
		var l [4]byte
		binary.BigEndian.PutUint32(l[:], uint32(len(data)))
		_, _ = inW.Write(append(l[:], data...))
	}()
	type result struct {
		resp *conformancev1.ServerCompatResponse
		err  error
	}
	ch := make(chan result, 1)
	go func() {
		var l [4]byte
		if _, err := io.ReadFull(outR, l[:]); err != nil {
			ch <- result{nil, err}
			return
		}
		data := make([]byte, binary.BigEndian.Uint32(l[:]))
		if _, err := io.ReadFull(outR, data); err != nil {
			ch <- result{nil, err}
			return
		}
		resp := &conformancev1.ServerCompatResponse{}
		ch <- result{resp, proto.Unmarshal(data, resp)}
		_, _ = io.Copy(io.Discard, outR)
	}()
	select {
	case r := <-ch:
		if r.err != nil {
			cancel()
			return nil, r.err
		}
		s.addr = fmt.Sprintf("%s:%d", r.resp.Host, r.resp.Port)
		s.cert = r.resp.PemCert
		return s, nil
	case <-time.After(20 * time.Second):
		cancel()
		return nil, fmt.Errorf("reference server did not start")
	}
}

func (s *vfRefServer) stop() {
	s.cancel()
	select {
	case <-s.done:
	case <-time.After(10 * time.Second):
	}
}

// feedbackFor returns the captured stderr lines "<name>: ..." (prefix removed).
func (s *vfRefServer) feedbackFor(name string) []string {
	s.mu.Lock()
	defer s.mu.Unlock()
	var out []string
	for _, l := range s.lines {
		if strings.HasPrefix(l, name+": ") {
			out = append(out, strings.TrimPrefix(l, name+": "))
		}
	}
	return out
}

// waitForLine waits until a line with the given prefix was captured.
func (s *vfRefServer) waitForLine(prefix string, d time.Duration) bool {
	deadline := time.Now().Add(d)
	for {
		s.mu.Lock()
		for _, l := range s.lines {
			if strings.HasPrefix(l, prefix) {
				s.mu.Unlock()
				return true
			}
		}
		s.mu.Unlock()
		if time.Now().After(deadline) {
			return false
		}
		time.Sleep(200 * time.Microsecond)
	}
}
