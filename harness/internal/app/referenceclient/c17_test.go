//go:build verif

package referenceclient

import (
	"bytes"
	"encoding/base64"
	"encoding/binary"
	"fmt"
	"io"
	"net"
	"net/http"
	"net/url"
	"sort"
	"strings"
	"sync"
	"testing"
	"time"

	conformancev1 "connectrpc.com/conformance/internal/gen/proto/go/connectrpc/conformance/v1"
	"connectrpc.com/conformance/internal/verifkit"
	"golang.org/x/net/http2"
	"golang.org/x/net/http2/h2c"
	"google.golang.org/protobuf/proto"
	"google.golang.org/protobuf/types/known/anypb"
	"pgregory.net/rapid"
)

// ---- C17 (client side): a raw request reaches a plain HTTP server exactly as specified ----

type vfHdr struct {
	Name  string   `json:"name"`
	Value []string `json:"value"`
}

type vfItem struct {
	Flags       uint32 `json:"flags"`
	HasLength   bool   `json:"hasLength"`
	Length      uint32 `json:"length"`
	Kind        string `json:"kind"`
	Data        []byte `json:"data"`
	Compression int32  `json:"compression"`
}

type vfEncParam struct {
	Name   string `json:"name"`
	Value  vfItem `json:"value"`
	Base64 bool   `json:"base64"`
}

type vfRawReq struct {
	H2        bool         `json:"h2"`
	Verb      string       `json:"verb"`
	Path      string       `json:"path"`
	URIQuery  string       `json:"uriQuery"` // query already present in the URI ("" = none)
	RawParams []vfHdr      `json:"rawParams"`
	EncParams []vfEncParam `json:"encParams"`
	Headers   []vfHdr      `json:"headers"`
	Body      string       `json:"body"` // none, unary, stream
	Unary     vfItem       `json:"unary"`
	Stream    []vfItem     `json:"stream"`
	// ListLength: the header list ends with a Content-Length entry that states the exact size of the body (only drawn
	// for bodies without compression, whose size is known beforehand)
	ListLength bool `json:"listContentLength,omitempty"`
	// RPC: the kind of call the client was about to make when the raw request takes its place: 0 unary, 1 client
	// stream, 2 server stream, 3 half-duplex bidi, 4 full-duplex bidi (whose own request body stays open until the
	// server has answered)
	RPC int `json:"rpc,omitempty"`
}

// vfKnownBodyLen: the number of body bytes of a raw request without compressed parts (-1: not known beforehand).
func vfKnownBodyLen(c vfRawReq) int {
	switch c.Body {
	case "unary":
		if c.Unary.Compression > 1 {
			return -1
		}
		return len(c.Unary.Data)
	case "stream":
		n := 0
		for _, it := range c.Stream {
			if it.Compression > 1 {
				return -1
			}
			n += 5 + len(it.Data)
		}
		return n
	}
	return -1
}

var vfCompNames = map[int32]string{0: "identity", 1: "identity", 2: "gzip", 3: "br", 4: "zstd", 5: "deflate", 6: "snappy"}

func vfContents(it vfItem) *conformancev1.MessageContents {
	mc := &conformancev1.MessageContents{Compression: conformancev1.Compression(it.Compression)}
	if it.Kind == "text" {
		mc.Data = &conformancev1.MessageContents_Text{Text: string(it.Data)}
	} else {
		mc.Data = &conformancev1.MessageContents_Binary{Binary: it.Data}
	}
	return mc
}

func (r vfRawReq) proto() *conformancev1.RawHTTPRequest {
	uri := r.Path
	if r.URIQuery != "" {
		uri += "?" + r.URIQuery
	}
	out := &conformancev1.RawHTTPRequest{Verb: r.Verb, Uri: uri}
	for _, h := range r.Headers {
		out.Headers = append(out.Headers, &conformancev1.Header{Name: h.Name, Value: h.Value})
	}
	for _, p := range r.RawParams {
		out.RawQueryParams = append(out.RawQueryParams, &conformancev1.Header{Name: p.Name, Value: p.Value})
	}
	for _, p := range r.EncParams {
		out.EncodedQueryParams = append(out.EncodedQueryParams, &conformancev1.RawHTTPRequest_EncodedQueryParam{Name: p.Name, Value: vfContents(p.Value), Base64Encode: p.Base64})
	}
	switch r.Body {
	case "unary":
		out.Body = &conformancev1.RawHTTPRequest_Unary{Unary: vfContents(r.Unary)}
	case "stream":
		sc := &conformancev1.StreamContents{}
		for _, it := range r.Stream {
			si := &conformancev1.StreamContents_StreamItem{Flags: it.Flags, Payload: vfContents(it)}
			if it.HasLength {
				si.Length = proto.Uint32(it.Length)
			}
			sc.Items = append(sc.Items, si)
		}
		out.Body = &conformancev1.RawHTTPRequest_Stream{Stream: sc}
	}
	return out
}

type vfSeen struct {
	Method string
	Path   string
	Query  url.Values
	Header http.Header
	Body   []byte
	Proto  int
	Length int64
	TE     []string
}

type vfRecordingServer struct {
	addr string
	mu   sync.Mutex
	seen map[string]*vfSeen // keyed by X-Verif-Id header (or query verif-id)
	srv  *http.Server
}

func vfStartRecorder(h2 bool) (*vfRecordingServer, error) {
	rs := &vfRecordingServer{seen: map[string]*vfSeen{}}
	handler := http.Handler(http.HandlerFunc(func(w http.ResponseWriter, r *http.Request) {
		body, _ := io.ReadAll(r.Body)
		s := &vfSeen{Method: r.Method, Path: r.URL.EscapedPath(), Query: r.URL.Query(), Header: r.Header.Clone(), Body: body, Proto: r.ProtoMajor, Length: r.ContentLength, TE: r.TransferEncoding}
		id := r.URL.Query().Get("verif-id")
		rs.mu.Lock()
		rs.seen[id] = s
		rs.mu.Unlock()
		w.Header().Set("Content-Type", "application/proto")
		w.WriteHeader(200)
	}))
	if h2 {
		handler = h2c.NewHandler(handler, &http2.Server{})
	}
	lis, err := vfListen()
	if err != nil {
		return nil, err
	}
	rs.addr = lis.Addr().String()
	rs.srv = &http.Server{Handler: handler, ReadHeaderTimeout: 5 * time.Second}
	go func() { _ = rs.srv.Serve(lis) }()
	return rs, nil
}

var (
	vfRecOnce sync.Once
	vfRecs    [2]*vfRecordingServer
	vfRecErr  error
)

func vfEnsureRecorders() error {
	vfRecOnce.Do(func() {
		for i := range vfRecs {
			vfRecs[i], vfRecErr = vfStartRecorder(i == 1)
			if vfRecErr != nil {
				return
			}
		}
	})
	return vfRecErr
}

func vfEncodedValue(p vfEncParam) (string, error) {
	var data []byte
	if p.Value.Compression <= 1 {
		data = p.Value.Data
	} else {
		return "", nil // compressed values are compared after decoding
	}
	if p.Base64 {
		return base64.URLEncoding.EncodeToString(data), nil
	}
	return string(data), nil
}

func vfRawReqCheck(c vfRawReq) error {
	if err := vfEnsureRecorders(); err != nil {
		return nil
	}
	idx := 0
	version := conformancev1.HTTPVersion_HTTP_VERSION_1
	if c.H2 {
		idx, version = 1, conformancev1.HTTPVersion_HTTP_VERSION_2
	}
	vfRecMu.Lock()
	vfRecSeq++
	id := fmt.Sprintf("id%d", vfRecSeq)
	vfRecMu.Unlock()
	raw := c.proto()
	listed := -1
	if c.ListLength {
		// (a listed "Content-Length: 0" is not asserted: Go's transport takes length 0 together with a body as "unknown"
		// and sends an empty chunked body - see DESIGN.md, C17 "not asserted")
		if listed = vfKnownBodyLen(c); listed > 0 {
			raw.Headers = append(raw.Headers, &conformancev1.Header{Name: "Content-Length", Value: []string{fmt.Sprint(listed)}})
		} else {
			listed = -1
		}
	}
	// tag the request so the recorder can find it: an extra raw query param
	raw.RawQueryParams = append(raw.RawQueryParams, &conformancev1.Header{Name: "verif-id", Value: []string{id}})
	// the runner appends the test name to the headers of a raw request as well
	raw.Headers = append(raw.Headers, &conformancev1.Header{Name: "X-Test-Case-Name", Value: []string{"verif/c17/" + id}})
	host, portStr, _ := net.SplitHostPort(vfRecs[idx].addr)
	var port uint32
	_, _ = fmt.Sscanf(portStr, "%d", &port)
	original := []byte("ORIGINAL-REQUEST-DATA")
	kinds := []struct {
		method string
		stream conformancev1.StreamType
		msgs   []proto.Message
	}{
		{"Unary", conformancev1.StreamType_STREAM_TYPE_UNARY, []proto.Message{&conformancev1.UnaryRequest{RequestData: original}}},
		{"ClientStream", conformancev1.StreamType_STREAM_TYPE_CLIENT_STREAM, []proto.Message{&conformancev1.ClientStreamRequest{RequestData: original}, &conformancev1.ClientStreamRequest{RequestData: original}}},
		{"ServerStream", conformancev1.StreamType_STREAM_TYPE_SERVER_STREAM, []proto.Message{&conformancev1.ServerStreamRequest{RequestData: original}}},
		{"BidiStream", conformancev1.StreamType_STREAM_TYPE_HALF_DUPLEX_BIDI_STREAM, []proto.Message{&conformancev1.BidiStreamRequest{RequestData: original}, &conformancev1.BidiStreamRequest{RequestData: original}}},
		{"BidiStream", conformancev1.StreamType_STREAM_TYPE_FULL_DUPLEX_BIDI_STREAM, []proto.Message{&conformancev1.BidiStreamRequest{RequestData: original, FullDuplex: true}, &conformancev1.BidiStreamRequest{RequestData: original}}},
	}
	kind := kinds[c.RPC%len(kinds)]
	var anyReq []*anypb.Any
	for _, m := range kind.msgs {
		a, err := anypb.New(m)
		if err != nil {
			return nil
		}
		anyReq = append(anyReq, a)
	}
	req := &conformancev1.ClientCompatRequest{
		TestName: "verif/c17/" + id, HttpVersion: version, Protocol: conformancev1.Protocol_PROTOCOL_CONNECT,
		Codec: conformancev1.Codec_CODEC_PROTO, Compression: conformancev1.Compression_COMPRESSION_IDENTITY,
		Host: host, Port: port, Service: proto.String("connectrpc.conformance.v1.ConformanceService"), Method: proto.String(kind.method),
		StreamType: kind.stream, RequestMessages: anyReq, RawRequest: raw,
		RequestHeaders: []*conformancev1.Header{{Name: "X-Original-Header", Value: []string{"original"}}},
	}
	resp, rerr := vfRunClient(req)
	if rerr != nil {
		return verifkit.Violf("raw-req-client-failed", "reference client failed: %v", rerr)
	}
	if resp.TestName != req.TestName {
		return verifkit.Violf("raw-req-client-failed", "response names %q", resp.TestName)
	}
	vfRecs[idx].mu.Lock()
	seen := vfRecs[idx].seen[id]
	delete(vfRecs[idx].seen, id)
	vfRecs[idx].mu.Unlock()
	if seen == nil {
		return verifkit.Violf("raw-req-not-sent", "the plain server never saw the request (client result: %v)", resp.GetResult())
	}
	if seen.Method != c.Verb {
		return verifkit.Violf("raw-req-method", "method %q, want %q", seen.Method, c.Verb)
	}
	if seen.Path != c.Path {
		return verifkit.Violf("raw-req-path", "path %q, want %q", seen.Path, c.Path)
	}
	// query parameters: per name the values in order (existing, then raw, then encoded)
	want := url.Values{}
	if c.URIQuery != "" {
		q, _ := url.ParseQuery(c.URIQuery)
		for k, v := range q {
			want[k] = append(want[k], v...)
		}
	}
	for _, p := range c.RawParams {
		want[p.Name] = append(want[p.Name], p.Value...)
	}
	type pending struct {
		name string
		idx  int
		p    vfEncParam
	}
	var compressed []pending
	for _, p := range c.EncParams {
		v, _ := vfEncodedValue(p)
		if p.Value.Compression > 1 {
			compressed = append(compressed, pending{p.Name, len(want[p.Name]), p})
			want[p.Name] = append(want[p.Name], "\x00compressed")
			continue
		}
		want[p.Name] = append(want[p.Name], v)
	}
	got := seen.Query
	got.Del("verif-id")
	for _, pc := range compressed {
		vals := got[pc.name]
		if pc.idx >= len(vals) {
			return verifkit.Violf("raw-req-query", "query param %q: %d values, want more (%v)", pc.name, len(vals), got)
		}
		rawVal := []byte(vals[pc.idx])
		if pc.p.Base64 {
			dec, err := base64.URLEncoding.DecodeString(vals[pc.idx])
			if err != nil {
				return verifkit.Violf("raw-req-query", "query param %q is not URL-safe base64: %q", pc.name, vals[pc.idx])
			}
			rawVal = dec
		}
		dec, err := verifkit.IndepDecode(vfCompNames[pc.p.Value.Compression], rawVal)
		if err != nil || !bytes.Equal(dec, pc.p.Value.Data) {
			return verifkit.Violf("raw-req-query", "encoded query param %q decodes to %q (err %v), want %q", pc.name, dec, err, pc.p.Value.Data)
		}
		want[pc.name][pc.idx] = vals[pc.idx]
	}
	if vfValuesStr(got) != vfValuesStr(want) {
		return verifkit.Violf("raw-req-query", "query parameters %s, want %s", vfValuesStr(got), vfValuesStr(want))
	}
	// headers: every listed one with its values in order; nothing of the original request
	wantH := map[string][]string{}
	for _, h := range c.Headers {
		k := http.CanonicalHeaderKey(h.Name)
		wantH[k] = append(wantH[k], h.Value...)
	}
	for k, vals := range wantH {
		if k == "Host" {
			continue
		}
		if fmt.Sprintf("%q", seen.Header[k]) != fmt.Sprintf("%q", vals) {
			return verifkit.Violf("raw-req-header", "header %q: got %q, want %q", k, seen.Header[k], vals)
		}
	}
	for k := range seen.Header {
		if _, ok := wantH[k]; ok {
			continue
		}
		switch k {
		case "User-Agent", "Content-Length", "Transfer-Encoding", "Accept-Encoding", "Connection", "Te", "X-Test-Case-Name":
		default:
			return verifkit.Violf("raw-req-original-leak", "header %q: %q was not listed in the raw request (the built request leaked)", k, seen.Header[k])
		}
	}
	if listed >= 0 && (seen.Length != int64(listed) || len(seen.TE) > 0) {
		return verifkit.Violf("raw-req-header", "the raw request lists Content-Length: %d (%s body) but the server saw content length %d, transfer encoding %q", listed, c.Body, seen.Length, seen.TE)
	}
	if bytes.Contains(seen.Body, []byte("ORIGINAL-REQUEST-DATA")) {
		return verifkit.Violf("raw-req-original-leak", "the body of the request the client would have built reached the server")
	}
	return vfCheckBody(c, seen.Body)
}

func vfValuesStr(v url.Values) string {
	keys := make([]string, 0, len(v))
	for k := range v {
		if len(v[k]) > 0 {
			keys = append(keys, k)
		}
	}
	sort.Strings(keys)
	var sb strings.Builder
	for _, k := range keys {
		fmt.Fprintf(&sb, "%s=%q ", k, v[k])
	}
	return sb.String()
}

func vfCheckBody(r vfRawReq, body []byte) error {
	switch r.Body {
	case "none":
		if len(body) != 0 {
			return verifkit.Violf("raw-req-body", "no body specified but %d bytes were sent", len(body))
		}
	case "unary":
		dec, err := verifkit.IndepDecode(vfCompNames[r.Unary.Compression], body)
		if err != nil || !bytes.Equal(dec, r.Unary.Data) {
			return verifkit.Violf("raw-req-body", "unary body decodes to %q (err %v), want %q", dec, err, r.Unary.Data)
		}
	case "stream":
		rest := body
		for i, it := range r.Stream {
			if len(rest) < 5 {
				return verifkit.Violf("raw-req-body", "stream item %d: body ends early", i)
			}
			if uint32(rest[0]) != it.Flags {
				return verifkit.Violf("raw-req-body", "stream item %d: flags %d, want %d", i, rest[0], it.Flags)
			}
			declared := binary.BigEndian.Uint32(rest[1:5])
			rest = rest[5:]
			var payload []byte
			switch {
			case !it.HasLength:
				if uint64(declared) > uint64(len(rest)) {
					return verifkit.Violf("raw-req-body", "stream item %d: computed length %d exceeds remaining %d", i, declared, len(rest))
				}
				payload, rest = rest[:declared], rest[declared:]
			case it.Compression <= 1:
				if declared != it.Length || len(rest) < len(it.Data) {
					return verifkit.Violf("raw-req-body", "stream item %d: declared %d (want %d) / truncated", i, declared, it.Length)
				}
				payload, rest = rest[:len(it.Data)], rest[len(it.Data):]
			default:
				if declared != it.Length {
					return verifkit.Violf("raw-req-body", "stream item %d: declared %d, want %d", i, declared, it.Length)
				}
				payload, rest = rest, nil
			}
			dec, err := verifkit.IndepDecode(vfCompNames[it.Compression], payload)
			if err != nil || !bytes.Equal(dec, it.Data) {
				return verifkit.Violf("raw-req-body", "stream item %d: payload decodes to %q (err %v), want %q", i, dec, err, it.Data)
			}
		}
		if len(rest) != 0 {
			return verifkit.Violf("raw-req-body", "%d extra bytes after the last item", len(rest))
		}
	}
	return nil
}

func vfGenItem(t *rapid.T, label string, allowExplicitCompressed bool) vfItem {
	it := vfItem{Flags: uint32(rapid.IntRange(0, 255).Draw(t, label+"-flags")), Kind: rapid.SampledFrom([]string{"binary", "text"}).Draw(t, label+"-kind")}
	if it.Kind == "text" {
		it.Data = []byte(rapid.StringN(0, 30, -1).Draw(t, label+"-text"))
	} else {
		it.Data = rapid.SliceOfN(rapid.Byte(), 0, 50).Draw(t, label+"-data")
	}
	it.Compression = int32(rapid.IntRange(0, 6).Draw(t, label+"-comp"))
	if rapid.IntRange(0, 2).Draw(t, label+"-haslen") == 0 && (it.Compression <= 1 || allowExplicitCompressed) {
		it.HasLength = true
		it.Length = uint32(rapid.SampledFrom([]int{0, 1, len(it.Data), len(it.Data) + 7, 1 << 20}).Draw(t, label+"-len"))
	}
	return it
}

func TestVerifC17RawRequest(t *testing.T) {
	if err := vfEnsureRecorders(); err != nil {
		t.Fatalf("cannot start recording servers: %v", err)
	}
	verifkit.Run(t, "C17RawRequest", verifkit.Spec[vfRawReq]{
		Gen: func(t *rapid.T) vfRawReq {
			c := vfRawReq{H2: rapid.Bool().Draw(t, "h2"), Verb: rapid.SampledFrom([]string{"POST", "POST", "GET", "PUT", "post", "Patch", "QUERY", "Query"}).Draw(t, "verb")}
			c.Path = rapid.SampledFrom([]string{"/connectrpc.conformance.v1.ConformanceService/Unary", "/some/other/path", "/",
				// (paths a URL library would "clean up": they go out as given)
				"/Svc/../Svc/Unary", "/./a/./b", "/a/b/..", "/a//b", "/a/b/",
				// (percent-encoded reserved characters stay encoded)
				"/svc%2Fv1/Method", "/svc/What%3FNow", "/a%20b/c%25"}).Draw(t, "path")
			c.URIQuery = rapid.SampledFrom([]string{"", "", "a=1", "a=1&b=two&a=3", "encoding=proto&connect=v1"}).Draw(t, "uriQuery")
			names := []string{"a", "b", "message", "encoding", "x y", "base64"}
			for i, n := 0, rapid.IntRange(0, 3).Draw(t, "nraw"); i < n; i++ {
				p := vfHdr{Name: rapid.SampledFrom(names).Draw(t, "rawname")}
				for j, k := 0, rapid.IntRange(1, 2).Draw(t, "nrawv"); j < k; j++ {
					p.Value = append(p.Value, rapid.SampledFrom([]string{"1", "two words", "a&b=c", "%41", "é", ""}).Draw(t, "rawv"))
				}
				c.RawParams = append(c.RawParams, p)
			}
			for i, n := 0, rapid.IntRange(0, 2).Draw(t, "nenc"); i < n; i++ {
				it := vfGenItem(t, "enc", false)
				it.HasLength = false
				b64 := rapid.Bool().Draw(t, "b64")
				if it.Compression > 1 || it.Kind == "binary" {
					b64 = true // binary/compressed bytes are carried base64-encoded
				}
				c.EncParams = append(c.EncParams, vfEncParam{Name: rapid.SampledFrom(names).Draw(t, "encname"), Value: it, Base64: b64})
			}
			hdrNames := []string{"Content-Type", "connect-protocol-version", "X-Custom", "x-multi", "grpc-timeout", "Content-Encoding"}
			for i, n := 0, rapid.IntRange(0, 4).Draw(t, "nhdr"); i < n; i++ {
				h := vfHdr{Name: rapid.SampledFrom(hdrNames).Draw(t, "hname")}
				for j, k := 0, rapid.IntRange(1, 2).Draw(t, "nhv"); j < k; j++ {
					h.Value = append(h.Value, rapid.SampledFrom([]string{"application/proto", "1", "v a l", "gzip", "10m"}).Draw(t, "hv"))
				}
				c.Headers = append(c.Headers, h)
			}
			c.ListLength = rapid.IntRange(0, 2).Draw(t, "listLength") == 0
			if rapid.IntRange(0, 2).Draw(t, "otherRPC") == 0 {
				c.RPC = rapid.IntRange(1, 4).Draw(t, "rpc")
			}
			c.Body = rapid.SampledFrom([]string{"none", "unary", "stream"}).Draw(t, "body")
			switch c.Body {
			case "unary":
				c.Unary = vfGenItem(t, "unary", false)
				c.Unary.HasLength = false
			case "stream":
				n := rapid.IntRange(0, 4).Draw(t, "nitems")
				for i := 0; i < n; i++ {
					c.Stream = append(c.Stream, vfGenItem(t, "item", i == n-1))
				}
			}
			return c
		},
		Check: vfRawReqCheck,
		Classify: func(c vfRawReq) ([]string, bool) {
			nt := c.URIQuery != "" && (len(c.RawParams)+len(c.EncParams)) > 0
			for _, it := range c.Stream {
				if (it.HasLength && int(it.Length) != len(it.Data)) || it.Compression >= 2 {
					nt = nt || len(c.Stream) >= 2
				}
			}
			cl := []string{"body:" + c.Body, c.Verb}
			if c.ListLength && vfKnownBodyLen(c) > 0 {
				cl = append(cl, "content-length-listed")
			}
			return cl, nt
		},
	})
}
