//go:build verif

package referenceclient

import (
	"context"
	"encoding/base64"
	"encoding/json"
	"fmt"
	"io"
	"net/http"
	"sort"
	"strings"
	"testing"

	"connectrpc.com/conformance/internal"
	conformancev1 "connectrpc.com/conformance/internal/gen/proto/go/connectrpc/conformance/v1"
	"connectrpc.com/conformance/internal/tracer"
	"connectrpc.com/conformance/internal/verifkit"
	"connectrpc.com/conformance/internal/verifsrv"
	statuspb "google.golang.org/genproto/googleapis/rpc/status"
	"google.golang.org/protobuf/encoding/protojson"
	"google.golang.org/protobuf/proto"
	"google.golang.org/protobuf/types/known/anypb"
	"pgregory.net/rapid"
)

// ---- error specs and spec-conformant renderers (independent of the repo's encoders) ----

type vfDetail struct {
	Kind  string `json:"kind"` // header, payload, reqinfo
	Text  string `json:"text"`
	Debug bool   `json:"debug"` // include the optional "debug" member
	// DebugAny: the debug member is the JSON form of the Any (with "@type", as connect-go renders it): 1 with the
	// default type-URL prefix, 2 with a prefix that has slashes of its own (only the last segment is the type name)
	DebugAny int `json:"debugAny,omitempty"`
}

type vfMeta struct {
	Name  string   `json:"name"`
	Value []string `json:"value"`
}

type vfErrSpec struct {
	Code    int        `json:"code"` // 0 = OK (trailer forms only), 1..16
	HasMsg  bool       `json:"hasMsg"`
	Msg     string     `json:"msg"`
	Details []vfDetail `json:"details"`
	Meta    []vfMeta   `json:"meta"`
}

var vfCodeNames = []string{"", "canceled", "unknown", "invalid_argument", "deadline_exceeded", "not_found", "already_exists", "permission_denied",
	"resource_exhausted", "failed_precondition", "aborted", "out_of_range", "unimplemented", "internal", "unavailable", "data_loss", "unauthenticated"}

func (d vfDetail) message() proto.Message {
	switch d.Kind {
	case "header":
		return &conformancev1.Header{Name: "x-detail", Value: []string{d.Text}}
	case "payload":
		return &conformancev1.ConformancePayload{Data: []byte(d.Text)}
	default:
		return &conformancev1.ConformancePayload_RequestInfo{RequestHeaders: []*conformancev1.Header{{Name: d.Text}}}
	}
}

func vfJSONStr(s string) string {
	b, _ := json.Marshal(s)
	return string(b)
}

func vfPctEncode(s string) string {
	var sb strings.Builder
	for i := 0; i < len(s); i++ {
		c := s[i]
		if c < 0x20 || c > 0x7e || c == '%' {
			fmt.Fprintf(&sb, "%%%02X", c)
		} else {
			sb.WriteByte(c)
		}
	}
	return sb.String()
}

// vfRenderConnectError renders the Connect error JSON; mal selects one malformation.
func vfRenderConnectError(e vfErrSpec, mal string) string {
	var members []string
	code := vfJSONStr(vfCodeNames[e.Code])
	switch mal {
	case "code-missing":
		code = ""
	case "code-unknown":
		code = `"bogus_code"`
	case "code-case":
		code = vfJSONStr(strings.ToUpper(vfCodeNames[e.Code]))
	case "code-number":
		code = fmt.Sprint(e.Code)
	}
	if code != "" {
		members = append(members, `"code":`+code)
	}
	if mal == "dup-top" {
		members = append(members, `"code":`+code)
	}
	if e.HasMsg || mal == "message-number" {
		if mal == "message-number" {
			members = append(members, `"message":42`)
		} else {
			members = append(members, `"message":`+vfJSONStr(e.Msg))
		}
	}
	if mal == "unknown-key" {
		members = append(members, `"extra":true`)
	}
	if mal == "details-object" {
		members = append(members, `"details":{}`)
	} else if len(e.Details) > 0 {
		var ds []string
		for i, d := range e.Details {
			msg := d.message()
			data, _ := proto.Marshal(msg)
			typ := string(msg.ProtoReflect().Descriptor().FullName())
			var dm []string
			first := i == 0
			typJSON := vfJSONStr(typ)
			valJSON := vfJSONStr(base64.RawStdEncoding.EncodeToString(data))
			if first {
				switch mal {
				case "detail-type-missing":
					typJSON = ""
				case "detail-type-invalid":
					typJSON = `"not a type name!"`
				case "detail-type-number":
					typJSON = "7"
				case "detail-type-null":
					typJSON = "null"
				case "detail-value-null":
					valJSON = "null"
				case "detail-value-missing":
					valJSON = ""
				case "detail-value-padded":
					padded := base64.StdEncoding.EncodeToString(append(data, 0)) // force padding
					if !strings.HasSuffix(padded, "=") {
						padded = base64.StdEncoding.EncodeToString(append(data, 0, 0))
					}
					valJSON = vfJSONStr(padded)
				case "detail-value-alphabet":
					valJSON = `"@@@not-base64@@@"`
				}
			}
			if typJSON != "" {
				dm = append(dm, `"type":`+typJSON)
			}
			if first && mal == "dup-nested" {
				dm = append(dm, `"type":`+typJSON)
			}
			if valJSON != "" {
				dm = append(dm, `"value":`+valJSON)
			}
			if first && mal == "detail-unknown-key" {
				dm = append(dm, `"other":1`)
			}
			if first && mal == "detail-debug-null" {
				dm = append(dm, `"debug":null`)
			} else if d.Debug || (first && (mal == "detail-debug-disagrees" || mal == "detail-type-null" || mal == "detail-value-null")) {
				dbg, _ := protojson.Marshal(msg)
				if first && mal == "detail-debug-disagrees" {
					other := proto.Clone(msg)
					switch o := other.(type) {
					case *conformancev1.Header:
						o.Name += "-different"
					case *conformancev1.ConformancePayload:
						o.Data = append(o.Data, 'X')
					case *conformancev1.ConformancePayload_RequestInfo:
						o.TimeoutMs = proto.Int64(12345)
					}
					dbg, _ = protojson.Marshal(other)
				}
				if d.DebugAny > 0 && !(first && mal == "detail-debug-disagrees") {
					prefix := []string{"", "type.googleapis.com/", "example.com/types/v1/"}[d.DebugAny%3]
					if asAny, err := protojson.Marshal(&anypb.Any{TypeUrl: prefix + typ, Value: data}); err == nil && prefix != "" {
						dbg = asAny
					}
				}
				dm = append(dm, `"debug":`+string(dbg))
			}
			ds = append(ds, "{"+strings.Join(dm, ",")+"}")
		}
		members = append(members, `"details":[`+strings.Join(ds, ",")+`]`)
	}
	switch mal {
	case "not-object":
		return `["code"]`
	case "null":
		return `null`
	case "truncated":
		s := "{" + strings.Join(members, ",") + "}"
		return s[:len(s)-1]
	}
	return "{" + strings.Join(members, ",") + "}"
}

func vfRenderEndStream(e vfErrSpec, mal string) string {
	var members []string
	if e.Code != 0 {
		switch mal {
		case "error-string":
			members = append(members, `"error":"oops"`)
		default:
			inner := ""
			if strings.HasPrefix(mal, "err:") {
				inner = strings.TrimPrefix(mal, "err:")
			}
			members = append(members, `"error":`+vfRenderConnectError(e, inner))
		}
	}
	if mal == "es-unknown-key" {
		members = append(members, `"trailers":{}`)
	}
	if mal == "metadata-array" {
		members = append(members, `"metadata":[]`)
	} else if len(e.Meta) > 0 || strings.HasPrefix(mal, "meta-") {
		meta := append([]vfMeta{}, e.Meta...)
		if len(meta) == 0 {
			meta = []vfMeta{{Name: "x-m", Value: []string{"v"}}}
		}
		var ms []string
		for i, m := range meta {
			name := m.Name
			var vals []string
			for _, v := range m.Value {
				vals = append(vals, vfJSONStr(v))
			}
			valJSON := "[" + strings.Join(vals, ",") + "]"
			if i == 0 {
				switch mal {
				case "meta-name-invalid":
					name = "bad name"
				case "meta-name-nonascii":
					name = "naïve"
				case "meta-value-string":
					valJSON = `"v"`
				case "meta-value-number":
					valJSON = `[1]`
				case "meta-value-invalid":
					valJSON = `["line\nbreak"]`
				case "meta-value-nul":
					valJSON = `["nul\u0000"]`
				}
			}
			ms = append(ms, vfJSONStr(name)+":"+valJSON)
			if i == 0 && mal == "meta-dup" {
				ms = append(ms, vfJSONStr(name)+":"+valJSON)
			}
		}
		members = append(members, `"metadata":{`+strings.Join(ms, ",")+`}`)
	}
	if mal == "es-dup-top" {
		members = append(members, `"metadata":{}`, `"metadata":{}`)
	}
	switch mal {
	case "es-array":
		return `[]`
	case "es-garbage":
		return `{"error":`
	}
	return "{" + strings.Join(members, ",") + "}"
}

// vfStatusFields returns grpc-status, grpc-message (nil if omitted) and details-bin (nil if none).
func vfStatusFields(e vfErrSpec, mal string) (status string, msg *string, details *string) {
	status = fmt.Sprint(e.Code)
	if e.HasMsg {
		m := vfPctEncode(e.Msg)
		msg = &m
	}
	if len(e.Details) > 0 || strings.HasPrefix(mal, "details-") {
		st := &statuspb.Status{Code: int32(e.Code), Message: e.Msg}
		if !e.HasMsg {
			st.Message = ""
		}
		for _, d := range e.Details {
			a, _ := anypb.New(d.message())
			st.Details = append(st.Details, a)
		}
		switch mal {
		case "details-code-disagrees":
			st.Code = int32(e.Code%16 + 1)
		case "details-message-disagrees":
			st.Message += " (different)"
			if msg == nil {
				m := vfPctEncode(e.Msg)
				msg = &m
			}
		case "details-message-edge-lf", "details-message-edge-nbsp":
			st.Message = "verif message" + map[string]string{"details-message-edge-lf": "\n", "details-message-edge-nbsp": "\u00a0"}[mal]
			m := vfPctEncode("verif message")
			msg = &m
		case "details-with-ok":
			status = "0"
			st.Code = 0
			if len(st.Details) == 0 {
				a, _ := anypb.New(&conformancev1.Header{Name: "d"})
				st.Details = append(st.Details, a)
			}
			msg = nil
			st.Message = ""
		}
		data, _ := proto.Marshal(st)
		d := base64.RawStdEncoding.EncodeToString(data)
		switch mal {
		case "details-padded":
			for len(data)%3 == 0 {
				st.Message += " "
				if msg != nil {
					m := vfPctEncode(st.Message)
					msg = &m
				}
				data, _ = proto.Marshal(st)
			}
			d = base64.StdEncoding.EncodeToString(data)
		case "details-not-base64":
			d = "!!!!"
		case "details-not-proto":
			d = base64.RawStdEncoding.EncodeToString([]byte{0xff, 0xff, 0xff, 0x01})
		}
		details = &d
	}
	switch mal {
	case "status-missing":
		status = ""
	case "status-text":
		status = "internal"
	case "status-range":
		status = "17"
	case "status-negative":
		status = "-1"
	case "message-bad-hex":
		m := "bad%zzescape"
		msg = &m
	case "message-incomplete":
		m := "incomplete%4"
		msg = &m
	case "message-unescaped":
		m := "caf\xc3\xa9"
		msg = &m
	case "message-unescaped-del":
		m := "del\x7f"
		msg = &m
	case "message-with-ok":
		status = "0"
		m := "not empty"
		msg = &m
		details = nil
	}
	return status, msg, details
}

func vfRenderGRPCWebTrailers(e vfErrSpec, mal string) string {
	status, msg, details := vfStatusFields(e, mal)
	type line struct{ k, v string }
	var lines []line
	if status != "" {
		lines = append(lines, line{"grpc-status", status})
	}
	if mal == "status-multiple" {
		lines = append(lines, line{"grpc-status", status})
	}
	if mal == "message-edge-nbsp" || mal == "message-edge-nel" {
		// an unencoded U+00A0 / U+0085 as the last (or first) character of the message
		m, edge := "m", map[string]string{"message-edge-nbsp": "\u00a0", "message-edge-nel": "\u0085"}[mal]
		if msg != nil {
			m = *msg
		}
		if len(m)%2 == 0 {
			m = edge + m
		} else {
			m += edge
		}
		msg, details = &m, nil
	}
	if msg != nil {
		lines = append(lines, line{"grpc-message", *msg})
	}
	if mal == "message-multiple" {
		lines = append(lines, line{"grpc-message", "again"}, line{"grpc-message", "again"})
	}
	if details != nil {
		lines = append(lines, line{"grpc-status-details-bin", *details})
	}
	for _, m := range e.Meta {
		for _, v := range m.Value {
			lines = append(lines, line{strings.ToLower(m.Name), v})
		}
	}
	var sb strings.Builder
	eol := "\r\n"
	if mal == "lf-only" {
		eol = "\n"
	}
	for i, l := range lines {
		key, val := l.k, l.v
		if i == 0 {
			switch mal {
			case "upper-key":
				key = strings.ToUpper(key[:1]) + key[1:]
			case "no-colon":
				sb.WriteString("linewithoutcolon" + eol)
			case "bad-name":
				sb.WriteString("bad name: v" + eol)
			case "bad-value":
				sb.WriteString("x-bad: ctl\x01char" + eol)
			case "cr-cr-lf":
				sb.WriteString("x-bad: v\r" + eol)
			case "value-lead-ff":
				sb.WriteString("x-bad: \fv" + eol)
			case "value-trail-vt":
				sb.WriteString("x-bad: v\v " + eol)
			case "blank-inside":
				if len(lines) > 1 {
					defer func() {}()
				}
			}
		}
		if i == 0 && mal == "lf-first" {
			sb.WriteString(key + ": " + val + "\n")
		} else {
			sb.WriteString(key + ": " + val + eol)
		}
		if i == 0 && mal == "blank-inside" {
			sb.WriteString(eol)
		}
		if i == 0 && mal == "obs-fold" {
			sb.WriteString(" folded continuation" + eol)
		}
	}
	out := sb.String()
	switch mal {
	case "no-final-crlf":
		out = strings.TrimSuffix(out, "\r\n")
	case "extra-blank-end":
		out += "\r\n"
	}
	return out
}

func vfRenderGRPCHeaders(e vfErrSpec, mal string) http.Header {
	status, msg, details := vfStatusFields(e, mal)
	h := http.Header{}
	if status != "" {
		h.Add("Grpc-Status", status)
	}
	if mal == "status-multiple" {
		h.Add("Grpc-Status", status)
	}
	if msg != nil {
		h.Add("Grpc-Message", *msg)
	}
	if mal == "message-multiple" {
		h.Add("Grpc-Message", "again")
		h.Add("Grpc-Message", "again")
	}
	if details != nil {
		h.Add("Grpc-Status-Details-Bin", *details)
	}
	if mal == "details-multiple" && details != nil {
		h.Add("Grpc-Status-Details-Bin", *details)
	}
	for _, m := range e.Meta {
		for _, v := range m.Value {
			h.Add(m.Name, v)
		}
	}
	return h
}

// ---- malformation catalogue: operator -> keyword that must appear in the feedback ----

var vfConnectErrorMals = map[string]string{
	"code-missing": `missing required key "code"`, "code-unknown": "not a recognized error code name", "code-case": "not a recognized error code name",
	"code-number": "code", "dup-top": "duplicate key", "message-number": "message", "unknown-key": `invalid key "extra"`,
	"details-object": "details", "detail-type-missing": `missing required key "type"`, "detail-type-invalid": "not a valid type name",
	"detail-type-number": "type", "detail-value-missing": `missing required key "value"`, "detail-value-padded": "not valid unpadded base64",
	"detail-value-alphabet": "not valid unpadded base64", "dup-nested": "duplicate key", "detail-unknown-key": `invalid key "other"`,
	"detail-type-null": `"type" is a <nil>`, "detail-value-null": `"value" is a <nil>`, "detail-debug-null": "VERIF-ANY-OR-NONE",
	"detail-debug-disagrees": "debug data does not match value", "not-object": "connect error JSON", "null": "connect error JSON", "truncated": "connect error JSON",
}

var vfEndStreamMals = map[string]string{
	"error-string": "error", "es-unknown-key": `invalid key "trailers"`, "metadata-array": `metadata`,
	"meta-name-invalid": "not a valid HTTP field name", "meta-name-nonascii": "not a valid HTTP field name", "meta-value-string": "metadata",
	"meta-value-number": "metadata", "meta-value-invalid": "not a valid HTTP field value", "meta-value-nul": "not a valid HTTP field value",
	"meta-dup": "duplicate key", "es-dup-top": "duplicate key", "es-array": "connect end stream JSON", "es-garbage": "connect end stream JSON",
	"err:code-missing": `missing required key "code"`, "err:code-unknown": "not a recognized error code name", "err:unknown-key": `invalid key "extra"`, "err:dup-top": "duplicate key",
}

var vfTrailerBlockMals = map[string]string{
	"lf-only": "LF line ending instead of CRLF", "no-final-crlf": "should end with CRLF", "blank-inside": "blank line", "extra-blank-end": "extra blank line",
	"upper-key": "non-lower-case field key", "no-colon": "missing colon", "bad-name": "name contains invalid characters", "bad-value": "value contains invalid characters",
	"obs-fold": "obsolete line-folding",
	// malformations that sit at the edge of a value, where only space and tab may be skipped
	"cr-cr-lf": "value contains invalid characters", "value-lead-ff": "value contains invalid characters", "value-trail-vt": "value contains invalid characters",
	"message-edge-nbsp": "VERIF-ANY", "message-edge-nel": "VERIF-ANY",
	// only the first line ends in a bare LF, the others in CRLF
	"lf-first": "LF line ending instead of CRLF",
}

var vfStatusMals = map[string]string{
	"status-missing": "did not include 'grpc-status'", "status-multiple": "multiple 'grpc-status'", "status-text": "invalid 'grpc-status' value", "status-range": "should be >= 0",
	"status-negative": "should be >= 0", "message-bad-hex": "should be hexadecimal digit", "message-incomplete": "incomplete percent-encoded", "message-unescaped": "should be percent-encoded",
	"message-unescaped-del": "should be percent-encoded", "message-with-ok": "non-empty 'grpc-message' value with zero", "message-multiple": "multiple 'grpc-message'",
	"details-padded": "with padding", "details-not-base64": "incorrectly-encoded 'grpc-status-details-bin'", "details-not-proto": "un-parseable",
	"details-code-disagrees": "disagrees with 'grpc-status'", "details-message-disagrees": "disagrees with 'grpc-message'", "details-with-ok": "non-empty details",
	// the two messages differ only by white space at the edge that is content (a line feed, U+00A0), not padding
	"details-message-edge-lf": "disagrees with 'grpc-message'", "details-message-edge-nbsp": "disagrees with 'grpc-message'",
}

type vfC13Case struct {
	Err  vfErrSpec `json:"err"`
	Form string    `json:"form"` // connect-error, end-stream, grpc-web, grpc
	Mal  string    `json:"mal"`  // "" = well-formed
	Via  string    `json:"via"`  // direct or trace (through examineWireDetails)
	// TraceErr (via trace): the exchange failed after the end-of-stream message had arrived in full (the peer went
	// away before the last chunk, the call was cancelled): what arrived is examined all the same
	TraceErr bool `json:"traceErr,omitempty"`
}

func vfExamine(c vfC13Case) []string {
	p := &internal.SimplePrinter{}
	switch c.Form {
	case "connect-error":
		body := vfRenderConnectError(c.Err, c.Mal)
		if c.Via == "trace" {
			ctx := withWireCapture(context.Background())
			wrapper, _ := ctx.Value(wireCtxKey{}).(*wireWrapper)
			wrapper.buf.WriteString(body)
			setWireTrace(ctx, tracer.Trace{TestName: "t", Response: &http.Response{StatusCode: 400, Header: http.Header{"Content-Type": {"application/json"}}}})
			examineWireDetails(ctx, p)
		} else {
			examineConnectError([]byte(body), p)
		}
	case "end-stream":
		body := vfRenderEndStream(c.Err, c.Mal)
		if c.Via == "trace" {
			ctx := withWireCapture(context.Background())
			setWireTrace(ctx, tracer.Trace{TestName: "t", Response: &http.Response{StatusCode: 200, Header: http.Header{"Content-Type": {"application/connect+proto"}}},
				Events: []tracer.Event{&tracer.ResponseBodyEndStream{Content: body}}, Err: map[bool]error{true: io.ErrUnexpectedEOF, false: nil}[c.TraceErr]})
			examineWireDetails(ctx, p)
		} else {
			examineConnectEndStream([]byte(body), p)
		}
	case "grpc-web":
		block := vfRenderGRPCWebTrailers(c.Err, c.Mal)
		if c.Via == "trace" {
			ctx := withWireCapture(context.Background())
			setWireTrace(ctx, tracer.Trace{TestName: "t", Response: &http.Response{StatusCode: 200, Header: http.Header{"Content-Type": {"application/grpc-web+proto"}}},
				Events: []tracer.Event{&tracer.ResponseBodyEndStream{Content: block}}, Err: map[bool]error{true: io.ErrUnexpectedEOF, false: nil}[c.TraceErr]})
			examineWireDetails(ctx, p)
		} else {
			checkGRPCStatus(examineGRPCEndStream(block, p), p)
		}
	case "grpc":
		h := vfRenderGRPCHeaders(c.Err, c.Mal)
		if c.Via == "trace" {
			ctx := withWireCapture(context.Background())
			setWireTrace(ctx, tracer.Trace{TestName: "t", Response: &http.Response{StatusCode: 200, Header: http.Header{"Content-Type": {"application/grpc"}}, Trailer: h},
				Events: []tracer.Event{&tracer.ResponseBodyData{Envelope: &tracer.Envelope{Len: 1}, Len: 1}}})
			examineWireDetails(ctx, p)
		} else {
			checkGRPCStatus(h, p)
		}
	case "http-trailers":
		ctx := withWireCapture(context.Background())
		ct := "application/proto"
		if c.Mal == "on-grpc-web" {
			ct = "application/grpc-web+proto"
		}
		setWireTrace(ctx, tracer.Trace{TestName: "t", Response: &http.Response{StatusCode: 200, Header: http.Header{"Content-Type": {ct}}, Trailer: http.Header{"X-T": {"v"}}}})
		examineWireDetails(ctx, p)
	}
	return p.Messages
}

func vfC13Check(c vfC13Case) error {
	msgs := vfExamine(c)
	if c.Mal == "" {
		if len(msgs) > 0 {
			return verifkit.Violf("wellformed-flagged:"+c.Form, "well-formed %s (via %s) drew feedback %q; error %+v", c.Form, c.Via, msgs, c.Err)
		}
		return nil
	}
	var want string
	switch c.Form {
	case "connect-error":
		want = vfConnectErrorMals[c.Mal]
	case "end-stream":
		want = vfEndStreamMals[c.Mal]
	case "grpc-web":
		if w, ok := vfTrailerBlockMals[c.Mal]; ok {
			want = w
		} else {
			want = vfStatusMals[c.Mal]
		}
	case "grpc":
		want = vfStatusMals[c.Mal]
		if c.Mal == "details-multiple" {
			want = "multiple 'grpc-status-details-bin'"
		}
	case "http-trailers":
		want = "HTTP trailers but should not have any"
	}
	joined := strings.Join(msgs, "\n")
	if want == "VERIF-ANY-OR-NONE" {
		return nil // (a null debug value: must not crash; whether it is reported is the examiner's choice)
	}
	if want == "VERIF-ANY" && len(msgs) > 0 {
		return nil // (which of the checks names it is the examiner's choice)
	}
	if len(msgs) == 0 {
		return verifkit.Violf("malformed-accepted:"+c.Form+":"+c.Mal, "%s with malformation %q (via %s) drew no feedback; error %+v", c.Form, c.Mal, c.Via, c.Err)
	}
	if !strings.Contains(joined, want) {
		return verifkit.Violf("malformed-unnamed:"+c.Form+":"+c.Mal, "%s with malformation %q: feedback does not name it (want %q): %q", c.Form, c.Mal, want, msgs)
	}
	return nil
}

var vfMetaNames = []string{"x-custom", "x-a", "X-Mixed-Case", "y-data", "x.dotted_name", "x-t!#$%&'*+-.^_`|~"}
var vfMetaValues = []string{"v", "two words", "tab\there", "x;y=1, z", "", "1", "caf\xc3\xa9", "~!@#$%^&*()"}

func vfGenErrSpec(t *rapid.T, allowOK bool) vfErrSpec {
	e := vfErrSpec{Code: rapid.IntRange(1, 16).Draw(t, "code")}
	if allowOK && rapid.IntRange(0, 9).Draw(t, "ok") == 0 {
		e.Code = 0
		return e
	}
	e.HasMsg = rapid.IntRange(0, 3).Draw(t, "hasMsg") != 0
	if e.HasMsg {
		e.Msg = verifkit.GenErrMessage(t, "msg")
	}
	for i, n := 0, rapid.IntRange(0, 3).Draw(t, "ndetails"); i < n; i++ {
		e.Details = append(e.Details, vfDetail{Kind: rapid.SampledFrom([]string{"header", "payload", "reqinfo"}).Draw(t, "dkind"),
			Text: rapid.SampledFrom([]string{"", "d", "détail", "with \"quotes\""}).Draw(t, "dtext"), Debug: rapid.Bool().Draw(t, "debug"), DebugAny: rapid.IntRange(0, 2).Draw(t, "debugAny")})
	}
	names := rapid.Permutation(vfMetaNames).Draw(t, "metanames")
	for i, n := 0, rapid.IntRange(0, 3).Draw(t, "nmeta"); i < n; i++ {
		m := vfMeta{Name: names[i]}
		for j, k := 0, rapid.IntRange(1, 2).Draw(t, "nmv"); j < k; j++ {
			m.Value = append(m.Value, rapid.SampledFrom(vfMetaValues).Draw(t, "mv"))
		}
		e.Meta = append(e.Meta, m)
	}
	return e
}

func vfSortedKeys(m map[string]string) []string {
	var out []string
	for k := range m {
		out = append(out, k)
	}
	sort.Strings(out)
	return out
}

func TestVerifC13WellFormed(t *testing.T) {
	verifkit.Run(t, "C13WellFormed", verifkit.Spec[vfC13Case]{
		Gen: func(t *rapid.T) vfC13Case {
			form := rapid.SampledFrom([]string{"connect-error", "end-stream", "grpc-web", "grpc"}).Draw(t, "form")
			e := vfGenErrSpec(t, form == "grpc" || form == "grpc-web" || form == "end-stream")
			return vfC13Case{Err: e, Form: form, Via: rapid.SampledFrom([]string{"direct", "trace"}).Draw(t, "via"), TraceErr: rapid.IntRange(0, 3).Draw(t, "traceErr") == 0}
		},
		Check: vfC13Check,
		Classify: func(c vfC13Case) ([]string, bool) {
			esc := false
			for i := 0; i < len(c.Err.Msg); i++ {
				if ch := c.Err.Msg[i]; ch < 0x20 || ch > 0x7e || ch == '%' || ch == '"' {
					esc = true
				}
			}
			return []string{c.Form, c.Via}, esc || len(c.Err.Details) > 0
		},
	})
}

func TestVerifC13Malformed(t *testing.T) {
	verifkit.Run(t, "C13Malformed", verifkit.Spec[vfC13Case]{
		Gen: func(t *rapid.T) vfC13Case {
			form := rapid.SampledFrom([]string{"connect-error", "end-stream", "grpc-web", "grpc", "http-trailers"}).Draw(t, "form")
			e := vfGenErrSpec(t, false)
			c := vfC13Case{Err: e, Form: form, Via: rapid.SampledFrom([]string{"direct", "trace"}).Draw(t, "via"), TraceErr: rapid.IntRange(0, 3).Draw(t, "traceErr") == 0}
			switch form {
			case "connect-error":
				c.Mal = rapid.SampledFrom(vfSortedKeys(vfConnectErrorMals)).Draw(t, "mal")
				if strings.HasPrefix(c.Mal, "detail-") || c.Mal == "dup-nested" {
					if len(c.Err.Details) == 0 {
						c.Err.Details = []vfDetail{{Kind: "header", Text: "d"}}
					}
				}
				if c.Mal == "details-object" {
					c.Err.Details = nil
				}
			case "end-stream":
				c.Mal = rapid.SampledFrom(vfSortedKeys(vfEndStreamMals)).Draw(t, "mal")
			case "grpc-web":
				all := append(vfSortedKeys(vfTrailerBlockMals), vfSortedKeys(vfStatusMals)...)
				c.Mal = rapid.SampledFrom(all).Draw(t, "mal")
			case "grpc":
				c.Mal = rapid.SampledFrom(append(vfSortedKeys(vfStatusMals), "details-multiple")).Draw(t, "mal")
				if c.Mal == "details-multiple" && len(c.Err.Details) == 0 {
					c.Err.Details = []vfDetail{{Kind: "payload", Text: "d"}}
				}
			case "http-trailers":
				c.Mal = rapid.SampledFrom([]string{"on-connect-unary", "on-grpc-web"}).Draw(t, "mal")
				c.Via = "trace"
			}
			if c.Form == "grpc" && c.Mal == "status-missing" && len(c.Err.Meta) == 0 {
				// a trailer set that is empty altogether is not examined at all
				c.Err.Meta = []vfMeta{{Name: "x-other", Value: []string{"v"}}}
			}
			if c.Mal == "details-message-disagrees" || c.Mal == "message-with-ok" {
				c.Err.HasMsg = true
			}
			return c
		},
		Check:    vfC13Check,
		Classify: func(c vfC13Case) ([]string, bool) { return []string{c.Form + ":" + c.Mal}, true },
	})
}

// ---- robustness: arbitrary bytes never crash an examiner ----

type vfC13Bytes struct {
	Data []byte `json:"data"`
}

func vfExamineBytes(data []byte) {
	p := &internal.SimplePrinter{}
	examineConnectError(data, p)
	examineConnectEndStream(data, p)
	checkGRPCStatus(examineGRPCEndStream(string(data), p), p)
	h := http.Header{}
	parts := strings.SplitN(string(data), "\x00", 3)
	h.Add("Grpc-Status", parts[0])
	if len(parts) > 1 {
		h.Add("Grpc-Message", parts[1])
	}
	if len(parts) > 2 {
		h.Add("Grpc-Status-Details-Bin", parts[2])
	}
	checkGRPCStatus(h, p)
	checkBinaryMetadata("trailers", []*conformancev1.Header{{Name: "x-bin", Value: []string{string(data)}}}, p)
	_, _ = checkNoDuplicateKeys("", json.NewDecoder(strings.NewReader(string(data))))
}

func TestVerifC13Bytes(t *testing.T) {
	verifkit.Run(t, "C13Bytes", verifkit.Spec[vfC13Bytes]{
		Gen: func(t *rapid.T) vfC13Bytes {
			switch rapid.IntRange(0, 2).Draw(t, "kind") {
			case 0:
				return vfC13Bytes{Data: rapid.SliceOfN(rapid.Byte(), 0, 120).Draw(t, "bytes")}
			case 1:
				// mutate a valid rendering
				e := vfGenErrSpec(t, true)
				var s string
				switch rapid.IntRange(0, 2).Draw(t, "form") {
				case 0:
					if e.Code == 0 {
						e.Code = 3
					}
					s = vfRenderConnectError(e, "")
				case 1:
					s = vfRenderEndStream(e, "")
				default:
					s = vfRenderGRPCWebTrailers(e, "")
				}
				b := []byte(s)
				for i, n := 0, rapid.IntRange(1, 4).Draw(t, "nmut"); i < n && len(b) > 0; i++ {
					pos := rapid.IntRange(0, len(b)-1).Draw(t, "pos")
					switch rapid.IntRange(0, 2).Draw(t, "mut") {
					case 0:
						b[pos] = rapid.Byte().Draw(t, "b")
					case 1:
						b = append(b[:pos], b[pos+1:]...)
					default:
						b = append(b[:pos], append([]byte{rapid.SampledFrom([]byte{'{', '}', '[', ']', '"', ',', ':', '\\', '\n', '\r', '%', 0}).Draw(t, "ins")}, b[pos:]...)...)
					}
				}
				return vfC13Bytes{Data: b}
			default:
				return vfC13Bytes{Data: []byte(rapid.StringOfN(rapid.RuneFrom([]rune(`{}[]":,\ntrue1null%4f`+"\r\n\x00 ")), 0, 60, -1).Draw(t, "jsonish"))}
			}
		},
		Check: func(c vfC13Bytes) error {
			vfExamineBytes(c.Data) // a panic is converted into a violation by the runner
			return nil
		},
		Classify: func(c vfC13Bytes) ([]string, bool) { return nil, len(c.Data) > 0 },
	})
}

func FuzzVerifC13Examiners(f *testing.F) {
	e := vfErrSpec{Code: 13, HasMsg: true, Msg: "boom %", Details: []vfDetail{{Kind: "header", Text: "d", Debug: true}}, Meta: []vfMeta{{Name: "x-a", Value: []string{"1"}}}}
	f.Add([]byte(vfRenderConnectError(e, "")))
	f.Add([]byte(vfRenderEndStream(e, "")))
	f.Add([]byte(vfRenderGRPCWebTrailers(e, "")))
	f.Add([]byte("13\x00boom%20\x00CA0SBGJvb20"))
	f.Add([]byte(`{"code":"internal","details":[{"type":"a.B","value":"AA","debug":{"@type":"x"}}]}`))
	f.Fuzz(func(t *testing.T, data []byte) {
		if len(data) > 1<<14 {
			return
		}
		vfExamineBytes(data)
	})
}

// ---- C13a: everything the reference server itself emits passes the checks ----

type vfC13E2E struct {
	Err      vfErrSpec `json:"err"`
	Protocol int32     `json:"protocol"`
	Codec    int32     `json:"codec"`
	Stream   string    `json:"stream"` // unary, server-stream, client-stream, bidi
	Headers  bool      `json:"headers"`
	Trailers bool      `json:"trailers"`
	NumResp  int       `json:"numResponses"`
	H1       bool      `json:"h1"`
	// Compression negotiated for the call (0 = identity); the reference server leaves small end-of-stream messages
	// uncompressed whatever was negotiated
	Compression int32 `json:"compression"`
}

func vfE2ECompression(c int32) conformancev1.Compression {
	if c <= 1 || c > 6 {
		return conformancev1.Compression_COMPRESSION_IDENTITY
	}
	return conformancev1.Compression(c)
}

func vfE2EServer(v conformancev1.HTTPVersion) (*verifsrv.Server, error) {
	return verifsrv.Cached(fmt.Sprintf("c13-%d", v), &conformancev1.ServerCompatRequest{Protocol: conformancev1.Protocol_PROTOCOL_CONNECT, HttpVersion: v}, 1500)
}

func (e vfErrSpec) proto() *conformancev1.Error {
	out := &conformancev1.Error{Code: conformancev1.Code(e.Code)}
	if e.HasMsg {
		out.Message = proto.String(e.Msg)
	}
	for _, d := range e.Details {
		a, _ := anypb.New(d.message())
		out.Details = append(out.Details, a)
	}
	return out
}

func vfC13E2ECheck(c vfC13E2E) error {
	version := conformancev1.HTTPVersion_HTTP_VERSION_2
	if c.H1 && c.Protocol != 2 && c.Stream != "bidi" {
		version = conformancev1.HTTPVersion_HTTP_VERSION_1
	}
	srv, err := vfE2EServer(version)
	if err != nil {
		return nil
	}
	vfRecMu.Lock()
	vfRecSeq++
	name := fmt.Sprintf("verif/c13/%d", vfRecSeq)
	vfRecMu.Unlock()
	var hdrs, trls []*conformancev1.Header
	if c.Headers {
		hdrs = []*conformancev1.Header{{Name: "X-Resp-Header", Value: []string{"h1", "h2"}}}
	}
	if c.Trailers {
		trls = []*conformancev1.Header{{Name: "X-Resp-Trailer", Value: []string{"t1"}}, {Name: "x-other-trailer-bin", Value: []string{"AAEC"}}}
	}
	viaHost, viaPort := vfVia(srv.Host, srv.Port)
	protoErr := c.Err.proto()
	req := &conformancev1.ClientCompatRequest{
		TestName: name, HttpVersion: version, Protocol: conformancev1.Protocol(c.Protocol), Codec: conformancev1.Codec(c.Codec),
		Compression: vfE2ECompression(c.Compression), Host: viaHost, Port: viaPort,
		Service:        proto.String("connectrpc.conformance.v1.ConformanceService"),
		RequestHeaders: []*conformancev1.Header{{Name: "X-Test-Case-Name", Value: []string{name}}},
	}
	unaryDef := &conformancev1.UnaryResponseDefinition{ResponseHeaders: hdrs, ResponseTrailers: trls, Response: &conformancev1.UnaryResponseDefinition_Error{Error: protoErr}}
	streamDef := &conformancev1.StreamResponseDefinition{ResponseHeaders: hdrs, ResponseTrailers: trls, Error: protoErr}
	for i := 0; i < c.NumResp; i++ {
		streamDef.ResponseData = append(streamDef.ResponseData, []byte(fmt.Sprintf("resp-%d", i)))
	}
	switch c.Stream {
	case "unary":
		req.Method, req.StreamType = proto.String("Unary"), conformancev1.StreamType_STREAM_TYPE_UNARY
		req.RequestMessages, _ = vfAny(&conformancev1.UnaryRequest{ResponseDefinition: unaryDef})
	case "client-stream":
		req.Method, req.StreamType = proto.String("ClientStream"), conformancev1.StreamType_STREAM_TYPE_CLIENT_STREAM
		req.RequestMessages, _ = vfAny(&conformancev1.ClientStreamRequest{ResponseDefinition: unaryDef})
	case "server-stream":
		req.Method, req.StreamType = proto.String("ServerStream"), conformancev1.StreamType_STREAM_TYPE_SERVER_STREAM
		req.RequestMessages, _ = vfAny(&conformancev1.ServerStreamRequest{ResponseDefinition: streamDef})
	default:
		req.Method, req.StreamType = proto.String("BidiStream"), conformancev1.StreamType_STREAM_TYPE_HALF_DUPLEX_BIDI_STREAM
		req.RequestMessages, _ = vfAny(&conformancev1.BidiStreamRequest{ResponseDefinition: streamDef})
	}
	resp, rerr := vfRunClient(req)
	if rerr != nil {
		return verifkit.Violf("e2e-client-failed", "reference client failed: %v", rerr)
	}
	result := resp.GetResponse()
	if result == nil {
		return verifkit.Violf("e2e-client-failed", "reference client reported: %v", resp.GetError())
	}
	if len(result.Feedback) > 0 {
		return verifkit.Violf("refserver-output-flagged", "the reference server's own %v/%v/%s response (headers=%v trailers=%v) drew wire feedback %q for error %+v", conformancev1.Protocol(c.Protocol), conformancev1.Codec(c.Codec), c.Stream, c.Headers, c.Trailers, result.Feedback, c.Err)
	}
	if result.Error == nil || int(result.Error.Code) != c.Err.Code {
		return verifkit.Violf("e2e-wrong-error", "expected error code %d, client observed %v", c.Err.Code, result.Error)
	}
	return nil
}

func TestVerifC13E2E(t *testing.T) {
	defer verifsrv.StopCached()
	verifkit.Run(t, "C13E2E", verifkit.Spec[vfC13E2E]{
		Gen: func(t *rapid.T) vfC13E2E {
			e := vfGenErrSpec(t, false)
			e.Meta = nil
			return vfC13E2E{Err: e, Protocol: int32(rapid.IntRange(1, 3).Draw(t, "protocol")), Codec: int32(rapid.IntRange(1, 2).Draw(t, "codec")),
				Stream:  rapid.SampledFrom([]string{"unary", "unary", "server-stream", "client-stream", "bidi"}).Draw(t, "stream"),
				Headers: rapid.Bool().Draw(t, "headers"), Trailers: rapid.Bool().Draw(t, "trailers"), NumResp: rapid.IntRange(0, 2).Draw(t, "numResp"), H1: rapid.Bool().Draw(t, "h1"),
				Compression: rapid.SampledFrom([]int32{0, 0, 2, 3, 4, 5, 6}).Draw(t, "compression")}
		},
		Check: vfC13E2ECheck,
		Classify: func(c vfC13E2E) ([]string, bool) {
			esc := false
			for i := 0; i < len(c.Err.Msg); i++ {
				if ch := c.Err.Msg[i]; ch < 0x20 || ch > 0x7e || ch == '%' {
					esc = true
				}
			}
			return []string{conformancev1.Protocol(c.Protocol).String(), c.Stream}, esc || len(c.Err.Details) > 0
		},
	})
}

// ---- C13 raw end-to-end: malformed and well-formed wire content served by the reference server's raw-response
// feature, seen by the real reference client through the real tracer (not a synthetic trace) ----

type vfC13RawE2E struct {
	Family  string `json:"family"` // connect-endstream, grpcweb-trailers, trailers-only
	Variant string `json:"variant"`
	H1      bool   `json:"h1"`
	// Encoding: a per-message encoding is negotiated (response header) while the end-of-stream message itself is
	// sent uncompressed, which the envelope flags allow
	Encoding string `json:"encoding"`
	Announce bool   `json:"announceTrailer"` // the response announces a trailer ("Trailer: X-Announced") it never sends
	GRPC     bool   `json:"grpc"`            // trailers-only: over gRPC instead of gRPC-Web
}

// vfC13RawVariants: per family, variant name -> (content, keyword that the feedback must contain; "" = well-formed)
var vfC13RawVariants = map[string]map[string][2]string{
	"connect-endstream": {
		"ok-empty":         {`{}`, ""},
		"ok-error":         {`{"error":{"code":"internal","message":"boom"},"metadata":{"x-a":["1"]}}`, ""},
		"bad-code":         {`{"error":{"code":"bogus","message":"m"}}`, "not a recognized error code name"},
		"code-number-name": {`{"error":{"code":"code_17","message":"m"}}`, "not a recognized error code name"}, // (how an RPC library spells a code outside 1..16)
		"invalid-key":      {`{"errr":{}}`, "invalid key"},
		"metadata-type":    {`{"metadata":{"x-a":"not-an-array"}}`, "metadata"},
	},
	"grpcweb-trailers": {
		"ok":         {"grpc-status: 0\r\n", ""},
		"ok-error":   {"grpc-status: 3\r\ngrpc-message: bad%20thing\r\n", ""},
		"upper-case": {"Grpc-Status: 0\r\n", "non-lower-case field key"},
		"lf-only":    {"grpc-status: 0\n", "LF line ending"},
		"bad-status": {"grpc-status: 99\r\n", "should be >= 0 && <= 16"},
	},
	// a Connect unary error: the whole body is the error JSON, under "Content-Encoding" absent, explicit identity or a real encoding
	"connect-unary-error": {
		"ok":            {`{"code":"invalid_argument","message":"boom"}`, ""},
		"ok-details":    {`{"code":"internal","message":"m","details":[{"type":"google.protobuf.Empty","value":""}]}`, ""},
		"bad-code":      {`{"code":"bogus","message":"m"}`, "not a recognized error code name"},
		"code-17":       {`{"code":"code_17","message":"m"}`, "not a recognized error code name"},
		"code-0":        {`{"code":"code_0","message":"m"}`, "not a recognized error code name"},
		"code-upper":    {`{"code":"INTERNAL","message":"m"}`, "not a recognized error code name"},
		"unknown-key":   {`{"code":"internal","mesage":"typo"}`, "invalid key"},
		"not-an-object": {`["internal"]`, "connect error JSON"},
	},
	"trailers-only": {
		"ok":            {"3|bad%20thing", ""},
		"bad-status":    {"99|", "should be >= 0 && <= 16"},
		"bad-percent":   {"3|bad%2", "incomplete percent-encoded"},
		"unescaped-del": {"3|del\x7fhere", ""}, // not transportable as a header value: skipped below
	},
}

func vfC13RawE2ECheck(c vfC13RawE2E) error {
	v, ok := vfC13RawVariants[c.Family][c.Variant]
	if !ok || c.Variant == "unescaped-del" {
		return nil
	}
	content, keyword := v[0], v[1]
	version := conformancev1.HTTPVersion_HTTP_VERSION_2
	if c.H1 && !c.GRPC {
		version = conformancev1.HTTPVersion_HTTP_VERSION_1
	}
	srv, err := vfE2EServer(version)
	if err != nil {
		return nil
	}
	vfRecMu.Lock()
	vfRecSeq++
	name := fmt.Sprintf("verif/c13raw/%d", vfRecSeq)
	vfRecMu.Unlock()
	raw := &conformancev1.RawHTTPResponse{StatusCode: 200}
	protocol := conformancev1.Protocol_PROTOCOL_CONNECT
	method, streamType := "ServerStream", conformancev1.StreamType_STREAM_TYPE_SERVER_STREAM
	switch c.Family {
	case "connect-endstream":
		raw.Headers = []*conformancev1.Header{{Name: "Content-Type", Value: []string{"application/connect+proto"}}}
		if c.Encoding != "" {
			raw.Headers = append(raw.Headers, &conformancev1.Header{Name: "Connect-Content-Encoding", Value: []string{c.Encoding}})
		}
		raw.Body = &conformancev1.RawHTTPResponse_Stream{Stream: &conformancev1.StreamContents{Items: []*conformancev1.StreamContents_StreamItem{
			{Flags: 2, Payload: &conformancev1.MessageContents{Data: &conformancev1.MessageContents_Text{Text: content}}}}}}
	case "grpcweb-trailers":
		protocol = conformancev1.Protocol_PROTOCOL_GRPC_WEB
		raw.Headers = []*conformancev1.Header{{Name: "Content-Type", Value: []string{"application/grpc-web+proto"}}}
		if c.Encoding != "" {
			raw.Headers = append(raw.Headers, &conformancev1.Header{Name: "Grpc-Encoding", Value: []string{c.Encoding}})
		}
		raw.Body = &conformancev1.RawHTTPResponse_Stream{Stream: &conformancev1.StreamContents{Items: []*conformancev1.StreamContents_StreamItem{
			{Flags: 128, Payload: &conformancev1.MessageContents{Data: &conformancev1.MessageContents_Text{Text: content}}}}}}
	case "connect-unary-error":
		raw.StatusCode = 400
		raw.Headers = []*conformancev1.Header{{Name: "Content-Type", Value: []string{"application/json"}}}
		switch c.Encoding {
		case "":
			if c.Announce { // (re-used flag: the coding is spelled out although it is the identity)
				raw.Headers = append(raw.Headers, &conformancev1.Header{Name: "Content-Encoding", Value: []string{"identity"}})
			}
			raw.Body = &conformancev1.RawHTTPResponse_Unary{Unary: &conformancev1.MessageContents{Data: &conformancev1.MessageContents_Text{Text: content}}}
		default:
			raw.Headers = append(raw.Headers, &conformancev1.Header{Name: "Content-Encoding", Value: []string{c.Encoding}})
			comp := map[string]conformancev1.Compression{"gzip": conformancev1.Compression_COMPRESSION_GZIP, "br": conformancev1.Compression_COMPRESSION_BR, "zstd": conformancev1.Compression_COMPRESSION_ZSTD}[c.Encoding]
			raw.Body = &conformancev1.RawHTTPResponse_Unary{Unary: &conformancev1.MessageContents{Data: &conformancev1.MessageContents_Text{Text: content}, Compression: comp}}
		}
		method, streamType = "Unary", conformancev1.StreamType_STREAM_TYPE_UNARY
	default: // trailers-only: the status travels in the HTTP headers, the body is empty
		parts := strings.SplitN(content, "|", 2)
		protocol = conformancev1.Protocol_PROTOCOL_GRPC_WEB
		ct := "application/grpc-web+proto"
		if c.GRPC {
			protocol, ct = conformancev1.Protocol_PROTOCOL_GRPC, "application/grpc+proto"
		}
		raw.Headers = []*conformancev1.Header{{Name: "Content-Type", Value: []string{ct}}, {Name: "Grpc-Status", Value: []string{parts[0]}}}
		if parts[1] != "" {
			raw.Headers = append(raw.Headers, &conformancev1.Header{Name: "Grpc-Message", Value: []string{parts[1]}})
		}
		method, streamType = "Unary", conformancev1.StreamType_STREAM_TYPE_UNARY
	}
	if c.Announce && c.Family != "connect-unary-error" {
		raw.Headers = append(raw.Headers, &conformancev1.Header{Name: "Trailer", Value: []string{"X-Announced"}})
	}
	viaHost, viaPort := vfVia(srv.Host, srv.Port)
	req := &conformancev1.ClientCompatRequest{
		TestName: name, HttpVersion: version, Protocol: protocol, Codec: conformancev1.Codec_CODEC_PROTO,
		// (the client has to offer the encoding, else it refuses the response before reading its body)
		Compression: map[string]conformancev1.Compression{"": conformancev1.Compression_COMPRESSION_IDENTITY, "gzip": conformancev1.Compression_COMPRESSION_GZIP,
			"br": conformancev1.Compression_COMPRESSION_BR, "zstd": conformancev1.Compression_COMPRESSION_ZSTD}[c.Encoding], Host: viaHost, Port: viaPort,
		Service: proto.String("connectrpc.conformance.v1.ConformanceService"), Method: proto.String(method), StreamType: streamType,
		RequestHeaders: []*conformancev1.Header{{Name: "X-Test-Case-Name", Value: []string{name}}},
	}
	if method == "Unary" {
		req.RequestMessages, _ = vfAny(&conformancev1.UnaryRequest{ResponseDefinition: &conformancev1.UnaryResponseDefinition{RawResponse: raw}})
	} else {
		req.RequestMessages, _ = vfAny(&conformancev1.ServerStreamRequest{ResponseDefinition: &conformancev1.StreamResponseDefinition{RawResponse: raw}})
	}
	resp, rerr := vfRunClient(req)
	if rerr != nil {
		return verifkit.Violf("rawe2e-client-failed", "reference client failed: %v", rerr)
	}
	result := resp.GetResponse()
	if result == nil {
		return verifkit.Violf("rawe2e-client-failed", "reference client reported: %v", resp.GetError())
	}
	what := fmt.Sprintf("%s/%s (h1=%v encoding=%q announce=%v grpc=%v)", c.Family, c.Variant, c.H1, c.Encoding, c.Announce, c.GRPC)
	if keyword == "" {
		if len(result.Feedback) > 0 {
			return verifkit.Violf("rawe2e-wellformed-flagged:"+c.Family, "well-formed %s drew feedback %q", what, result.Feedback)
		}
		return nil
	}
	for _, f := range result.Feedback {
		if strings.Contains(f, keyword) {
			return nil
		}
	}
	return verifkit.Violf("rawe2e-malformed-accepted:"+c.Family+":"+c.Variant, "malformed %s: no feedback names it (want %q), got %q (client saw error %v, %d payloads, status %v)", what, keyword, result.Feedback, result.Error, len(result.Payloads), result.HttpStatusCode)
}

func TestVerifC13RawE2E(t *testing.T) {
	defer verifsrv.StopCached()
	verifkit.Run(t, "C13RawE2E", verifkit.Spec[vfC13RawE2E]{
		Gen: func(t *rapid.T) vfC13RawE2E {
			c := vfC13RawE2E{Family: rapid.SampledFrom([]string{"connect-endstream", "grpcweb-trailers", "trailers-only", "connect-unary-error"}).Draw(t, "family"), H1: rapid.Bool().Draw(t, "h1")}
			var names []string
			for n := range vfC13RawVariants[c.Family] {
				names = append(names, n)
			}
			sort.Strings(names)
			c.Variant = rapid.SampledFrom(names).Draw(t, "variant")
			c.Encoding = rapid.SampledFrom([]string{"", "gzip", "gzip", "br", "zstd"}).Draw(t, "encoding")
			// (announcing a trailer makes net/http list it among the response trailers; outside gRPC that alone is
			// flagged as "HTTP trailers", so the announcement is only combined with trailers-only gRPC responses)
			c.GRPC = c.Family == "trailers-only" && rapid.Bool().Draw(t, "grpc")
			c.Announce = c.GRPC && rapid.IntRange(0, 1).Draw(t, "announce") == 0
			if c.Family == "connect-unary-error" {
				c.Announce = c.Encoding == "" && rapid.Bool().Draw(t, "explicitIdentity")
			}
			return c
		},
		Check: vfC13RawE2ECheck,
		Classify: func(c vfC13RawE2E) ([]string, bool) {
			return []string{c.Family + "/" + c.Variant}, c.Encoding != "" || c.Announce
		},
	})
}

// ---- binary metadata: every value of every -bin key is looked at ----

type vfBinMetaCase struct {
	Where   string     `json:"where"` // headers, trailers, metadata
	Entries []vfBinHdr `json:"entries"`
}

type vfBinHdr struct {
	Name  string   `json:"name"`
	Value []string `json:"value"`
}

// vfBinValueKind classifies one -bin value independently of the code: "ok" (unpadded base64), "padded", "invalid".
func vfBinValueKind(v string) string {
	if strings.ContainsAny(v, "\r\n") {
		return "invalid"
	}
	body := strings.TrimRight(v, "=")
	for i := 0; i < len(body); i++ {
		c := body[i]
		if !(c >= 'A' && c <= 'Z' || c >= 'a' && c <= 'z' || c >= '0' && c <= '9' || c == '+' || c == '/') {
			return "invalid"
		}
	}
	pad := len(v) - len(body)
	switch {
	case len(body)%4 == 1:
		return "invalid"
	case pad == 0:
		return "ok"
	case (len(body)+pad)%4 == 0 && pad <= 2:
		return "padded"
	}
	return "invalid"
}

func TestVerifC13BinMeta(t *testing.T) {
	names := []string{"x-data-bin", "X-Data-Bin", "x-other-bin", "trace-Bin", "x-plain", "content-type", "grpc-status-details-bin", "x-bin-not", "bin"}
	verifkit.Run(t, "C13BinMeta", verifkit.Spec[vfBinMetaCase]{
		Gen: func(t *rapid.T) vfBinMetaCase {
			c := vfBinMetaCase{Where: rapid.SampledFrom([]string{"headers", "trailers", "metadata"}).Draw(t, "where")}
			for i, n := 0, rapid.IntRange(1, 4).Draw(t, "entries"); i < n; i++ {
				h := vfBinHdr{Name: rapid.SampledFrom(names).Draw(t, "name")}
				for j, k := 0, rapid.IntRange(1, 4).Draw(t, "values"); j < k; j++ {
					raw := rapid.SliceOfN(rapid.Byte(), 0, 7).Draw(t, "raw")
					switch rapid.IntRange(0, 5).Draw(t, "valueKind") {
					case 0:
						h.Value = append(h.Value, base64.StdEncoding.EncodeToString(raw)) // padded unless len%3 == 0
					case 1:
						h.Value = append(h.Value, rapid.SampledFrom([]string{"not base64!", "a", "ab=c", "%%%", "AAE", "AAEC="}).Draw(t, "bad"))
					default:
						h.Value = append(h.Value, base64.RawStdEncoding.EncodeToString(raw))
					}
				}
				c.Entries = append(c.Entries, h)
			}
			return c
		},
		Check: func(c vfBinMetaCase) error {
			var md []*conformancev1.Header
			for _, e := range c.Entries {
				md = append(md, &conformancev1.Header{Name: e.Name, Value: append([]string{}, e.Value...)})
			}
			p := &internal.SimplePrinter{}
			checkBinaryMetadata(c.Where, md, p)
			// the first value that is not plain unpadded base64, in list order
			firstName, firstKind, firstVal := "", "", ""
			anyBad := false
			for _, e := range c.Entries {
				lower := strings.ToLower(e.Name)
				if !strings.HasSuffix(lower, "-bin") || lower == "grpc-status-details-bin" {
					continue
				}
				for _, v := range e.Value {
					if k := vfBinValueKind(v); k != "ok" && !anyBad {
						anyBad, firstName, firstKind, firstVal = true, e.Name, k, v
					}
				}
			}
			if !anyBad {
				if len(p.Messages) != 0 {
					return verifkit.Violf("binmeta-wellformed-flagged", "all binary values are unpadded base64 but feedback was given: %q (entries %v)", p.Messages, c.Entries)
				}
				return nil
			}
			if len(p.Messages) == 0 {
				return verifkit.Violf("binmeta-malformed-accepted:"+firstKind, "%s entry %q has the %s value %q but no feedback was given (entries %v)", c.Where, firstName, firstKind, firstVal, c.Entries)
			}
			want := "incorrectly-encoded"
			if firstKind == "padded" {
				want = "padding"
			}
			if !strings.Contains(p.Messages[0], want) || !strings.Contains(p.Messages[0], "'"+firstName+"'") || !strings.HasPrefix(p.Messages[0], c.Where) {
				return verifkit.Violf("binmeta-wrong-feedback:"+firstKind, "first feedback %q does not describe the first offending value (%s %q of %q, %s)", p.Messages[0], firstKind, firstVal, firstName, c.Where)
			}
			return nil
		},
		Classify: func(c vfBinMetaCase) ([]string, bool) {
			multi, bad, badLater := false, false, false
			for _, e := range c.Entries {
				lower := strings.ToLower(e.Name)
				if !strings.HasSuffix(lower, "-bin") || lower == "grpc-status-details-bin" {
					continue
				}
				if len(e.Value) > 1 {
					multi = true
				}
				for i, v := range e.Value {
					if vfBinValueKind(v) != "ok" {
						bad = true
						if i > 0 {
							badLater = true
						}
					}
				}
			}
			var cl []string
			if multi {
				cl = append(cl, "multi-valued")
			}
			if bad {
				cl = append(cl, "malformed")
			} else {
				cl = append(cl, "well-formed")
			}
			if badLater {
				cl = append(cl, "bad-value-not-first")
			}
			return cl, multi || bad
		},
	})
}

// ---- binary metadata end to end: a response header or trailer with a -bin value that is not unpadded base64,
// sent by the real reference server, is flagged by the real reference client for every kind of RPC and however the
// call ends (to completion, or cancelled by the client after the first response) ----

type vfC13BinE2E struct {
	Protocol int32  `json:"protocol"`
	Stream   string `json:"stream"` // unary, client-stream, server-stream, bidi
	Where    string `json:"where"`  // headers, trailers, none
	Bad      string `json:"bad"`    // the offending value
	Cancel   bool   `json:"cancel"` // server-stream / bidi: cancelled after the first response
	H1       bool   `json:"h1"`
	// Err: the call ends with an error (for unary and client-stream calls the client then gets headers and trailers
	// as one bag of error metadata)
	Err bool `json:"err,omitempty"`
}

func vfC13BinE2ECheck(c vfC13BinE2E) error {
	version := conformancev1.HTTPVersion_HTTP_VERSION_2
	if c.H1 && c.Protocol != 2 && c.Stream != "bidi" {
		version = conformancev1.HTTPVersion_HTTP_VERSION_1
	}
	srv, err := vfE2EServer(version)
	if err != nil {
		return nil
	}
	vfRecMu.Lock()
	vfRecSeq++
	name := fmt.Sprintf("verif/c13bin/%d", vfRecSeq)
	vfRecMu.Unlock()
	hdrs := []*conformancev1.Header{{Name: "X-Resp-Header", Value: []string{"h1"}}, {Name: "x-good-bin", Value: []string{"AAEC"}}}
	trls := []*conformancev1.Header{{Name: "X-Resp-Trailer", Value: []string{"t1"}}, {Name: "x-good-trailer-bin", Value: []string{"AAEC", "/w"}}}
	switch c.Where {
	case "headers":
		hdrs = append(hdrs, &conformancev1.Header{Name: "x-custom-bin", Value: []string{"AAEC", c.Bad}})
	case "trailers":
		trls = append(trls, &conformancev1.Header{Name: "x-custom-bin", Value: []string{c.Bad}})
	}
	viaHost, viaPort := vfVia(srv.Host, srv.Port)
	req := &conformancev1.ClientCompatRequest{
		TestName: name, HttpVersion: version, Protocol: conformancev1.Protocol(c.Protocol), Codec: conformancev1.Codec_CODEC_PROTO,
		Compression: conformancev1.Compression_COMPRESSION_IDENTITY, Host: viaHost, Port: viaPort,
		Service:        proto.String("connectrpc.conformance.v1.ConformanceService"),
		RequestHeaders: []*conformancev1.Header{{Name: "X-Test-Case-Name", Value: []string{name}}},
	}
	unaryDef := &conformancev1.UnaryResponseDefinition{ResponseHeaders: hdrs, ResponseTrailers: trls, Response: &conformancev1.UnaryResponseDefinition_ResponseData{ResponseData: []byte("ok")}}
	streamDef := &conformancev1.StreamResponseDefinition{ResponseHeaders: hdrs, ResponseTrailers: trls, ResponseData: [][]byte{[]byte("r0"), []byte("r1"), []byte("r2")}}
	if c.Err {
		rpcErr := &conformancev1.Error{Code: conformancev1.Code_CODE_INVALID_ARGUMENT, Message: proto.String("verif: no")}
		unaryDef.Response = &conformancev1.UnaryResponseDefinition_Error{Error: rpcErr}
		streamDef.Error = rpcErr
	}
	cancelled := false
	switch c.Stream {
	case "unary":
		req.Method, req.StreamType = proto.String("Unary"), conformancev1.StreamType_STREAM_TYPE_UNARY
		req.RequestMessages, _ = vfAny(&conformancev1.UnaryRequest{ResponseDefinition: unaryDef})
	case "client-stream":
		req.Method, req.StreamType = proto.String("ClientStream"), conformancev1.StreamType_STREAM_TYPE_CLIENT_STREAM
		req.RequestMessages, _ = vfAny(&conformancev1.ClientStreamRequest{ResponseDefinition: unaryDef})
	case "server-stream":
		req.Method, req.StreamType = proto.String("ServerStream"), conformancev1.StreamType_STREAM_TYPE_SERVER_STREAM
		if c.Cancel {
			streamDef.ResponseDelayMs = 300
			req.Cancel = &conformancev1.ClientCompatRequest_Cancel{CancelTiming: &conformancev1.ClientCompatRequest_Cancel_AfterNumResponses{AfterNumResponses: 1}}
			cancelled = true
		}
		req.RequestMessages, _ = vfAny(&conformancev1.ServerStreamRequest{ResponseDefinition: streamDef})
	default:
		req.Method, req.StreamType = proto.String("BidiStream"), conformancev1.StreamType_STREAM_TYPE_HALF_DUPLEX_BIDI_STREAM
		if c.Cancel {
			streamDef.ResponseDelayMs = 300
			req.Cancel = &conformancev1.ClientCompatRequest_Cancel{CancelTiming: &conformancev1.ClientCompatRequest_Cancel_AfterNumResponses{AfterNumResponses: 1}}
			cancelled = true
		}
		req.RequestMessages, _ = vfAny(&conformancev1.BidiStreamRequest{ResponseDefinition: streamDef})
	}
	resp, rerr := vfRunClient(req)
	if rerr != nil {
		return verifkit.Violf("bin-e2e-client-failed", "reference client failed: %v", rerr)
	}
	result := resp.GetResponse()
	if result == nil {
		return verifkit.Violf("bin-e2e-client-failed", "reference client reported: %v", resp.GetError())
	}
	what := fmt.Sprintf("%v/%s (cancelled after the first response: %v, ends with an error: %v, %v)", conformancev1.Protocol(c.Protocol), c.Stream, cancelled, c.Err, version)
	flagged := false
	for _, f := range result.Feedback {
		if strings.Contains(strings.ToLower(f), "x-custom-bin") {
			flagged = true
		}
	}
	switch {
	case c.Where == "none" && len(result.Feedback) > 0 && !cancelled:
		return verifkit.Violf("bin-e2e-wellformed-flagged", "%s: well-formed binary metadata drew feedback %q", what, result.Feedback)
	case c.Where == "headers" && !flagged:
		return verifkit.Violf("bin-e2e-malformed-accepted:headers", "%s: response header x-custom-bin has the value %q but the feedback is %q", what, c.Bad, result.Feedback)
	case c.Where == "trailers" && !cancelled && !flagged:
		return verifkit.Violf("bin-e2e-malformed-accepted:trailers", "%s: response trailer x-custom-bin has the value %q but the feedback is %q", what, c.Bad, result.Feedback)
	}
	return nil
}

func TestVerifC13BinE2E(t *testing.T) {
	defer verifsrv.StopCached()
	verifkit.Run(t, "C13BinE2E", verifkit.Spec[vfC13BinE2E]{
		Gen: func(t *rapid.T) vfC13BinE2E {
			c := vfC13BinE2E{Protocol: int32(rapid.IntRange(1, 3).Draw(t, "protocol")),
				Stream: rapid.SampledFrom([]string{"unary", "client-stream", "server-stream", "bidi", "bidi"}).Draw(t, "stream"),
				Where:  rapid.SampledFrom([]string{"headers", "trailers", "trailers", "none"}).Draw(t, "where"),
				Bad:    rapid.SampledFrom([]string{"not base64!", "AAE=", "a"}).Draw(t, "bad"), H1: rapid.Bool().Draw(t, "h1")}
			if c.Stream == "server-stream" || c.Stream == "bidi" {
				c.Cancel = rapid.IntRange(0, 2).Draw(t, "cancel") == 0
			}
			c.Err = !c.Cancel && rapid.IntRange(0, 2).Draw(t, "err") == 0
			return c
		},
		Check: vfC13BinE2ECheck,
		Classify: func(c vfC13BinE2E) ([]string, bool) {
			return []string{conformancev1.Protocol(c.Protocol).String(), c.Stream, "bad-" + c.Where, fmt.Sprintf("cancelled:%v", c.Cancel), fmt.Sprintf("error:%v", c.Err)}, c.Where != "none"
		},
	})
}
