//go:build verif

package referenceclient

import (
	"bytes"
	"context"
	"encoding/binary"
	"fmt"
	"io"
	"testing"
	"time"

	conformancev1 "connectrpc.com/conformance/internal/gen/proto/go/connectrpc/conformance/v1"
	"connectrpc.com/conformance/internal/verifkit"
	"google.golang.org/protobuf/encoding/protojson"
	"google.golang.org/protobuf/proto"
)

// ---- C09 (peer side, end to end): the reference client's exported Run reading its standard input - a stream that
// ends inside a length prefix or a message makes Run fail (it is not a clean end), whether or not the client has
// been told to stop meanwhile; a stream that ends between messages is a clean end ----

type vfNopWC struct{ io.Writer }

func (vfNopWC) Close() error { return nil }

func TestVerifC09ClientStdin(t *testing.T) {
	en := verifkit.NewEnum(t, "C09ClientStdin")
	type row struct {
		JSON     bool   `json:"json"`
		Cut      string `json:"cut"`      // none, prefix-1, prefix-3, body-1, body-half
		Stopping bool   `json:"stopping"` // the context given to Run is already cancelled when the input ends
	}
	msg := &conformancev1.ClientCompatRequest{TestName: "verif/c09/never-complete", Host: "127.0.0.1", Port: 1}
	bin, _ := proto.Marshal(msg)
	var frame [4]byte
	binary.BigEndian.PutUint32(frame[:], uint32(len(bin)))
	full := append(append([]byte{}, frame[:]...), bin...)
	jsonText, _ := protojson.Marshal(msg)
	for _, isJSON := range []bool{false, true} {
		for _, cut := range []string{"none", "prefix-1", "prefix-3", "body-1", "body-half"} {
			for _, stopping := range []bool{false, true} {
				r := row{isJSON, cut, stopping}
				var input []byte
				switch {
				case cut == "none":
				case isJSON && (cut == "prefix-1" || cut == "body-1"):
					input = jsonText[:1]
				case isJSON && cut == "prefix-3":
					input = jsonText[:3]
				case isJSON:
					input = jsonText[:len(jsonText)/2]
				case cut == "prefix-1":
					input = full[:1]
				case cut == "prefix-3":
					input = full[:3]
				case cut == "body-1":
					input = full[:5]
				default:
					input = full[:4+len(bin)/2]
				}
				ctx, cancel := context.WithCancel(context.Background())
				if stopping {
					cancel()
				}
				args := []string{"reference-client", "-p", "1"}
				if isJSON {
					args = append(args, "--json")
				}
				done := make(chan error, 1)
				go func() {
					done <- Run(ctx, args, io.NopCloser(bytes.NewReader(input)), vfNopWC{io.Discard}, vfNopWC{io.Discard})
				}()
				var viol error
				select {
				case err := <-done:
					switch {
					case cut == "none" && err != nil:
						viol = verifkit.Violf("client-stdin-clean-end-misreported", "an input that ends between messages made Run fail: %v (%+v)", err, r)
					case cut != "none" && err == nil:
						viol = verifkit.Violf("client-stdin-truncation-as-clean-end", "the input ends %s (%d bytes of a message) but Run returned nil, a clean end (%+v)", cut, len(input), r)
					}
				case <-time.After(30 * time.Second):
					viol = verifkit.Violf("client-stdin-hang", "Run did not return (%+v)", r)
				}
				cancel()
				en.Rec.Observe(r, []string{fmt.Sprintf("json:%v", isJSON), "cut:" + cut, fmt.Sprintf("stopping:%v", stopping)}, cut != "none")
				if viol != nil && en.Fail(r, viol) {
					en.Done(true)
					return
				}
			}
		}
	}
	en.Done(true)
}
