//go:build verif

package referenceclient

import (
	"bytes"
	"context"
	"encoding/binary"
	"encoding/json"
	"fmt"
	"io"
	"sync"
	"testing"
	"time"

	conformancev1 "connectrpc.com/conformance/internal/gen/proto/go/connectrpc/conformance/v1"
	"connectrpc.com/conformance/internal/verifkit"
	"google.golang.org/protobuf/encoding/protojson"
	"google.golang.org/protobuf/proto"
)

// ---- C09 (peer side, end to end): the reference client's exported Run reading its standard input - a stream that
// ends inside a length prefix or a message makes Run fail (it is not a clean end), whether or not the client has
// been told to stop meanwhile; a stream that ends between messages is a clean end ----

type vfNopWC struct{ io.Writer }

func (vfNopWC) Close() error { return nil }

func TestVerifC09ClientStdin(t *testing.T) {
	en := verifkit.NewEnum(t, "C09ClientStdin")
	type row struct {
		JSON     bool   `json:"json"`
		Cut      string `json:"cut"`      // none, prefix-1, prefix-3, body-1, body-half
		Stopping bool   `json:"stopping"` // the context given to Run is already cancelled when the input ends
	}
	msg := &conformancev1.ClientCompatRequest{TestName: "verif/c09/never-complete", Host: "127.0.0.1", Port: 1}
	bin, _ := proto.Marshal(msg)
	var frame [4]byte
	binary.BigEndian.PutUint32(frame[:], uint32(len(bin)))
	full := append(append([]byte{}, frame[:]...), bin...)
	jsonText, _ := protojson.Marshal(msg)
	for _, isJSON := range []bool{false, true} {
		for _, cut := range []string{"none", "prefix-1", "prefix-3", "body-1", "body-half"} {
			for _, stopping := range []bool{false, true} {
				r := row{isJSON, cut, stopping}
				var input []byte
				switch {
				case cut == "none":
				case isJSON && (cut == "prefix-1" || cut == "body-1"):
					input = jsonText[:1]
				case isJSON && cut == "prefix-3":
					input = jsonText[:3]
				case isJSON:
					input = jsonText[:len(jsonText)/2]
				case cut == "prefix-1":
					input = full[:1]
				case cut == "prefix-3":
					input = full[:3]
				case cut == "body-1":
					input = full[:5]
				default:
					input = full[:4+len(bin)/2]
				}
				ctx, cancel := context.WithCancel(context.Background())
				if stopping {
					cancel()
				}
				args := []string{"reference-client", "-p", "1"}
				if isJSON {
					args = append(args, "--json")
				}
				done := make(chan error, 1)
				go func() {
					done <- Run(ctx, args, io.NopCloser(bytes.NewReader(input)), vfNopWC{io.Discard}, vfNopWC{io.Discard})
				}()
				var viol error
				select {
				case err := <-done:
					switch {
					case cut == "none" && err != nil:
						viol = verifkit.Violf("client-stdin-clean-end-misreported", "an input that ends between messages made Run fail: %v (%+v)", err, r)
					case cut != "none" && err == nil:
						viol = verifkit.Violf("client-stdin-truncation-as-clean-end", "the input ends %s (%d bytes of a message) but Run returned nil, a clean end (%+v)", cut, len(input), r)
					}
				case <-time.After(30 * time.Second):
					viol = verifkit.Violf("client-stdin-hang", "Run did not return (%+v)", r)
				}
				cancel()
				en.Rec.Observe(r, []string{fmt.Sprintf("json:%v", isJSON), "cut:" + cut, fmt.Sprintf("stopping:%v", stopping)}, cut != "none")
				if viol != nil && en.Fail(r, viol) {
					en.Done(true)
					return
				}
			}
		}
	}
	en.Done(true)
}

// vfSlowWriter takes a while for every Write and records the bytes in the order they were accepted (the client's
// standard output as a slow pipe): concurrent writers that are not serialised show up as interleaved frames.
type vfSlowWriter struct {
	mu    sync.Mutex
	buf   bytes.Buffer
	delay time.Duration
}

func (w *vfSlowWriter) Write(p []byte) (int, error) {
	time.Sleep(w.delay)
	w.mu.Lock()
	defer w.mu.Unlock()
	return w.buf.Write(p)
}
func (w *vfSlowWriter) Close() error { return nil }

// TestVerifC09ClientStdout: what the reference client writes to its standard output when it works on several requests
// at once (-p 4) is a sequence of intact frames - one per request, each readable on its own - also when the results
// are errors the client found before issuing any RPC (requests that name no HTTP version / protocol / codec) and the
// output is slow. docs/testing_clients.md: concurrent writes must not be interleaved.
func TestVerifC09ClientStdout(t *testing.T) {
	en := verifkit.NewEnum(t, "C09ClientStdout")
	type row struct {
		JSON     bool `json:"json"`
		Parallel int  `json:"parallel"`
		N        int  `json:"n"`
	}
	var rows []row
	for _, js := range []bool{false, true} {
		for _, p := range []int{4, 1} {
			rows = append(rows, row{js, p, 6})
		}
	}
	var replay row
	if en.ReplayCase(&replay) {
		rows = []row{replay}
	}
	for _, r := range rows {
		viol := func() error {
			var input bytes.Buffer
			want := map[string]bool{}
			for i := 0; i < r.N; i++ {
				// (nothing but a name: the client cannot even pick a transport and answers with an error result)
				msg := &conformancev1.ClientCompatRequest{TestName: fmt.Sprintf("verif/c09/stdout-%d", i)}
				want[msg.TestName] = true
				if r.JSON {
					js, _ := protojson.Marshal(msg)
					input.Write(js)
					input.WriteByte('\n')
				} else {
					data, _ := proto.Marshal(msg)
					var l [4]byte
					binary.BigEndian.PutUint32(l[:], uint32(len(data)))
					input.Write(l[:])
					input.Write(data)
				}
			}
			args := []string{"reference-client", "-p", fmt.Sprint(r.Parallel)}
			if r.JSON {
				args = append(args, "--json")
			}
			out := &vfSlowWriter{delay: 15 * time.Millisecond}
			ctx, cancel := context.WithTimeout(context.Background(), time.Minute)
			defer cancel()
			done := make(chan error, 1)
			go func() { done <- Run(ctx, args, io.NopCloser(bytes.NewReader(input.Bytes())), out, vfNopWC{io.Discard}) }()
			select {
			case <-done:
			case <-time.After(90 * time.Second):
				return nil // no verdict
			}
			out.mu.Lock()
			data := append([]byte{}, out.buf.Bytes()...)
			out.mu.Unlock()
			got := map[string]int{}
			if r.JSON {
				dec := json.NewDecoder(bytes.NewReader(data))
				for dec.More() {
					var raw json.RawMessage
					if err := dec.Decode(&raw); err != nil {
						return verifkit.Violf("client-stdout-garbled", "the client's JSON output cannot be read back after %d message(s): %v (%d requests, -p %d)\n%.300q", len(got), err, r.N, r.Parallel, data)
					}
					resp := &conformancev1.ClientCompatResponse{}
					if err := protojson.Unmarshal(raw, resp); err != nil {
						return verifkit.Violf("client-stdout-garbled", "message %d of the client's JSON output is not a response: %v", len(got)+1, err)
					}
					got[resp.TestName]++
				}
			} else {
				rest := data
				for len(rest) > 0 {
					if len(rest) < 4 || int(binary.BigEndian.Uint32(rest)) > len(rest)-4 {
						return verifkit.Violf("client-stdout-garbled", "the client's output cannot be read back after %d message(s): a frame of %d bytes is announced, %d bytes follow (%d requests, -p %d)", len(got), binary.BigEndian.Uint32(rest), len(rest)-4, r.N, r.Parallel)
					}
					n := int(binary.BigEndian.Uint32(rest))
					resp := &conformancev1.ClientCompatResponse{}
					if err := proto.Unmarshal(rest[4:4+n], resp); err != nil || !want[resp.TestName] {
						return verifkit.Violf("client-stdout-garbled", "message %d written by the client cannot be read back as a response to one of the requests: err=%v name=%q (%d requests, -p %d)", len(got)+1, err, resp.TestName, r.N, r.Parallel)
					}
					got[resp.TestName]++
					rest = rest[4+n:]
				}
			}
			for name := range want {
				if got[name] != 1 {
					return verifkit.Violf("client-stdout-count", "request %q has %d responses in the client's output, want exactly one (%v)", name, got[name], got)
				}
			}
			return nil
		}()
		en.Rec.Observe(r, []string{fmt.Sprintf("json:%v", r.JSON), fmt.Sprintf("parallel:%d", r.Parallel)}, r.Parallel > 1)
		if viol != nil && en.Fail(r, viol) {
			break
		}
	}
	en.Done(true)
}
