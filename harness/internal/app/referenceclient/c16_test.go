//go:build verif

package referenceclient

import (
	"context"
	"fmt"
	"net/http"
	"strings"
	"sync"
	"testing"
	"time"

	"connectrpc.com/conformance/internal"
	"connectrpc.com/conformance/internal/tracer"
	"connectrpc.com/conformance/internal/verifkit"
	"pgregory.net/rapid"
)

// ---- C16 (reference client part): the last leg of the hand-off - the collector the reference client puts in front
// of the tracer stores the completed trace in the call context, where the examiner waits for it (for up to a second,
// because a call that times out is examined while the round tripper is still completing the trace). The waiter gets
// the completed trace, whether completion happens before or after the wait begins; run under the race detector ----

type vfC16WireCase struct {
	DelayUs int  `json:"completeAfterMicros"` // how long after the examiner started waiting the trace completes (<0: before)
	Status  int  `json:"status"`
	Tracer  bool `json:"withTracer"`
	Waiters int  `json:"waiters"`
	Yield   bool `json:"yield"`
}

func TestVerifC16WireHandOff(t *testing.T) {
	verifkit.Run(t, "C16WireHandOff", verifkit.Spec[vfC16WireCase]{
		Gen: func(t *rapid.T) vfC16WireCase {
			return vfC16WireCase{DelayUs: rapid.SampledFrom([]int{-1, 0, 0, 50, 300, 2000}).Draw(t, "delay"), Status: rapid.SampledFrom([]int{200, 404, 503}).Draw(t, "status"),
				Tracer: rapid.Bool().Draw(t, "tracer"), Waiters: rapid.IntRange(1, 2).Draw(t, "waiters"), Yield: rapid.Bool().Draw(t, "yield")}
		},
		Check: func(c vfC16WireCase) error {
			ctx := withWireCapture(context.Background())
			req, _ := http.NewRequestWithContext(ctx, http.MethodPost, "http://127.0.0.1:1/x", nil)
			name := "verif/c16wire"
			wt := &wireTracer{}
			if c.Tracer {
				wt.tracer = &tracer.Tracer{}
				wt.tracer.Init(name)
			}
			trace := tracer.Trace{TestName: name, Request: req, Response: &http.Response{StatusCode: c.Status, Header: http.Header{"Content-Type": []string{"application/proto"}}}}
			complete := func() { wt.Complete(trace) }
			if c.DelayUs < 0 {
				complete()
			}
			type res struct {
				status int
				ok     bool
				fb     []string
			}
			results := make([]res, c.Waiters)
			var wg sync.WaitGroup
			started := make(chan struct{}, c.Waiters)
			for i := 0; i < c.Waiters; i++ {
				wg.Add(1)
				go func(i int) {
					defer wg.Done()
					p := &internal.SimplePrinter{}
					started <- struct{}{}
					status, ok := examineWireDetails(ctx, p)
					results[i] = res{status, ok, p.Messages}
				}(i)
			}
			if c.DelayUs >= 0 {
				for i := 0; i < c.Waiters; i++ {
					<-started
				}
				if c.DelayUs > 0 {
					time.Sleep(time.Duration(c.DelayUs) * time.Microsecond)
				}
				complete()
			}
			wg.Wait()
			for _, r := range results {
				for _, f := range r.fb {
					if strings.Contains(f, "completed trace not found in call context") {
						return nil // the one-second grace period ran out before this process got to complete the trace: no verdict
					}
				}
			}
			for i, r := range results {
				if !r.ok || r.status != c.Status || len(r.fb) > 0 {
					return verifkit.Violf("wire-handoff", "waiter %d of %d: examineWireDetails = (%d, %v) with feedback %q, the completed trace has status %d (completed %d us after the wait began)", i, c.Waiters, r.status, r.ok, r.fb, c.Status, c.DelayUs)
				}
			}
			if c.Tracer {
				actx, cancel := context.WithTimeout(context.Background(), 2*time.Second)
				defer cancel()
				got, err := wt.tracer.Await(actx, name)
				if err != nil || got == nil || got.Response == nil || got.Response.StatusCode != c.Status {
					return verifkit.Violf("wire-handoff-tracer", "the tracer behind the collector did not get the trace: %v", err)
				}
			}
			return nil
		},
		Classify: func(c vfC16WireCase) ([]string, bool) {
			when := "complete-before-wait"
			if c.DelayUs >= 0 {
				when = "wait-before-complete"
			}
			return []string{when, fmt.Sprintf("waiters:%d", c.Waiters)}, c.DelayUs >= 0
		},
	})
}
