//go:build verif

package referenceclient

import (
	"bytes"
	"compress/gzip"
	"encoding/base64"
	"encoding/binary"
	"fmt"
	"io"
	"net"
	"net/http"
	"strconv"
	"strings"
	"sync"
	"testing"
	"time"

	conformancev1 "connectrpc.com/conformance/internal/gen/proto/go/connectrpc/conformance/v1"
	"connectrpc.com/conformance/internal/verifkit"
	"connectrpc.com/conformance/internal/verifsrv"
	"golang.org/x/net/http2"
	"golang.org/x/net/http2/h2c"
	"google.golang.org/protobuf/proto"
	"google.golang.org/protobuf/reflect/protoreflect"
	"pgregory.net/rapid"
)

// ---- C19b: the reference server's receive limit is sharp and measured uncompressed ----

type vfLimitCase struct {
	Limit       int    `json:"limit"`
	Delta       int    `json:"delta"` // message size = limit + delta
	Protocol    int32  `json:"protocol"`
	Compression int32  `json:"compression"`
	Stream      string `json:"stream"`      // unary, client-stream
	Zero        bool   `json:"zeroPadding"` // highly compressible padding
	// GRPCImpl: the server is the grpc-go reference server (gRPC and gRPC-Web only), which the runner also starts in-process
	GRPCImpl bool `json:"grpcImpl,omitempty"`
}

func vfLimitGRPCServer(limit int, protocol int32) (*verifsrv.Server, error) {
	return verifsrv.CachedWith(fmt.Sprintf("c19-grpc-%d-%d", limit, protocol), verifsrv.StartGRPC, &conformancev1.ServerCompatRequest{Protocol: conformancev1.Protocol(protocol),
		HttpVersion: conformancev1.HTTPVersion_HTTP_VERSION_2, MessageReceiveLimit: uint32(limit)}, 1500)
}

func vfLimitServer(limit int) (*verifsrv.Server, error) {
	return verifsrv.Cached(fmt.Sprintf("c19-%d", limit), &conformancev1.ServerCompatRequest{Protocol: conformancev1.Protocol_PROTOCOL_CONNECT,
		HttpVersion: conformancev1.HTTPVersion_HTTP_VERSION_2, MessageReceiveLimit: uint32(limit)}, 1500)
}

// vfSizedMessage sets the bytes field so that proto.Size(m) == size exactly.
func vfSizedMessage(m proto.Message, field string, size int, zero bool) bool {
	fd := m.ProtoReflect().Descriptor().Fields().ByName(protoreflect.Name(field))
	m.ProtoReflect().Clear(fd)
	base := proto.Size(m)
	if size < base {
		return false
	}
	for l := size - base - 8; l <= size-base; l++ {
		if l < 0 {
			continue
		}
		data := make([]byte, l)
		if !zero {
			x := uint32(2463534242)
			for i := range data {
				x ^= x << 13
				x ^= x >> 17
				x ^= x << 5
				data[i] = byte(x)
			}
		}
		if l == 0 {
			m.ProtoReflect().Clear(fd)
		} else {
			m.ProtoReflect().Set(fd, protoreflect.ValueOfBytes(data))
		}
		if proto.Size(m) == size {
			return true
		}
	}
	return false
}

func vfLimitServerCheck(c vfLimitCase) error {
	if c.Compression >= 2 {
		// with incompressible padding the compressed envelope itself can exceed the limit,
		// which the RPC library also rejects; the property is about the uncompressed size
		c.Zero = true
	}
	if c.Stream == "unary-get" {
		c.Protocol = 1 // (GET exists in the Connect protocol only; the message travels in the URL)
	}
	srv, err := vfLimitServer(c.Limit)
	if c.GRPCImpl && (c.Protocol == 2 || c.Protocol == 3) && c.Compression <= 2 && c.Stream != "unary-json-direct" {
		srv, err = vfLimitGRPCServer(c.Limit, c.Protocol)
	} else {
		c.GRPCImpl = false
	}
	if err != nil {
		return nil // environment problem, not a verdict
	}
	size := c.Limit + c.Delta
	if c.Stream == "unary-json-direct" {
		return vfLimitServerJSON(c, srv, size)
	}
	var msgs []proto.Message
	streamType := conformancev1.StreamType_STREAM_TYPE_UNARY
	method := "Unary"
	if c.Stream == "client-stream" {
		streamType, method = conformancev1.StreamType_STREAM_TYPE_CLIENT_STREAM, "ClientStream"
		first := &conformancev1.ClientStreamRequest{ResponseDefinition: &conformancev1.UnaryResponseDefinition{
			Response: &conformancev1.UnaryResponseDefinition_ResponseData{ResponseData: []byte("ok")}}, RequestData: []byte("first")}
		second := &conformancev1.ClientStreamRequest{}
		if !vfSizedMessage(second, "request_data", size, c.Zero) {
			return nil
		}
		msgs = []proto.Message{first, second}
	} else if c.Stream == "server-stream" {
		streamType, method = conformancev1.StreamType_STREAM_TYPE_SERVER_STREAM, "ServerStream"
		m := &conformancev1.ServerStreamRequest{ResponseDefinition: &conformancev1.StreamResponseDefinition{ResponseData: [][]byte{[]byte("ok")}}}
		if !vfSizedMessage(m, "request_data", size, c.Zero) {
			return nil
		}
		msgs = []proto.Message{m}
	} else if strings.HasPrefix(c.Stream, "bidi-") {
		// bidi-half-first, bidi-half-later, bidi-full-first: which message of the stream has the probed size
		full := strings.HasPrefix(c.Stream, "bidi-full")
		streamType, method = conformancev1.StreamType_STREAM_TYPE_HALF_DUPLEX_BIDI_STREAM, "BidiStream"
		respData := [][]byte{[]byte("ok")}
		if full {
			streamType = conformancev1.StreamType_STREAM_TYPE_FULL_DUPLEX_BIDI_STREAM
			// one response per request (fewer responses than requests is the recorded C02 finding)
			respData = append(respData, []byte("ok2"))
		}
		first := &conformancev1.BidiStreamRequest{ResponseDefinition: &conformancev1.StreamResponseDefinition{ResponseData: respData}, FullDuplex: full}
		second := &conformancev1.BidiStreamRequest{RequestData: []byte("second")}
		sized := proto.Message(first)
		if strings.HasSuffix(c.Stream, "-later") {
			sized = second
			first.RequestData = []byte("first")
		}
		if !vfSizedMessage(sized, "request_data", size, c.Zero) {
			return nil
		}
		msgs = []proto.Message{first, second}
	} else if c.Stream == "unary-get" {
		method = "IdempotentUnary"
		m := &conformancev1.IdempotentUnaryRequest{ResponseDefinition: &conformancev1.UnaryResponseDefinition{
			Response: &conformancev1.UnaryResponseDefinition_ResponseData{ResponseData: []byte("ok")}}}
		if !vfSizedMessage(m, "request_data", size, c.Zero) {
			return nil
		}
		msgs = []proto.Message{m}
	} else {
		m := &conformancev1.UnaryRequest{ResponseDefinition: &conformancev1.UnaryResponseDefinition{
			Response: &conformancev1.UnaryResponseDefinition_ResponseData{ResponseData: []byte("ok")}}}
		if !vfSizedMessage(m, "request_data", size, c.Zero) {
			return nil
		}
		msgs = []proto.Message{m}
	}
	vfRecMu.Lock()
	vfRecSeq++
	name := fmt.Sprintf("verif/c19/%d", vfRecSeq)
	vfRecMu.Unlock()
	viaHost, viaPort := vfVia(srv.Host, srv.Port)
	req := &conformancev1.ClientCompatRequest{
		TestName: name, HttpVersion: conformancev1.HTTPVersion_HTTP_VERSION_2, Protocol: conformancev1.Protocol(c.Protocol),
		Codec: conformancev1.Codec_CODEC_PROTO, Compression: conformancev1.Compression(c.Compression),
		Host: viaHost, Port: viaPort, Service: proto.String("connectrpc.conformance.v1.ConformanceService"), Method: proto.String(method),
		StreamType:       streamType,
		RequestHeaders:   []*conformancev1.Header{{Name: "X-Test-Case-Name", Value: []string{name}}},
		UseGetHttpMethod: c.Stream == "unary-get",
	}
	for _, m := range msgs {
		a, err := vfAny(m)
		if err != nil {
			return nil
		}
		req.RequestMessages = append(req.RequestMessages, a...)
	}
	resp, rerr := vfRunClient(req)
	if rerr != nil {
		return verifkit.Violf("limit-client-failed", "reference client failed: %v", rerr)
	}
	result := resp.GetResponse()
	if result == nil {
		return verifkit.Violf("limit-client-failed", "reference client reported: %v", resp.GetError())
	}
	what := fmt.Sprintf("request message of %d bytes (limit %d%+d) via %v/%v/%s", size, c.Limit, c.Delta, conformancev1.Protocol(c.Protocol), conformancev1.Compression(c.Compression), c.Stream)
	if c.Delta <= 0 {
		if result.Error != nil {
			return verifkit.Violf("limit-rejected-at-or-below", "%s was rejected: %v", what, result.Error)
		}
		wantPayloads := 1
		if strings.HasPrefix(c.Stream, "bidi-full") {
			wantPayloads = 2
		}
		if len(result.Payloads) != wantPayloads || string(result.Payloads[0].Data) != "ok" {
			return verifkit.Violf("limit-wrong-response", "%s: unexpected response %v", what, result.Payloads)
		}
		return nil
	}
	if result.Error == nil {
		return verifkit.Violf("limit-accepted-above", "%s was accepted", what)
	}
	if result.Error.Code != conformancev1.Code_CODE_RESOURCE_EXHAUSTED {
		return verifkit.Violf("limit-wrong-code", "%s was rejected with %v, want resource_exhausted: %v", what, result.Error.Code, result.Error.GetMessage())
	}
	return nil
}

// vfLimitServerJSON: a Connect unary request in the JSON codec sent by a plain HTTP client, its text padded with white
// space to exactly size bytes (the reference client's own JSON rendering has no fixed size): the limit counts those bytes.
func vfLimitServerJSON(c vfLimitCase, srv *verifsrv.Server, size int) error {
	head := `{"responseDefinition":{"responseData":"b2s="},"requestData":"`
	room := size - len(head) - 3
	if room < 0 {
		return nil
	}
	body := []byte(head + base64.StdEncoding.EncodeToString(make([]byte, room/8*3)) + `"`)
	for len(body) < size-1 {
		body = append(body, ' ')
	}
	body = append(body, '}')
	vfRecMu.Lock()
	vfRecSeq++
	name := fmt.Sprintf("verif/c19j/%d", vfRecSeq)
	vfRecMu.Unlock()
	var payload io.Reader = bytes.NewReader(body)
	hreq, _ := http.NewRequest(http.MethodPost, fmt.Sprintf("http://%s:%d/connectrpc.conformance.v1.ConformanceService/Unary", srv.Host, srv.Port), nil)
	hreq.Header.Set("Content-Type", "application/json")
	hreq.Header.Set("Connect-Protocol-Version", "1")
	hreq.Header.Set("X-Test-Case-Name", name)
	if c.Compression == int32(conformancev1.Compression_COMPRESSION_GZIP) {
		payload = bytes.NewReader(vfGzip(body))
		hreq.Header.Set("Content-Encoding", "gzip")
	}
	hreq.Body = io.NopCloser(payload)
	hreq.ContentLength = -1
	client := &http.Client{Transport: &http.Transport{DisableKeepAlives: true}, Timeout: 20 * time.Second}
	hresp, err := client.Do(hreq)
	if err != nil {
		return nil // environment, no verdict
	}
	defer hresp.Body.Close()
	respBody, _ := io.ReadAll(io.LimitReader(hresp.Body, 1<<20))
	what := fmt.Sprintf("JSON request of %d bytes (limit %d%+d, gzip=%v) sent directly", size, c.Limit, c.Delta, hreq.Header.Get("Content-Encoding") != "")
	if c.Delta <= 0 {
		if hresp.StatusCode != 200 {
			return verifkit.Violf("limit-rejected-at-or-below", "%s was rejected: %d %s", what, hresp.StatusCode, truncStr(string(respBody)))
		}
		return nil
	}
	if hresp.StatusCode == 200 {
		return verifkit.Violf("limit-accepted-above", "%s was accepted", what)
	}
	if !strings.Contains(string(respBody), "resource_exhausted") {
		return verifkit.Violf("limit-wrong-code", "%s was rejected with %d %s, want resource_exhausted", what, hresp.StatusCode, truncStr(string(respBody)))
	}
	return nil
}

func truncStr(s string) string {
	if len(s) > 300 {
		return s[:300] + "..."
	}
	return s
}

func TestVerifC19LimitServer(t *testing.T) {
	defer verifsrv.StopCached()
	verifkit.Run(t, "C19LimitServer", verifkit.Spec[vfLimitCase]{
		Gen: func(t *rapid.T) vfLimitCase {
			return vfLimitCase{
				Limit:    rapid.SampledFrom([]int{1024, 1024, 200 * 1024, 3000, 70000}).Draw(t, "limit"),
				Delta:    rapid.SampledFrom([]int{-1, 0, 0, 1, 1, 2, -7, 50}).Draw(t, "delta"),
				Protocol: int32(rapid.IntRange(1, 3).Draw(t, "protocol")), Compression: int32(rapid.IntRange(1, 6).Draw(t, "compression")),
				Stream: rapid.SampledFrom([]string{"unary", "unary", "client-stream", "server-stream", "bidi-half-first", "bidi-half-later", "bidi-full-first", "unary-json-direct", "unary-get"}).Draw(t, "stream"), Zero: rapid.Bool().Draw(t, "zero"), GRPCImpl: rapid.IntRange(0, 2).Draw(t, "grpcImpl") == 0,
			}
		},
		Check: vfLimitServerCheck,
		Classify: func(c vfLimitCase) ([]string, bool) {
			cl := []string{fmt.Sprintf("delta%+d", c.Delta), conformancev1.Compression(c.Compression).String()}
			if c.Stream == "unary-get" {
				cl = append(cl, "connect-get")
			}
			if c.GRPCImpl && (c.Protocol == 2 || c.Protocol == 3) && c.Compression <= 2 && c.Stream != "unary-json-direct" {
				cl = append(cl, "grpc-go-server")
			}
			return cl, c.Delta >= 0 && c.Delta <= 1 && c.Compression >= 2
		},
	})
}

// ---- C19c: the reference client's receive limit ----

type vfClientLimitCase struct {
	Limit  int  `json:"limit"`
	Delta  int  `json:"delta"`
	Stream bool `json:"stream"` // Connect server-stream instead of unary
	Gzip   bool `json:"gzip"`
	Zero   bool `json:"zeroPadding"`
	H2     bool `json:"h2"`
	JSON   bool `json:"jsonCodec,omitempty"` // the limit then counts the bytes of the JSON text
}

// vfSizedJSON: a JSON rendering of a response message (UnaryResponse and ServerStreamResponse look the same) of exactly size bytes.
func vfSizedJSON(size int, zero bool) []byte {
	head, tail := `{"payload":{"data":"`, `"}`
	room := size - len(head) - len(tail) - 1
	if room < 0 {
		return nil
	}
	n := room / 4 * 4 // base64 text
	if !zero && n > 64 {
		n = 64 + (n-64)/8*4 // part of the room is taken by data, the rest by white space
	}
	raw := make([]byte, n/4*3)
	if !zero {
		x := uint32(88172645)
		for i := range raw {
			x ^= x << 13
			x ^= x >> 17
			x ^= x << 5
			raw[i] = byte(x)
		}
	}
	out := []byte(head + base64.StdEncoding.EncodeToString(raw) + tail)
	for len(out) < size-1 {
		out = append(out, ' ')
	}
	return append(out, '}')
}

var (
	vfPlainOnce sync.Once
	vfPlain     [2]string
	vfPlainErr  error
)

func vfGzip(b []byte) []byte {
	var buf bytes.Buffer
	w := gzip.NewWriter(&buf)
	_, _ = w.Write(b)
	_ = w.Close()
	return buf.Bytes()
}

// vfStartPlainResponder: a plain net/http server that answers Connect unary
// and Connect server-stream calls with a response of the requested exact size.
func vfStartPlainResponders() error {
	vfPlainOnce.Do(func() {
		for i := range vfPlain {
			handler := http.Handler(http.HandlerFunc(func(w http.ResponseWriter, r *http.Request) {
				_, _ = io.Copy(io.Discard, r.Body)
				size, _ := strconv.Atoi(r.Header.Get("X-Verif-Size"))
				zero := r.Header.Get("X-Verif-Zero") == "1"
				gz := r.Header.Get("X-Verif-Gzip") == "1"
				asJSON := r.Header.Get("X-Verif-Json") == "1"
				if asJSON && vfSizedJSON(size, zero) == nil {
					w.WriteHeader(500)
					return
				}
				payload := &conformancev1.ConformancePayload{}
				if r.Header.Get("X-Verif-Stream") == "1" {
					msg := &conformancev1.ServerStreamResponse{Payload: payload}
					if !vfSizedNested(msg, payload, size, zero) {
						w.WriteHeader(500)
						return
					}
					data, _ := proto.Marshal(msg)
					w.Header().Set("Content-Type", "application/connect+proto")
					if asJSON {
						data = vfSizedJSON(size, zero)
						w.Header().Set("Content-Type", "application/connect+json")
					}
					flags := byte(0)
					if gz {
						w.Header().Set("Connect-Content-Encoding", "gzip")
						data = vfGzip(data)
						flags = 1
					}
					w.WriteHeader(200)
					var p [5]byte
					p[0] = flags
					binary.BigEndian.PutUint32(p[1:], uint32(len(data)))
					_, _ = w.Write(p[:])
					_, _ = w.Write(data)
					end := []byte("{}")
					p[0] = 2
					binary.BigEndian.PutUint32(p[1:], uint32(len(end)))
					_, _ = w.Write(p[:])
					_, _ = w.Write(end)
					return
				}
				msg := &conformancev1.UnaryResponse{Payload: payload}
				if !vfSizedNested(msg, payload, size, zero) {
					w.WriteHeader(500)
					return
				}
				data, _ := proto.Marshal(msg)
				w.Header().Set("Content-Type", "application/proto")
				if asJSON {
					data = vfSizedJSON(size, zero)
					w.Header().Set("Content-Type", "application/json")
				}
				if gz {
					w.Header().Set("Content-Encoding", "gzip")
					data = vfGzip(data)
				}
				w.WriteHeader(200)
				_, _ = w.Write(data)
			}))
			if i == 1 {
				handler = h2c.NewHandler(handler, &http2.Server{})
			}
			lis, err := vfListen()
			if err != nil {
				vfPlainErr = err
				return
			}
			vfPlain[i] = lis.Addr().String()
			srv := &http.Server{Handler: handler, ReadHeaderTimeout: 5 * time.Second}
			go func() { _ = srv.Serve(lis) }()
		}
	})
	return vfPlainErr
}

// vfSizedNested sizes outer (which embeds payload) to exactly size by padding payload.data.
func vfSizedNested(outer proto.Message, payload *conformancev1.ConformancePayload, size int, zero bool) bool {
	for l := size - 16; l <= size; l++ {
		if l < 0 {
			continue
		}
		data := make([]byte, l)
		if !zero {
			x := uint32(88172645)
			for i := range data {
				x ^= x << 13
				x ^= x >> 17
				x ^= x << 5
				data[i] = byte(x)
			}
		}
		payload.Data = data
		if proto.Size(outer) == size {
			return true
		}
	}
	return false
}

func vfClientLimitCheck(c vfClientLimitCase) error {
	if c.Gzip {
		c.Zero = true // see vfLimitServerCheck
	}
	if err := vfStartPlainResponders(); err != nil {
		return nil
	}
	size := c.Limit + c.Delta
	probe := &conformancev1.ConformancePayload{}
	if c.JSON {
		if vfSizedJSON(size, true) == nil {
			return nil
		}
	} else if !vfSizedNested(&conformancev1.UnaryResponse{Payload: probe}, probe, size, true) {
		return nil // this exact size is not reachable with the two nested length prefixes
	}
	idx := 0
	version := conformancev1.HTTPVersion_HTTP_VERSION_1
	if c.H2 {
		idx, version = 1, conformancev1.HTTPVersion_HTTP_VERSION_2
	}
	host, portStr, _ := net.SplitHostPort(vfPlain[idx])
	port, _ := strconv.Atoi(portStr)
	vfRecMu.Lock()
	vfRecSeq++
	name := fmt.Sprintf("verif/c19c/%d", vfRecSeq)
	vfRecMu.Unlock()
	b := func(v bool) string {
		if v {
			return "1"
		}
		return "0"
	}
	comp := conformancev1.Compression_COMPRESSION_IDENTITY
	if c.Gzip {
		comp = conformancev1.Compression_COMPRESSION_GZIP
	}
	codec := conformancev1.Codec_CODEC_PROTO
	if c.JSON {
		codec = conformancev1.Codec_CODEC_JSON
	}
	req := &conformancev1.ClientCompatRequest{
		TestName: name, HttpVersion: version, Protocol: conformancev1.Protocol_PROTOCOL_CONNECT, Codec: codec,
		Compression: comp, Host: host, Port: uint32(port), Service: proto.String("connectrpc.conformance.v1.ConformanceService"),
		MessageReceiveLimit: uint32(c.Limit),
		RequestHeaders: []*conformancev1.Header{{Name: "X-Test-Case-Name", Value: []string{name}}, {Name: "X-Verif-Size", Value: []string{strconv.Itoa(size)}},
			{Name: "X-Verif-Zero", Value: []string{b(c.Zero)}}, {Name: "X-Verif-Gzip", Value: []string{b(c.Gzip)}}, {Name: "X-Verif-Stream", Value: []string{b(c.Stream)}}, {Name: "X-Verif-Json", Value: []string{b(c.JSON)}}},
	}
	if c.Stream {
		req.Method, req.StreamType = proto.String("ServerStream"), conformancev1.StreamType_STREAM_TYPE_SERVER_STREAM
		req.RequestMessages, _ = vfAny(&conformancev1.ServerStreamRequest{})
	} else {
		req.Method, req.StreamType = proto.String("Unary"), conformancev1.StreamType_STREAM_TYPE_UNARY
		req.RequestMessages, _ = vfAny(&conformancev1.UnaryRequest{})
	}
	resp, rerr := vfRunClient(req)
	if rerr != nil {
		return verifkit.Violf("limit-client-failed", "reference client failed: %v", rerr)
	}
	result := resp.GetResponse()
	if result == nil {
		return verifkit.Violf("limit-client-failed", "reference client reported: %v", resp.GetError())
	}
	what := fmt.Sprintf("response message of %d bytes (limit %d%+d, stream=%v gzip=%v h2=%v json=%v)", size, c.Limit, c.Delta, c.Stream, c.Gzip, c.H2, c.JSON)
	if c.Delta <= 0 {
		if result.Error != nil {
			return verifkit.Violf("client-limit-rejected-at-or-below", "%s was rejected: %v", what, result.Error)
		}
		if len(result.Payloads) != 1 {
			return verifkit.Violf("client-limit-wrong-response", "%s: %d payloads", what, len(result.Payloads))
		}
		return nil
	}
	if result.Error == nil {
		return verifkit.Violf("client-limit-accepted-above", "%s was accepted", what)
	}
	if result.Error.Code != conformancev1.Code_CODE_RESOURCE_EXHAUSTED {
		return verifkit.Violf("client-limit-wrong-code", "%s was rejected with %v, want resource_exhausted: %v", what, result.Error.Code, result.Error.GetMessage())
	}
	return nil
}

func TestVerifC19LimitClient(t *testing.T) {
	if err := vfStartPlainResponders(); err != nil {
		t.Fatalf("cannot start plain responders: %v", err)
	}
	verifkit.Run(t, "C19LimitClient", verifkit.Spec[vfClientLimitCase]{
		Gen: func(t *rapid.T) vfClientLimitCase {
			return vfClientLimitCase{
				Limit:  rapid.SampledFrom([]int{1024, 1024 * 1024, 3000, 70000, 200}).Draw(t, "limit"),
				Delta:  rapid.SampledFrom([]int{-1, 0, 0, 1, 1, 2, -9, 40}).Draw(t, "delta"),
				Stream: rapid.Bool().Draw(t, "stream"), Gzip: rapid.Bool().Draw(t, "gzip"), Zero: rapid.Bool().Draw(t, "zero"), H2: rapid.Bool().Draw(t, "h2"),
				JSON: rapid.IntRange(0, 2).Draw(t, "json") == 0,
			}
		},
		Check: vfClientLimitCheck,
		Classify: func(c vfClientLimitCase) ([]string, bool) {
			codec := "proto"
			if c.JSON {
				codec = "json"
			}
			return []string{fmt.Sprintf("delta%+d", c.Delta), codec}, c.Delta >= 0 && c.Delta <= 1 && c.Gzip
		},
	})
}
