//go:build verif

package referenceclient

import (
	"encoding/base64"
	"fmt"
	"net/http"
	"testing"

	"connectrpc.com/conformance/internal"
	"connectrpc.com/conformance/internal/grpcutil"
	"connectrpc.com/conformance/internal/verifkit"
	"google.golang.org/genproto/googleapis/rpc/status"
	"google.golang.org/protobuf/proto"
	"google.golang.org/protobuf/types/known/anypb"
	"google.golang.org/protobuf/types/known/emptypb"
	"pgregory.net/rapid"
)

// ---- C18: percent-encoding of status messages is invertible - the repository's decoder (the reference client's
// check of the gRPC status trio) gives back what PercentEncodeMessage was given ----

type vfC18DecodeCase struct {
	Code int    `json:"code"`
	Msg  string `json:"msg"`
}

func TestVerifC18StatusDecode(t *testing.T) {
	verifkit.Run(t, "C18StatusDecode", verifkit.Spec[vfC18DecodeCase]{
		Gen: func(t *rapid.T) vfC18DecodeCase {
			c := vfC18DecodeCase{Code: rapid.IntRange(1, 16).Draw(t, "code")}
			if rapid.IntRange(0, 3).Draw(t, "msgKind") == 0 {
				c.Msg = rapid.SampledFrom([]string{"plain", "100% wrong", "a+b = c", "expected 1+1 to be 2", "ünïcode ✓", "%41", "%2B", "a%20b", "+"}).Draw(t, "msgSample")
			} else {
				c.Msg = rapid.StringOfN(rapid.RuneFrom([]rune("ab%+/=&;~éǅ✓\"\\2B0")), 1, 12, -1).Draw(t, "msg")
			}
			return c
		},
		Check: func(c vfC18DecodeCase) error {
			detail, _ := anypb.New(&emptypb.Empty{})
			data, _ := proto.Marshal(&status.Status{Code: int32(c.Code), Message: c.Msg, Details: []*anypb.Any{detail}})
			h := http.Header{}
			h.Set("Grpc-Status", fmt.Sprint(c.Code))
			h.Set("Grpc-Message", grpcutil.PercentEncodeMessage(c.Msg))
			h.Set("Grpc-Status-Details-Bin", base64.RawStdEncoding.EncodeToString(data))
			p := &internal.SimplePrinter{}
			checkGRPCStatus(h, p)
			if len(p.Messages) > 0 {
				return verifkit.Violf("status-decode-not-inverse", "message %q, encoded as %q, and the same message in the status details: the client's decoder reports %q", c.Msg, h.Get("Grpc-Message"), p.Messages)
			}
			return nil
		},
		Classify: func(c vfC18DecodeCase) ([]string, bool) {
			special := false
			for _, r := range c.Msg {
				if r == '%' || r == '+' || r > 0x7e {
					special = true
				}
			}
			return []string{fmt.Sprintf("special:%v", special)}, special
		},
	})
}
