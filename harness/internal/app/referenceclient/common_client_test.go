//go:build verif

package referenceclient

import (
	"context"
	"fmt"
	"io"
	"net"
	"sync"
	"time"

	"connectrpc.com/conformance/internal"
	conformancev1 "connectrpc.com/conformance/internal/gen/proto/go/connectrpc/conformance/v1"
	"google.golang.org/protobuf/proto"
	"google.golang.org/protobuf/types/known/anypb"
)

// vfRunClient drives the exported reference client with one request and
// returns its response.
func vfRunClient(req *conformancev1.ClientCompatRequest) (*conformancev1.ClientCompatResponse, error) {
	// The reference client leaves the connections of its per-request transports to
	// process exit; in-process, thousands of runs would exhaust the descriptor limit.
	// Once the client has returned, every connection a harness listener accepted is closed.
	defer vfCloseAcceptedConns()
	ctx, cancel := context.WithTimeout(context.Background(), 30*time.Second)
	defer cancel()
	inR, inW := io.Pipe()
	outR, outW := io.Pipe()
	done := make(chan error, 1)
	go func() {
		err := RunInReferenceMode(ctx, []string{"reference-client", "-p", "1"}, inR, outW, io.WriteCloser(vfNopWriteCloser{io.Discard}), nil)
		_ = outW.Close()
		done <- err
	}()
	go func() {
		_ = internal.WriteDelimitedMessage(inW, req)
		_ = inW.Close()
	}()
	resp := &conformancev1.ClientCompatResponse{}
	if err := internal.ReadDelimitedMessage(outR, resp, "reference client", 30*time.Second, 16<<20); err != nil {
		return nil, err
	}
	go func() { _, _ = io.Copy(io.Discard, outR) }()
	select {
	case err := <-done:
		return resp, err
	case <-time.After(30 * time.Second):
		return resp, fmt.Errorf("reference client did not exit after EOF on stdin")
	}
}

// vfListen opens a loopback listener whose accepted connections are remembered so
// that vfCloseAcceptedConns can close them between cases.
func vfListen() (net.Listener, error) {
	lis, err := net.Listen("tcp", "127.0.0.1:0")
	if err != nil {
		return nil, err
	}
	return &vfTrackingListener{Listener: lis}, nil
}

type vfTrackingListener struct{ net.Listener }

var (
	vfAcceptedMu sync.Mutex
	vfAccepted   []net.Conn
)

func (l *vfTrackingListener) Accept() (net.Conn, error) {
	c, err := l.Listener.Accept()
	if err == nil {
		vfAcceptedMu.Lock()
		vfAccepted = append(vfAccepted, c)
		vfAcceptedMu.Unlock()
	}
	return c, err
}

// vfVia returns the address of a loopback TCP forwarder in front of host:port. Connections through it
// (both halves) are closed by vfCloseAcceptedConns, i.e. as soon as the client run that opened them is
// over; the reference server does not close hijacked h2c connections on shutdown and the reference
// client never closes its transports, so without this every case leaks two descriptors.
func vfVia(host string, port uint32) (string, uint32) {
	upstream := net.JoinHostPort(host, fmt.Sprint(port))
	vfViaMu.Lock()
	defer vfViaMu.Unlock()
	if p, ok := vfViaPorts[upstream]; ok {
		return "127.0.0.1", p
	}
	lis, err := vfListen()
	if err != nil {
		return host, port
	}
	go func() {
		for {
			c, err := lis.Accept()
			if err != nil {
				return
			}
			go func() {
				u, err := net.Dial("tcp", upstream)
				if err != nil {
					_ = c.Close()
					return
				}
				vfAcceptedMu.Lock()
				vfAccepted = append(vfAccepted, u)
				vfAcceptedMu.Unlock()
				go func() { _, _ = io.Copy(u, c); _ = u.Close() }()
				_, _ = io.Copy(c, u)
				_ = c.Close()
			}()
		}
	}()
	p := uint32(lis.Addr().(*net.TCPAddr).Port)
	vfViaPorts[upstream] = p
	return "127.0.0.1", p
}

var (
	vfViaMu    sync.Mutex
	vfViaPorts = map[string]uint32{}
)

func vfCloseAcceptedConns() {
	vfAcceptedMu.Lock()
	conns := vfAccepted
	vfAccepted = nil
	vfAcceptedMu.Unlock()
	for _, c := range conns {
		_ = c.Close()
	}
}

func vfAny(m proto.Message) ([]*anypb.Any, error) {
	a, err := anypb.New(m)
	return []*anypb.Any{a}, err
}

type vfNopWriteCloser struct{ io.Writer }

func (vfNopWriteCloser) Close() error { return nil }

// sequence numbers for unique test names
var (
	vfRecSeq int
	vfRecMu  sync.Mutex
)
