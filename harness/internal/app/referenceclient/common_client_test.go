//go:build verif

package referenceclient

import (
	"context"
	"fmt"
	"io"
	"sync"
	"time"

	"connectrpc.com/conformance/internal"
	conformancev1 "connectrpc.com/conformance/internal/gen/proto/go/connectrpc/conformance/v1"
	"google.golang.org/protobuf/proto"
	"google.golang.org/protobuf/types/known/anypb"
)

// vfRunClient drives the exported reference client with one request and
// returns its response.
func vfRunClient(req *conformancev1.ClientCompatRequest) (*conformancev1.ClientCompatResponse, error) {
	ctx, cancel := context.WithTimeout(context.Background(), 30*time.Second)
	defer cancel()
	inR, inW := io.Pipe()
	outR, outW := io.Pipe()
	done := make(chan error, 1)
	go func() {
		err := RunInReferenceMode(ctx, []string{"reference-client", "-p", "1"}, inR, outW, io.WriteCloser(vfNopWriteCloser{io.Discard}), nil)
		_ = outW.Close()
		done <- err
	}()
	go func() {
		_ = internal.WriteDelimitedMessage(inW, req)
		_ = inW.Close()
	}()
	resp := &conformancev1.ClientCompatResponse{}
	if err := internal.ReadDelimitedMessage(outR, resp, "reference client", 30*time.Second, 16<<20); err != nil {
		return nil, err
	}
	go func() { _, _ = io.Copy(io.Discard, outR) }()
	select {
	case err := <-done:
		return resp, err
	case <-time.After(30 * time.Second):
		return resp, fmt.Errorf("reference client did not exit after EOF on stdin")
	}
}

func vfAny(m proto.Message) ([]*anypb.Any, error) {
	a, err := anypb.New(m)
	return []*anypb.Any{a}, err
}

type vfNopWriteCloser struct{ io.Writer }

func (vfNopWriteCloser) Close() error { return nil }

// sequence numbers for unique test names
var (
	vfRecSeq int
	vfRecMu  sync.Mutex
)
