//go:build verif

package referenceclient

import (
	"encoding/binary"
	"fmt"
	"io"
	"net"
	"net/http"
	"strconv"
	"strings"
	"sync"
	"testing"
	"time"

	conformancev1 "connectrpc.com/conformance/internal/gen/proto/go/connectrpc/conformance/v1"
	"connectrpc.com/conformance/internal/verifkit"
	"golang.org/x/net/http2"
	"golang.org/x/net/http2/h2c"
	"google.golang.org/protobuf/proto"
)

// ---- C20 (reference client part): the encoding name the reference client puts on the wire denotes the algorithm it
// used - a plain HTTP server decodes the request with the third-party implementation of that name ----

type vfC20ClientSeen struct {
	encoding string
	body     []byte
	ct       string
}

var (
	vfC20SrvOnce sync.Once
	vfC20SrvAddr string
	vfC20SrvErr  error
	vfC20Mu      sync.Mutex
	vfC20Seen    = map[string]vfC20ClientSeen{}
)

func vfC20StartServer() error {
	vfC20SrvOnce.Do(func() {
		handler := h2c.NewHandler(http.HandlerFunc(func(w http.ResponseWriter, r *http.Request) {
			body, _ := io.ReadAll(r.Body)
			enc := r.Header.Get("Content-Encoding")
			ct := r.Header.Get("Content-Type")
			if strings.HasPrefix(ct, "application/connect+") {
				enc = r.Header.Get("Connect-Content-Encoding")
			} else if strings.HasPrefix(ct, "application/grpc") {
				enc = r.Header.Get("Grpc-Encoding")
			}
			vfC20Mu.Lock()
			vfC20Seen[r.Header.Get("X-Test-Case-Name")] = vfC20ClientSeen{encoding: enc, body: body, ct: ct}
			vfC20Mu.Unlock()
			w.WriteHeader(http.StatusNotFound)
		}), &http2.Server{})
		lis, err := vfListen()
		if err != nil {
			vfC20SrvErr = err
			return
		}
		vfC20SrvAddr = lis.Addr().String()
		srv := &http.Server{Handler: handler, ReadHeaderTimeout: 5 * time.Second}
		go func() { _ = srv.Serve(lis) }()
	})
	return vfC20SrvErr
}

func TestVerifC20ClientWire(t *testing.T) {
	en := verifkit.NewEnum(t, "C20ClientWire")
	if err := vfC20StartServer(); err != nil {
		t.Fatalf("cannot start server: %v", err)
	}
	type row struct {
		Compression string `json:"compression"`
		Protocol    string `json:"protocol"`
		Stream      bool   `json:"stream"`
		H2          bool   `json:"h2"`
	}
	host, portStr, _ := net.SplitHostPort(vfC20SrvAddr)
	port, _ := strconv.Atoi(portStr)
	names := map[conformancev1.Compression]string{conformancev1.Compression_COMPRESSION_GZIP: "gzip", conformancev1.Compression_COMPRESSION_BR: "br",
		conformancev1.Compression_COMPRESSION_ZSTD: "zstd", conformancev1.Compression_COMPRESSION_DEFLATE: "deflate", conformancev1.Compression_COMPRESSION_SNAPPY: "snappy"}
	seq := 0
	for comp := conformancev1.Compression_COMPRESSION_GZIP; comp <= conformancev1.Compression_COMPRESSION_SNAPPY; comp++ {
		for _, protocol := range []conformancev1.Protocol{conformancev1.Protocol_PROTOCOL_CONNECT, conformancev1.Protocol_PROTOCOL_GRPC, conformancev1.Protocol_PROTOCOL_GRPC_WEB} {
			for _, stream := range []bool{false, true} {
				seq++
				h2 := protocol == conformancev1.Protocol_PROTOCOL_GRPC || seq%2 == 0
				r := row{Compression: comp.String(), Protocol: protocol.String(), Stream: stream, H2: h2}
				name := fmt.Sprintf("verif/c20client/%d", seq)
				payload := []byte(strings.Repeat("compressible payload ", 40) + fmt.Sprint(seq))
				version := conformancev1.HTTPVersion_HTTP_VERSION_1
				if h2 {
					version = conformancev1.HTTPVersion_HTTP_VERSION_2
				}
				req := &conformancev1.ClientCompatRequest{TestName: name, HttpVersion: version, Protocol: protocol, Codec: conformancev1.Codec_CODEC_PROTO,
					Compression: comp, Host: host, Port: uint32(port), Service: proto.String("connectrpc.conformance.v1.ConformanceService"),
					RequestHeaders: []*conformancev1.Header{{Name: "X-Test-Case-Name", Value: []string{name}}}}
				var want proto.Message
				if stream {
					m := &conformancev1.ClientStreamRequest{RequestData: payload}
					want = m
					req.Method, req.StreamType = proto.String("ClientStream"), conformancev1.StreamType_STREAM_TYPE_CLIENT_STREAM
					req.RequestMessages, _ = vfAny(m)
				} else {
					m := &conformancev1.UnaryRequest{RequestData: payload}
					want = m
					req.Method, req.StreamType = proto.String("Unary"), conformancev1.StreamType_STREAM_TYPE_UNARY
					req.RequestMessages, _ = vfAny(m)
				}
				_, _ = vfRunClient(req) // (the server answers 404: the client's verdict is of no interest here)
				vfC20Mu.Lock()
				seen, ok := vfC20Seen[name]
				vfC20Mu.Unlock()
				var viol error
				switch {
				case !ok:
					viol = verifkit.Violf("client-wire-no-request", "the reference client sent no request for %+v", r)
				case seen.encoding != names[comp]:
					viol = verifkit.Violf("client-wire-name", "compression %v: the request announces encoding %q, want %q (%+v)", comp, seen.encoding, names[comp], r)
				default:
					data := seen.body
					enveloped := stream || protocol != conformancev1.Protocol_PROTOCOL_CONNECT
					if enveloped {
						if len(data) < 5 || int(binary.BigEndian.Uint32(data[1:5])) > len(data)-5 {
							viol = verifkit.Violf("client-wire-envelope", "request body of %d bytes is not an enveloped message (%+v)", len(data), r)
							break
						}
						if data[0]&1 == 0 {
							viol = verifkit.Violf("client-wire-uncompressed", "compression %v was asked for but the request message is not flagged as compressed (%+v)", comp, r)
							break
						}
						data = data[5 : 5+binary.BigEndian.Uint32(data[1:5])]
					}
					plain, err := verifkit.IndepDecode(names[comp], data)
					if err != nil {
						viol = verifkit.Violf("client-wire-algorithm", "the request is announced as %q but an independent %s decoder fails on it: %v (%+v)", seen.encoding, names[comp], err, r)
						break
					}
					got := want.ProtoReflect().New().Interface()
					if err := proto.Unmarshal(plain, got); err != nil || !proto.Equal(got, want) {
						viol = verifkit.Violf("client-wire-algorithm", "the request announced as %q decodes (independent %s decoder) to something other than the message sent (%+v)", seen.encoding, names[comp], r)
					}
				}
				en.Rec.Observe(r, []string{comp.String(), protocol.String(), fmt.Sprintf("stream:%v", stream)}, true)
				if viol != nil && en.Fail(r, viol) {
					en.Done(true)
					return
				}
			}
		}
	}
	en.Done(true)
}
