//go:build verif

package internal

import (
	"bytes"
	"testing"

	conformancev1 "connectrpc.com/conformance/internal/gen/proto/go/connectrpc/conformance/v1"
	"connectrpc.com/conformance/internal/verifkit"
	"google.golang.org/protobuf/proto"
	"pgregory.net/rapid"
)

// ---- C20 (raw-payload part): the raw-payload encoders compress with the algorithm the enum names, for any input ----

type vfC20RawCase struct {
	Compression int32  `json:"compression"`
	Kind        string `json:"kind"` // binary, text
	Payload     []byte `json:"payload"`
	// Stream: the payload is an item of a raw stream body ("computed": the envelope length is computed, "explicit": the
	// item states a length of its own) instead of a unary body
	Stream string `json:"stream,omitempty"`
}

var vfC20Names = map[conformancev1.Compression]string{
	conformancev1.Compression_COMPRESSION_UNSPECIFIED: "identity",
	conformancev1.Compression_COMPRESSION_IDENTITY:    "identity", conformancev1.Compression_COMPRESSION_GZIP: "gzip",
	conformancev1.Compression_COMPRESSION_BR: "br", conformancev1.Compression_COMPRESSION_ZSTD: "zstd",
	conformancev1.Compression_COMPRESSION_DEFLATE: "deflate", conformancev1.Compression_COMPRESSION_SNAPPY: "snappy",
}

func vfC20RawCheck(c vfC20RawCase) error {
	mc := &conformancev1.MessageContents{Compression: conformancev1.Compression(c.Compression)}
	if c.Kind == "text" {
		mc.Data = &conformancev1.MessageContents_Text{Text: string(c.Payload)}
	} else {
		mc.Data = &conformancev1.MessageContents_Binary{Binary: c.Payload}
	}
	var buf bytes.Buffer
	if c.Stream != "" {
		item := &conformancev1.StreamContents_StreamItem{Flags: 1, Payload: mc}
		if c.Stream == "explicit" {
			item.Length = proto.Uint32(uint32(len(c.Payload)) + 3) // (a stated length need not be the real one)
		}
		var sb bytes.Buffer
		if err := WriteRawStreamContents(&conformancev1.StreamContents{Items: []*conformancev1.StreamContents_StreamItem{item}}, &sb); err != nil {
			return verifkit.Violf("raw-payload-error", "WriteRawStreamContents(%v, %d bytes, %s length): %v", mc.Compression, len(c.Payload), c.Stream, err)
		}
		if sb.Len() < 5 {
			return verifkit.Violf("raw-payload-error", "stream item of %d bytes written as %d bytes", len(c.Payload), sb.Len())
		}
		buf.Write(sb.Bytes()[5:]) // what follows the envelope prefix is the item's payload in the stated compression
	} else if err := WriteRawMessageContents(mc, &buf); err != nil {
		return verifkit.Violf("raw-payload-error", "WriteRawMessageContents(%v, %d bytes): %v", mc.Compression, len(c.Payload), err)
	}
	name := vfC20Names[mc.Compression]
	got, err := verifkit.IndepDecode(name, buf.Bytes())
	if err != nil {
		return verifkit.Violf("raw-payload-undecodable", "%d-byte payload written with %v is not a valid %s stream (%d bytes on the wire): %v", len(c.Payload), mc.Compression, name, buf.Len(), err)
	}
	if !bytes.Equal(got, c.Payload) {
		return verifkit.Violf("raw-payload-changed", "%d-byte payload written with %v decodes (%s) to %d different bytes", len(c.Payload), mc.Compression, name, len(got))
	}
	return nil
}

func TestVerifC20RawPayload(t *testing.T) {
	verifkit.Run(t, "C20RawPayload", verifkit.Spec[vfC20RawCase]{
		Gen: func(t *rapid.T) vfC20RawCase {
			c := vfC20RawCase{Compression: int32(rapid.IntRange(0, 6).Draw(t, "compression")), Kind: rapid.SampledFrom([]string{"binary", "text"}).Draw(t, "kind"),
				Stream: rapid.SampledFrom([]string{"", "", "computed", "explicit"}).Draw(t, "stream")}
			switch rapid.IntRange(0, 3).Draw(t, "size") {
			case 0:
				c.Payload = []byte{}
			case 1:
				c.Payload = []byte(rapid.StringMatching("[ -~]{1,40}").Draw(t, "small"))
			default:
				c.Payload = bytes.Repeat([]byte(rapid.StringMatching("[a-z]{1,12}").Draw(t, "unit")), rapid.IntRange(1, 3000).Draw(t, "times"))
			}
			return c
		},
		Check: vfC20RawCheck,
		Classify: func(c vfC20RawCase) ([]string, bool) {
			cl := []string{vfC20Names[conformancev1.Compression(c.Compression)], c.Kind}
			if len(c.Payload) == 0 {
				cl = append(cl, "empty")
			}
			if c.Stream != "" {
				cl = append(cl, "stream-item-"+c.Stream+"-length")
			}
			return cl, c.Compression > 1
		},
	})
}
