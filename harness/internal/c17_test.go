//go:build verif

package internal

import (
	"bytes"
	"encoding/binary"
	"errors"
	"fmt"
	"strings"
	"testing"

	conformancev1 "connectrpc.com/conformance/internal/gen/proto/go/connectrpc/conformance/v1"
	"connectrpc.com/conformance/internal/verifkit"
	"google.golang.org/protobuf/proto"
	"google.golang.org/protobuf/types/known/anypb"
	"pgregory.net/rapid"
)

// ---- C17a: the raw body encoders are invertible ----

type vfRawItem struct {
	Flags       uint32 `json:"flags"`
	HasLength   bool   `json:"hasLength"`
	Length      uint32 `json:"length"`
	NoPayload   bool   `json:"noPayload"` // item.payload is absent
	Kind        string `json:"kind"`      // binary, text, any, none (payload present but no data)
	Data        []byte `json:"data"`
	Compression int32  `json:"compression"` // 0..6
}

type vfC17EncCase struct {
	Items []vfRawItem `json:"items"`
	// FailedBefore > 0: before anything else another stream body is written into a sink that accepts only that many
	// bytes and then fails (a request pipe closed by the peer, a reset stream): what that write leaves behind must
	// not show up in the bodies written afterwards
	FailedBefore int `json:"failedBefore,omitempty"`
}

// vfFailingSink accepts a number of bytes, then fails (partial writes included).
type vfFailingSink struct{ left int }

func (f *vfFailingSink) Write(p []byte) (int, error) {
	if len(p) <= f.left {
		f.left -= len(p)
		return len(p), nil
	}
	n := f.left
	f.left = 0
	return n, errors.New("verif: write: broken pipe")
}

var vfCompNames = map[int32]string{0: "identity", 1: "identity", 2: "gzip", 3: "br", 4: "zstd", 5: "deflate", 6: "snappy"}

func (it vfRawItem) contents() *conformancev1.MessageContents {
	if it.NoPayload {
		return nil
	}
	mc := &conformancev1.MessageContents{Compression: conformancev1.Compression(it.Compression)}
	switch it.Kind {
	case "binary":
		mc.Data = &conformancev1.MessageContents_Binary{Binary: it.Data}
	case "text":
		mc.Data = &conformancev1.MessageContents_Text{Text: string(it.Data)}
	case "any":
		mc.Data = &conformancev1.MessageContents_BinaryMessage{BinaryMessage: &anypb.Any{TypeUrl: "type.googleapis.com/connectrpc.conformance.v1.Header", Value: it.Data}}
	}
	return mc
}

// payload bytes the item denotes
func (it vfRawItem) payload() []byte {
	if it.NoPayload || it.Kind == "none" {
		return nil
	}
	return it.Data
}

func (it vfRawItem) streamItem() *conformancev1.StreamContents_StreamItem {
	si := &conformancev1.StreamContents_StreamItem{Flags: it.Flags, Payload: it.contents()}
	if it.HasLength {
		si.Length = proto.Uint32(it.Length)
	}
	return si
}

func vfC17EncCheck(c vfC17EncCase) error {
	if c.FailedBefore > 0 {
		left := &conformancev1.StreamContents{Items: []*conformancev1.StreamContents_StreamItem{
			{Payload: &conformancev1.MessageContents{Data: &conformancev1.MessageContents_Text{Text: "LEFTOVER-OF-A-FAILED-WRITE-LEFTOVER-OF-A-FAILED-WRITE"}}},
			{Flags: 1, Payload: &conformancev1.MessageContents{Data: &conformancev1.MessageContents_Text{Text: "SECOND-LEFTOVER"}, Compression: conformancev1.Compression_COMPRESSION_GZIP}},
		}}
		_ = WriteRawStreamContents(left, &vfFailingSink{left: c.FailedBefore - 1})
	}
	// (1) each item alone: prefix + body, body decodes (independent decoder) to the payload
	var concat bytes.Buffer
	firstBad := -1
	for i, it := range c.Items {
		if it.Flags > 255 {
			firstBad = i
			break
		}
		// message encoder alone
		var mbuf bytes.Buffer
		if err := WriteRawMessageContents(it.contents(), &mbuf); err != nil {
			return verifkit.Violf("raw-message-error", "item %d: WriteRawMessageContents failed: %v", i, err)
		}
		var wantBody []byte
		if !it.NoPayload && it.Kind != "none" {
			dec, err := verifkit.IndepDecode(vfCompNames[it.Compression], mbuf.Bytes())
			if err != nil {
				return verifkit.Violf("raw-message-undecodable", "item %d (%s): output is not decodable by the %s library: %v", i, it.Kind, vfCompNames[it.Compression], err)
			}
			if !bytes.Equal(dec, it.payload()) {
				return verifkit.Violf("raw-message-mismatch", "item %d: decoded payload %q, want %q", i, dec, it.payload())
			}
			wantBody = mbuf.Bytes()
		} else if mbuf.Len() != 0 {
			return verifkit.Violf("raw-message-mismatch", "item %d without data wrote %d bytes", i, mbuf.Len())
		}
		// the item as a one-element stream
		var sbuf bytes.Buffer
		if err := WriteRawStreamContents(&conformancev1.StreamContents{Items: []*conformancev1.StreamContents_StreamItem{it.streamItem()}}, &sbuf); err != nil {
			return verifkit.Violf("raw-stream-error", "item %d (flags %d, payload present %v): WriteRawStreamContents failed: %v", i, it.Flags, !it.NoPayload, err)
		}
		out := sbuf.Bytes()
		if len(out) < 5 {
			return verifkit.Violf("raw-stream-short", "item %d: only %d bytes written", i, len(out))
		}
		if uint32(out[0]) != it.Flags {
			return verifkit.Violf("raw-stream-flags", "item %d: flags byte %d, want %d", i, out[0], it.Flags)
		}
		declared := binary.BigEndian.Uint32(out[1:5])
		if it.HasLength {
			if declared != it.Length {
				return verifkit.Violf("raw-stream-length", "item %d: declared length %d, want the explicit %d", i, declared, it.Length)
			}
		} else if int(declared) != len(out)-5 {
			return verifkit.Violf("raw-stream-length", "item %d: computed length %d but %d payload bytes follow", i, declared, len(out)-5)
		}
		if !bytes.Equal(out[5:], wantBody) {
			return verifkit.Violf("raw-stream-payload", "item %d: stream payload differs from the message encoding of the same contents", i)
		}
		concat.Write(out)
	}
	// (2) the whole stream is the concatenation of its items, up to the first invalid item
	var all bytes.Buffer
	stream := &conformancev1.StreamContents{}
	for _, it := range c.Items {
		stream.Items = append(stream.Items, it.streamItem())
	}
	err := WriteRawStreamContents(stream, &all)
	if firstBad >= 0 {
		if err == nil {
			return verifkit.Violf("raw-flags-accepted", "item %d has flags %d (> 255) but the stream was accepted", firstBad, c.Items[firstBad].Flags)
		}
		if !strings.Contains(err.Error(), fmt.Sprintf("#%d", firstBad+1)) {
			return verifkit.Violf("raw-flags-unnamed", "error does not name message #%d: %v", firstBad+1, err)
		}
	} else if err != nil {
		return verifkit.Violf("raw-stream-error", "WriteRawStreamContents failed: %v", err)
	}
	if !bytes.Equal(all.Bytes(), concat.Bytes()) {
		return verifkit.Violf("raw-stream-concat", "stream output (%d bytes) is not the concatenation of its items (%d bytes)", all.Len(), concat.Len())
	}
	return nil
}

func vfGenRawItem(t *rapid.T) vfRawItem {
	it := vfRawItem{}
	switch rapid.IntRange(0, 9).Draw(t, "flagkind") {
	case 0:
		it.Flags = uint32(rapid.IntRange(256, 100000).Draw(t, "bigflags"))
	case 1, 2:
		it.Flags = uint32(rapid.SampledFrom([]int{0, 1, 2, 3, 0x80, 0x81, 255}).Draw(t, "flags"))
	default:
		it.Flags = uint32(rapid.IntRange(0, 255).Draw(t, "anyflags"))
	}
	it.Kind = rapid.SampledFrom([]string{"binary", "binary", "text", "any", "none"}).Draw(t, "kind")
	it.NoPayload = rapid.IntRange(0, 7).Draw(t, "noPayload") == 0
	switch rapid.IntRange(0, 4).Draw(t, "size") {
	case 0:
	case 1:
		it.Data = bytes.Repeat([]byte("conformance"), rapid.IntRange(100, 7000).Draw(t, "rep"))
	default:
		if it.Kind == "text" {
			it.Data = []byte(rapid.StringN(0, 40, -1).Draw(t, "text"))
		} else {
			it.Data = rapid.SliceOfN(rapid.Byte(), 0, 60).Draw(t, "data")
		}
	}
	it.Compression = int32(rapid.IntRange(0, 6).Draw(t, "compression"))
	if rapid.Bool().Draw(t, "hasLength") {
		it.HasLength = true
		switch rapid.IntRange(0, 3).Draw(t, "lenkind") {
		case 0:
			it.Length = uint32(len(it.Data))
		case 1:
			it.Length = 0
		case 2:
			it.Length = uint32(len(it.Data)) + uint32(rapid.IntRange(1, 1000).Draw(t, "over"))
		default:
			it.Length = rapid.Uint32().Draw(t, "anylen")
		}
	}
	return it
}

func TestVerifC17Encoders(t *testing.T) {
	verifkit.Run(t, "C17Encoders", verifkit.Spec[vfC17EncCase]{
		Gen: func(t *rapid.T) vfC17EncCase {
			var c vfC17EncCase
			for i, n := 0, rapid.IntRange(0, 5).Draw(t, "nitems"); i < n; i++ {
				c.Items = append(c.Items, vfGenRawItem(t))
			}
			if rapid.IntRange(0, 3).Draw(t, "failedBefore") == 0 {
				c.FailedBefore = rapid.IntRange(1, 90).Draw(t, "failAfterBytes")
			}
			return c
		},
		Check: vfC17EncCheck,
		Classify: func(c vfC17EncCase) ([]string, bool) {
			var cl []string
			nt := false
			for _, it := range c.Items {
				if it.HasLength && int(it.Length) != len(it.Data) {
					cl = append(cl, "length-differs")
					nt = nt || len(c.Items) >= 2
				}
				if it.Compression >= 2 {
					nt = nt || len(c.Items) >= 2
				}
				if it.NoPayload {
					cl = append(cl, "no-payload")
				}
				if it.Flags > 255 {
					cl = append(cl, "flags>255")
				}
			}
			return cl, nt
		},
	})
}
