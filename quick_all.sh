#!/bin/sh
# Runs the quick tier of every property in turn (or the ids given), one summary line each.
cd /verif
export GOFLAGS=-mod=mod GOPROXY=off GOSUMDB=off GOTOOLCHAIN=local
IDS="$@"
[ -n "$IDS" ] || IDS="C01 C02 C03 C04 C05 C06 C07 C08 C09 C10 C11 C12 C13 C14 C15 C16 C17 C18 C19 C20"
mkdir -p work
for id in $IDS; do
  s=$(date +%s)
  ./check $id > work/quick_$id.log 2>&1
  rc=$?
  e=$(date +%s)
  echo "$id exit=$rc wall=$((e-s))s $(grep -E '^(VIOLATION|INCONCLUSIVE|KNOWN)' work/quick_$id.log | head -3 | cut -c1-160 | tr '\n' ' ')"
done
