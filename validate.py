#!/usr/bin/env python3
"""Validates MANIFEST.json and evidence/*.json against the schemas (needs jsonschema: run with python3-vt)."""
import glob, json, sys
import jsonschema
ok = True
def v(path, schema):
    global ok
    try:
        jsonschema.validate(json.load(open(path)), json.load(open(schema)))
        print("valid  ", path)
    except Exception as e:
        ok = False
        print("INVALID", path, str(e)[:400])
v('/verif/MANIFEST.json', '/root/.vp/MANIFEST.schema.json')
for p in sorted(glob.glob('/verif/evidence/*.json')):
    v(p, '/root/.vp/EVIDENCE.schema.json')
# cross-checks: evidence level == claimed category, every claimed property has evidence, ids match the property list
man = json.load(open('/verif/MANIFEST.json'))
ids = [json.loads(l)['id'] for l in open('/verif/properties.jsonl') if l.strip()]
claimed = {c['property_id']: c for c in man['checks']}
na = {n['property_id'] for n in man.get('not_applicable', [])}
for i in ids:
    if i not in claimed and i not in na:
        ok = False
        print("INVALID property", i, "is neither claimed nor listed as not applicable")
for pid, c in claimed.items():
    if pid not in ids:
        ok = False
        print("INVALID manifest claims unknown property", pid)
    try:
        ev = json.load(open(c['evidence_file']))
    except OSError:
        ok = False
        print("INVALID no evidence file for", pid)
        continue
    if ev.get('level') != c['level_claimed']['category'] or ev.get('property_id') != pid:
        ok = False
        print("INVALID", pid, "evidence level/property", ev.get('level'), ev.get('property_id'), "vs claimed", c['level_claimed']['category'])
sys.exit(0 if ok else 1)
