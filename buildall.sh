#!/bin/sh
# Builds the harness binaries of every property (both tiers) to catch compile errors early.
cd "$(dirname "$0")"
export GOFLAGS=-mod=mod GOPROXY=off GOSUMDB=off GOTOOLCHAIN=local
rc=0
for id in $(python3 -c "import props; print(' '.join(sorted(props.PROPS)))"); do
  for tier in quick thorough; do
    out=$(./check $id --tier $tier --build-only 2>&1) || { echo "$out" | tail -15; rc=1; }
  done
done
[ $rc -eq 0 ] && echo "all harness binaries build"
exit $rc
